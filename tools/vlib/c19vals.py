"""C19 part (b): families of near-identical values of every value type, their
encoding as terms of Model/ValueObjs.v and the observations made on the real
objects (==, hash, dask token, pickle / copy round trips)."""
from __future__ import annotations

import copy
import json
import pickle
from fractions import Fraction

from vlib.core import cbool, cq, cz
from vlib.c19crs import coq_oz

XY_CLS = {"XY": 0, "Resolution": 1, "Index2d": 2, "Shape2d": 3}


def type_tree(g):
    """independent structural description of a shapely geometry: type, has_z, coordinates, recursively"""
    import shapely
    if hasattr(g, "geoms"):
        return (g.geom_type, bool(g.has_z), tuple(type_tree(x) for x in g.geoms))
    rings = [shapely.get_coordinates(r, include_z=g.has_z).tolist() for r in getattr(g, "interiors", [])]
    return (g.geom_type, bool(g.has_z), shapely.get_coordinates(g, include_z=g.has_z).tolist(), rings)


def geometry_zoo():
    """name -> shapely geometry: collections (homogeneous, mixed, nested, single member, empty, with a ring),
    rings, 3D geometries, empties of each kind"""
    from shapely.geometry import (GeometryCollection, LinearRing, LineString, MultiLineString, MultiPoint, MultiPolygon,
                                  Point, Polygon)
    ring = LinearRing([(0, 0), (1, 0), (1, 1), (0, 0)])
    poly = Polygon([(0, 0), (10, 0), (10, 10), (0, 10)], [[(2, 2), (4, 2), (4, 4), (2, 2)]])
    return {
        "ring": ring, "ring-as-line": LineString([(0, 0), (1, 0), (1, 1), (0, 0)]), "exterior": poly.exterior, "interior": poly.interiors[0],
        "gc-homogeneous": GeometryCollection([Point(1, 2), Point(3, 4)]),
        "gc-mixed": GeometryCollection([Point(1, 2), LineString([(0, 0), (1, 1)]), poly]),
        "gc-nested": GeometryCollection([GeometryCollection([Point(1, 2)]), LineString([(0, 0), (1, 1)])]),
        "gc-single": GeometryCollection([Point(1, 2)]), "gc-empty": GeometryCollection(),
        "gc-with-ring": GeometryCollection([ring, Point(1, 2)]),
        "gc-nested-ring": GeometryCollection([GeometryCollection([ring]), Point(1, 2)]),
        "point-3d": Point(1, 2, 3), "point-3d-other-z": Point(1, 2, 4), "point-2d": Point(1, 2),
        "line-3d": LineString([(0, 0, 1), (1, 1, 2)]), "polygon-3d": Polygon([(0, 0, 1), (1, 0, 2), (1, 1, 3), (0, 0, 1)]),
        "ring-3d": LinearRing([(0, 0, 1), (1, 0, 2), (1, 1, 3), (0, 0, 1)]), "multipoint-3d": MultiPoint([(0, 0, 1), (1, 1, 2)]),
        "gc-3d": GeometryCollection([Point(1, 2, 3), LineString([(0, 0, 1), (1, 1, 2)])]),
        "empty-point": Point(), "empty-line": LineString(), "empty-polygon": Polygon(), "empty-multipoint": MultiPoint(),
        "empty-multiline": MultiLineString(), "empty-multipolygon": MultiPolygon(), "empty-ring": LinearRing(),
        "polygon-with-hole": poly, "multipolygon": MultiPolygon([poly, Polygon([(20, 20), (21, 20), (21, 21)])]),
    }


def shapely_faithful(sg, route):
    """does shapely itself carry this geometry through the route unchanged?  (the oracle contract the theorems assume:
    geom_laws); route: 'pickle' (what Geometry pickling / deepcopy rely on) or 'shape' (what clone() / Geometry(g) rely on)"""
    from shapely.geometry import shape
    try:
        back = pickle.loads(pickle.dumps(sg)) if route == "pickle" else shape(sg)
    except Exception:  # noqa: BLE001
        return False
    return type_tree(back) == type_tree(sg)


class Enc:
    """Encoder of real objects into Coq terms; keeps the oracle tables of the value cases."""

    def __init__(self, world):
        self.w = world
        self.reload: dict[int, str] = {}
        self.geoms: dict[bytes, int] = {}
        self.geom_objs: list = []
        self.jsons: dict[str, int] = {}
        self.gload: dict[int, int] = {}
        self.gjson: dict[int, int] = {}
        self.dtypes: dict[str, int] = {}
        self.vals: list[str] = []
        self.keep: list = []
        self.index: dict[int, int] = {}

    # -- numbers ---------------------------------------------------------
    def num(self, x) -> str:
        if isinstance(x, bool):
            raise TypeError("bool")
        if isinstance(x, int):
            return f"(NI {cz(x)})"
        return f"(NF {cq(Fraction(float(x)))})"

    def q(self, x) -> str:
        return cq(Fraction(float(x)))

    # -- CRS -------------------------------------------------------------
    def crs(self, c) -> str:
        from odc.geo.crs import CRS
        w = self.w
        t = w.known(c._str)
        if t not in self.reload:
            r = CRS(c._str)
            self.reload[t] = self._crs(r)
        return self._crs(c)

    def _crs(self, c) -> str:
        w = self.w
        return f"(mkCrs {cz(w.oid(id(c._crs)))} {cz(w.known(c._crs.srs))} {cz(w.known(c._str))} {coq_oz(c._epsg)})"

    def ocrs(self, c) -> str:
        return "None" if c is None else f"(Some {self.crs(c)})"

    # -- shapely ---------------------------------------------------------
    def geom_id(self, g) -> int:
        k = (repr(type_tree(g)), g.wkb)      # WKB alone cannot tell a LinearRing from a LineString
        i = self.geoms.get(k)
        if i is None:
            i = len(self.geom_objs)
            self.geoms[k] = i
            self.geom_objs.append(g)
        return i

    def geometry(self, g) -> str:
        """[gjson] of the model = the serialised state of the geometry (Geometry.__getstate__ hands the shapely object
        to pickle), [gload] = what unpickling gives"""
        i = self.geom_id(g.geom)
        if i not in self.gjson:
            js = pickle.dumps(g.geom, protocol=4)
            j = self.jsons.setdefault(js, len(self.jsons))
            self.gjson[i] = j
            if j not in self.gload:
                back = pickle.loads(js)
                h = self.gload[j] = self.geom_id(back)
                if h not in self.gjson:
                    self.gjson[h] = self.jsons.setdefault(pickle.dumps(back, protocol=4), len(self.jsons))
                    self.gload.setdefault(self.gjson[h], h)
        return f"(mkGeom Z {cz(i)} {self.ocrs(g.crs)})"

    def geom_classes(self) -> dict[int, int]:
        cls: dict[int, int] = {}
        for i, g in enumerate(self.geom_objs):
            for j in range(i):
                if self.geom_objs[j] == g:
                    cls[i] = cls[j]
                    break
            else:
                cls[i] = i
        return cls

    def geom_contract_failures(self) -> list[str]:
        bad = []
        cls = self.geom_classes()
        n = len(self.geom_objs)
        for i in range(n):
            for j in range(n):
                if (self.geom_objs[i] == self.geom_objs[j]) != (cls[i] == cls[j]):
                    bad.append(f"shapely == is not an equivalence on geometries {i},{j}")
        for i, j in self.gjson.items():
            h = self.gload.get(j)
            if h is None or cls[h] != cls[i]:
                bad.append(f"GeoJSON round trip of geometry {i} is not == to it")
            elif self.gjson.get(h) != j:
                bad.append(f"GeoJSON of the re-loaded geometry {i} differs")
        return bad

    # -- the other types -------------------------------------------------
    def aff(self, A) -> str:
        return "(" + ", ".join(self.q(v) for v in tuple(A)[:6]) + ")"

    def shape(self, s) -> str:
        ny, nx = s.shape if hasattr(s, "shape") else s
        return f"({cz(ny)}, {cz(nx)})"

    def bbox(self, b) -> str:
        return f"(mkBBox [{'; '.join(self.num(v) for v in b._box)}] {self.ocrs(b._crs)})"

    def geobox(self, g) -> str:
        return f"(mkGeoBox {self.shape(g._shape)} {self.aff(g._affine)} {self.ocrs(g._crs)})"

    def arr(self, a) -> str:
        d = self.dtypes.setdefault(str(a.dtype), len(self.dtypes))
        return f"{cz(d)} [{'; '.join(self.q(v) for v in a.ravel().tolist())}]"

    def gcpmap(self, m) -> str:
        return f"(mkGcpMap {self.ocrs(m._crs)} {self.arr(m._pix)} {self.arr(m._wld)})"

    def gcpbox(self, g) -> str:
        return f"(mkGcpBox {self.shape(g._shape)} {self.aff(g._affine)} {self.gcpmap(g._mapping)})"

    def tiles(self, t) -> str:
        return f"(mkTiles {self.shape(t._base_shape)} {self.shape(t._tile_shape)})"

    def vtiles(self, t) -> str:
        oy, ox = (o.tolist() for o in t._offsets)
        return f"(mkVTiles [{'; '.join(cz(v) for v in oy)}] [{'; '.join(cz(v) for v in ox)}])"

    def gbtiles(self, t) -> str:
        from odc.geo.geobox import GeoBox
        from odc.geo.roi import Tiles
        b = f"(BGeo {self.geobox(t._gbox)})" if isinstance(t._gbox, GeoBox) else f"(BGcp {self.gcpbox(t._gbox)})"
        r = f"(TReg {self.tiles(t._tiles)})" if isinstance(t._tiles, Tiles) else f"(TVar {self.vtiles(t._tiles)})"
        return f"(mkGbTiles {b} {r})"

    def xy(self, p) -> str:
        return f"(mkXY {cz(XY_CLS[type(p).__name__])} {self.num(p._xy[0])} {self.num(p._xy[1])})"

    def gridspec(self, g) -> str:
        rx, ry = g.resolution.xy
        ox, oy = g.origin.xy
        return (f"(mkGridSpec {self.crs(g.crs)} {self.shape(g._shape)} ({self.q(rx)}, {self.q(ry)}) "
                f"({self.num(ox)}, {self.num(oy)}) {cbool(g._xbin.direction == -1)} {cbool(g._ybin.direction == -1)})")

    def value(self, v) -> str:
        from odc.geo.crs import CRS
        from odc.geo.gcp import GCPGeoBox
        from odc.geo.geobox import GeoBox, GeoboxTiles
        from odc.geo.geom import BoundingBox, Geometry
        from odc.geo.gridspec import GridSpec
        from odc.geo.roi import Tiles, VariableSizedTiles
        from odc.geo.types import XY
        for cls, tag, f in ((CRS, "VCrs", self.crs), (BoundingBox, "VBBox", self.bbox), (Geometry, "VGeom", self.geometry),
                            (GeoBox, "VGeoBox", self.geobox), (GCPGeoBox, "VGcp", self.gcpbox), (Tiles, "VTiles", self.tiles),
                            (VariableSizedTiles, "VVTiles", self.vtiles), (GeoboxTiles, "VGbTiles", self.gbtiles),
                            (XY, "VXY", self.xy), (GridSpec, "VGridSpec", self.gridspec)):
            if isinstance(v, cls):
                return f"({tag} {f(v)})"
        raise TypeError(type(v))

    def ref(self, v) -> int:
        """index of the encoded value in the table handed to the checker"""
        i = self.index.get(id(v))
        if i is None:
            i = len(self.vals)
            self.index[id(v)] = i
            self.keep.append(v)
            self.vals.append(self.value(v))
        return i

    def coq_vals(self) -> str:
        return "[" + ";\n ".join(self.vals) + "]"

    def coq_vtab(self) -> str:
        def tab(d):
            return "[" + "; ".join(f"({cz(k)}, {cz(v)})" for k, v in sorted(d.items())) + "]"
        rl = "[" + "; ".join(f"({cz(k)}, {v})" for k, v in sorted(self.reload.items())) + "]"
        return f"(mkVTab {rl} {tab(self.geom_classes())} {tab(self.gjson)} {tab(self.gload)})"


# ---------------------------------------------------------------------------
# families
# ---------------------------------------------------------------------------
def crs_variants(world, thorough=False):
    """(description, CRS instance) in several spellings of a few systems; the
    description is what distinguishes it (system, spelling)."""
    from odc.geo.crs import CRS
    P = world.P
    T = world.texts
    out = []
    for n in world.codes:
        B = world.by_code[n]
        out += [((n, "EPSG"), CRS(T[B["upper"]])), ((n, "epsg"), CRS(T[B["lower"]])), ((n, "int"), CRS(n)),
                ((n, "wkt"), CRS(T[B["wkt"]])), ((n, "json"), CRS(world.dicts[B["json"]])),
                ((n, "pyproj"), CRS(P.from_epsg(n))), ((n, "pyproj-wkt"), CRS(P.from_user_input(T[B["wkt"]])))]
        c = CRS(CRS(T[B["wkt"]]))
        c.to_epsg()
        out.append(((n, "wkt+to_epsg"), c))
        out.append(((n, "wkt-pickled"), pickle.loads(pickle.dumps(CRS(T[B["wkt"]])))))
    for k, t in enumerate(world.lossy):
        c = CRS(T[t])
        out.append((("lossy", k), c))
        c2 = CRS(c)
        c2.to_epsg()
        out.append((("lossy+to_epsg", k), c2))
    return out


def families(world, tier):
    """name -> list of (description dict, value).  Near-identical values: one field changed at a time."""
    import numpy as np
    from affine import Affine
    from odc.geo.gcp import GCPGeoBox, GCPMapping
    from odc.geo.geobox import GeoBox, GeoboxTiles
    from odc.geo.geom import BoundingBox, Geometry, box, line, point, polygon
    from odc.geo.gridspec import GridSpec
    from odc.geo.roi import Tiles, VariableSizedTiles
    from odc.geo.types import XY, Index2d, Resolution, Shape2d, xy_

    cv = crs_variants(world, tier == "thorough")
    crs_small = [(d, c) for d, c in cv if d[0] == 4326 and d[1] in ("EPSG", "epsg", "wkt", "wkt+to_epsg", "pyproj")] + \
                [(d, c) for d, c in cv if d == (3857, "EPSG")] + [(d, c) for d, c in cv if d[0] == "lossy+to_epsg"][:1]
    if tier == "thorough":
        crs_small = cv
    c0 = crs_small[0][1]
    fam: dict[str, list] = {}
    fam["CRS"] = [({"crs": d}, c) for d, c in cv]

    bb = [({}, BoundingBox(0, 0, 10, 20, c0)), ({"num": "float"}, BoundingBox(0.0, 0.0, 10.0, 20.0, c0)),
          ({"crs": None}, BoundingBox(0, 0, 10, 20, None)), ({"crs": None, "num": "float"}, BoundingBox(0.0, 0, 10, 20.0))]
    for k in range(4):
        v = [0, 0, 10, 20]
        v[k] += 1
        bb.append(({"box": k}, BoundingBox(*v, crs=c0)))
        v[k] -= 0.5
        bb.append(({"box": (k, "half")}, BoundingBox(*v, crs=c0)))
    bb += [({"crs": d}, BoundingBox(0, 0, 10, 20, c)) for d, c in crs_small[1:]]
    bb.append(({"box": "swapped"}, BoundingBox(0, 0, 20, 10, c0)))
    bb.append(({"box": "neg"}, BoundingBox(-1, -2, 10, 20, c0)))
    fam["BoundingBox"] = bb

    A0 = Affine(10.0, 0.0, 100.0, 0.0, -10.0, 200.0)
    gbs = [({}, GeoBox((10, 20), A0, c0)), ({"crs": None}, GeoBox((10, 20), A0, None)),
           ({"shape": 0}, GeoBox((11, 20), A0, c0)), ({"shape": 1}, GeoBox((10, 21), A0, c0)),
           ({"shape": "swap"}, GeoBox((20, 10), A0, c0))]
    for k in range(6):
        a = list(A0[:6])
        a[k] += 0.5
        gbs.append(({"aff": k}, GeoBox((10, 20), Affine(*a), c0)))
    gbs.append(({"aff": "int"}, GeoBox((10, 20), Affine(10, 0, 100, 0, -10, 200), c0)))
    gbs += [({"crs": d}, GeoBox((10, 20), A0, c)) for d, c in crs_small[1:]]
    fam["GeoBox"] = gbs

    pix = np.array([(0, 0), (10, 0), (0, 10), (10, 10), (5, 5), (3, 7)], dtype="float64")
    wld = np.array([(100, 50), (110, 50), (100, 40), (110, 40), (105, 45), (103, 43)], dtype="float64")
    m0 = GCPMapping(pix, wld, c0)
    pix2 = pix.copy()
    pix2[4, 1] = 5.5
    wld2 = wld.copy()
    wld2[0, 0] = 100.25
    I = Affine.identity()
    gcs = [({}, GCPGeoBox((10, 12), m0)), ({"map": "same-object", "shape": 0}, GCPGeoBox((11, 12), m0)),
           ({"map": "rebuilt"}, GCPGeoBox((10, 12), GCPMapping(pix.copy(), wld.copy(), c0))),
           ({"map": "pix"}, GCPGeoBox((10, 12), GCPMapping(pix2, wld, c0))),
           ({"map": "wld"}, GCPGeoBox((10, 12), GCPMapping(pix, wld2, c0))),
           ({"map": "swapped"}, GCPGeoBox((10, 12), GCPMapping(wld, pix, c0))),
           ({"map": "fewer"}, GCPGeoBox((10, 12), GCPMapping(pix[:5], wld[:5], c0))),
           ({"map": "float32"}, GCPGeoBox((10, 12), GCPMapping(pix.astype("float32"), wld.astype("float32"), c0))),
           ({"map": "int"}, GCPGeoBox((10, 12), GCPMapping(pix.astype("int64"), wld.astype("int64"), c0))),
           ({"crs": None}, GCPGeoBox((10, 12), GCPMapping(pix, wld, None))),
           ({"aff": 2}, GCPGeoBox((10, 12), m0, I * Affine.translation(1, 0))),
           ({"aff": 0}, GCPGeoBox((10, 12), m0, I * Affine.scale(2, 1))),
           ({"shape": 1}, GCPGeoBox((10, 13), m0))]
    gcs += [({"crs": d}, GCPGeoBox((10, 12), GCPMapping(pix, wld, c))) for d, c in crs_small[1:4]]
    fam["GCPGeoBox"] = gcs

    fam["Tiles"] = [({"base": b, "tile": t}, Tiles(b, t)) for b, t in
                    [((10, 10), (4, 4)), ((11, 10), (4, 4)), ((10, 11), (4, 4)), ((12, 10), (4, 4)), ((10, 10), (5, 4)),
                     ((10, 10), (4, 5)), ((10, 10), (10, 10)), ((4, 4), (10, 10)), ((9, 10), (4, 4)), ((10, 10), (3, 4)),
                     ((8, 8), (4, 4)), ((7, 8), (4, 4))]]
    fam["VariableSizedTiles"] = [({"chunks": ch}, VariableSizedTiles(ch)) for ch in
                                 [((4, 6), (5, 15)), ((4, 6), (5, 15, 0)), ((5, 5), (5, 15)), ((4, 6), (20,)), ((10,), (5, 15)),
                                  ((4, 6), (15, 5)), ((6, 4), (5, 15)), ((4, 6, 0), (5, 15)), ((4, 4, 2), (5, 15)), ((4, 6), (5, 14, 1))]]
    # more chunks than numpy prints in full: the two differ only in the abbreviated middle of the offsets array
    many = [1] * 1200
    many2 = list(many)
    many2[600], many2[601] = 2, 0
    fam["VariableSizedTiles"] += [({"chunks": "1200x1"}, VariableSizedTiles((tuple(many), (5,)))),
                                  ({"chunks": "1200x1, middle changed"}, VariableSizedTiles((tuple(many2), (5,))))]

    g_a, g_b, g_c = gbs[0][1], gbs[2][1], gbs[5][1]
    gts = []
    boxes = [({}, g_a), ({"shape": 0}, g_b), ({"box": "gcp"}, gcs[0][1]), ({"box": "gcp-pix"}, gcs[3][1]),
             ({"crs": crs_small[1][0]}, GeoBox((10, 20), A0, crs_small[1][1]))]
    if tier == "thorough":
        boxes += [({"aff": 0}, g_c), ({"box": "gcp-rebuilt"}, gcs[2][1])]
    for dg, g in boxes:
        for dt, how in (({}, (4, 5)), ({"tile": 1}, (4, 6)), ({"tile": 0}, (5, 5)), ({"chunks": "v"}, ((4, 6), (5, 15))),
                        ({"chunks": "v2"}, ((4, 6), (15, 5))), ({"chunks": "reg-as-var"}, ((4, 4, 2), (5, 5, 5, 5)))):
            gts.append(({**dg, **dt}, GeoboxTiles(g, how)))
    fam["GeoboxTiles"] = gts

    xs = [({"cls": "XY", "v": (1, 2)}, XY(1, 2)), ({"cls": "XY", "v": (1.0, 2.0)}, XY(1.0, 2.0)), ({"cls": "XY", "v": (2, 1)}, XY(2, 1)),
          ({"cls": "XY", "v": (1, 3)}, XY(1, 3)), ({"cls": "XY", "v": (1.5, 2)}, XY(1.5, 2)), ({"cls": "XY", "v": (0, 2)}, XY(0, 2)),
          ({"cls": "Resolution", "v": (1, 2)}, Resolution(1, 2)), ({"cls": "Resolution", "v": (1,)}, Resolution(1)),
          ({"cls": "Resolution", "v": (1, -1)}, Resolution(1, -1)), ({"cls": "Resolution", "v": (1.5, 2)}, Resolution(1.5, 2)),
          ({"cls": "Index2d", "v": (1, 2)}, Index2d(1, 2)), ({"cls": "Index2d", "v": (2, 1)}, Index2d(2, 1)),
          ({"cls": "Index2d", "v": (-1, 2)}, Index2d(-1, 2)), ({"cls": "Index2d", "v": (-2, 2)}, Index2d(-2, 2)),
          ({"cls": "Shape2d", "v": (1, 2)}, Shape2d(x=1, y=2)), ({"cls": "Shape2d", "v": (2, 1)}, Shape2d(x=2, y=1)),
          ({"cls": "Shape2d", "v": (1, 3)}, Shape2d(x=1, y=3))]
    fam["XY"] = xs

    c38 = [c for d, c in cv if d == (3857, "EPSG")][0]
    gss = [({}, GridSpec(c38, (10, 10), 10)), ({"res": 20}, GridSpec(c38, (10, 10), 20)),
           ({"res": "positive-y"}, GridSpec(c38, (10, 10), Resolution(10, 10))),
           ({"res": "aniso"}, GridSpec(c38, (10, 10), Resolution(10, -5))),
           ({"shape": 1}, GridSpec(c38, (10, 11), 10)), ({"shape": 0}, GridSpec(c38, (11, 10), 10)),
           ({"shape+res": "same tile size"}, GridSpec(c38, (20, 20), 5)),
           ({"origin": "x"}, GridSpec(c38, (10, 10), 10, origin=xy_(1.0, 0.0))),
           ({"origin": "y"}, GridSpec(c38, (10, 10), 10, origin=xy_(0.0, 1.0))),
           ({"origin": "int"}, GridSpec(c38, (10, 10), 10, origin=xy_(0, 0))),
           ({"flipx": True}, GridSpec(c38, (10, 10), 10, flipx=True)), ({"flipy": True}, GridSpec(c38, (10, 10), 10, flipy=True))]
    gss += [({"crs": d}, GridSpec(c, (10, 10), 10)) for d, c in cv if d[0] == 3857 and d[1] in ("epsg", "wkt", "pyproj")]
    gss += [({"crs": d}, GridSpec(c, (10, 10), 10)) for d, c in cv if d == (4326, "EPSG")]
    fam["GridSpec"] = gss

    gm = [({}, point(1, 2, c0)), ({"crs": None}, point(1, 2, None)), ({"geom": "pt"}, point(1, 3, c0)),
          ({"geom": "pt-float"}, point(1.0, 2.0, c0)), ({"geom": "box"}, box(0, 0, 1, 2, c0)),
          ({"geom": "box2"}, box(0, 0, 1, 2.5, c0)),
          ({"geom": "poly-rotated-start"}, polygon([(1, 0), (1, 2), (0, 2), (0, 0), (1, 0)], c0)),
          ({"geom": "poly"}, polygon([(0, 0), (1, 0), (1, 2), (0, 2), (0, 0)], c0)),
          ({"geom": "line"}, line([(0, 0), (1, 2)], c0)), ({"geom": "line-rev"}, line([(1, 2), (0, 0)], c0))]
    gm += [({"crs": d}, point(1, 2, c)) for d, c in crs_small[1:]]
    # collections, rings, 3D, empties: those shapely itself carries faithfully through pickle and shape()
    gm += [({"zoo": k}, Geometry(sg, c0)) for k, sg in geometry_zoo().items()
           if shapely_faithful(sg, "pickle") and shapely_faithful(sg, "shape")]
    fam["Geometry"] = gm

    # near-identical float fields: one field perturbed at several magnitudes d (and 2d, so that a, a+d, a+2d
    # form chains for transitivity); every value is an exact binary64 number, no arithmetic is done on it
    # by the constructors (GridSpec: power-of-two tile shape, so shape*|res| is exact)
    import math

    def near(x, chain=True):
        out = [("ulp", math.nextafter(x, math.inf))] + ([("2ulp", math.nextafter(math.nextafter(x, math.inf), math.inf))] if chain else [])
        for d in (1e-12, 1e-9, 1e-6, 4e-6, 8e-6, 1.2e-5, 1e-3):
            out.append((d, x + d))
            if chain:
                out.append((2 * d, x + 2 * d))
        return out

    fam["GeoBox~near"] = [({}, GeoBox((10, 20), A0, c0))] + \
        [({"aff.c+": d}, GeoBox((10, 20), Affine(10.0, 0.0, v, 0.0, -10.0, 200.0), c0)) for d, v in near(100.0)] + \
        [({"aff.a+": d}, GeoBox((10, 20), Affine(v, 0.0, 100.0, 0.0, -10.0, 200.0), c0)) for d, v in near(10.0, False)] + \
        [({"aff.b+": d}, GeoBox((10, 20), Affine(10.0, v, 100.0, 0.0, -10.0, 200.0), c0)) for d, v in near(0.0, False)[2:]]
    fam["BoundingBox~near"] = [({}, BoundingBox(0.0, 0.0, 10.0, 20.0, c0))] + \
        [({"left+": d}, BoundingBox(v, 0.0, 10.0, 20.0, c0)) for d, v in near(0.0)[2:]] + \
        [({"top+": d}, BoundingBox(0.0, 0.0, 10.0, v, c0)) for d, v in near(20.0, False)]
    fam["GCPGeoBox~near"] = [({}, GCPGeoBox((10, 12), m0))] + \
        [({"aff.c+": d}, GCPGeoBox((10, 12), m0, Affine(1.0, 0.0, v, 0.0, 1.0, 0.0))) for d, v in near(1.0)] + \
        [({"pix+": d}, GCPGeoBox((10, 12), GCPMapping(np.concatenate([[[v, 0.0]], pix[1:]]), wld, c0))) for d, v in near(0.5, False)] + \
        [({"wld+": d}, GCPGeoBox((10, 12), GCPMapping(pix, np.concatenate([[[v, 50.0]], wld[1:]]), c0))) for d, v in near(100.0, False)]
    fam["XY~near"] = [({"cls": "XY"}, XY(1.0, 2.0)), ({"cls": "Resolution"}, Resolution(1.0, 2.0))] + \
        [({"cls": "XY", "x+": d}, XY(v, 2.0)) for d, v in near(1.0)] + \
        [({"cls": "Resolution", "y+": d}, Resolution(1.0, v)) for d, v in near(2.0, False)]
    fam["GridSpec~near"] = [({}, GridSpec(c38, (8, 8), Resolution(10.0, -10.0)))] + \
        [({"res.x+": d}, GridSpec(c38, (8, 8), Resolution(v, -10.0))) for d, v in near(10.0)] + \
        [({"origin.y+": d}, GridSpec(c38, (8, 8), Resolution(10.0, -10.0), origin=xy_(0.0, v))) for d, v in near(0.0, False)[2:]]
    fam["Geometry~near"] = [({}, point(1.0, 2.0, c0))] + [({"x+": d}, point(v, 2.0, c0)) for d, v in near(1.0)] + \
        [({"poly.y+": d}, polygon([(0, 0), (1, 0), (1, v), (0, 2), (0, 0)], c0)) for d, v in near(2.0, False)]
    return fam


def hash_or_none(v):
    try:
        return hash(v)
    except TypeError:
        return None


def observe_pair(a, b):
    from dask.base import tokenize
    ha, hb = hash_or_none(a), hash_or_none(b)
    h = None if ha is None or hb is None else (ha == hb)
    return bool(a == b), h, tokenize(a) == tokenize(b)


def clones(v):
    from odc.geo.geom import Geometry
    out = {"pickle": pickle.loads(pickle.dumps(v)), "copy": copy.copy(v), "deepcopy": copy.deepcopy(v)}
    if isinstance(v, Geometry):
        out["clone()"] = v.clone()
        out["Geometry(g)"] = Geometry(v)
    return out
