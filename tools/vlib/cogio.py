"""End-to-end driver for the parallel (dask) COG writer, used by the C05 check.

`run_writer(cfg, workdir)` builds a small geo-registered dask-backed
DataArray, calls odc.geo.cog._tifffile.save_cog_with_dask on it with recording
wrappers around the two places where the property observes the writer
(`_compress_cog_tile`: encoded bytes per tile; `_patch_hdr`: the observed
(size, tile) stream and the header it returns), computes the graph under the
requested scheduler and returns everything the harness needs.
"""
from __future__ import annotations

import contextlib
import logging
import os
import random
import threading
from pathlib import Path

import numpy as np


logging.getLogger("tifffile").setLevel(logging.CRITICAL)   # tag-parsing chatter of the reader


def make_pixels(cfg):
    """Deterministic pixel values, distinct enough that any misplaced tile shows."""
    h, w, s = cfg["H"], cfg["W"], cfg.get("S", 1)
    ax = cfg["axis"]
    dt = np.dtype(cfg["dtype"])
    yy, xx = np.meshgrid(np.arange(h), np.arange(w), indexing="ij")
    planes = []
    for b in range(s if ax != "YX" else 1):
        v = (yy * 131 + xx * 7 + b * 1009 + 1 + cfg.get("salt", 0) * 7919)
        if dt.kind == "b":
            v = ((v * 2654435761 >> 11) & 1).astype(bool)
        elif dt.kind == "f":
            v = v.astype(dt) * dt.type(0.5)
        elif dt.kind == "u":
            v = (v % (np.iinfo(dt).max + 1)).astype(dt)
        else:
            span = int(np.iinfo(dt).max) - int(np.iinfo(dt).min) + 1
            v = ((v % span) + int(np.iinfo(dt).min)).astype(dt)
        planes.append(v)
    if ax == "YX":
        return planes[0]
    if ax == "YXS":
        return np.stack(planes, axis=-1)
    return np.stack(planes, axis=0)


def make_geobox(cfg):
    from affine import Affine
    from odc.geo.geobox import GeoBox

    h, w = cfg["H"], cfg["W"]
    tr = cfg.get("transform", [4.0, 0.0, 1000.0, 0.0, -4.0, 2000.0])
    return GeoBox((h, w), Affine(*tr), cfg.get("crs", "epsg:3857"))


def make_xx(cfg):
    import dask.array as da
    import xarray as xr
    from odc.geo.xr import xr_coords

    pix = make_pixels(cfg)
    gbox = make_geobox(cfg)
    ax = cfg["axis"]
    # an axis' chunking is an int (regular) or an explicit tuple of chunk sizes (irregular)
    cy, cx = (tuple(c) if isinstance(c, (list, tuple)) else c for c in cfg["chunks"])
    if ax == "YX":
        dims = ("y", "x")
        chunks = (cy, cx)
    elif ax == "YXS":
        dims = ("y", "x", "band")
        chunks = (cy, cx, cfg.get("band_chunk", -1))
    else:
        dims = ("band", "y", "x")
        chunks = (cfg.get("band_chunk", -1), cy, cx)
    name = f"src-{cfg.get('name', 'x')}-{random.random()}"
    mem = cfg.get("memory", "C")
    if mem == "C":
        data = da.from_array(pix, chunks=chunks, name=name)
    elif mem == "F":                      # Fortran-ordered source array
        data = da.from_array(np.asfortranarray(pix), chunks=chunks, name=name)
    elif mem == "transposed":             # stored with reversed axes, lazily transposed back: every block is F-contiguous
        rev = tuple(range(pix.ndim))[::-1]
        # chunks are materialised (as for any computed dask array) before the lazy transpose
        data = da.from_array(np.ascontiguousarray(pix.transpose(rev)), chunks=tuple(chunks)[::-1], name=name) \
            .map_blocks(np.ascontiguousarray).transpose(rev)
    elif mem == "view":                   # non-contiguous view of a larger array
        big = np.zeros(tuple(2 * n for n in pix.shape), dtype=pix.dtype)
        big[(slice(None, None, 2),) * pix.ndim] = pix
        data = da.from_array(big[(slice(None, None, 2),) * pix.ndim], chunks=chunks, name=name)
    else:
        raise ValueError(mem)
    coords = xr_coords(gbox)
    attrs = {}
    if cfg.get("nodata") is not None:
        attrs[cfg.get("nodata_attr", "nodata")] = cfg["nodata"]
    if cfg.get("fill_value_attr") is not None and cfg.get("nodata_attr", "nodata") == "nodata":
        attrs["_FillValue"] = cfg["fill_value_attr"]       # present besides `nodata` (which wins) and different
    xx = xr.DataArray(data, dims=dims, coords=coords, attrs=attrs)
    return xx, pix, gbox


@contextlib.contextmanager
def scheduler(cfg):
    """synchronous / synchronous with shuffled task priorities / thread pool."""
    import dask
    import dask.local

    kind = cfg.get("scheduler", "sync")
    if kind == "sync":
        with dask.config.set(scheduler="synchronous"):
            yield
    elif kind.startswith("shuffle"):
        seed = int(kind.split(":")[1]) if ":" in kind else 0
        orig = dask.local.order

        def shuffled(dsk, dependencies=None, **kw):
            o = orig(dsk, dependencies=dependencies, **kw)
            keys = sorted(o, key=lambda k: o[k])
            vals = list(range(len(keys)))
            random.Random(seed).shuffle(vals)
            return dict(zip(keys, vals))

        dask.local.order = shuffled
        try:
            with dask.config.set(scheduler="synchronous"):
                yield
        finally:
            dask.local.order = orig
    elif kind.startswith("threads"):
        n = int(kind.split(":")[1]) if ":" in kind else 4
        with dask.config.set(scheduler="threads", num_workers=n):
            yield
    else:
        raise ValueError(kind)


def writer_kwargs(cfg):
    kw = {}
    for k in ("compression", "predictor", "blocksize", "bigtiff", "stats", "spill_sz", "writes_per_chunk", "level",
              "compressionargs"):
        if k in cfg and cfg[k] is not None:
            kw[k] = cfg[k]
    # codec tuning options in GDAL spelling (zlevel=, zstd_level=, max_z_error=, ...) go through **kw of the writer
    kw.update(cfg.get("kw") or {})
    if "compressionargs" in kw and not cfg.get("share_compressionargs"):
        kw["compressionargs"] = dict(kw["compressionargs"])       # a private copy per call
    if "blocksize" in kw:
        kw["blocksize"] = [tuple(b) if isinstance(b, (list, tuple)) else b for b in kw["blocksize"]] \
            if isinstance(kw["blocksize"], list) else kw["blocksize"]
    return kw


def run_pair(cfg, workdir):
    """Two saves computed together in ONE dask.compute: cfg = {"a": cfg, "b": cfg or None (the very same array),
    "same_name": both files are called out.tif (in different directories), "parts_base": both use one scratch directory
    for their parts, "scheduler": ...}.  Returns [(path, pixels, cfg), (path, pixels, cfg)]."""
    import dask
    import odc.geo.cog._tifffile as T

    a = dict(cfg["a"], name="a")
    xa, pa, _ = make_xx(a)
    if cfg.get("b") is None and cfg.get("b_nodata") is not None:
        # the very same dask array, only the nodata attribute (= padding fill) differs
        b = dict(a, name="b", nodata=cfg["b_nodata"])
        xb, pb = xa.copy(), pa
        xb.attrs = dict(xa.attrs, nodata=cfg["b_nodata"])
    elif cfg.get("b") is None:
        b, xb, pb = a, xa, pa
    else:
        b = dict(cfg["b"], name="b")
        xb, pb, _ = make_xx(b)
    da_, db_ = Path(workdir) / "A", Path(workdir) / "B"
    for d in (da_, db_):
        d.mkdir(parents=True, exist_ok=True)
    na, nb = ("out.tif", "out.tif") if cfg.get("same_name") else ("a.tif", "b.tif")
    extra = {}
    if cfg.get("parts_base"):
        pb_dir = Path(workdir) / "parts"
        pb_dir.mkdir(exist_ok=True)
        extra["parts_base"] = str(pb_dir)
    min_write = cfg.get("min_write_sz")
    orig_sink_min = None
    if min_write is not None:
        from odc.geo.cog._mpu_fs import MPUFileSink
        orig_sink_min = MPUFileSink.min_write_sz
        MPUFileSink.min_write_sz = property(lambda self: min_write)
    try:
        r1 = T.save_cog_with_dask(xa, str(da_ / na), **writer_kwargs(a), **extra)
        r2 = T.save_cog_with_dask(xb, str(db_ / nb), **writer_kwargs(b), **extra)
        with scheduler(cfg):
            dask.compute(r1, r2)
    finally:
        if orig_sink_min is not None:
            from odc.geo.cog._mpu_fs import MPUFileSink
            MPUFileSink.min_write_sz = orig_sink_min
    return [(str(da_ / na), pa, a), (str(db_ / nb), pb, b)]


def run_writer(cfg, workdir):
    """Returns dict(path, pix, gbox, meta, observed, hdr_len, tile_bytes, hdr_calls)."""
    import odc.geo.cog._tifffile as T

    xx, pix, gbox = make_xx(cfg)
    dst = str(Path(workdir) / f"{cfg.get('name', 'out')}.tif")
    if os.path.exists(dst):
        os.unlink(dst)

    rec = {"tile_bytes": {}, "observed": None, "hdr_len": None, "hdr_calls": 0, "meta": None, "dups": 0}
    lock = threading.Lock()
    orig_compress = T._compress_cog_tile
    orig_patch = T._patch_hdr
    orig_sink_min = None

    def rec_compress(encoder, block, idx):
        out = orig_compress(encoder, block, idx)
        with lock:
            for data, i in out:
                if tuple(i) in rec["tile_bytes"]:
                    rec["dups"] += 1
                rec["tile_bytes"][tuple(i)] = bytes(data)
        return out

    def rec_patch(tiles, meta, hdr0, stats=None):
        hdr = orig_patch(tiles, meta, hdr0, stats)
        with lock:
            rec["observed"] = [(int(sz), tuple(int(v) for v in idx)) for sz, idx in tiles]
            rec["hdr_len"] = len(hdr)
            rec["hdr0_len"] = len(hdr0)
            rec["hdr_calls"] += 1
            rec["meta"] = meta
        return hdr

    kw = writer_kwargs(cfg)

    T._compress_cog_tile = rec_compress
    T._patch_hdr = rec_patch
    min_write = cfg.get("min_write_sz")
    if min_write is not None:
        from odc.geo.cog._mpu_fs import MPUFileSink
        orig_sink_min = MPUFileSink.min_write_sz
        MPUFileSink.min_write_sz = property(lambda self: min_write)
    try:
        rr = T.save_cog_with_dask(xx, dst, **kw)
        with scheduler(cfg):
            out = rr.compute()
            if cfg.get("twice"):
                # a task graph is not consumed by its first execution: examine the second one
                with lock:
                    rec.update(tile_bytes={}, observed=None, hdr_len=None, hdr_calls=0, meta=None, dups=0)
                if os.path.exists(dst):
                    os.unlink(dst)
                out = rr.compute()
    finally:
        T._compress_cog_tile = orig_compress
        T._patch_hdr = orig_patch
        if orig_sink_min is not None:
            from odc.geo.cog._mpu_fs import MPUFileSink
            MPUFileSink.min_write_sz = orig_sink_min
    rec.update(path=str(out), pix=pix, gbox=gbox, xx=xx)
    return rec


def read_ifds(path):
    """Per IFD: tags 256/257/322/323/324/325 (+277/284/339/258 for reference) via tifffile."""
    import tifffile

    out = []
    with tifffile.TiffFile(path) as tf:
        for p in tf.pages:
            t = p.tags
            def val(code, default=None):
                return t[code].value if code in t else default
            def seq(v):
                if v is None:
                    return None
                return [int(x) for x in v] if isinstance(v, (tuple, list)) else [int(v)]
            out.append({
                "width": int(val(256)), "length": int(val(257)),
                "tile_w": int(val(322)), "tile_l": int(val(323)),
                "offsets": seq(val(324)), "bytecounts": seq(val(325)),
                "spp": int(val(277, 1)), "planar": int(val(284, 1)),
                "subfile": int(val(254, 0)),
            })
    return out


def decode_tifffile(path, level=0):
    import tifffile

    with tifffile.TiffFile(path) as tf:
        return tf.pages[level].asarray()


def decode_rasterio(path, level=0):
    import rasterio

    if level == 0:
        with rasterio.open(path) as f:
            return f.read(), {"transform": tuple(f.transform)[:6], "crs": f.crs, "nodata": f.nodata,
                              "overviews": f.overviews(1), "dtype": f.dtypes[0], "count": f.count,
                              "block_shapes": f.block_shapes}
    with rasterio.open(path, overview_level=level - 1) as f:
        return f.read(), {"transform": tuple(f.transform)[:6]}
