"""Helpers of the C09 check: abstraction ("snapshot") of xarray objects to what
odc/geo/_xr_interop.py reads, and emitters of the corresponding Gallina terms of
coq/Model/XrCoords.v.  Floats are converted with Fraction(x) (exact)."""
from __future__ import annotations

import math
from fractions import Fraction

import numpy as np

from vlib.core import cbool, clist, copt, cq, cstr, ctuple, cz

# CRS universe of the harness: spec -> (model id, geographic?)
CRS_TABLE = {
    "epsg:3857": (3857, False),
    "epsg:4326": (4326, True),
    "epsg:32633": (32633, False),
    "epsg:3577": (3577, False),
    "epsg:4283": (4283, True),
    # unusual axis layouts: both axes pointing the same way (polar stereographic, UPS), northing/easting
    # order, geographic 3-D, compound (horizontal + vertical)
    "epsg:3031": (3031, False),
    "epsg:3413": (3413, False),
    "epsg:5041": (5041, False),
    "epsg:5042": (5042, False),
    "epsg:3976": (3976, False),
    "epsg:2193": (2193, False),
    "epsg:4979": (4979, True),
    "EPSG:9518": (9518, True),
    "EPSG:7415": (7415, False),
    # a compound definition given as "EPSG:<horizontal>+<vertical>" (not a single EPSG code; ValueError before fix 3b5294a)
    "EPSG:4326+5773": (9707, True),
}
_crs_objs = {}


def crs_obj(spec):
    from odc.geo.crs import CRS
    if spec not in _crs_objs:
        _crs_objs[spec] = CRS(spec)
    return _crs_objs[spec]


def crs_key(c):
    """(id, geographic) of a CRS object known to the table, else None (pyproj equality is the oracle)."""
    if c is None:
        return None
    for spec, key in CRS_TABLE.items():
        if crs_obj(spec) == c:
            return key
    return ("unknown", str(c)[:40])


def parse_crs(v):
    """CRS(v) as the code does for attribute values; None when it does not parse."""
    from odc.geo.crs import CRS, CRSError
    if not isinstance(v, (str, CRS)):
        return None
    try:
        return CRS(v)
    except (CRSError, Exception):  # pylint: disable=broad-except
        return None


# ------------------------------------------------------------------ python-side values
def F(x):
    return Fraction(float(x)) if not isinstance(x, (int, Fraction)) else Fraction(x)


def aff6(A):
    return tuple(F(v) for v in tuple(A)[:6])


def aval(key, v):
    """Classify an attribute value the way the model's [aval] does."""
    from odc.geo.crs import CRS
    if key in ("crs", "crs_wkt", "spatial_ref"):
        if isinstance(v, (str, CRS)):
            c = parse_crs(v)
            if c is not None:
                k = crs_key(c)
                if k is not None and k[0] != "unknown":
                    return ("crs", k)
            return ("str", str(v)[:30])
        return ("other",)
    if key == "GeoTransform":
        if isinstance(v, str):
            try:
                return ("geot", [F(float(p)) for p in v.split(" ")])
            except ValueError:
                return ("str", v[:30])
        return ("other",)
    if key == "gcps":
        try:
            pts = []
            for f in v["features"]:
                x, y = f["geometry"]["coordinates"][:2]
                pts.append((F(f["properties"]["col"]), F(f["properties"]["row"]), F(x), F(y)))
            return ("gcps", pts)
        except Exception:  # pylint: disable=broad-except
            return ("other",)
    if key == "units":
        return ("other",)
    if isinstance(v, str):
        return ("str", v[:30])
    if isinstance(v, (bool, np.bool_)):
        return ("other",)
    if isinstance(v, (int, float, np.integer, np.floating)) and math.isfinite(float(v)):
        return ("num", F(v))
    return ("other",)


CRS_COORD_KEYS = ("spatial_ref", "crs_wkt", "GeoTransform", "gcps")


def snap_attrs(a, crs_coord=False):
    out = []
    for k, v in a.items():
        if not isinstance(k, str):
            continue
        if crs_coord and k not in CRS_COORD_KEYS:
            continue  # CF soup of pyproj.to_cf(): never read by the code
        out.append((k, aval(k, v)))
    return out


def snap_coord(c):
    dims = [str(d) for d in c.dims]
    vals = []
    if c.ndim == 1 and c.dtype.kind in "fiu":
        vals = [F(v) for v in c.values.tolist()]
    is_ref = c.ndim == 0 and ("spatial_ref" in c.attrs or "crs_wkt" in c.attrs)
    tr = c.encoding.get("_transform", None)
    return {"dims": dims, "vals": vals, "attrs": snap_attrs(c.attrs, crs_coord=is_ref),
            "tr": None if tr is None else tuple(F(v) for v in tr)}


def snapshot(xx):
    import xarray as xr
    is_ds = isinstance(xx, xr.Dataset)
    s = {
        "is_ds": is_ds,
        "dims": [(str(d), int(n)) for d, n in xx.sizes.items()],
        "gm": xx.encoding.get("grid_mapping", None),
        "attrs": snap_attrs(xx.attrs),
        "coords": [(str(k), snap_coord(c)) for k, c in xx.coords.items()],
        "vars": [],
    }
    if is_ds:
        s["vars"] = [(str(k), {"dims": [str(d) for d in v.dims], "attrs": snap_attrs(v.attrs),
                               "gm": v.encoding.get("grid_mapping", None)}) for k, v in xx.data_vars.items()]
    return s


def box_of(g):
    """GeoBox / GCPGeoBox -> python-side [anybox]."""
    from odc.geo.gcp import GCPGeoBox
    if g is None:
        return None
    ny, nx = g.shape
    if isinstance(g, GCPGeoBox):
        m = g._mapping  # pylint: disable=protected-access
        pts = [(F(p[0]), F(p[1]), F(w[0]), F(w[1])) for p, w in zip(m._pix.tolist(), m._wld.tolist())]
        return ("gcp", int(ny), int(nx), aff6(g._affine), pts, crs_key(g.crs))
    return ("box", int(ny), int(nx), aff6(g.affine), crs_key(g.crs))


def geostate_of(xx):
    """Run the real _locate_geo_info; canonical result or ('err', kind)."""
    from odc.geo._xr_interop import _locate_geo_info
    try:
        st = _locate_geo_info(xx)
    except ValueError:
        return ("err", "EValue")
    except (KeyError, IndexError):
        return ("err", "EIndex")
    except AssertionError:
        return ("err", "EAssert 0")
    return ("ok", {"sdims": None if st.spatial_dims is None else tuple(str(d) for d in st.spatial_dims),
                   "crs": crs_key(st.crs),
                   "transform": None if st.transform is None else aff6(st.transform),
                   "box": box_of(st.geobox)})


# ------------------------------------------------------------------ Gallina emitters
def caff(a):
    return "(Aff " + " ".join(cq(v) for v in a) + ")"


def ccrs(k):
    return f"(Crs {cz(k[0])} {cbool(k[1])})"


def cgcp(p):
    return ctuple(*[cq(v) for v in p])


def cbox(b):
    if b[0] == "box":
        _, ny, nx, a, c = b
        return f"(ABox {cgbox(b)})"
    _, ny, nx, a, pts, c = b
    return f"(AGcp {cz(ny)} {cz(nx)} {caff(a)} {clist(pts, cgcp)} {copt(c, ccrs)})"


def cgbox(b):
    _, ny, nx, a, c = b
    return f"(GBox {cz(ny)} {cz(nx)} {caff(a)} {copt(c, ccrs)})"


def caval(v):
    t = v[0]
    if t == "str":
        return f"(VStr {cstr(v[1])})"
    if t == "crs":
        return f"(VCrs {ccrs(v[1])})"
    if t == "geot":
        return f"(VGeoT {clist(v[1], cq)})"
    if t == "gcps":
        return f"(VGcps {clist(v[1], cgcp)})"
    if t == "num":
        return f"(VNum {cq(v[1])})"
    return "VOther"


def cattrs(a):
    return clist(a, lambda kv: ctuple(cstr(kv[0]), caval(kv[1])))


def ccoord(c):
    return (f"(Coord {clist(c['dims'], cstr)} {clist(c['vals'], cq)} {cattrs(c['attrs'])} "
            f"{copt(c['tr'], caff)})")


def ccoords(cs):
    return clist(cs, lambda nc: ctuple(cstr(nc[0]), ccoord(nc[1])))


def cxvar(v):
    return f"(XVar {clist(v['dims'], cstr)} {cattrs(v['attrs'])} {copt(v['gm'], cstr)})"


def cxobj(s):
    return (f"(XObj {cbool(s['is_ds'])} {clist(s['dims'], lambda dn: ctuple(cstr(dn[0]), cz(dn[1])))} "
            f"{copt(s['gm'], cstr)} {cattrs(s['attrs'])} {ccoords(s['coords'])} "
            f"{clist(s['vars'], lambda nv: ctuple(cstr(nv[0]), cxvar(nv[1])))})")


def csd(sd):
    return ctuple(cstr(sd[0]), cstr(sd[1]))


def cgeostate(r):
    if r[0] == "err":
        return f"(Err ({r[1]}))" if " " in r[1] else f"(Err {r[1]})"
    g = r[1]
    return (f"(Ok (GeoState {copt(g['sdims'], csd)} {copt(g['crs'], ccrs)} {copt(g['transform'], caff)} "
            f"{copt(g['box'], cbox)}))")


def cslice(s):
    return f"(PySlice {copt(s.start)} {copt(s.stop)} {copt(s.step)})"


def cres(r, f):
    if r[0] == "err":
        return f"(Err ({r[1]}))" if " " in r[1] else f"(Err {r[1]})"
    return f"(Ok {f(r[1])})"


def unknown_crs_in(obj) -> bool:
    """True when a snapshot/result mentions a CRS outside the table (cannot be emitted)."""
    return "unknown" in repr(obj)
