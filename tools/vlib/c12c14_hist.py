"""Runs the process-history part of the C12 / C14 searches in a FRESH interpreter.

The perturbations of tools/vlib/crshist.py only bite when they come first in the life of the process
(e.g. the always_xy=False transformer of a CRS pair must be requested before any always_xy=True one);
the check process has already used odc.geo.crs heavily by the time the search runs.  The property module
is therefore started again as `python -m props.<mod> --history-child <tier>`; the child perturbs the
caches, evaluates its cases and prints one JSON line per evaluated case.
"""
from __future__ import annotations

import json
import subprocess
import sys

from vlib import core


def run_child(module: str, tier: str, timeout: int = 600):
    env = core.child_env()
    env["PYTHONPATH"] = f"{core.REPO}:{core.VERIF / 'tools'}"
    p = subprocess.run([sys.executable, "-W", "ignore", "-m", f"props.{module}", "--history-child", tier],
                       env=env, cwd=str(core.VERIF), stdout=subprocess.PIPE, stderr=subprocess.PIPE, text=True, timeout=timeout)
    rows = []
    for line in p.stdout.splitlines():
        if line.startswith("{"):
            try:
                rows.append(json.loads(line))
            except ValueError:
                pass
    done = any(r.get("done") for r in rows)
    return [r for r in rows if not r.get("done")], (p.returncode == 0 and done), (p.stderr or "")[-3000:]


def child_main(cases_fn, enc):
    """cases_fn(tier, emit): emit(hist, name, args, ok, detail) for every case evaluated after a history"""
    tier = sys.argv[sys.argv.index("--history-child") + 1]

    def emit(hist, name, args, ok, detail):
        print(json.dumps({"hist": list(hist), "name": name, "args": enc(list(args)), "ok": bool(ok), "detail": str(detail)[:1500]}), flush=True)
    cases_fn(tier, emit)
    print(json.dumps({"done": True}), flush=True)
