"""C19 cross-process histories: a producer interpreter builds one value of every value class, (optionally)
hashes / tokenizes / queries it, and pickles it; consumer interpreters with the same and with another
PYTHONHASHSEED unpickle it (one of them after perturbing the CRS caches with vlib.crshist) and compare it with
the same value built locally: ==, hash, set / dict membership, dask token, str and EPSG code of CRSs.

Run as  python -m vlib.c19xproc produce <file>  /  python -m vlib.c19xproc consume <file> <perturb:0|1>.
"""
from __future__ import annotations

import json
import os
import pickle
import subprocess
import sys
from pathlib import Path

WKT_CODES = (4326, 32633)


def build_values():
    """name -> value, deterministic; every value class of the property, CRS in several spellings"""
    import numpy as np
    from affine import Affine
    from odc.geo.crs import CRS
    from odc.geo.gcp import GCPGeoBox, GCPMapping
    from odc.geo.geobox import GeoBox, GeoboxTiles
    from odc.geo.geom import BoundingBox, box, point
    from odc.geo.gridspec import GridSpec
    from odc.geo.roi import Tiles, VariableSizedTiles
    from odc.geo.types import XY, Index2d, Resolution, Shape2d
    from pyproj.crs import CRS as P
    out = {}
    crss = {"epsg": CRS("EPSG:4326"), "int": CRS(3857), "lower": CRS("epsg:32633"),
            "wkt": CRS(P.from_epsg(3577).to_wkt()), "proj": CRS("+proj=utm +zone=55 +south +ellps=GRS80 +units=m +no_defs"),
            "json": CRS(P.from_epsg(6933).to_json_dict())}
    A = Affine(10.0, 0.0, 100.5, 0.0, -10.0, 200.25)
    pix = np.array([(0, 0), (10, 0), (0, 10), (10, 10), (5, 5), (3, 7)], dtype="float64")
    wld = np.array([(100, 50), (110, 50), (100, 40), (110, 40), (105, 45), (103.5, 43.25)], dtype="float64")
    for k, c in crss.items():
        out[f"CRS:{k}"] = c
        out[f"BoundingBox:{k}"] = BoundingBox(0.5, -1, 10, 20.25, c)
        out[f"GeoBox:{k}"] = GeoBox((10, 20), A, c)
        out[f"GCPMapping:{k}"] = GCPMapping(pix.copy(), wld.copy(), c)
        out[f"GCPGeoBox:{k}"] = GCPGeoBox((10, 12), GCPMapping(pix.copy(), wld.copy(), c), Affine.translation(1, 2))
        out[f"GridSpec:{k}"] = GridSpec(c, (8, 8), Resolution(10.0, -10.0))
        out[f"Geometry:{k}"] = box(0, 0.5, 1, 2, c)
        out[f"GeoboxTiles:{k}"] = GeoboxTiles(GeoBox((10, 20), A, c), (4, 5))
    from odc.geo.geom import Geometry
    from vlib.c19vals import geometry_zoo
    zoo = geometry_zoo()
    for k in ("gc-mixed", "gc-nested", "gc-empty", "ring", "point-3d", "polygon-3d", "gc-3d", "empty-polygon", "polygon-with-hole"):
        out[f"Geometry:{k}"] = Geometry(zoo[k], crss["epsg"])
    out["BoundingBox:none"] = BoundingBox(0, 0, 1, 2)
    out["GeoBox:none"] = GeoBox((3, 4), A, None)
    out["Geometry:none"] = point(1.5, 2, None)
    out["Tiles"] = Tiles((10, 11), (4, 4))
    out["VariableSizedTiles"] = VariableSizedTiles(((4, 6), (5, 15)))
    out["XY"] = XY(1.5, 2)
    out["Resolution"] = Resolution(10, -20)
    out["Index2d"] = Index2d(3, -4)
    out["Shape2d"] = Shape2d(x=3, y=4)
    return out


def touch(v):
    """what a producer typically does with a value before shipping it: hash, token, lazy queries"""
    from dask.base import tokenize
    try:
        hash(v)
        _ = {v: 1}
    except TypeError:
        pass
    tokenize(v)
    c = getattr(v, "crs", None)
    for o in (v, c):
        for attr in ("epsg", "units", "dimensions"):
            try:
                getattr(o, attr)
            except Exception:  # noqa: BLE001
                pass
    # computations that fill lazily built, cached helpers (GCP polynomial fits, extents, approximations ...)
    for attr in ("extent", "boundingbox", "geographic_extent", "resolution", "approx", "linear", "center_pixel", "alignment",
                 "footprint", "p2w", "w2p", "wkt", "valid_region", "chunks", "base", "boundary"):
        try:
            r = getattr(v, attr)
            if callable(r) and attr in ("footprint",):
                r("epsg:4326")
        except Exception:  # noqa: BLE001
            pass
    try:
        w = v.pix2wld(0.5, 1.5)
        v.wld2pix(*w)
    except Exception:  # noqa: BLE001
        pass
    str(v)
    repr(v)


def crs_facts(v):
    from odc.geo.crs import CRS
    if not isinstance(v, CRS):
        return None
    return {"str": str(v), "epsg": v.to_epsg(), "units": list(v.units), "wkt": v.to_wkt()}


def produce(path):
    from dask.base import tokenize
    plain = build_values()
    touched = build_values()
    for v in touched.values():
        touch(v)
    facts = {k: {"token": tokenize(v), "crs": crs_facts(v)} for k, v in build_values().items()}
    with open(path, "wb") as f:
        pickle.dump({"plain": plain, "touched": touched, "facts": facts}, f)


def hashable(v):
    try:
        hash(v)
        return True
    except TypeError:
        return False


def consume(path, perturb):
    from dask.base import tokenize
    if perturb:
        from vlib import crshist
        crshist.perturb(("queries-first", "authority-order-first", "churn"))
    with open(path, "rb") as f:
        d = pickle.load(f)
    local = build_values()
    bad = []
    for mode in ("plain", "touched"):
        for k, v in d[mode].items():
            w = local[k]
            cls = k.split(":")[0]

            def fail(clause, what, cls=cls, k=k, mode=mode):
                bad.append({"class": cls, "name": k, "mode": mode, "clause": clause, "what": what})
            if not (v == w and w == v) or (v != w):
                fail("eq", "the unpickled value is != the same value built locally")
                continue
            if hashable(w) and hashable(v):
                if hash(v) != hash(w):
                    fail("hash", "unpickled value == locally built value but their hashes differ")
                elif w not in {v} or {v: 1}.get(w) != 1 or v not in {w}:
                    fail("lookup", "set/dict lookup of the locally built value misses the unpickled one")
                if hash(v) != hash(pickle.loads(pickle.dumps(v))):
                    fail("hash-repickle", "hash changes when the unpickled value is pickled again locally")
            elif hashable(w) != hashable(v):
                fail("hashable", "hashability differs between unpickled and local value")
            tv, tw = tokenize(v), tokenize(w)
            if tv != tw:
                fail("token", "unpickled value and locally built value have different dask tokens")
            if tw != d["facts"][k]["token"]:
                fail("token-xproc", "the dask token of the same value differs between interpreters")
            f0 = d["facts"][k]["crs"]
            if f0 is not None:
                for who, x in (("unpickled", v), ("local", w)):
                    f1 = crs_facts(x)
                    for key in f0:
                        if f0[key] != f1[key]:
                            fail("crs-" + key, f"{key} of the {who} CRS is {str(f1[key])[:60]!r}, the producer had {str(f0[key])[:60]!r}")
    print("C19XPROC " + json.dumps(bad))


def run(seed_a=11, seed_b=12, scratch=None, timeout=300):
    """one producer (PYTHONHASHSEED=seed_a) + consumers (seed_a without, seed_b with cache perturbation);
    returns the list of failures (dicts), each tagged with the consumer"""
    import tempfile
    from vlib import core
    tools = str(Path(__file__).resolve().parents[1])
    tmp = Path(scratch) if scratch else Path(tempfile.mkdtemp(prefix="verif-c19x-"))
    path = tmp / "c19xproc.pkl"

    def env(seed):
        e = core.child_env()
        e["PYTHONPATH"] = tools + os.pathsep + e["PYTHONPATH"]
        e["PYTHONHASHSEED"] = str(seed)
        return e

    try:
        p = subprocess.run([sys.executable, "-W", "ignore", "-m", "vlib.c19xproc", "produce", str(path)], env=env(seed_a),
                           stdout=subprocess.PIPE, stderr=subprocess.STDOUT, text=True, timeout=timeout)
        if p.returncode != 0:
            raise RuntimeError("producer failed: " + p.stdout[-1500:])
        procs = [(label, subprocess.Popen([sys.executable, "-W", "ignore", "-m", "vlib.c19xproc", "consume", str(path), str(pt)], env=env(seed),
                                          stdout=subprocess.PIPE, stderr=subprocess.STDOUT, text=True))
                 for label, seed, pt in ((f"same hash seed ({seed_a})", seed_a, 0), (f"other hash seed ({seed_b}), after cache perturbation", seed_b, 1))]
        bad = []
        for label, q in procs:
            outp, _ = q.communicate(timeout=timeout)
            line = [ln for ln in outp.splitlines() if ln.startswith("C19XPROC ")]
            if q.returncode != 0 or not line:
                raise RuntimeError(f"consumer [{label}] failed: " + outp[-1500:])
            for b in json.loads(line[-1][len("C19XPROC "):]):
                b["consumer"] = label
                bad.append(b)
        return bad
    finally:
        if not scratch:
            import shutil
            shutil.rmtree(tmp, ignore_errors=True)


if __name__ == "__main__":
    if sys.argv[1] == "produce":
        produce(sys.argv[2])
    else:
        consume(sys.argv[2], int(sys.argv[3]))
