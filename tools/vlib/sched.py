"""Deterministic scheduler for real threads (used by C18).

Real `threading.Thread`s run real code; shared accesses of interest are routed
through hooks that call `Scheduler.event(kind, enabled)`.  A thread that reaches
an event *parks* there (before performing the access) and continues only when
the scheduler selects it.  Exactly one managed thread runs at any time, the
scheduler itself waits until that thread parks again or finishes, so an
execution is a pure function of the sequence of selected thread ids -- no
sleeps, no timing dependence.  Blocking operations (lock acquisition) are
events with an `enabled` guard: a thread is never resumed into an operation
that would block, hence a deadlock of the code under test shows up as "no
thread enabled, some unfinished" instead of a hang.

Every wait is bounded by a watchdog; when it expires all managed threads are
told to abort (`SchedAbort`, a BaseException so that `except Exception` in the
code under test cannot swallow it) and `HarnessTimeout` is raised, which the
property module reports as a broken harness obligation.
"""
from __future__ import annotations

import threading
from typing import Any, Callable, Iterator, Sequence


class SchedAbort(BaseException):
    """Raised inside a parked thread when the run is torn down."""


class HarnessTimeout(Exception):
    """A managed thread neither parked nor finished within the watchdog time."""


class Step:
    __slots__ = ("tid", "kind", "enabled", "candidates")

    def __init__(self, tid: int, kind: str, enabled: tuple, candidates: tuple | None = None):
        self.tid = tid          # thread selected at this step
        self.kind = kind        # event it performed
        self.enabled = enabled  # all threads that were enabled
        self.candidates = enabled if candidates is None else candidates  # those the exploration may branch to


class Trace:
    """Result of one scheduled execution."""

    def __init__(self):
        self.steps: list[Step] = []
        self.outcome: dict[int, Any] = {}      # tid -> ("ok", value) | ("exc", type name, text)
        self.finish_step: dict[int, int] = {}  # tid -> number of steps taken when the thread was seen finished
        self.unfinished: list[int] = []        # threads still parked at the end
        self.deadlock = False                  # unfinished and none enabled
        self.mismatch: str | None = None       # requested schedule could not be followed

    @property
    def schedule(self) -> list[int]:
        return [s.tid for s in self.steps]

    @property
    def kinds(self) -> list[str]:
        return [s.kind for s in self.steps]


class Scheduler:
    def __init__(self, watchdog: float = 30.0):
        self.watchdog = watchdog
        self._bodies: list[Callable[[], Any]] = []
        self._threads: list[threading.Thread] = []
        self._go: list[threading.Semaphore] = []
        self._back = threading.Semaphore(0)
        self._pending: dict[int, tuple[str, Callable[[], bool]]] = {}
        self._finished: set[int] = set()
        self._ident: dict[int, int] = {}
        self._aborting = False
        self.trace = Trace()

    # ------------------------------------------------------------ set-up
    def spawn(self, body: Callable[[], Any]) -> int:
        self._bodies.append(body)
        return len(self._bodies) - 1

    def current(self) -> int | None:
        """Managed thread id of the caller (None for unmanaged threads)."""
        return self._ident.get(threading.get_ident())

    # ------------------------------------------------------------ worker side
    def event(self, kind: str, enabled: Callable[[], bool] | None = None) -> None:
        """Called by hooks *before* a shared access.  Unmanaged callers pass through."""
        tid = self.current()
        if tid is None:
            return
        if self._aborting:
            raise SchedAbort()
        self._pending[tid] = (kind, enabled or _always)
        self._back.release()
        self._wait_go(tid)

    def _wait_go(self, tid: int) -> None:
        if not self._go[tid].acquire(timeout=self.watchdog * 4):
            raise SchedAbort()
        if self._aborting:
            raise SchedAbort()

    def _worker(self, tid: int) -> None:
        self._ident[threading.get_ident()] = tid
        try:
            self._wait_go(tid)
            try:
                v = self._bodies[tid]()
                self.trace.outcome[tid] = ("ok", v)
            except SchedAbort:
                raise
            except BaseException as e:  # pylint: disable=broad-except
                self.trace.outcome[tid] = ("exc", type(e).__name__, str(e)[:200])
        except SchedAbort:
            self.trace.outcome.setdefault(tid, ("aborted",))
            return
        finally:
            self._pending.pop(tid, None)
            self._finished.add(tid)
            if not self._aborting:
                self._back.release()

    # ------------------------------------------------------------ scheduler side
    def _resume(self, tid: int) -> None:
        self._pending.pop(tid, None)
        self._go[tid].release()
        if not self._back.acquire(timeout=self.watchdog):
            self._abort()
            raise HarnessTimeout(f"thread {tid} neither parked nor finished within {self.watchdog}s")
        if tid in self._finished:
            self.trace.finish_step.setdefault(tid, len(self.trace.steps))

    def step_index(self) -> int:
        """Index of the step being executed (valid inside a managed thread)."""
        return len(self.trace.steps) - 1

    def _abort(self) -> None:
        self._aborting = True
        for g in self._go:
            g.release()
        for t in self._threads:
            t.join(timeout=2.0)

    def enabled(self) -> list[int]:
        return [t for t in sorted(self._pending) if self._pending[t][1]()]

    def run(self, schedule: Sequence[int] = (), complete: bool = True, max_steps: int = 10_000,
            chooser: Callable[[list[int]], int] | None = None,
            glue: Callable[[str], bool] | None = None,
            script: Sequence[tuple] | None = None) -> Trace:
        """Follow `schedule` (thread ids); afterwards, if `complete`, keep selecting a
        thread (`chooser(enabled)`, default: the lowest enabled one) until nothing is
        enabled.  `glue(kind)`: a thread whose next event is of such a kind is not
        preempted before it (coarser interleavings: the step is recorded with that
        thread as the only candidate).  `script`: instead of `schedule`, a list of
        (tid, n) = n steps of tid | (tid, kind) = run tid until it has performed an
        event of that kind | (tid, "end") = until it finishes; a third element "opt" makes the
        item optional: it is skipped when the thread is not enabled at that moment."""
        n = len(self._bodies)
        self._go = [threading.Semaphore(0) for _ in range(n)]
        self._threads = [threading.Thread(target=self._worker, args=(t,), daemon=True) for t in range(n)]
        tr = self.trace
        try:
            for t in self._threads:
                t.start()
            for t in range(n):          # run every thread up to its first event
                self._resume(t)
            i = 0
            last = None
            todo = [list(x) for x in script] if script is not None else None
            while i < max_steps:
                en = self.enabled()
                cands = None
                if todo is not None:
                    # drop items that are done, and optional items ([tid, what, "opt"]) whose thread cannot run now
                    while todo and (todo[0][0] in self._finished or todo[0][1] == 0
                                    or (len(todo[0]) > 2 and todo[0][0] not in en)):
                        todo.pop(0)
                if todo:
                    t = todo[0][0]
                elif todo is None and i < len(schedule):
                    t = schedule[i]
                elif complete and en:
                    t = chooser(en) if chooser is not None else en[0]
                    if glue is not None and last in en and glue(self._pending[last][0]):
                        t, cands = last, (last,)
                else:
                    break
                if t not in en:
                    tr.mismatch = f"step {i}: thread {t} not enabled (enabled: {en})"
                    break
                kind = self._pending[t][0]
                tr.steps.append(Step(t, kind, tuple(en), cands))
                self._resume(t)
                if todo:
                    what = todo[0][1]
                    if isinstance(what, int):
                        todo[0][1] = what - 1
                    elif what == kind:
                        todo[0][1] = 0
                last = t
                i += 1
            tr.unfinished = [t for t in range(n) if t not in self._finished]
            tr.deadlock = bool(tr.unfinished) and not self.enabled() and tr.mismatch is None and i < max_steps
        finally:
            if len(self._finished) < n or self._aborting:
                self._abort()
            else:
                for t in self._threads:
                    t.join(timeout=2.0)
        return tr


def _always() -> bool:
    return True


class SchedLock:
    """Lock whose acquire/release are scheduler events.  `acquire` is enabled only
    while the lock is free, so a managed thread never blocks on it."""

    def __init__(self, sched: Scheduler, name: str = "lock"):
        self._sched = sched
        self._name = name
        self._lock = threading.Lock()
        self.holder: Any = None
        self.acquisitions = 0
        self.gave_up = 0

    def _free(self) -> bool:
        return self.holder is None

    def acquire(self, blocking: bool = True, timeout: Any = -1) -> bool:
        """A blocking acquire without time-out is enabled only while the lock is free.  An
        acquire that may give up (`blocking=False`, or a time-out: how long it lasts is not
        modelled, the scheduler decides) is always enabled and returns False when the thread
        is resumed while the lock is held -- i.e. 'the time-out expired first'."""
        may_give_up = (not blocking) or (timeout is not None and timeout != -1)
        self._sched.event("acquire:" + self._name, None if may_give_up else self._free)
        managed = self._sched.current() is not None
        if may_give_up and managed and self.holder is not None:
            self.gave_up += 1
            return False
        ok = self._lock.acquire(False) if managed else self._lock.acquire()
        if not ok:
            raise RuntimeError("scheduler let a thread into a held lock")
        self.holder = self._sched.current() if managed else "main"
        self.acquisitions += 1
        return True

    def release(self) -> None:
        self._sched.event("release:" + self._name)
        self.holder = None
        self._lock.release()

    def locked(self) -> bool:
        return self.holder is not None

    def __enter__(self):
        self.acquire()
        return self

    def __exit__(self, *exc):
        self.release()
        return False


class Explorer:
    """Stateless enumeration of ALL maximal schedules.  `make_run(prefix)` must build a
    fresh system, run it along `prefix` and complete it with the default policy
    (lowest enabled thread / glue).  Every maximal schedule extending one of the
    `roots` is produced exactly once (`roots` must be pairwise prefix-incomparable;
    default: the empty prefix).  `pending` holds the prefixes whose subtrees are still
    unexplored, so an enumeration can be split: explore breadth-first for a while,
    then hand the pending prefixes to other processes as their `roots`."""

    def __init__(self, make_run: Callable[[Sequence[int]], Trace], roots: Sequence[Sequence[int]] | None = None):
        self.make_run = make_run
        self.pending: list[list[int]] = [list(r) for r in roots] if roots is not None else [[]]
        self.count = 0

    def run(self, limit: int | None = None, breadth_first: bool = False) -> Iterator[Trace]:
        n = 0
        while self.pending and (limit is None or n < limit):
            prefix = self.pending.pop(0) if breadth_first else self.pending.pop()
            tr = self.make_run(prefix)
            n += 1
            self.count += 1
            if tr.mismatch is None:
                sched = tr.schedule
                for i in range(len(sched) - 1, len(prefix) - 1, -1):
                    for alt in tr.steps[i].candidates:
                        if alt != sched[i]:
                            self.pending.append(sched[:i] + [alt])
            yield tr


def explore(make_run: Callable[[Sequence[int]], Trace], limit: int | None = None) -> Iterator[Trace]:
    return Explorer(make_run).run(limit)
