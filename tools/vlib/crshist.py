"""Process histories for the CRS layer (odc/geo/crs.py), shared by every check whose property
quantifies over CRS pairs.

A property such as "every vertex maps exactly as the projection library maps it" or "the query
returns exactly the intersecting tiles" is stated for all inputs; the module-level caches of
odc.geo.crs (CRS objects by spec, pyproj Transformers by CRS pair and axis order, lazily identified
EPSG codes, units) make the outcome of a cross-CRS call depend on what the process did BEFORE the
call.  The checks therefore re-run a part of their cross-CRS cases after the perturbations below;
the replay of such a case names the perturbation, so it reproduces in a fresh process.

All functions use the public API of odc.geo.crs only.
"""
from __future__ import annotations

import gc

DEFAULT_SPECS = ("epsg:4326", "epsg:3857", "epsg:32633", "epsg:3577", "epsg:32755", "epsg:6933", "epsg:3031")


def authority_order_first(specs=DEFAULT_SPECS):
    """ask for the authority-axis-order (always_xy=False) transformer of every ordered pair: a later
    always_xy=True request for the same pair must still get the x,y-ordered one"""
    from odc.geo.crs import CRS
    cc = []
    for s in specs:
        try:
            cc.append(CRS(s))
        except Exception:  # noqa: BLE001
            pass
    for a in cc:
        for b in cc:
            if a is not b:
                try:
                    a.transformer_to_crs(b, always_xy=False)(0.5, 0.25)
                except Exception:  # noqa: BLE001
                    pass


def churn(n=200, salt=0):
    """build, use (to EPSG:4326 and back, both axis orders) and drop n distinct custom CRSs - more
    than any plausible bound of a CRS cache - then collect garbage, so that object addresses of
    dropped pyproj objects can be re-used by CRSs built afterwards"""
    from odc.geo.crs import CRS
    wgs = CRS("epsg:4326")
    for i in range(n):
        lon0 = -179 + ((i * 7 + salt * 13) % 359) + (salt % 7) / 8
        try:
            c = CRS(f"+proj=tmerc +lat_0={(i % 50) - 25} +lon_0={lon0} +k=0.9996 +x_0={500000 + i} +y_0={salt} +ellps=GRS80 +units=m +no_defs")
            c.transformer_to_crs(wgs)(1000.0, 2000.0)
            wgs.transformer_to_crs(c)(lon0, 0.0)
        except Exception:  # noqa: BLE001
            pass
        del c
    gc.collect()


def queries_first(specs=DEFAULT_SPECS):
    """read-only queries that fill lazily computed fields (epsg, units, dimensions, str, hash, wkt)
    on the cached CRS objects, and on custom CRSs without an EPSG code in other units"""
    from odc.geo.crs import CRS
    customs = ["+proj=lcc +lat_1=33 +lat_2=45 +lat_0=39 +lon_0=-96 +x_0=0 +y_0=0 +datum=NAD83 +units=us-ft +no_defs",
               "+proj=aea +lat_0=0 +lon_0=132 +lat_1=-18 +lat_2=-36 +x_0=0 +y_0=0 +ellps=GRS80 +units=km +no_defs",
               "+proj=utm +zone=55 +south +ellps=GRS80 +units=m +no_defs"]
    for s in list(customs) + list(specs):
        try:
            c = CRS(s)
            _ = (c.epsg, c.units, c.dimensions, str(c), hash(c), c.to_wkt(), c.geographic, c.projected, c.valid_region)
        except Exception:  # noqa: BLE001
            pass


PERTURBATIONS = {
    "authority-order-first": authority_order_first,
    "churn": churn,
    "queries-first": queries_first,
}


def perturb(names=("authority-order-first", "queries-first", "churn"), specs=DEFAULT_SPECS):
    """apply the named perturbations (in order); specs: the CRSs the caller is about to combine"""
    for nm in names:
        fn = PERTURBATIONS[nm]
        if nm == "churn":
            fn()
        else:
            fn(tuple(specs))


def after_history(predicates):
    """predicate wrapper: p(hist_names, specs, name, args) = perturb the caches, then predicates[name](*args).
    Registered by a check as PREDICATES["after_history"] so that replays reproduce in a fresh process."""
    def p_after_history(hist_names, specs, name, args):
        perturb(tuple(hist_names), tuple(specs))
        return predicates[name](*args)
    return p_after_history
