"""C19 part (a): lock-step histories of odc.geo.crs against Model/CrsCache.v.

Texts are interned as integers; the CPython/pyproj oracle of the model is a
finite table recorded here from the real libraries for every text a run can
meet.  A history is executed on the real module (caches cleared through the
module's own dicts first); after every operation the result and a digest of
the whole abstract state are recorded: `_crs_cache` in insertion order, the
transformer-cache keys, and the ids of the pyproj objects that are still alive
(observed through weak references).
"""
from __future__ import annotations

import gc
import itertools
import json
import pickle
import weakref

from vlib.core import cbool, cz

CODES = (4326, 3857)
PTS = [(10.5, 20.25), (-33.0, 41.5), (2.0, 3.0)]


class World:
    """Interned texts + oracle tables."""

    def __init__(self, codes=CODES, extra_strings=()):
        from pyproj.crs import CRS as P
        from pyproj.exceptions import CRSError

        self.P = P
        self.ids: dict[str, int] = {}
        self.oids: dict[int, int] = {}
        self.texts: list[str] = []
        self.codes = list(codes)
        self.dicts: dict[int, dict] = {}      # text id of json.dumps(d) -> d
        self.spec_strings: list[int] = []     # valid and invalid strings offered to CRS(...)
        self.by_code: dict[int, dict] = {}
        for n in codes:
            a = P.from_epsg(n)
            wkt = a.to_wkt()
            d = a.to_json_dict()
            j = json.dumps(d)
            forms = {"upper": f"EPSG:{n}", "lower": f"epsg:{n}", "mixed": f"Epsg:{n}", "wkt": wkt}
            for t in forms.values():
                self.spec_strings.append(self.tid(t))
            self.dicts[self.tid(j)] = d
            self.by_code[n] = {**{k: self.tid(v) for k, v in forms.items()}, "json": self.tid(j)}
        self.lossy = [self.tid("+proj=longlat +datum=WGS84 +no_defs"), self.tid("+proj=longlat +datum=WGS84 +no_defs +type=crs"),
                      self.tid("urn:ogc:def:crs:EPSG::4326"), self.tid("OGC:CRS84")]
        self.invalid = [self.tid("EPSG:999999"), self.tid("not a crs"), self.tid("epsg:")]
        # compound definitions spelled as authority strings (accepted since /repo 3b5294a, upper-cased since 64819b7)
        self.lossy += [self.tid("EPSG:4326+5773"), self.tid("epsg:4326+5773")]
        for t in extra_strings:
            self.lossy.append(self.tid(t))
        self.spec_strings += self.lossy + self.invalid
        # closure: every text that can become a key, an srs or a str
        self.prep: dict[int, int] = {}
        self.obj: dict[int, object] = {}      # srs id -> a pyproj object with that srs (kept alive for the tables)
        todo = list(self.spec_strings) + list(self.dicts) + [self.tid(f"EPSG:{n}") for n in codes]
        seen = set()
        while todo:
            t = todo.pop()
            if t in seen:
                continue
            seen.add(t)
            s = self.texts[t]
            u = self.tid(s.upper())
            if s.upper().startswith("EPSG:") and u not in seen:
                todo.append(u)
            try:
                o = P.from_user_input(s)
            except CRSError:
                continue
            r = self.tid(o.srs)
            self.prep[t] = r
            self.obj.setdefault(r, o)
            if r not in seen:
                todo.append(r)
        self.keytexts = sorted(seen)
        self.srs = sorted(self.obj)
        self.wkt = {r: self.tid(self.obj[r].to_wkt()) for r in self.srs}
        self.toepsg = {r: self.obj[r].to_epsg() for r in self.srs}
        # classes of pyproj ==
        self.cls: dict[int, int] = {}
        self.contract_failures: list[str] = []
        for r in self.srs:
            for q in self.srs:
                if q in self.cls and (self.obj[q] == self.obj[r]):
                    self.cls[r] = self.cls[q]
                    break
            else:
                self.cls[r] = r
        for a, b in itertools.product(self.srs, self.srs):
            if (self.obj[a] == self.obj[b]) != (self.cls[a] == self.cls[b]):
                self.contract_failures.append(f"pyproj == is not an equivalence on the alphabet: {self.texts[a][:40]!r} vs {self.texts[b][:40]!r}")
        self.upper = {t: self.tid(self.texts[t].upper()) for t in list(self.keytexts)}
        self.isepsg = [t for t in range(len(self.texts)) if self.texts[t].startswith("EPSG:")]
        self.code = {}
        for t in self.isepsg:
            try:
                self.code[t] = int(self.texts[t].split(":", 1)[1])
            except ValueError:
                pass
        self.etext = {n: self.tid(f"EPSG:{n}") for n in list(codes) + [999999, 1, 0, -1]}
        self.frozen = len(self.texts)

    def oid(self, i: int) -> int:
        """object ids (CPython addresses) relabelled injectively in order of first observation: the models only
        compare ids for equality, and small literals keep the generated Coq terms small"""
        if isinstance(i, int) and i < 0:
            return i
        if not isinstance(i, int):
            i = ("other", repr(i))      # a key component that is not an id: shows up as a digest mismatch
        j = self.oids.get(i)
        if j is None:
            j = len(self.oids) + 1
            self.oids[i] = j
        return j

    def tid(self, s: str) -> int:
        i = self.ids.get(s)
        if i is None:
            i = len(self.texts)
            self.ids[s] = i
            self.texts.append(s)
        return i

    def known(self, s: str) -> int:
        """text id of a string met during a run; it must be covered by the tables"""
        i = self.ids.get(s)
        if i is None or i >= self.frozen:
            raise KeyError(f"text outside the oracle tables: {s[:60]!r}")
        return i

    def coq_oracle(self) -> str:
        def tab(d):
            return "[" + "; ".join(f"({cz(k)}, {cz(v)})" for k, v in sorted(d.items())) + "]"
        toepsg = {k: v for k, v in self.toepsg.items() if v is not None}
        return ("(mk_oracle " + tab(self.upper) + " [" + "; ".join(cz(t) for t in self.isepsg) + "] " + tab(self.code) + " "
                + tab(self.etext) + " " + tab(self.prep) + " " + tab(self.wkt) + " " + tab(self.cls) + " " + tab(toepsg) + ")")

    # -- contracts assumed by the theorems, validated on the tables ---------
    def check_contracts(self) -> list[str]:
        bad = list(self.contract_failures)
        T = self.texts
        for t, u in self.upper.items():
            if T[u].upper() != T[u]:
                bad.append(f"upper not idempotent on {T[t][:40]!r}")
        for r in self.srs:
            if self.prep.get(r) != r:
                bad.append(f"from_user_input(srs).srs != srs for {T[r][:40]!r}")
        for t, r in self.prep.items():
            u = self.upper[t]
            if u in self.isepsg:
                if r != t:
                    bad.append(f"EPSG-like input {T[t]!r} has srs {T[r]!r}")
                if self.prep.get(u) is None or self.cls[self.prep[u]] != self.cls[r]:
                    bad.append(f"{T[t]!r} and its upper-case form are not pyproj-equal")
                # single-code strings only: a compound "EPSG:h+v" string has no code of its own (o_code = 0)
                if u in self.code and self.toepsg[r] != self.code[u]:
                    bad.append(f"to_epsg({T[t]!r}) = {self.toepsg[r]} differs from the code in the string")
                if u in self.code and (self.code[u] == 0 or T[u] != f"EPSG:{self.code[u]}"):
                    bad.append(f"{T[u]!r} is not spelled EPSG:<non-zero code>")
        for a, b in itertools.combinations(self.srs, 2):
            if self.cls[a] == self.cls[b]:
                ea, eb = self.toepsg[a], self.toepsg[b]
                if ea and eb and ea != eb:
                    bad.append(f"pyproj-equal objects with different EPSG codes: {T[a][:30]!r} {ea} / {T[b][:30]!r} {eb}")
            if self.wkt[a] == self.wkt[b] and self.cls[a] != self.cls[b]:
                bad.append(f"same WKT but not pyproj-equal: {T[a][:30]!r} / {T[b][:30]!r}")
        for n, t in self.etext.items():
            if T[t] != f"EPSG:{n}" or (t in self.code and self.code[t] != n):
                bad.append(f"EPSG text/code round trip fails for {n}")
        return bad


# ---------------------------------------------------------------------------
# Coq rendering
# ---------------------------------------------------------------------------
def coq_spec(s) -> str:
    k = s[0]
    if k == "int":
        return f"(SpInt {cz(s[1])})"
    if k in ("str", "dict", "pynew"):
        return f"({ {'str': 'SpStr', 'dict': 'SpDict', 'pynew': 'SpPyNew'}[k]} {cz(s[1])})"
    return f"({ {'py': 'SpPy', 'crs': 'SpCrs', 'pickle': 'SpPickle'}[k]} {int(s[1])}%nat)"


def coq_op(op, nid=0) -> str:
    k = op[0]
    if k == "newpy":
        return f"(OpNewPy {cz(op[1])} {cz(nid)})"
    if k == "crs":
        return f"(OpCRS {coq_spec(op[1])} {cz(nid)})"
    if k == "toepsg":
        return f"(OpToEpsg {op[1]}%nat)"
    if k == "eq":
        return f"(OpEq {op[1]}%nat {op[2]}%nat)"
    if k == "dropcrs":
        return f"(OpDropCrs {op[1]}%nat)"
    if k == "droppy":
        return f"(OpDropPy {op[1]}%nat)"
    if k == "gc":
        return "OpGc"
    if k == "tr":
        return f"(OpTransformer {op[1]}%nat {op[2]}%nat {cbool(op[3])})"
    raise ValueError(k)


def coq_oz(e) -> str:
    return "None" if e is None else f"(Some {cz(e)})"


# ---------------------------------------------------------------------------
# running a history on the real module
# ---------------------------------------------------------------------------
class Runner:
    def __init__(self, world: World):
        from odc.geo import crs as M

        self.M = M
        self.w = world
        self.fresh_cache: dict = {}

    def reset(self):
        self.M._crs_cache.clear()
        self.M._make_crs_transform.cache.clear()

    def run(self, ops, check_transformers=True):
        """Execute `ops`; returns (coq case text, vars, problems).  `problems` are
        transformer outputs that differ from a freshly built pyproj transformer."""
        M, w = self.M, self.w
        CRS = M.CRS
        self.reset()
        vars_: list = []
        pys: list = []
        reg: dict[int, weakref.ref] = {}
        dummy = [-10]
        problems = []

        def note(o):
            reg[id(o)] = weakref.ref(o)

        def digest():
            items = []
            for k, (o, s, e) in M._crs_cache.items():
                note(o)
                if isinstance(k, str):
                    kk = f"(KStr {cz(w.known(k))})"
                else:
                    note(k)
                    kk = f"(KObj {cz(w.oid(id(k)))} {cz(w.known(k.srs))})"
                items.append(f"({kk}, ({cz(w.oid(id(o)))}, {cz(w.known(o.srs))}, {cz(w.known(s))}, {cz(int(e))}))")
            tk = []
            for key in M._make_crs_transform.cache.keys():
                key = tuple(key) if isinstance(key, tuple) else (key,)
                a, b = (key + (0, 0))[:2]
                xy = key[2] if len(key) > 2 else True     # a key of another shape shows up as a digest mismatch
                tk.append(f"({cz(w.oid(a))}, {cz(w.oid(b))}, {cbool(xy)})")
            live = sorted(w.oid(i) for i, r in reg.items() if r() is not None)
            return f"(mkDigest [{'; '.join(items)}] [{'; '.join(tk)}] [{'; '.join(cz(i) for i in live)}])"

        def fresh_dummy():
            dummy[0] -= 1
            return dummy[0]

        def do(op):
            """returns (nid, obs text)"""
            from pyproj.exceptions import CRSError
            k = op[0]
            if k == "newpy":
                try:
                    p = w.P.from_user_input(w.texts[op[1]])
                except CRSError:
                    return fresh_dummy(), "ObsErr"
                note(p)
                pys.append(p)
                return w.oid(id(p)), f"(ObsId {cz(w.oid(id(p)))})"
            if k == "crs":
                s = op[1]
                n0 = len(M._crs_cache)
                nid = None
                try:
                    if s[0] == "int":
                        v = CRS(s[1])
                    elif s[0] == "str":
                        v = CRS(w.texts[s[1]])
                    elif s[0] == "dict":
                        v = CRS(w.dicts[s[1]])
                    elif s[0] == "pynew":
                        p = w.P.from_user_input(w.texts[s[1]])
                        note(p)
                        nid = w.oid(id(p))
                        v = CRS(p)
                        del p
                    elif s[0] == "py":
                        if s[1] >= len(pys) or pys[s[1]] is None:
                            return fresh_dummy(), "ObsErr"
                        v = CRS(pys[s[1]])
                    elif s[0] == "crs":
                        if s[1] >= len(vars_) or vars_[s[1]] is None:
                            return fresh_dummy(), "ObsErr"
                        v = CRS(vars_[s[1]])
                    elif s[0] == "pickle":
                        if s[1] >= len(vars_) or vars_[s[1]] is None:
                            return fresh_dummy(), "ObsErr"
                        v = pickle.loads(pickle.dumps(vars_[s[1]]))
                    else:
                        raise ValueError(s)
                except CRSError:
                    return (nid if nid is not None else fresh_dummy()), "ObsErr"
                note(v._crs)
                if nid is None:
                    nid = w.oid(id(v._crs)) if len(M._crs_cache) > n0 or s[0] != "dict" else fresh_dummy()
                vars_.append(v)
                return nid, (f"(ObsCrs {cz(w.oid(id(v._crs)))} {cz(w.known(v._crs.srs))} {cz(w.known(v._str))} {coq_oz(v._epsg)})")
            if k in ("toepsg", "dropcrs"):
                if op[1] >= len(vars_) or vars_[op[1]] is None:
                    return 0, "ObsErr"
                if k == "toepsg":
                    return 0, f"(ObsEpsg {coq_oz(vars_[op[1]].to_epsg())})"
                vars_[op[1]] = None
                return 0, "ObsNone"
            if k == "droppy":
                if op[1] >= len(pys) or pys[op[1]] is None:
                    return 0, "ObsErr"
                pys[op[1]] = None
                return 0, "ObsNone"
            if k == "gc":
                gc.collect()
                return 0, "ObsNone"
            if k in ("eq", "tr"):
                i, j = op[1], op[2]
                if i >= len(vars_) or j >= len(vars_) or vars_[i] is None or vars_[j] is None:
                    return 0, "ObsErr"
                if k == "eq":
                    return 0, f"(ObsBool {cbool(vars_[i] == vars_[j])})"
                f = vars_[i].transformer_to_crs(vars_[j], always_xy=op[3])
                if check_transformers:
                    bad = self.transformer_differs(f, vars_[i], vars_[j], op[3])
                    if bad:
                        problems.append({"i": i, "j": j, "always_xy": op[3], "detail": bad})
                return 0, "ObsTr"
            raise ValueError(op)

        steps = []
        prev = None
        self.strs = []
        for op in ops:
            n0 = len(vars_)
            nid, obs = do(op)
            self.strs.append(str(vars_[-1]) if op[0] == "crs" and len(vars_) > n0 else None)
            d = digest()
            steps.append(f"({coq_op(op, nid)}, {obs}, {'None' if d == prev else '(Some ' + d + ')'})")
            prev = d
        return "CHist [" + ";\n  ".join(steps) + "]", vars_, problems

    def transformer_differs(self, f, a, b, xy):
        """compare with a transformer built from scratch for exactly this pair"""
        from pyproj import Transformer
        w = self.w
        ref = Transformer.from_crs(w.obj[w.known(a._crs.srs)], w.obj[w.known(b._crs.srs)], always_xy=xy)
        for (x, y) in PTS:
            got = f(x, y)
            want = ref.transform(x, y)
            if repr(tuple(got)) != repr(tuple(want)):
                return f"({x},{y}): cached transformer gives {got}, a fresh {a._crs.srs[:30]!r}->{b._crs.srs[:30]!r} transformer gives {want}"
        return ""
