"""Evaluation of many boolean checks by vm_compute, one `Eval` per case.

core.coq_eval_failures puts all cases of a shard into one list literal, whose
elaboration is quadratic in the number of elements; with several thousand
small cases per run one `Eval vm_compute` command per case is linear and an
order of magnitude cheaper.  Same contract: indices of the cases whose check
evaluates to false (anything unparsable raises ModelEvalError)."""
from __future__ import annotations

import re
import subprocess
from pathlib import Path
from typing import Sequence

from vlib import core


def eval_failures(requires: Sequence[str], check_fn: str, cases: Sequence[str], scratch: Path, tag: str,
                  nshards: int = 6, timeout: int = 600) -> tuple[list[int], str]:
    n = len(cases)
    if n == 0:
        return [], ""
    core.ensure_built(requires)
    size = max(1, -(-n // nshards))
    procs = []
    for k in range(0, n, size):
        part = cases[k:k + size]
        body = ["From Coq Require Import ZArith QArith List String Bool.", "Import ListNotations.", "Open Scope Z_scope."]
        body += [f"From {core.LOGICAL} Require Import {r}." for r in requires]
        body.append(f"Definition F := {check_fn}.")
        body += [f"Eval vm_compute in (F ({c}))." for c in part]
        f = scratch / f"{tag}_{k // size}.v"
        f.write_text("\n".join(body) + "\n")
        cmd = ["timeout", str(timeout), "coqc", "-q", "-w", "-notation-overridden", "-Q", str(core.COQ), core.LOGICAL, str(f)]
        procs.append((k, len(part), f, subprocess.Popen(cmd, cwd=str(scratch), stdout=subprocess.PIPE, stderr=subprocess.STDOUT, text=True)))
    fails: list[int] = []
    logs = []
    for k, m, f, p in procs:
        outp, _ = p.communicate()
        if p.returncode != 0:
            raise core.ModelEvalError(f.name, outp[-3000:])
        vals = re.findall(r"=\s*(true|false)\s*:\s*bool", outp)
        if len(vals) != m:
            raise core.ModelEvalError(f.name, f"expected {m} results, got {len(vals)}\n" + outp[-2000:])
        fails += [k + i for i, v in enumerate(vals) if v == "false"]
        logs.append(f"== {f.name}: {m} cases, {sum(v == 'false' for v in vals)} false")
    return sorted(fails), "\n".join(logs)
