"""Shared helpers of the C03 / C10 checks: exact affine algebra over Fraction,
Coq literal emitters for Model/Overlap.v, exactness filters (decide from the
*inputs* whether every float operation on the path is exact, using only
third-party float arithmetic, never the function under test) and the GeoBox
pair generator on the exactness domain."""
from __future__ import annotations

import math
from fractions import Fraction as Fr

from vlib.core import cbool, copt, cq, ctuple, cz

CRS = "EPSG:3857"
DEFAULT_CONSTS = (1e-10, 1e-8, 1e-3)  # is_affine_st tol, snap_affine tol, _pick_read_scale tol


# ------------------------------------------------------------------ exact affine algebra
def aff6(A) -> tuple:
    """affine.Affine (or 6 numbers) -> 6 Fractions a b c d e f (exact value of each float)."""
    return tuple(Fr(v) for v in tuple(A)[:6])


def amul(A, B):
    a, b, c, d, e, f = A
    a2, b2, c2, d2, e2, f2 = B
    return (a * a2 + b * d2, a * b2 + b * e2, a * c2 + b * f2 + c,
            d * a2 + e * d2, d * b2 + e * e2, d * c2 + e * f2 + f)


def ainv(A):
    a, b, c, d, e, f = A
    det = a * e - b * d
    ra, rb, rd, re = e / det, -b / det, -d / det, a / det
    return (ra, rb, -c * ra - f * rb, rd, re, -c * rd - f * re)


def aapply(A, p):
    a, b, c, d, e, f = A
    x, y = p
    return (a * x + b * y + c, d * x + e * y + f)


def is_f64(x: Fr) -> bool:
    try:
        return Fr(float(x)) == x
    except OverflowError:
        return False


def sqrt_fr(x: Fr):
    if x < 0:
        return None
    n, d = math.isqrt(x.numerator), math.isqrt(x.denominator)
    if n * n == x.numerator and d * d == x.denominator:
        return Fr(n, d)
    return None


# ------------------------------------------------------------------ Coq literals
def caff(A) -> str:
    return "(mkAff " + " ".join(cq(v) for v in aff6(A)) + ")"


def cconsts(c=DEFAULT_CONSTS) -> str:
    return "(mkConsts " + " ".join(cq(Fr(v)) for v in c) + ")"


def cpair(p) -> str:
    return ctuple(cz(p[0]), cz(p[1]))


def csl(s) -> str:
    return cpair((s.start, s.stop))


def croi(roi) -> str:
    return ctuple(csl(roi[0]), csl(roi[1]))


def cqq(p) -> str:
    return ctuple(cq(Fr(p[0])), cq(Fr(p[1])))


def cerr(e: BaseException) -> str:
    import numpy as np
    if isinstance(e, AssertionError):
        return "(Err (EAssert 0))"
    if isinstance(e, np.linalg.LinAlgError):
        return "(Err EOther)"
    if isinstance(e, ValueError):
        return "(Err EValue)"
    return "(Err ERuntime)"


def cinfo(r) -> str:
    return (f"(mkInfo {croi(r.roi_src)} {croi(r.roi_dst)} {cbool(r.paste_ok)} {cz(r.read_shrink)} "
            f"{cq(Fr(r.scale))} {cqq(r.scale2.xy)})")


# ------------------------------------------------------------------ exactness filters
def scale2_exact(A6) -> bool:
    """Is every float operation of decompose_rws (A^T A, 2x2 Cholesky) exact on A?
    Decided from the mathematical definition of the factor."""
    a, b, _, d, e, _ = A6
    m11, m12, m22 = a * a + d * d, a * b + d * e, b * b + e * e
    if not all(is_f64(v) for v in (a * a, d * d, a * b, d * e, b * b, e * e, m11, m12, m22)):
        return False
    l11 = sqrt_fr(m11)
    if l11 is None or l11 == 0 or not is_f64(l11):
        return False
    l21 = m12 / l11
    if not (is_f64(l21) and is_f64(l21 * l21) and is_f64(m22 - l21 * l21)):
        return False
    l22 = sqrt_fr(m22 - l21 * l21)
    return l22 is not None and is_f64(l22)


def scaled_exact(A6, k: int) -> bool:
    """Is Affine.scale(1/k) * A exact in binary64?"""
    inv = 1.0 / k
    return all(Fr(inv * float(v)) == v / k for v in A6)


def points_exact(A, pts) -> bool:
    """Is the float evaluation A * (x, y) exact for each of the points?"""
    A6 = aff6(A)
    for x, y in pts:
        fx, fy = A * (float(x), float(y))
        ex, ey = aapply(A6, (Fr(x), Fr(y)))
        if Fr(fx) != ex or Fr(fy) != ey:
            return False
    return True


def far_from_int(x: Fr, eps=Fr(1, 10 ** 9)) -> bool:
    return abs(x - round(x)) > eps


def axis_args_robust(Ns, Nd, s: Fr, t: Fr) -> bool:
    """compute_axis_overlap(Ns, Nd, s, t): are 1/s, -t/s, Ns/s-t/s, Nd*s+t computed
    exactly, or else far from the integers where floor/ceil could flip?"""
    if s == 0:
        return True
    if s < 0:
        s, t = -s, Ns - t
    if not (is_f64(t) and is_f64(Nd * s + t)):
        return False
    inv = 1 / s
    if is_f64(inv) and is_f64(-t * inv) and is_f64(Ns * inv) and is_f64((Ns - t) * inv):
        return True
    return far_from_int(-t * inv) and far_from_int((Ns - t) * inv)


# ------------------------------------------------------------------ generators
def dyadic(rng, lo, hi, bits=4) -> Fr:
    q = 1 << bits
    return Fr(rng.randint(int(lo * q), int(hi * q)), q)


PLACEMENTS = ("inside", "left", "right", "touch_lo", "touch_hi", "disjoint_lo", "disjoint_hi", "cover", "equal")


def place(rng, kind, n_src, n_dst_in_src):
    """offset (in source pixels, integer) of a destination extent of n_dst_in_src
    source pixels relative to a source axis of n_src pixels"""
    n, m = n_src, n_dst_in_src
    if kind == "inside":
        return rng.randint(0, max(0, n - m))
    if kind == "left":
        return -rng.randint(1, max(1, m - 1))
    if kind == "right":
        return n - rng.randint(1, max(1, m - 1))
    if kind == "touch_lo":
        return -m
    if kind == "touch_hi":
        return n
    if kind == "disjoint_lo":
        return -m - rng.randint(1, 6)
    if kind == "disjoint_hi":
        return n + rng.randint(1, 6)
    if kind == "cover":
        return -rng.randint(0, 3)
    return 0


def mk_pair(src_shape, dst_shape, A_target, base=None):
    """GeoBoxes (src, dst) in one CRS such that dst-pixel -> src-pixel is A_target
    (affine.Affine, dst -> src): src.affine = base, dst.affine = base * A_target."""
    from affine import Affine
    from odc.geo.geobox import GeoBox
    base = base if base is not None else Affine(16.0, 0.0, 4096.0, 0.0, -16.0, 8192.0)
    src = GeoBox(src_shape, base, CRS)
    dst = GeoBox(dst_shape, base * A_target, CRS)
    return src, dst


def true_A(src, dst):
    """Exact dst-pixel -> src-pixel map of two same-CRS GeoBoxes: inv(S) * D over Fraction."""
    return amul(ainv(aff6(src.affine)), aff6(dst.affine))
