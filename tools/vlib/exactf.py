"""Exactness-domain helpers for the float-over-Q correspondence (DESIGN.md section 3).

`XF` is a `float` subclass whose arithmetic re-computes every operation in
`Fraction` and records any step whose binary64 result is not the exact
rational result.  The harness runs the *real* function once on plain floats
(that result is the one compared with the Gallina model) and once on `XF`
inputs; a case with a recorded inexact step lies outside the exactness domain
and is discarded and counted as a generator escape, never reported as a
disagreement.
"""
from __future__ import annotations

import math
from fractions import Fraction


class _State:
    inexact = 0
    ops = 0


STATE = _State()


def _fin(x) -> bool:
    return isinstance(x, int) or math.isfinite(x)


def _mk(r, exact_fn, a, b=None):
    STATE.ops += 1
    if isinstance(r, float) and math.isfinite(r) and _fin(a) and (b is None or _fin(b)):
        try:
            ex = exact_fn()
            if ex != Fraction(r):
                STATE.inexact += 1
        except ZeroDivisionError:
            pass
    return XF(r) if isinstance(r, float) else r


def _ok(o) -> bool:
    return isinstance(o, (int, float)) and not isinstance(o, bool)


class XF(float):
    __slots__ = ()

    def __add__(self, o):
        if not _ok(o):
            return NotImplemented
        return _mk(float.__add__(self, float(o)), lambda: Fraction(self) + Fraction(o), self, o)

    __radd__ = __add__

    def __sub__(self, o):
        if not _ok(o):
            return NotImplemented
        return _mk(float.__sub__(self, float(o)), lambda: Fraction(self) - Fraction(o), self, o)

    def __rsub__(self, o):
        if not _ok(o):
            return NotImplemented
        return _mk(float.__rsub__(self, float(o)), lambda: Fraction(o) - Fraction(self), self, o)

    def __mul__(self, o):
        if not _ok(o):
            return NotImplemented
        return _mk(float.__mul__(self, float(o)), lambda: Fraction(self) * Fraction(o), self, o)

    __rmul__ = __mul__

    def __truediv__(self, o):
        if not _ok(o):
            return NotImplemented
        return _mk(float.__truediv__(self, float(o)), lambda: Fraction(self) / Fraction(o), self, o)

    def __rtruediv__(self, o):
        if not _ok(o):
            return NotImplemented
        return _mk(float.__rtruediv__(self, float(o)), lambda: Fraction(o) / Fraction(self), self, o)

    def __neg__(self):
        return XF(float.__neg__(self))

    def __pos__(self):
        return self

    def __abs__(self):
        return XF(float.__abs__(self))


def wrap(x):
    """Wrap floats (recursively through tuples/lists) into XF."""
    if isinstance(x, float) and not isinstance(x, XF):
        return XF(x)
    if isinstance(x, tuple):
        return tuple(wrap(v) for v in x)
    if isinstance(x, list):
        return [wrap(v) for v in x]
    return x


def is_exact(fn, *args, **kw) -> bool:
    """Run fn on XF-wrapped arguments; True when no float step was inexact
    (exceptions raised by fn are fine: the plain run reports them)."""
    STATE.inexact = 0
    try:
        fn(*[wrap(a) for a in args], **{k: wrap(v) for k, v in kw.items()})
    except Exception:
        pass
    return STATE.inexact == 0


def isrep(fr) -> bool:
    """Is the rational exactly representable as a binary64 float?"""
    try:
        f = float(fr)
    except OverflowError:
        return False
    return math.isfinite(f) and Fraction(f) == Fraction(fr)


def F(x) -> Fraction:
    return Fraction(x)
