"""Shared machinery of the /verif checks (see DESIGN.md section 2).

Everything a property module needs: environment, Coq build, evaluation of the
Gallina models on generated cases, Coq literal emitters, evidence and replay
files, known-findings handling and the verdict protocol.
"""
from __future__ import annotations

import fcntl
import hashlib
import json
import os
import random
import re
import shutil
import subprocess
import sys
import tempfile
import time
from fractions import Fraction
from pathlib import Path
from typing import Any, Callable, Iterable, Sequence

VERIF = Path(__file__).resolve().parents[2]
COQ = VERIF / "coq"
REPO = Path(os.environ.get("VERIF_REPO", "/repo"))
EVIDENCE = VERIF / "evidence"
REPLAYS = EVIDENCE / "replays"
LOGICAL = "OG"
GUARD = "ODC_GEO_VERIF"
COQ_TIMEOUT = int(os.environ.get("VERIF_COQ_TIMEOUT", "900"))
FORBIDDEN = re.compile(
    r"\b(Admitted|admit|Axiom|Axioms|Parameter|Parameters|Conjecture|Conjectures|Hypothesis|"
    r"Hypotheses|Variable|Variables|Admit Obligations|Unset Guard Checking|bypass_check|"
    r"Unset Positivity Checking|Unset Universe Checking|type-in-type|impredicative-set)\b"
)


# --------------------------------------------------------------------------
# environment
# --------------------------------------------------------------------------
def child_env() -> dict:
    env = dict(os.environ)
    env["PYTHONPATH"] = str(REPO)
    env["PYTHONHASHSEED"] = "0"
    env["PIP_NO_INDEX"] = "1"
    env[GUARD] = "1"
    env["OMP_NUM_THREADS"] = "1"
    return env


def seed() -> int:
    try:
        return int(os.environ.get("VERIF_SEED", "0"))
    except ValueError:
        return 0


def rng(tag: str = "") -> random.Random:
    h = hashlib.sha256(f"{seed()}:{tag}".encode()).digest()
    return random.Random(int.from_bytes(h[:8], "big"))


class Scratch:
    """Per-invocation scratch directory (outside /verif and /repo), removed on exit."""

    def __init__(self):
        self.path = Path(tempfile.mkdtemp(prefix="verif-"))

    def __enter__(self):
        return self.path

    def __exit__(self, *a):
        shutil.rmtree(self.path, ignore_errors=True)


# --------------------------------------------------------------------------
# Coq: project build
# --------------------------------------------------------------------------
def coq_sources() -> list[str]:
    out = []
    for sub in ("Base", "Model", "Gen", "Proofs", "Props"):
        d = COQ / sub
        if d.is_dir():
            out += sorted(str(p.relative_to(COQ)) for p in d.glob("*.v"))
    return out


def grep_gate(files: Iterable[Path] | None = None) -> list[str]:
    """Return offending lines: forbidden vernacular anywhere in the development.
    `Variable`/`Hypothesis` are allowed only inside a Section (oracles)."""
    bad = []
    files = list(files) if files is not None else [COQ / f for f in coq_sources()]
    for f in files:
        depth = 0
        txt = strip_comments(f.read_text())
        for ln, line in enumerate(txt.splitlines(), 1):
            if re.match(r"\s*Section\b", line):
                depth += 1
            m = FORBIDDEN.search(line)
            if m:
                w = m.group(1)
                if w in ("Variable", "Variables", "Hypothesis", "Hypotheses") and depth > 0:
                    pass
                else:
                    bad.append(f"{f}:{ln}: {line.strip()}")
            if re.match(r"\s*End\b", line) and depth > 0:
                depth -= 1
    return bad


def strip_comments(txt: str) -> str:
    out = []
    i, depth, n = 0, 0, len(txt)
    while i < n:
        if txt.startswith("(*", i):
            depth += 1
            i += 2
        elif txt.startswith("*)", i) and depth:
            depth -= 1
            i += 2
        else:
            if depth == 0:
                out.append(txt[i])
            elif txt[i] == "\n":
                out.append("\n")
            i += 1
    return "".join(out)


class CoqBuildError(Exception):
    def __init__(self, target, log):
        super().__init__(f"coq build failed: {target}")
        self.target = target
        self.log = log


def _ensure_makefile():
    srcs = coq_sources()
    proj = f"-Q . {LOGICAL}\n-arg -w -arg -notation-overridden,-deprecated-hint-without-locality,-deprecated-instance-without-locality\n" + "\n".join(srcs) + "\n"
    pf = COQ / "_CoqProject"
    if not pf.exists() or pf.read_text() != proj or not (COQ / "Makefile").exists():
        pf.write_text(proj)
        subprocess.run(["coq_makefile", "-f", "_CoqProject", "-o", "Makefile"], cwd=COQ, check=True,
                       stdout=subprocess.DEVNULL, stderr=subprocess.DEVNULL)


REGEN_ERRORS: dict[str, str] = {}


def regenerate() -> dict[str, str]:
    """Regenerate coq/Gen/*.v from the current /repo sources with tools/py2v (fail closed:
    a refused translation removes the stale generated file so that nothing can be proved
    against text that no longer corresponds to the source).  Returns {out file: error}."""
    sys.path.insert(0, str(VERIF / "tools"))
    from py2v import spec, translate

    errs: dict[str, str] = {}
    (COQ / "Gen").mkdir(exist_ok=True)
    for mod in spec.MODULES:
        dst = COQ / mod["out"]
        try:
            txt = translate.translate_module(REPO, mod)
        except Exception as e:  # noqa: BLE001 - Refused, SyntaxError, missing file ...
            errs[mod["out"]] = f"{type(e).__name__}: {e}"
            if dst.exists():
                dst.unlink()
            continue
        if not dst.exists() or dst.read_text() != txt:
            dst.write_text(txt)
    REGEN_ERRORS.clear()
    REGEN_ERRORS.update(errs)
    return errs


def gen_modules_for(prop: str) -> list[str]:
    sys.path.insert(0, str(VERIF / "tools"))
    from py2v import spec
    return [m["out"] for m in spec.MODULES if prop in m.get("props", [])]


def coq_make(targets: Sequence[str] | None = None, jobs: int = 16, timeout: int | None = None,
             keep_going: bool = False) -> tuple[bool, str]:
    """Full .vo build (never -vos) of the given targets (default: everything),
    serialised by a lock so that concurrent checks do not race on .vo files.
    The generated sources are refreshed from /repo first."""
    timeout = timeout or COQ_TIMEOUT
    COQ.mkdir(exist_ok=True)
    lock = open(COQ / ".build.lock", "w")
    fcntl.flock(lock, fcntl.LOCK_EX)
    try:
        regenerate()
        _ensure_makefile()
        cmd = ["timeout", str(timeout), "make", f"-j{jobs}", "--no-print-directory"]
        if keep_going:
            cmd.append("-k")
        if targets:
            cmd += list(targets)
        p = subprocess.run(cmd, cwd=COQ, stdout=subprocess.PIPE, stderr=subprocess.STDOUT, text=True)
        return p.returncode == 0, p.stdout
    finally:
        fcntl.flock(lock, fcntl.LOCK_UN)
        lock.close()


_BUILT: set[str] = set()


def ensure_built(requires: Sequence[str]) -> None:
    """build (full .vo) the listed OG modules unless this process already did"""
    todo = [r for r in requires if r not in _BUILT and (COQ / (r.replace(".", "/") + ".v")).exists()]
    if todo:
        coq_make([r.replace(".", "/") + ".vo" for r in todo])
        _BUILT.update(todo)


def coqc_file(path: Path, extra_q: Sequence[tuple[str, str]] = (), timeout: int = 300, cwd: Path | None = None) -> tuple[bool, str]:
    cmd = ["timeout", str(timeout), "coqc", "-q", "-w", "-notation-overridden,-deprecated-hint-without-locality",
           "-Q", str(COQ), LOGICAL]
    for d, name in extra_q:
        cmd += ["-Q", str(d), name]
    cmd.append(str(path))
    p = subprocess.run(cmd, cwd=str(cwd or path.parent), stdout=subprocess.PIPE, stderr=subprocess.STDOUT, text=True)
    return p.returncode == 0, p.stdout


def check_props_file(prop: str, scratch: Path) -> dict:
    """Re-check Props/<prop>.v in a scratch copy (so the Print Assumptions output
    of *this* run is captured) and parse theorems + assumptions."""
    src = COQ / "Props" / f"{prop}.v"
    dst = scratch / f"Chk{prop}.v"
    shutil.copy(src, dst)
    ok, out = coqc_file(dst, timeout=600)
    txt = strip_comments(src.read_text())
    theorems = re.findall(r"^\s*(?:Theorem|Lemma|Corollary)\s+([A-Za-z0-9_']+)", txt, re.M)
    assumptions = parse_assumptions(out)
    return {"ok": ok, "log": out, "theorems": theorems, "assumptions": assumptions}


def coqchk(prop: str, timeout: int = 1500) -> tuple[bool, str, list[str]]:
    """Re-check Props/<prop>.vo and everything it depends on with the independent checker."""
    cmd = ["timeout", str(timeout), "coqchk", "-silent", "-o", "-Q", str(COQ), LOGICAL, f"{LOGICAL}.Props.{prop}"]
    p = subprocess.run(cmd, cwd=str(COQ), stdout=subprocess.PIPE, stderr=subprocess.STDOUT, text=True)
    out = p.stdout
    ax: list[str] = []
    m = re.search(r"\* Axioms:(.*?)\n\s*\n\* ", out, re.S)
    if m and "<none>" not in m.group(1):
        ax = [l.strip() for l in m.group(1).splitlines() if l.strip()]
    bad = any(k in out and "<none>" not in out.split(k, 1)[1].split("\n* ", 1)[0]
              for k in ("relying on type-in-type:", "relying on unsafe (co)fixpoints:", "positivity is assumed:"))
    return p.returncode == 0 and not bad, out[-3000:], ax


def parse_assumptions(out: str) -> dict:
    """Parse the output of a series of `Print Assumptions`.  Returns
    {'closed': n, 'axioms': sorted list of axiom names seen}."""
    closed = len(re.findall(r"Closed under the global context", out))
    axioms = set()
    in_ax = False
    for line in out.splitlines():
        if line.startswith("Axioms:"):
            in_ax = True
            continue
        if in_ax:
            m = re.match(r"^([A-Za-z_][A-Za-z0-9_.']*)\s*:", line)
            if m:
                axioms.add(m.group(1))
            elif line and not line.startswith(" "):
                in_ax = False
    return {"closed": closed, "axioms": sorted(axioms)}


# --------------------------------------------------------------------------
# Coq literals
# --------------------------------------------------------------------------
def cz(n: int) -> str:
    n = int(n)
    return f"({n})%Z"


def cq(x) -> str:
    f = Fraction(x)
    return f"({f.numerator} # {f.denominator})%Q"


def cnat(n: int) -> str:
    return f"{int(n)}%nat"


def cbool(b) -> str:
    return "true" if b else "false"


def copt(x, f=cz) -> str:
    return "None" if x is None else f"(Some {f(x)})"


def clist(xs, f=cz) -> str:
    return "[" + "; ".join(f(x) for x in xs) + "]"


def ctuple(*xs: str) -> str:
    return "(" + ", ".join(xs) + ")"


def cstr(s: str) -> str:
    return '"' + s.replace('"', '""') + '"%string'


# --------------------------------------------------------------------------
# Model evaluation by generated case files (Eval vm_compute)
# --------------------------------------------------------------------------
def coq_eval_failures(requires: Sequence[str], case_type: str, check_fn: str, cases: Sequence[str],
                      scratch: Path, shard: int = 300, tag: str = "cases", jobs: int = 16,
                      timeout: int = 600) -> tuple[list[int], str]:
    """Evaluate `check_fn : case_type -> bool` (a Gallina function comparing the
    model's result with the implementation's recorded result) on every case.
    Returns indices of cases for which it is false, and the concatenated logs.
    One coqc process per shard, run in parallel."""
    # the case modules are not in the build closure of Props/<id>.v: build them on demand, so that a check also
    # works on a tree on which `./check --setup` was not run
    ensure_built(requires)
    files = []
    offsets: dict[str, int] = {}
    for k in range(0, len(cases), shard):
        part = cases[k:k + shard]
        name = f"{tag}_{k // shard}"
        body = ["From Coq Require Import ZArith QArith List String Bool.", "Import ListNotations.",
                "Open Scope Z_scope."]
        body += [f"From {LOGICAL} Require Import {r}." for r in requires]
        body.append(f"Definition cs : list (nat * ({case_type})) := [")
        # indices are local to the shard (nat literals are unary: large ones are slow); offset added below
        body.append(";\n".join(f" ({i}%nat, {c})" for i, c in enumerate(part)))
        body.append("].")
        body.append(f"Definition bad := map fst (filter (fun c => negb ({check_fn} (snd c))) cs).")
        body.append("Eval vm_compute in (List.length cs, bad).")
        f = scratch / f"{name}.v"
        f.write_text("\n".join(body) + "\n")
        files.append(f)
        offsets[f.name] = k
    procs = []
    logs = []
    failures: list[int] = []
    pending = list(files)
    running: list[tuple[Path, subprocess.Popen]] = []

    def launch(f):
        cmd = ["timeout", str(timeout), "coqc", "-q", "-w", "-notation-overridden", "-Q", str(COQ), LOGICAL, str(f)]
        return subprocess.Popen(cmd, cwd=str(scratch), stdout=subprocess.PIPE, stderr=subprocess.STDOUT, text=True)

    while pending or running:
        while pending and len(running) < jobs:
            f = pending.pop(0)
            running.append((f, launch(f)))
        f, p = running.pop(0)
        out, _ = p.communicate()
        logs.append(f"== {f.name} rc={p.returncode}\n{out}")
        if p.returncode != 0:
            raise ModelEvalError(f.name, out)
        flat = " ".join(out.split())
        m = re.search(r"=\s*\(\s*(\d+)(?:%nat)?\s*,\s*\[(.*?)\]\s*\)", flat)
        if not m:
            raise ModelEvalError(f.name, out)
        body = m.group(2).strip()
        if body:
            failures += [offsets[f.name] + int(re.sub(r"%nat", "", t).strip()) for t in body.split(";")]
    return sorted(failures), "\n".join(logs)


def coq_eval_terms(requires: Sequence[str], terms: Sequence[str], scratch: Path, tag: str = "ev",
                   timeout: int = 300) -> list[str]:
    """Evaluate each term with vm_compute and return the printed values (flattened text)."""
    ensure_built(requires)
    body = ["From Coq Require Import ZArith QArith List String Bool.", "Import ListNotations.", "Open Scope Z_scope."]
    body += [f"From {LOGICAL} Require Import {r}." for r in requires]
    for i, t in enumerate(terms):
        body.append(f'Eval vm_compute in ({t}).')
    f = scratch / f"{tag}.v"
    f.write_text("\n".join(body) + "\n")
    ok, out = coqc_file(f, timeout=timeout, cwd=scratch)
    if not ok:
        raise ModelEvalError(f.name, out)
    vals = re.split(r"^\s*= ", out, flags=re.M)[1:]
    return [" ".join(v.split()) for v in vals]


class ModelEvalError(Exception):
    def __init__(self, name, log):
        super().__init__(f"model evaluation failed in {name}")
        self.log = log


# --------------------------------------------------------------------------
# known findings
# --------------------------------------------------------------------------
def load_findings() -> list[dict]:
    out = []
    f = VERIF / "known_findings.txt"
    if not f.exists():
        return out
    for line in f.read_text().splitlines():
        line = line.strip()
        if not line or line.startswith("#"):
            continue
        m = re.match(r"^(open|fixed):\s+property=(\S+)\s+(.*)$", line)
        if not m:
            continue
        kind, prop, rest = m.groups()
        d = {"kind": kind, "property": prop, "text": rest}
        km = re.match(r"key=(\S+)\s+(.*)$", rest)
        if km:
            d["key"], d["text"] = km.groups()
        out.append(d)
    return out


def open_findings(prop: str) -> dict[str, dict]:
    return {d["key"]: d for d in load_findings() if d["kind"] == "open" and d["property"] == prop and "key" in d}


# --------------------------------------------------------------------------
# verdict protocol
# --------------------------------------------------------------------------
class Outcome:
    """Collects what a run of one property's check established."""

    def __init__(self, prop: str, tier: str):
        self.prop = prop
        self.tier = tier
        self.t0 = time.time()
        self.obligations: list[dict] = []      # {name, kind, ok, detail}
        self.violations: list[dict] = []       # {key, what, replay(dict)}
        self.known: list[str] = []
        self.evaluations = 0
        self.nontrivial: set = set()
        self.samples: list = []
        self.dist: dict[str, int] = {}
        self.assumptions: list[str] = []
        self.trusted: list[str] = []
        self.axioms: list[str] = []
        self.notes: list[str] = []
        self.checker_cmd = ""
        self.rule = ""
        self.exhaustive = False
        REPLAYS.mkdir(parents=True, exist_ok=True)
        for old in REPLAYS.glob(f"{prop}-*.json"):
            old.unlink()

    # -- obligations ------------------------------------------------------
    def oblige(self, name: str, kind: str, ok: bool, detail: str = ""):
        self.obligations.append({"name": name, "kind": kind, "ok": bool(ok), "detail": detail[-4000:]})

    def count(self, key: str, n: int = 1):
        self.dist[key] = self.dist.get(key, 0) + n

    def case(self, canon, nontrivial: bool = True, sample=None):
        self.evaluations += 1
        if nontrivial:
            self.nontrivial.add(hashlib.sha1(repr(canon).encode()).hexdigest()[:16])
        if sample is not None and len(self.samples) < 6:
            self.samples.append(sample)

    def broken(self) -> list[dict]:
        return [o for o in self.obligations if not o["ok"]]

    # -- violations -------------------------------------------------------
    def violation(self, key: str, what: str, replay: dict, found_input: bool = True):
        self.violations.append({"key": key, "what": what, "replay": replay, "found_input": found_input})

    # -- finish -----------------------------------------------------------
    def finish(self) -> int:
        EVIDENCE.mkdir(exist_ok=True)
        REPLAYS.mkdir(exist_ok=True)
        opened = open_findings(self.prop)
        lines = []
        nviol = 0
        for v in self.violations:
            if v["key"] in opened and v["found_input"]:
                lines.append(f"KNOWN-FINDING: property={self.prop} {opened[v['key']]['text']}")
                continue
            nviol += 1
            h = hashlib.sha1(json.dumps(v["replay"], sort_keys=True, default=str).encode()).hexdigest()[:10]
            path = REPLAYS / f"{self.prop}-{h}.json"
            path.write_text(json.dumps({"property": self.prop, "key": v["key"], "what": v["what"],
                                        **v["replay"]}, indent=1, default=str))
            tail = "" if v["found_input"] else " no-failing-input-found"
            lines.append(f"VIOLATION property={self.prop} replay={path}{tail}")
        # broken obligations without any violation recorded by the search
        if self.broken() and nviol == 0:
            names = [o["name"] for o in self.broken()]
            rp = {"broken_obligations": self.broken(), "note": "proof obligation or correspondence no longer checks; "
                  "the failing-input search over model and implementation found no concrete failing input"}
            h = hashlib.sha1(json.dumps(names).encode()).hexdigest()[:10]
            path = REPLAYS / f"{self.prop}-{h}.json"
            path.write_text(json.dumps({"property": self.prop, **rp}, indent=1, default=str))
            lines.append(f"VIOLATION property={self.prop} replay={path} no-failing-input-found")
            nviol += 1
        wall = time.time() - self.t0
        n_ob = len(self.obligations)
        n_ok = sum(1 for o in self.obligations if o["ok"])
        ev = {
            "property_id": self.prop,
            "tier": self.tier,
            "seed": seed(),
            "level": "proof",
            "coverage": {
                "obligations": max(n_ob, 0),
                "discharged": n_ok,
                "checker_cmd": self.checker_cmd,
                "trusted_base": self.trusted + [f"axioms reported by Print Assumptions: {', '.join(self.axioms) if self.axioms else 'none (Closed under the global context)'}"],
                "obligation_list": [{k: o[k] for k in ("name", "kind", "ok")} for o in self.obligations],
                "evaluations": self.evaluations,
                "distinct_nontrivial": len(self.nontrivial),
                "rule": self.rule,
                "samples": self.samples,
                "input_distribution": dict(sorted(self.dist.items())),
                "exhaustive": self.exhaustive,
                "notes": self.notes,
            },
            "assumptions": self.assumptions,
            "wall_s": round(wall, 2),
            "violations": nviol,
            "known_findings_reported": len([l for l in lines if l.startswith("KNOWN-FINDING")]),
        }
        (EVIDENCE / f"{self.prop}.json").write_text(json.dumps(ev, indent=1, default=str))
        for l in lines:
            print(l)
        print(f"[{self.prop}] tier={self.tier} obligations={n_ok}/{n_ob} evaluations={self.evaluations} "
              f"distinct_nontrivial={len(self.nontrivial)} violations={nviol} wall={wall:.1f}s")
        if nviol:
            for o in self.broken():
                print(f"[{self.prop}] BROKEN {o['kind']} {o['name']}: {o['detail'][-600:]}")
        return 1 if nviol else 0


def corpus(prop: str) -> list[dict]:
    """Minimised past failures and witnesses of fixed findings; they run first."""
    d = VERIF / "corpus" / prop
    out = []
    if d.is_dir():
        for f in sorted(d.glob("*.json")):
            r = json.loads(f.read_text())
            r["_file"] = f.name
            out.append(r)
    return out


def short(x, n=300):
    s = repr(x)
    return s if len(s) <= n else s[:n] + "..."
