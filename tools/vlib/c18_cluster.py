"""C18 oracle validation: the cluster-coordinated path of DelayedS3Writer on a REAL
in-process dask.distributed cluster (no network, no processes), with a fake S3
client.  It validates that the installed `distributed.Variable` / `distributed.Lock`
are constructed and used by odc/geo/cog/_s3.py in a way they accept -- the contract
the fake Variable/Lock of the scheduled harness (tools/props/c18.py) stand for.

Everything that travels to the workers is defined at module level here so that it
pickles by reference.
"""
from __future__ import annotations

import ast
import inspect
import logging
import threading
import time
from pathlib import Path

_REG: dict[str, "FakeS3"] = {}
_REG_LOCK = threading.Lock()


class FakeS3:
    """Thread-safe recorder standing in for the boto3 client (one per object key)."""

    def __init__(self):
        self.lk = threading.Lock()
        self.calls: list[tuple] = []
        self.n = 0
        self.delay = 0.02     # how long create_multipart_upload takes

    def create_multipart_upload(self, **kw):
        with self.lk:
            self.n += 1
            uid = f"upload-{self.n}"
            self.calls.append(("create", uid))
        time.sleep(self.delay)    # the window in which another worker could initiate too
        return {"UploadId": uid}

    def upload_part(self, **kw):
        with self.lk:
            self.calls.append(("upload", kw["PartNumber"], kw["UploadId"]))
        return {"ETag": f"etag-{kw['PartNumber']}"}

    def complete_multipart_upload(self, **kw):
        with self.lk:
            self.calls.append(("complete", kw["UploadId"], len(kw["MultipartUpload"]["Parts"])))
        return {"ETag": "etag-final"}


def fake_s3(key: str) -> FakeS3:
    with _REG_LOCK:
        return _REG.setdefault(key, FakeS3())


class _Lazy:
    cls = None


def ClusterMPU(bucket, key, **kw):   # pylint: disable=invalid-name
    """MultiPartUpload whose s3_client() is the recorder for its key (built lazily so that
    importing this module does not import odc.geo)."""
    if _Lazy.cls is None:
        from odc.geo.cog._s3 import MultiPartUpload

        class ClusterMPUImpl(MultiPartUpload):
            def s3_client(self):
                return fake_s3(self.key)

            def __reduce__(self):
                return (_rebuild, (self.bucket, self.key, self.uploadId))
        _Lazy.cls = ClusterMPUImpl
    return _Lazy.cls(bucket, key, **kw)


def _rebuild(bucket, key, upload_id):
    return ClusterMPU(bucket, key, uploadId=upload_id)


def task_write(writer, part):
    return writer(part, f"part-{part}".encode())


def task_finalise(writer, parts):
    return writer.finalise(parts)


def real_cluster_check(rounds: int = 3, nwriters: int = 6, timeout: float = 120.0, late_rounds: int = 1,
                       reuse_rounds: int = 0, slow_rounds: int = 0, slow_create: float = 4.0) -> dict:
    """`rounds` objects, each written by `nwriters` concurrent first writes submitted as
    tasks to a 2-worker in-process cluster (every task unpickles its own copy of the
    writer), then finalised.  The first `late_rounds` writers are created BEFORE the client
    exists (graph built first, cluster started later: no prep_client, the shared variable is
    never pre-set).  The last `reuse_rounds` objects are first written to by an EARLIER upload
    (own MultiPartUpload + writer, two parts written, never finalised, so cleanup_client never
    ran) and then uploaded again: only the calls of the second upload are judged.  Returns {"status": "ok" | "fail" | "skipped", "detail", "runs"}."""
    try:
        import distributed
    except Exception as e:  # pylint: disable=broad-except
        return {"status": "skipped", "detail": f"distributed not importable: {type(e).__name__}: {e}", "runs": []}
    import odc.geo.cog._s3 as S3

    for name in ("distributed", "distributed.worker", "distributed.scheduler", "distributed.nanny", "distributed.core"):
        logging.getLogger(name).setLevel(logging.CRITICAL)
    early = []
    try:
        for r in range(late_rounds):
            key = f"real-cluster/late-object-{r}.tif"
            with _REG_LOCK:
                _REG.pop(key, None)
            mpu = ClusterMPU("bucket", key)
            early.append((key, mpu.writer({"ContentType": "image/tiff"})))    # no client anywhere yet
    except Exception as e:  # pylint: disable=broad-except
        return {"status": "fail", "detail": f"MultiPartUpload.writer() without a client raised {type(e).__name__}: {e}",
                "runs": []}
    try:
        client = distributed.Client(processes=False, n_workers=2, threads_per_worker=2, dashboard_address=None,
                                    set_as_default=False, timeout=timeout)
    except Exception as e:  # pylint: disable=broad-except
        return {"status": "skipped", "detail": f"in-process cluster did not start: {type(e).__name__}: {str(e)[:200]}",
                "runs": []}
    # _safe_get's 0.1 s time-out is not part of the model (and would make this validation depend on machine
    # load): stretch it for the duration of the check.
    orig_safe_get = S3._safe_get          # pylint: disable=protected-access
    stretch = [5.0]
    S3._safe_get = lambda v, timeout=0.1: orig_safe_get(v, stretch[0])   # pylint: disable=protected-access
    runs = []
    problems = []
    try:
        for r in range(len(early) + rounds + reuse_rounds + slow_rounds):
            skip_calls = 0
            if r < len(early):
                # a get on the never-set variable has to run into its time-out (twice, by the initiating task)
                key, writer = early[r]
                stretch[0] = 2.0
            else:
                key = f"real-cluster/object-{r - len(early)}.tif"
                stretch[0] = 5.0
                with _REG_LOCK:
                    _REG.pop(key, None)
                if r >= len(early) + rounds + reuse_rounds:
                    # S3 answers the initiation slowly: everybody else has to WAIT for the lock that long
                    key = f"real-cluster/slow-object-{r - len(early) - rounds - reuse_rounds}.tif"
                    with _REG_LOCK:
                        _REG.pop(key, None)
                    fake_s3(key).delay = slow_create
                elif r >= len(early) + rounds:
                    key = f"real-cluster/reused-object-{r - len(early) - rounds}.tif"
                    with _REG_LOCK:
                        _REG.pop(key, None)
                    old = ClusterMPU("bucket", key).writer({"ContentType": "image/tiff"}, client=client)
                    for f in [client.submit(task_write, old, p, pure=False) for p in (1, 2)]:
                        f.result(timeout=timeout)           # the earlier upload is abandoned here
                    skip_calls = len(fake_s3(key).calls)
                mpu = ClusterMPU("bucket", key)
                writer = mpu.writer({"ContentType": "image/tiff"}, client=client)
            futs = [client.submit(task_write, writer, p, pure=False) for p in range(1, nwriters + 1)]
            parts, failed = [], []
            for p, f in enumerate(futs, 1):
                try:
                    parts.append(f.result(timeout=timeout))
                except Exception as e:  # pylint: disable=broad-except
                    failed.append(f"write {p}: {type(e).__name__}: {str(e)[:160]}")
            fin = None
            if not failed:
                try:
                    fin = client.submit(task_finalise, writer, parts, pure=False).result(timeout=timeout)
                except Exception as e:  # pylint: disable=broad-except
                    failed.append(f"finalise: {type(e).__name__}: {str(e)[:160]}")
            calls = list(fake_s3(key).calls)[skip_calls:]
            creates = [c for c in calls if c[0] == "create"]
            ids = {c[1] for c in creates}
            wrong = [c for c in calls if c[0] == "upload" and c[2] not in ids] + \
                    [c for c in calls if c[0] == "complete" and c[1] not in ids]
            ups = sorted(c[1] for c in calls if c[0] == "upload")
            ok = (not failed and len(creates) == 1 and not wrong and ups == list(range(1, nwriters + 1))
                  and fin == {"Bucket": "bucket", "Key": key, "ETag": "etag-final"}
                  and sorted(p["PartNumber"] for p in parts) == ups)
            runs.append({"key": key, "creates": len(creates), "uploads": ups, "failed": failed, "ok": ok})
            if not ok:
                problems.append(f"{key}: {len(creates)} initiation(s), uploads {ups}, "
                                f"calls under a foreign id: {wrong[:2]}, failures: {failed[:2]}")
    finally:
        S3._safe_get = orig_safe_get      # pylint: disable=protected-access
        try:
            client.close(timeout=30)
        except Exception:  # pylint: disable=broad-except
            pass
    return {"status": "fail" if problems else "ok", "detail": "; ".join(problems), "runs": runs}


# ------------------------------------------------------------------------ static contract check
def distributed_call_sites(src_path: Path) -> list[dict]:
    """Calls of names imported from `distributed` in the given source (from its AST):
    [{name (as exported by distributed), lineno, nargs, keywords, arg_names}]"""
    tree = ast.parse(Path(src_path).read_text())
    alias: dict[str, str] = {}
    for node in ast.walk(tree):
        if isinstance(node, ast.ImportFrom) and node.module == "distributed":
            for a in node.names:
                alias[a.asname or a.name] = a.name
    out = []
    for node in ast.walk(tree):
        if isinstance(node, ast.Call) and isinstance(node.func, ast.Name) and node.func.id in alias:
            out.append({"name": alias[node.func.id], "lineno": node.lineno, "nargs": len(node.args),
                        "keywords": [k.arg for k in node.keywords],
                        "arg_names": [a.id if isinstance(a, ast.Name) else None for a in node.args],
                        "kw_names": {k.arg: (k.value.id if isinstance(k.value, ast.Name) else None) for k in node.keywords}})
    return out


def static_contract(src_path: Path) -> tuple[bool | None, str]:
    """Every constructor call of distributed.Variable / distributed.Lock in the source binds against
    the INSTALLED signature, and a variable called `client` only ever lands in a parameter called
    `client`.  (None, reason) when distributed is not importable."""
    try:
        import distributed
    except Exception as e:  # pylint: disable=broad-except
        return None, f"distributed not importable: {type(e).__name__}"
    sites = distributed_call_sites(src_path)
    bad = []
    seen = set()
    for s in sites:
        obj = getattr(distributed, s["name"], None)
        if obj is None:
            bad.append(f"line {s['lineno']}: distributed.{s['name']} does not exist")
            continue
        if not inspect.isclass(obj):
            continue
        seen.add(s["name"])
        sig = inspect.signature(obj)
        try:
            bound = sig.bind(*[object()] * s["nargs"], **{k: object() for k in s["keywords"]})
        except TypeError as e:
            bad.append(f"line {s['lineno']}: {s['name']}{sig} rejects the call ({e})")
            continue
        params = list(bound.arguments)
        for i, nm in enumerate(s["arg_names"]):
            if nm == "client" and params[i] != "client":
                bad.append(f"line {s['lineno']}: `client` is passed as parameter `{params[i]}` of "
                           f"distributed.{s['name']}{sig}")
        for k, nm in s["kw_names"].items():
            if nm == "client" and k != "client":
                bad.append(f"line {s['lineno']}: `client` is passed as `{k}=` to distributed.{s['name']}")
    for need in ("Variable", "Lock"):
        if need not in seen:
            bad.append(f"no constructor call of distributed.{need} found in {Path(src_path).name} (harness out of date?)")
    detail = "; ".join(bad) if bad else "call sites: " + ", ".join(
        f"{s['name']}@{s['lineno']}({s['nargs']} positional{', ' + ','.join(s['keywords']) if s['keywords'] else ''})" for s in sites)
    return not bad, detail
