#!/bin/bash
# usage: tools/merge_branch.sh <name>   (branch b-<name> in /verif and /repo; worktrees /tmp/vw/<name>, /tmp/rw/<name>)
# Merges the verif branch, cherry-picks the repo fix commits (oldest first), remaps commit hashes in
# findings/notes/corpus, appends findings to known_findings.txt.  Does not remove worktrees.
set -e
n=$1
cd /verif
[ -z "$(git status --porcelain)" ] || { echo "/verif not clean"; exit 2; }
[ -z "$(git -C /repo status --porcelain)" ] || { echo "/repo not clean"; exit 2; }
base=$(git -C /repo merge-base main b-$n)
commits=$(git -C /repo rev-list --reverse $base..b-$n)
declare -A map
for c in $commits; do
  subj=$(git -C /repo log -1 --format=%s $c)
  if git -C /repo log main --format=%s | grep -qxF "$subj"; then
    echo "already on main: $subj"
    new=$(git -C /repo log main --format='%h %s' | grep -F " $subj" | head -1 | cut -d' ' -f1)
  else
    git -C /repo cherry-pick $c >/dev/null || { echo "cherry-pick of $c failed"; exit 3; }
    new=$(git -C /repo rev-parse --short HEAD)
    echo "picked $(git -C /repo rev-parse --short $c) -> $new $subj"
  fi
  map[$(git -C /repo rev-parse --short $c)]=$new
done
git merge --no-ff -q -m "merge b-$n" b-$n || { echo "verif merge conflict"; exit 4; }
for old in "${!map[@]}"; do
  new=${map[$old]}
  [ "$old" == "$new" ] && continue
  grep -rl --exclude-dir=.git "$old" docs/notes corpus tools/props coq 2>/dev/null | xargs -r sed -i "s/$old/$new/g"
done
for f in docs/notes/*.findings.txt; do
  [ -f "$f" ] || continue
  while IFS= read -r line; do
    [ -z "$line" ] && continue
    case "$line" in \#*) continue;; esac
    grep -qxF "$line" known_findings.txt || echo "$line" >> known_findings.txt
  done < "$f"
done
git add -A; git commit -qm "merge b-$n: remap fix commit ids, findings" || true
echo "merged $n"
