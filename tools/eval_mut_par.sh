#!/bin/bash
# usage: tools/eval_mut_par.sh <suffix e.g. r4> <njobs> <Cxx...>
# Like eval_mut.sh for many properties at once: njobs verif worktrees (each with its own coq build) evaluate
# disjoint subsets of the given properties.  Results in /tmp/mut/res_<Cxx><suffix>.json, log on stdout.
suf=$1; n=$2; shift 2; ids=("$@")
cd /verif
for j in $(seq 1 $n); do git worktree add -q --detach /tmp/vw/e$j HEAD || exit 2; done
for j in $(seq 1 $n); do
  (
    cd /tmp/vw/e$j && ./check --setup > setup.log 2>&1
    for k in "${!ids[@]}"; do
      [ $((k % n + 1)) -eq $j ] || continue
      VERIF_DIR=/tmp/vw/e$j tools/eval_mut.sh "${ids[$k]}" $suf
    done > eval.log 2>&1
  ) &
done
wait
for j in $(seq 1 $n); do cat /tmp/vw/e$j/eval.log; git worktree remove --force /tmp/vw/e$j; done
