"""C14 — a GridSpec tiles the plane without gaps or overlaps.

Correspondence: coq/Model/GridSpec.v against odc.geo.math.Bin1D and
odc.geo.gridspec.GridSpec on an exactness domain (dyadic coordinates, small
integer * power-of-two resolutions) where every float operation of the code is
exact; the 1e-8 tolerance enters the model as Fraction(1e-8).  Search: the
property's clauses evaluated directly on the implementation.
"""
from __future__ import annotations

import itertools
import types
from fractions import Fraction as F

from vlib import core
from vlib.core import cbool, clist, cq, ctuple, cz

ID = "C14"
ALLOWED_AXIOMS: list[str] = []
CRS = "epsg:3857"
TOL = 1e-8
QTOL = F(TOL)


# ---------------------------------------------------------------- helpers
def fq(x) -> F:
    return F(x)


def enc_num(x):
    if isinstance(x, bool) or x is None:
        return x
    if isinstance(x, int):
        return x
    if isinstance(x, str):
        return "str:" + x
    return str(F(x))


def dec_num(x):
    if isinstance(x, str) and x.startswith("str:"):
        return x[4:]
    if isinstance(x, str):
        f = F(x)
        v = float(f)
        assert F(v) == f
        return v
    return x


def make_grid(p, crs=None):
    """p = (ny, nx, ry, rx, ox, oy, fx, fy) -> GridSpec (real implementation)."""
    from odc.geo import resyx_, xy_
    from odc.geo.gridspec import GridSpec

    ny, nx, ry, rx, ox, oy, fx, fy = p
    return GridSpec(crs or CRS, (ny, nx), resyx_(ry, rx), origin=xy_(ox, oy), flipx=fx, flipy=fy)


def cparams(p) -> str:
    ny, nx, ry, rx, ox, oy, fx, fy = p
    return ctuple(cz(ny), cz(nx), cq(ry), cq(rx), cq(ox), cq(oy), cbool(fx), cbool(fy))


def cbin(sz, o, d) -> str:
    return ctuple(cq(sz), cq(o), cz(d))


def cgsum(g) -> str:
    ny, nx = g.tile_shape
    xb, yb = g._xbin, g._ybin
    return ctuple(cz(ny), cz(nx), ctuple(cq(g.resolution.y), cq(g.resolution.x)),
                  ctuple(cq(g.origin.x), cq(g.origin.y)), ctuple(cq(g.tile_size.x), cq(g.tile_size.y)),
                  cbin(xb.sz, xb.origin, xb.direction), cbin(yb.sz, yb.origin, yb.direction))


def cq4(b) -> str:
    return ctuple(*(cq(v) for v in b))


def cidx(ii) -> str:
    return "[" + "; ".join(ctuple(cz(a), cz(b)) for a, b in ii) + "]"


def cres(f, call):
    try:
        v = call()
    except AssertionError:
        return "(Err (EAssert 0))", "AssertionError"
    except ValueError:
        return "(Err EValue)", "ValueError"
    except ZeroDivisionError:
        return "(Err EOther)", "ZeroDivisionError"
    return f"(Ok {f(v)})", "ok"


# ---------------------------------------------------------------- exactness domain
RES_M = [1, 1, 2, 3, 5, 6, 10, 25, 30]
RES_J = [-4, -3, -2, -1, 0, 0, 1, 2, 3]


def gen_res(rng) -> float:
    return float(rng.choice([-1, 1]) * rng.choice(RES_M) * F(2) ** rng.choice(RES_J))


def gen_dy(rng, span=2 ** 11, bits=6) -> float:
    """dyadic rational with denominator 2^bits, |x| <= span"""
    e = rng.choice([0, 0, 1, 2, bits])
    return float(F(rng.randint(-span * 2 ** e, span * 2 ** e), 2 ** e))


def gen_params(rng, small=False):
    shp = [1, 2, 3, 4, 5, 7, 8] if small else [1, 2, 3, 4, 5, 7, 8, 100, 256, 4000]
    ny, nx = rng.choice(shp), rng.choice(shp)
    ry, rx = gen_res(rng), gen_res(rng)
    if rng.random() < 0.3:
        ox, oy = 0.0, 0.0
    else:
        ox, oy = gen_dy(rng), gen_dy(rng)
    return (ny, nx, ry, rx, ox, oy, rng.random() < 0.5, rng.random() < 0.5)


def axis_of(p, axis):
    """(origin, size, dir) of one axis in exact arithmetic, from the parameters only"""
    ny, nx, ry, rx, ox, oy, fx, fy = p
    if axis == "x":
        return F(ox), nx * abs(F(rx)), (-1 if fx else 1)
    return F(oy), ny * abs(F(ry)), (-1 if fy else 1)


def coord_safe(o: F, sz: F, a: F, af: F) -> bool:
    """Generator-side exactness filter for one coordinate that the code computes
    in floating point (exact value a, rounded value af) and then bins: keep the
    case only if rounding cannot move the coordinate across a bin edge."""
    if a == af and a.denominator <= 2 ** 12 and abs(a) < 2 ** 20 and (sz * 2 ** 12).denominator == 1:
        return True           # all operands dyadic with few bits: every float step is exact
    if o == 0 and a == af and abs(a) < F(1, 2 ** 20) and sz >= F(1, 2 ** 10):
        return True           # tiny exact value next to the edge at 0: sign decides
    q = (a - o) / sz
    d = min(q - (q.numerator // q.denominator), (q.numerator // q.denominator) + 1 - q) * sz
    return d > F(1, 2 ** 42) * (1 + abs(a) + abs(o))


def bounds_safe(p, b) -> bool:
    x1, y1, x2, y2 = b
    ok = True
    for axis, lo, hi in (("x", x1, x2), ("y", y1, y2)):
        o, sz, _ = axis_of(p, axis)
        ok = ok and coord_safe(o, sz, F(lo) + QTOL, F(lo + TOL)) and coord_safe(o, sz, F(hi) - QTOL, F(hi - TOL))
    return ok


def edge_values(rng, p, axis):
    """coordinates at, next to and within tol of tile edges of the grid"""
    o, sz, _ = axis_of(p, axis)
    k = rng.randint(-3, 3)
    e = o + k * sz
    u = F(2) ** -78
    vals = [e, e + sz / 2, e - sz / 4, e + F(1, 64), e - F(1, 64)]
    if o == 0:
        # exact neighbours of the edge at 0: -tol, -tol +- few ulp, +tol ...
        vals += [-QTOL, -QTOL + u, -QTOL - u, QTOL, QTOL + u, QTOL - u, F(0), 3 * u, -3 * u,
                 -QTOL + 3 * u, QTOL - 3 * u, QTOL / 2, -QTOL / 2]
    else:
        vals += [F(float(e) + TOL), F(float(e) - TOL), F(float(e) + 3 * TOL), F(float(e) - 3 * TOL),
                 F(float(e) + TOL / 2), F(float(e) - TOL / 2)]
    v = rng.choice(vals)
    fv = float(v)
    return fv


def gen_bounds(rng, p):
    """query box: edges random dyadic / on tile edges / within tol of tile edges; at most ~8 tiles per axis"""
    out = []
    for axis in ("x", "y"):
        o, sz, _ = axis_of(p, axis)
        mode = rng.random()
        if mode < 0.55:
            lo = edge_values(rng, p, axis)
            hi = edge_values(rng, p, axis)
            if rng.random() < 0.8 and hi < lo:
                lo, hi = hi, lo
        elif mode < 0.8:
            lo = float(o + F(rng.randint(-24, 24), 8) * sz)
            hi = float(F(lo) + F(rng.randint(0, 40), 8) * sz)
        else:
            lo = float(o + F(rng.randint(-400, 400), 64))
            hi = float(F(lo) + F(rng.randint(0, 300), 64))
        if F(hi) - F(lo) > 8 * sz:
            hi = float(F(lo) + 8 * sz)
        out.append((lo, hi))
    (x1, x2), (y1, y2) = out
    return (x1, y1, x2, y2)


# ---------------------------------------------------------------- correspondence cases
def gen_cases(out, tier):
    from odc.geo import geom
    from odc.geo import gridspec as GS
    from odc.geo.geom import BoundingBox
    from odc.geo.math import Bin1D

    rng = core.rng("c14")
    cases = []
    escapes = 0
    big = tier != "quick"

    def add(kind, text, canon, nontrivial=True, sample=None):
        cases.append(text)
        out.count(kind)
        out.case((kind, canon), nontrivial, sample)

    # ---- Bin1D: constructor domain (incl. malformed), getitem, bin, from_sample_bin
    for sz, o, d in itertools.product([0.5, 3.0, 0.0, -1.0, 0.75], [0.0, -2.5, 7.0], [1, -1, 0, 2, -2]):
        t, kind = cres(lambda b: cbin(b.sz, b.origin, b.direction), lambda: Bin1D(sz, o, d))
        add("bin_new:" + kind, f"CBinNew {cq(sz)} {cq(o)} {cz(d)} {t}", (sz, o, d), kind == "ok")
    for _ in range(90 if not big else 1500):
        sz = float(rng.choice(RES_M) * F(2) ** rng.choice(RES_J) * rng.choice([1, 1, 3, 100, 256]))
        o = gen_dy(rng)
        d = rng.choice([1, -1])
        b = Bin1D(sz, o, d)
        for i in (0, 1, -1, rng.randint(-40, 40), rng.randint(-3000, 3000)):
            lo, hi = b[i]
            add("bin_get", f"CBinGet {cq(sz)} {cq(o)} {cz(d)} {cz(i)} {ctuple(cq(lo), cq(hi))}", (sz, o, d, i))
            # points on the edges, just inside, in the middle
            for x in (lo, hi, float(F(lo) + F(sz) / 2), float(F(lo) + F(1, 1024)), float(F(hi) - F(1, 1024))):
                if F(x).denominator > 2 ** 12 or abs(x) >= 2 ** 20:
                    escapes += 1
                    continue
                add("bin_bin", f"CBinBin {cq(sz)} {cq(o)} {cz(d)} {cq(x)} {cz(b.bin(x))}", (sz, o, d, x))
        x = gen_dy(rng, bits=10)
        add("bin_bin", f"CBinBin {cq(sz)} {cq(o)} {cz(d)} {cq(x)} {cz(b.bin(x))}", (sz, o, d, x))
        # from_sample_bin, incl. malformed (x0 >= x1, bad direction)
        j = rng.randint(-30, 30)
        x0, x1 = b[j]
        for (i_, a_, b_, d_) in ((j, x0, x1, d), (j, x1, x0, d), (j, x0, x0, d), (j, x0, x1, rng.choice([0, 2])),
                                 (rng.randint(-9, 9), gen_dy(rng), gen_dy(rng), rng.choice([1, -1]))):
            t, kind = cres(lambda v: cbin(v.sz, v.origin, v.direction), lambda: Bin1D.from_sample_bin(i_, (a_, b_), d_))
            add("bin_sample:" + kind, f"CBinSample {cz(i_)} {cq(a_)} {cq(b_)} {cz(d_)} {t}", (i_, a_, b_, d_), kind == "ok")

    # ---- GridSpec constructor: valid and malformed (zero / negative shape, zero resolution)
    for _ in range(60 if not big else 400):
        p = list(gen_params(rng))
        r = rng.random()
        if r < 0.25:
            p[rng.choice([0, 1])] = rng.choice([0, -1, -3])
        elif r < 0.45:
            p[rng.choice([2, 3])] = 0.0
        p = tuple(p)
        t, kind = cres(cgsum, lambda: make_grid(p))
        add("gs_new:" + kind, f"CGsNew {cparams(p)} {t}", p, True,
            {"op": "GridSpec", "params": [enc_num(v) for v in p], "result": kind})

    # ---- per grid: point lookup, tile geobox, bbox queries, polygon queries, from_sample_tile
    ngrids = 48 if not big else 700
    for gi in range(ngrids):
        p = gen_params(rng, small=(gi % 2 == 0))
        g = make_grid(p)
        cp = cparams(p)
        idxs = [(0, 0), (1, -1), (-1, 2), (rng.randint(-50, 50), rng.randint(-50, 50))]
        for (ix, iy) in idxs:
            gb = g.tile_geobox((ix, iy))
            A = gb.affine
            assert A.b == 0 and A.d == 0
            bb = gb.boundingbox
            exp = ctuple(cz(gb.shape.y), cz(gb.shape.x), cq(A.a), cq(A.c), cq(A.e), cq(A.f))
            add("tile_geobox", f"CGeobox {cp} {cz(ix)} {cz(iy)} {exp} {cq4(bb.bbox)}", (p, ix, iy), True,
                {"op": "tile_geobox", "params": [enc_num(v) for v in p], "idx": [ix, iy],
                 "bbox": [enc_num(v) for v in bb.bbox]} if gi < 2 else None)
            # the four corners, the centre and points just inside
            x0, y0, x1, y1 = bb.bbox
            pts = [(x0, y0), (x1, y0), (x0, y1), (x1, y1), ((x0 + x1) / 2, (y0 + y1) / 2),
                   (x0, (y0 + y1) / 2), ((x0 + x1) / 2, y1)]
            for (x, y) in pts:
                if F(x).denominator > 2 ** 12 or F(y).denominator > 2 ** 12 or max(abs(x), abs(y)) >= 2 ** 20:
                    escapes += 1
                    continue
                got = g.pt2idx(x, y)
                add("pt2idx", f"CPt {cp} {cq(x)} {cq(y)} {ctuple(cz(got.x), cz(got.y))}", (p, x, y))
        for _ in range(6):
            x, y = gen_dy(rng, bits=10), gen_dy(rng, bits=10)
            got = g.pt2idx(x, y)
            add("pt2idx", f"CPt {cp} {cq(x)} {cq(y)} {ctuple(cz(got.x), cz(got.y))}", (p, x, y))

        nq = 10 if not big else 14
        for qi in range(nq):
            b = gen_bounds(rng, p)
            if not bounds_safe(p, b):
                escapes += 1
                continue
            bbox = BoundingBox(*b, crs=CRS)
            ib = tuple(int(v) for v in g.idx_bounds(bbox))
            add("idx_bounds", f"CIdxBounds {cp} {cq(QTOL)} {cq4(b)} {ctuple(*(cz(v) for v in ib))}", (p, b))
            if (ib[2] - ib[0]) * (ib[3] - ib[1]) <= 200:
                tt = [i for i, _ in g.tiles(bbox)]
                add("tiles", f"CTiles {cp} {cq(QTOL)} {cq4(b)} {cidx(tt)}", (p, b), len(tt) > 0,
                    {"op": "tiles", "params": [enc_num(v) for v in p], "bounds": [enc_num(v) for v in b],
                     "result": tt} if gi < 3 and qi < 2 else None)
        # polygon queries (same CRS, dyadic vertices): triangle / quadrilateral around tile corners
        for _ in range(3):
            ox_, szx, _ = axis_of(p, "x")
            oy_, szy, _ = axis_of(p, "y")
            k = rng.randint(-2, 2)
            pts = []
            for _ in range(rng.choice([3, 4])):
                pts.append((float(ox_ + (k + F(rng.randint(-16, 16), 8)) * szx),
                            float(oy_ + (k + F(rng.randint(-16, 16), 8)) * szy)))
            poly = geom.polygon(pts + [pts[0]], CRS)
            if not poly.is_valid or poly.is_empty or poly.area == 0:
                escapes += 1
                continue
            bb = poly.boundingbox
            b = tuple(bb.bbox)
            if not bounds_safe(p, b):
                escapes += 1
                continue
            cand = [(i, gb) for i, gb in g.tiles(bb)]
            tab = [(i, bool(poly.disjoint(gb.extent) or poly.touches(gb.extent))) for i, gb in cand]   # oracle: no overlap
            got = [i for i, _ in g.tiles_from_geopolygon(poly)]
            ctab = "[" + "; ".join(ctuple(cz(i[0]), cz(i[1]), cbool(d)) for i, d in tab) + "]"
            add("tiles_from_geopolygon", f"CPoly {cp} {cq(QTOL)} {cq4(b)} {ctab} {cidx(got)}", (p, pts),
                0 < len(got) < len(cand))
        # from_sample_tile from tiles of this grid and from unrelated boxes, incl. malformed
        for (ix, iy) in idxs[:3]:
            ext = g.tile_geobox((ix, iy)).extent
            b = tuple(ext.boundingbox.bbox)
            variants = [((p[0], p[1]), (ix, iy), p[6], p[7]), ((p[0], p[1]), (ix, iy), not p[6], p[7]),
                        ((-1, -1), (ix, iy), p[6], p[7])]
            if gi % 5 == 0:
                variants += [((0, p[1]), (ix, iy), p[6], p[7]), ((p[0], 0), (ix, iy), p[6], p[7])]
            for shape, idx, fx, fy in variants:
                t, kind = cres(cgsum, lambda: GS.GridSpec.from_sample_tile(ext, shape=shape, idx=idx, flipx=fx, flipy=fy))
                add("from_sample_tile:" + kind,
                    f"CSample {cq4(b)} {cz(shape[0])} {cz(shape[1])} {cz(idx[0])} {cz(idx[1])} {cbool(fx)} {cbool(fy)} {t}",
                    (b, shape, idx, fx, fy), kind == "ok")

    # ---- web tiles: real constant for the zoom levels where pi*R*(1-2^(1-z)) is a binary64 number,
    #      and with math.pi patched to a dyadic value so that every zoom level is exact
    import math as _math
    R = 6_378_137
    for z in (0, 1, 2):
        h = _math.pi * R
        for npix in (256, 512, 1):
            t, kind = cres(cgsum, lambda: GS.GridSpec.web_tiles(z, npix))
            add("web_tiles", f"CWeb {cq(h)} {cz(z)} {cz(npix)} {t}", ("real", z, npix))
    saved = GS.math
    try:
        for fake_pi in (2.0 ** -20, 3 * 2.0 ** -22):
            GS.math = types.SimpleNamespace(pi=fake_pi)
            h = fake_pi * R
            assert F(h) == F(fake_pi) * R
            for z in list(range(0, 12)) + [15, 20, 24]:
                t, kind = cres(cgsum, lambda: GS.GridSpec.web_tiles(z, 256))
                add("web_tiles_dyadic_pi", f"CWeb {cq(h)} {cz(z)} {cz(256)} {t}", (fake_pi, z))
    finally:
        GS.math = saved
    out.count("generator_escapes(inexact, discarded)", escapes)
    return cases


# ---------------------------------------------------------------- property predicates on the implementation
def p_bin(sz, o, d, x):
    """bin(x) = i  =>  x in [lo_i, hi_i); neighbours share the endpoint; width = sz"""
    from odc.geo.math import Bin1D
    b = Bin1D(sz, o, d)
    i = b.bin(x)
    lo, hi = b[i]
    ok = F(lo) <= F(x) < F(hi) and F(hi) - F(lo) == F(sz)
    nlo, nhi = b[i + 1]
    ok = ok and (F(nlo) == F(hi) if d == 1 else F(nhi) == F(lo))
    # every other index nearby must not contain x
    for j in range(i - 2, i + 3):
        l2, h2 = b[j]
        if j != i and F(l2) <= F(x) < F(h2):
            ok = False
    return ok, f"bin={i} interval=({lo},{hi}) next=({nlo},{nhi})"


def p_point(p, x, y):
    """point belongs to the tile that pt2idx returns; tile geobox has the specified shape/resolution"""
    g = make_grid(p)
    idx = g.pt2idx(x, y)
    gb = g[idx]
    x0, y0, x1, y1 = (F(v) for v in gb.boundingbox.bbox)
    ok = x0 <= F(x) < x1 and y0 <= F(y) < y1
    ok = ok and tuple(gb.shape) == (p[0], p[1]) and gb.resolution.x == p[3] and gb.resolution.y == p[2]
    ok = ok and x1 - x0 == p[1] * abs(F(p[3])) and y1 - y0 == p[0] * abs(F(p[2]))
    return ok, f"pt2idx={tuple(idx.xy)} bbox={tuple(gb.boundingbox.bbox)} shape={tuple(gb.shape)} res={gb.resolution}"


def p_neigh(p, ix, iy):
    """neighbouring tiles share their common edge exactly; distinct tiles have disjoint interiors"""
    g = make_grid(p)
    bb = {(dx, dy): tuple(F(v) for v in g[(ix + dx, iy + dy)].boundingbox.bbox)
          for dx in (-1, 0, 1) for dy in (-1, 0, 1)}
    c = bb[(0, 0)]
    ok = True
    fx, fy = p[6], p[7]
    r = bb[(1, 0)]
    ok = ok and (r[1], r[3]) == (c[1], c[3]) and (r[2] == c[0] if fx else r[0] == c[2])
    u = bb[(0, 1)]
    ok = ok and (u[0], u[2]) == (c[0], c[2]) and (u[3] == c[1] if fy else u[1] == c[3])
    for k, b in bb.items():
        if k == (0, 0):
            continue
        ox_ = min(b[2], c[2]) - max(b[0], c[0])
        oy_ = min(b[3], c[3]) - max(b[1], c[1])
        if ox_ > 0 and oy_ > 0:
            ok = False
    return ok, f"centre={tuple(map(float, c))} +x={tuple(map(float, r))} +y={tuple(map(float, u))}"


def p_tiles(p, b):
    """bounding-box query = exactly the tiles overlapping by more than tol (tolerance-edge cases, within a
    relative slack of 1e-6*tol + rounding, are not judged)"""
    from odc.geo.geom import BoundingBox
    g = make_grid(p)
    x1, y1, x2, y2 = (F(v) for v in b)
    bbox = BoundingBox(*b, crs=CRS)
    got = list(g.tiles(bbox))
    ids = [i for i, _ in got]
    ok = len(set(ids)) == len(ids)
    detail = f"returned={ids[:12]}"
    for i, gb in got:
        if gb != g[i]:
            return False, f"geobox returned for {i} differs from grid[{i}]"
    if x2 - x1 < 4 * QTOL or y2 - y1 < 4 * QTOL:
        return ok, detail + " (query narrower than 4 tol: only duplicates judged)"
    ca, cb = g.pt2idx(float(x1), float(y1)), g.pt2idx(float(x2), float(y2))
    xs = range(min(ca.x, cb.x) - 2, max(ca.x, cb.x) + 3)
    ys = range(min(ca.y, cb.y) - 2, max(ca.y, cb.y) + 3)
    if len(xs) * len(ys) > 900:
        return ok, detail + " (too many tiles to enumerate)"
    slack = QTOL / 10 ** 6 + F(1, 2 ** 40) * (1 + max(abs(x1), abs(x2), abs(y1), abs(y2)))
    for ix in xs:
        for iy in ys:
            t = tuple(F(v) for v in g[(ix, iy)].boundingbox.bbox)
            ovx = min(t[2], x2) - max(t[0], x1)
            ovy = min(t[3], y2) - max(t[1], y1)
            inx = (t[2] - x1 > QTOL + slack) and (x2 - t[0] > QTOL + slack)
            iny = (t[3] - y1 > QTOL + slack) and (y2 - t[1] > QTOL + slack)
            outx = (t[2] - x1 < QTOL - slack) or (x2 - t[0] < QTOL - slack)
            outy = (t[3] - y1 < QTOL - slack) or (y2 - t[1] < QTOL - slack)
            if inx and iny and (ix, iy) not in ids:
                return False, f"tile {(ix, iy)} overlaps the query by ({float(ovx)}, {float(ovy)}) but is missing; {detail}"
            if (outx or outy) and (ix, iy) in ids:
                return False, f"tile {(ix, iy)} overlaps the query by only ({float(ovx)}, {float(ovy)}) but is returned; {detail}"
    for i in ids:
        if i[0] not in xs or i[1] not in ys:
            return False, f"tile {i} far from the query returned; {detail}"
    return ok, detail


def p_poly(p, pts, crs):
    """polygon query = bbox candidates filtered by shapely disjointness (oracle) and, tested independently,
    contains the tile of every sampled interior point of the polygon"""
    from odc.geo import geom
    g = make_grid(p)
    poly = geom.polygon(pts + [pts[0]], crs)
    got = [i for i, _ in g.tiles_from_geopolygon(poly)]
    pp = poly.to_crs(CRS, check_and_fix=True) if crs != CRS else poly
    want = [i for i, gb in g.tiles(pp.boundingbox) if not (pp.disjoint(gb.extent) or pp.touches(gb.extent))]
    if got != want:
        return False, f"returned={got[:10]} candidates-not-disjoint={want[:10]}"
    rng = core.rng("c14-poly-" + repr(pts))
    x0, y0, x1, y1 = pp.boundingbox.bbox
    eps = 1e-6 * (1 + max(abs(x0), abs(x1), abs(y0), abs(y1)))
    for _ in range(40):
        x, y = rng.uniform(x0, x1), rng.uniform(y0, y1)
        pt = geom.point(x, y, CRS)
        if not pp.geom.contains(pt.geom) or pp.geom.exterior.distance(pt.geom) < eps:
            continue
        idx = g.pt2idx(x, y)
        t = g[idx].boundingbox
        if min(x - t.left, t.right - x, y - t.bottom, t.top - y) < eps:
            continue
        if tuple(idx.xy) not in got:
            return False, f"point ({x},{y}) is inside the polygon and inside tile {tuple(idx.xy)} which is not returned: {got[:10]}"
    return True, f"returned={got[:10]}"


def shape_geom(parts):
    """parts = list of (outer ring, [hole rings]) -> shapely Polygon / MultiPolygon"""
    from shapely.geometry import MultiPolygon, Polygon
    polys = [Polygon(list(o), [list(h) for h in hs]) for o, hs in parts]
    return polys[0] if len(polys) == 1 else MultiPolygon(polys)


def p_shape(p, parts):
    """non-convex queries (holes, U/L shapes, far-apart multi-parts) at tile scale: a tile is returned iff its footprint
    overlaps the query; judged with shapely intersection area on footprints computed from the grid parameters in
    Fractions (tiles only touching the query, or overlapping by less than 1e-9 of a tile, are not judged)"""
    from shapely.geometry import box
    from odc.geo.geom import Geometry
    g = make_grid(p)
    sh = shape_geom(parts)
    if not sh.is_valid or sh.area == 0:
        return True, "degenerate shape (not judged)"
    got = [tuple(i) for i, _ in g.tiles_from_geopolygon(Geometry(sh, CRS))]
    if len(set(got)) != len(got):
        return False, f"duplicates in {got[:12]}"
    return _judge_shape(p, sh, got)


def _judge_shape(p, sh, got, rel=1e-9, strict_touch=False):
    from shapely.geometry import box
    (ox_, szx, dx_), (oy_, szy, dy_) = axis_of(p, "x"), axis_of(p, "y")
    x0, y0, x1, y1 = (F(v) for v in sh.bounds)

    def idx_range(lo, hi, o, sz, d):
        a, b = (lo - o) / sz, (hi - o) / sz
        ks = range(a.numerator // a.denominator - 1, b.numerator // b.denominator + 2)
        return [(d * k, o + k * sz, o + (k + 1) * sz) for k in ks]     # index, lower edge, upper edge
    area_t = float(szx * szy)
    seen = set()
    for ix, xa, xb in idx_range(x0, x1, ox_, szx, dx_):
        for iy, ya, yb in idx_range(y0, y1, oy_, szy, dy_):
            seen.add((ix, iy))
            t = box(float(xa), float(ya), float(xb), float(yb))
            a = sh.intersection(t).area
            if a > rel * area_t and (ix, iy) not in got:
                return False, f"tile {(ix, iy)} overlaps the query by {a / area_t:.4f} of a tile but is missing: returned {len(got)} tiles {got[:8]}"
            if strict_touch and (ix, iy) in got and a == 0:
                return False, (f"tile {(ix, iy)} [{float(xa)},{float(xb)}]x[{float(ya)},{float(yb)}] shares only boundary points with the query "
                               f"(intersection area 0) but is returned ({len(got)} tiles returned: {sorted(got)[:10]})")
            if (ix, iy) in got and sh.distance(t) > max(1e-6, rel ** 0.5) * float(min(szx, szy)):
                return False, (f"tile {(ix, iy)} [{float(xa)},{float(xb)}]x[{float(ya)},{float(yb)}] is {sh.distance(t) / float(min(szx, szy)):.3f} tile sizes away "
                               f"from the query (disjoint) but is returned ({len(got)} tiles returned)")
    far = [i for i in got if i not in seen]
    if far:
        return False, f"tiles far from the query returned: {far[:6]}"
    return True, f"{len(got)} tiles"


_KEEP = {}


def keep_crs(spec):
    """one odc.geo CRS object per query CRS, created once and kept for the life of the process"""
    from odc.geo.crs import CRS as _C
    if spec not in _KEEP:
        _KEEP[spec] = _C(spec)
    return _KEEP[spec]


def p_xpoly(p, gcrs, qpts, qcrs):
    """polygon query given in another CRS than the grid: a tile is returned iff its footprint overlaps the query.
    Reference independent of odc.geo.crs / Geometry.to_crs: vertices moved with pyproj.Transformer(always_xy=True)
    called directly, footprints from the grid parameters in Fractions, shapely area / distance"""
    from pyproj import Transformer
    from shapely.geometry import Polygon
    from odc.geo import geom
    g = make_grid(p, gcrs)
    q = geom.polygon(list(qpts) + [qpts[0]], keep_crs(qcrs))
    try:
        got = [tuple(i) for i, _ in g.tiles_from_geopolygon(q)]
    except Exception as e:
        return False, f"raised {type(e).__name__}: {str(e)[:200]}"
    tr = Transformer.from_crs(qcrs, gcrs, always_xy=True).transform
    sh = Polygon([tr(x, y) for x, y in qpts])
    if not sh.is_valid or sh.area == 0:
        return True, "degenerate query after projection (not judged)"
    if len(set(got)) != len(got):
        return False, f"duplicates in {got[:12]}"
    return _judge_shape(p, sh, got, rel=1e-6)


XGRIDS = [("epsg:3857", (-120, 120), (-55, 60)), ("epsg:32633", (12.5, 17.5), (10, 70)), ("epsg:3577", (120, 145), (-38, -15))]


def gen_xpoly(rng, gcrs=None, centre=None):
    """grid in a projected CRS with tiles of 20..200 km and a lon/lat triangle spanning a few tiles"""
    from pyproj import Transformer
    if gcrs is None:
        gcrs, lr, br = rng.choice(XGRIDS)
        centre = (rng.uniform(*lr), rng.uniform(*br))
    lon, lat = centre
    n = rng.choice([50, 100, 256])
    r = float(rng.choice([100, 400, 1000]))
    p = (n, n, -r * rng.choice([1, 1, -1]), r * rng.choice([1, 1, -1]), rng.choice([0.0, 0.0, 12345.0]), rng.choice([0.0, -54321.0]),
         rng.random() < 0.3, rng.random() < 0.3)
    fw = Transformer.from_crs("epsg:4326", gcrs, always_xy=True).transform
    bw = Transformer.from_crs(gcrs, "epsg:4326", always_xy=True).transform
    cx, cy = fw(lon, lat)
    ts = n * r
    pts = [(cx + rng.uniform(-2.5, 2.5) * ts, cy + rng.uniform(-2.5, 2.5) * ts) for _ in range(3)]
    qpts = [tuple(round(v, 6) for v in bw(*q)) for q in pts]
    return p, gcrs, qpts, "epsg:4326"


def p_many_crs(n, salt):
    """more CRSs than any plausible cache bound: n grids, each in its own custom transverse-Mercator CRS, queried with a
    lon/lat triangle through one long-lived EPSG:4326 CRS object; each judged like xpoly"""
    rng = core.rng(f"c14-many-{n}-{salt}")
    for i in range(n):
        lon0 = -170 + ((i * 11 + salt * 7) % 340) + (salt % 5) / 16
        crs = f"+proj=tmerc +lat_0=0 +lon_0={lon0} +k=0.9996 +x_0=500000 +y_0={salt * 1000 + i} +ellps=WGS84 +units=m +no_defs"
        p, gcrs, qpts, qcrs = gen_xpoly(rng, crs, (lon0 + rng.uniform(-1, 1), rng.uniform(-50, 50)))
        ok, detail = p_xpoly(p, gcrs, qpts, qcrs)
        if not ok:
            return False, f"CRS number {i} ({crs}), grid {p}, query {qpts}: {detail}"
    return True, f"{n} custom CRSs"


def gen_shape(rng, p):
    """non-convex shapes in units of the tile size, vertices on an eighth-of-a-tile lattice offset from tile edges"""
    (ox_, szx, _), (oy_, szy, _) = axis_of(p, "x"), axis_of(p, "y")
    kx, ky = rng.randint(-3, 3), rng.randint(-3, 3)
    off = F(rng.choice([1, 2, 3, 5]), 8)

    def P(u, v):
        return (float(ox_ + (kx + off + F(u)) * szx), float(oy_ + (ky + off + F(v)) * szy))
    kind = rng.choice(["donut", "U", "L", "multi", "multi", "donut"])
    if kind == "donut":
        W = rng.choice([5, 6, 7])
        w = F(rng.choice([3, 5, 9]), 8)        # ring width < 1.25 tiles: at least one whole tile lies in the hole
        outer = [P(0, 0), P(W, 0), P(W, W), P(0, W)]
        hole = [P(w, w), P(W - w, w), P(W - w, W - w), P(w, W - w)]
        return [(outer, [hole])]
    if kind == "U":
        W, H, a = rng.choice([5, 6]), rng.choice([4, 5]), F(rng.choice([3, 5, 7]), 8)
        return [([P(0, 0), P(W, 0), P(W, H), P(W - a, H), P(W - a, a), P(a, a), P(a, H), P(0, H)], [])]
    if kind == "L":
        W, a = rng.choice([5, 6, 7]), F(rng.choice([3, 5, 7]), 8)
        return [([P(0, 0), P(W, 0), P(W, a), P(a, a), P(a, W), P(0, W)], [])]
    ax, ay = rng.choice([4, 6, 8]), rng.choice([3, 5, 7])
    e = F(rng.choice([2, 3, 5]), 8)
    return [([P(0, 0), P(e, 0), P(e, e), P(0, e)], []), ([P(ax, ay), P(ax + e, ay), P(ax + e, ay + e), P(ax, ay + e)], [])]


def p_touch(p, parts):
    """rectilinear queries whose vertices lie on tile corners (exactness domain): a tile is returned iff it overlaps the
    query with positive area; tiles that share only an edge or a corner with it are not returned"""
    from odc.geo.geom import Geometry
    g = make_grid(p)
    sh = shape_geom(parts)
    if not sh.is_valid or sh.area == 0:
        return True, "degenerate shape (not judged)"
    got = [tuple(i) for i, _ in g.tiles_from_geopolygon(Geometry(sh, CRS))]
    return _judge_shape(p, sh, got, strict_touch=True)


def gen_touch(rng):
    """grid with dyadic tile size and origin; L, U, staircase and corner-touching squares in whole tile units"""
    n = rng.choice([1, 2, 4, 8])
    r = float(F(2) ** rng.choice([-2, 0, 1, 3]))
    p = (n, n * rng.choice([1, 2]), -r * rng.choice([1, -1]), r * rng.choice([1, -1]), float(rng.choice([0, 0, 16, -40])),
         float(rng.choice([0, 0, -8, 24])), rng.random() < 0.5, rng.random() < 0.5)
    (ox_, szx, _), (oy_, szy, _) = axis_of(p, "x"), axis_of(p, "y")
    kx, ky, m = rng.randint(-3, 3), rng.randint(-3, 3), rng.choice([1, 1, 2])

    def P(u, v):
        return (float(ox_ + (kx + m * u) * szx), float(oy_ + (ky + m * v) * szy))
    kind = rng.choice(["L", "U", "stairs", "corners", "plus"])
    if kind == "L":
        return p, [([P(0, 0), P(2, 0), P(2, 1), P(1, 1), P(1, 2), P(0, 2)], [])]
    if kind == "U":
        return p, [([P(0, 0), P(3, 0), P(3, 2), P(2, 2), P(2, 1), P(1, 1), P(1, 2), P(0, 2)], [])]
    if kind == "stairs":
        return p, [([P(0, 0), P(3, 0), P(3, 1), P(2, 1), P(2, 2), P(1, 2), P(1, 3), P(0, 3)], [])]
    if kind == "corners":
        return p, [([P(0, 0), P(1, 0), P(1, 1), P(0, 1)], []), ([P(1, 1), P(2, 1), P(2, 2), P(1, 2)], [])]
    return p, [([P(1, 0), P(2, 0), P(2, 1), P(3, 1), P(3, 2), P(2, 2), P(2, 3), P(1, 3), P(1, 2), P(0, 2), P(0, 1), P(1, 1)], [])]


XBIG = [
    # (grid CRS, lon range, lat range, minimal width / height in degrees) of wide lon/lat queries
    ("epsg:3577", (112, 152), (-40, -10), 10, 8),
    ("epsg:3035", (-10, 40), (35, 68), 10, 8),
    ("+proj=lcc +lat_1=30 +lat_2=50 +lat_0=40 +lon_0=100 +x_0=0 +y_0=0 +ellps=WGS84 +units=m +no_defs", (80, 120), (25, 55), 10, 8),
    ("+proj=aea +lat_0=40 +lon_0=-96 +lat_1=20 +lat_2=60 +x_0=0 +y_0=0 +ellps=GRS80 +units=m +no_defs", (-125, -70), (25, 55), 12, 8),
    ("epsg:32633", (9, 21), (30, 72), 6, 15),
]


def gen_xpoly_big(rng):
    """wide lon/lat polygons (diamond, triangle with an apex in the middle of a bounding-box edge, densified rectangle)
    on grids with 50-200 km tiles in conic / equal-area / UTM CRSs: the outline bulges past its projected bbox corners"""
    gcrs, lr, br, minw, minh = rng.choice(XBIG)
    w, h = rng.uniform(minw, min(30, lr[1] - lr[0])), rng.uniform(minh, min(25, br[1] - br[0]))
    x0, y0 = rng.uniform(lr[0], lr[1] - w), rng.uniform(br[0], br[1] - h)
    x1, y1 = x0 + w, y0 + h
    kind = rng.choice(["diamond", "apex", "rect"])
    if kind == "diamond":
        pts = [((x0 + x1) / 2, y0), (x1, (y0 + y1) / 2), ((x0 + x1) / 2, y1), (x0, (y0 + y1) / 2)]
    elif kind == "apex":
        pts = rng.choice([[(x0, y0), (x1, y0), ((x0 + x1) / 2, y1)], [(x0, y1), ((x0 + x1) / 2, y0), (x1, y1)]])
    else:
        n = 40
        pts = ([(x0 + w * k / n, y0) for k in range(n)] + [(x1, y0 + h * k / n) for k in range(n)] +
               [(x1 - w * k / n, y1) for k in range(n)] + [(x0, y1 - h * k / n) for k in range(n)])
    qpts = [(round(a, 5), round(b, 5)) for a, b in pts]
    n = rng.choice([50, 100, 200])
    r = float(rng.choice([500, 1000]))
    p = (n, n, -r * rng.choice([1, 1, -1]), r * rng.choice([1, 1, -1]), rng.choice([0.0, 12345.0]), rng.choice([0.0, -54321.0]),
         rng.random() < 0.3, rng.random() < 0.3)
    return p, gcrs, qpts, "epsg:4326"


def p_xbox(p, gcrs, b, bcrs):
    """bounding-box query tagged with a CRS different from the grid's: it is either rejected (exception) or answered with
    tiles that overlap the box's true footprint in the grid CRS - never silently read as grid coordinates.  Reference:
    densified outline of the box through pyproj.Transformer(always_xy=True) called directly."""
    from pyproj import Transformer
    from shapely.geometry import Polygon, box
    from odc.geo.geom import BoundingBox
    g = make_grid(p, gcrs)
    bb = BoundingBox(*b, crs=bcrs)
    n = 50
    x0, y0, x1, y1 = b
    ring = ([(x0 + (x1 - x0) * k / n, y0) for k in range(n)] + [(x1, y0 + (y1 - y0) * k / n) for k in range(n)] +
            [(x1 - (x1 - x0) * k / n, y1) for k in range(n)] + [(x0, y1 - (y1 - y0) * k / n) for k in range(n)])
    tr = Transformer.from_crs(bcrs, gcrs, always_xy=True)
    X, Y = tr.transform([q[0] for q in ring], [q[1] for q in ring])
    sh = Polygon(list(zip(X, Y)))
    if not sh.is_valid or sh.area == 0:
        return True, "degenerate footprint (not judged)"
    hull = box(*sh.bounds)
    out_ = []
    for name, call in (("tiles", lambda: [tuple(i) for i, _ in g.tiles(bb)]),
                       ("idx_bounds", lambda: tuple(int(v) for v in g.idx_bounds(bb)))):
        try:
            got = call()
        except Exception as e:
            out_.append(f"{name}: rejected ({type(e).__name__})")
            continue
        if name == "idx_bounds":
            ix1, iy1, ix2, iy2 = got
            if (ix2 - ix1) * (iy2 - iy1) > 20000:
                return False, f"idx_bounds answered a box given in {bcrs} with the index range {got} ({(ix2 - ix1) * (iy2 - iy1)} tiles)"
            got = [(ix, iy) for iy in range(iy1, iy2) for ix in range(ix1, ix2)]
        # answered: must contain every tile overlapping the true footprint and nothing outside its bounding box
        ok, detail = _judge_shape(p, sh, [i for i in got], rel=1e-6)
        if not ok and "missing" in detail:
            return False, f"{name} answered a box given in {bcrs} as if it were in {gcrs[:20]}: {detail}"
        ok2, detail2 = _judge_shape(p, hull, got, rel=1e-6)
        if not ok2 and "missing" not in detail2:
            return False, f"{name} answered a box given in {bcrs} as if it were in {gcrs[:20]}: {detail2}"
        out_.append(f"{name}: answered with {len(got)} tiles")
    return True, "; ".join(out_)


def gen_xbox(rng):
    gcrs, lr, br = rng.choice(XGRIDS)
    n = rng.choice([50, 100, 256])
    r = float(rng.choice([100, 400, 1000]))
    p = (n, n, -r, r, 0.0, 0.0, rng.random() < 0.3, rng.random() < 0.3)
    lon, lat = rng.uniform(*lr), rng.uniform(*br)
    w, h = rng.uniform(0.2, 3), rng.uniform(0.2, 3)
    return p, gcrs, (round(lon, 4), round(lat, 4), round(lon + w, 4), round(lat + h, 4)), "epsg:4326"


def p_reprs(z, npix, p, ix, iy):
    """numpy integer / float representations of zoom, tile size in pixels, tile indices, resolution and coordinates give
    the same grid and the same tiles as the plain Python numbers"""
    import numpy as np
    from odc.geo import resyx_, xy_
    from odc.geo.gridspec import GridSpec
    ref = GridSpec.web_tiles(int(z), int(npix))
    for zt, nt in ((np.int64, np.int64), (np.int32, np.int16), (np.uint8, np.int64)):
        try:
            g = GridSpec.web_tiles(zt(z), nt(npix))
        except Exception as e:
            return False, f"web_tiles({zt.__name__}({z}), {nt.__name__}({npix})) raised {type(e).__name__}: {e}"
        for idx in ((0, 0), (2 ** z - 1, 2 ** z - 1), (1, 0)):
            if tuple(g[idx].boundingbox.bbox) != tuple(ref[idx].boundingbox.bbox) or tuple(g[idx].shape) != tuple(ref[idx].shape):
                return False, f"web_tiles({zt.__name__}({z}), {nt.__name__}({npix}))[{idx}] = {g[idx]} differs from the int version {ref[idx]}"
    ny, nx, ry, rx, ox, oy, fx, fy = p
    ref = make_grid(p)
    try:
        g = GridSpec(CRS, (np.int64(ny), np.int32(nx)), resyx_(np.float64(ry), np.float64(rx)),
                     origin=xy_(np.float64(ox), np.float64(oy)), flipx=fx, flipy=fy)
        a = g[np.int64(ix), np.int32(iy)]
        b_ = g.tile_geobox((np.int64(ix), np.int64(iy)))
        c = tuple(int(v) for v in g.pt2idx(np.float64(ox) + np.float64(rx), np.float32(oy)).xy)
    except Exception as e:
        return False, f"numpy-typed GridSpec{p} / index ({ix},{iy}) raised {type(e).__name__}: {e}"
    r = ref[ix, iy]
    if tuple(a.boundingbox.bbox) != tuple(r.boundingbox.bbox) or tuple(b_.boundingbox.bbox) != tuple(r.boundingbox.bbox) or tuple(a.shape) != tuple(r.shape):
        return False, f"tile ({ix},{iy}) with numpy-typed arguments {a} differs from {r}"
    if c != tuple(int(v) for v in ref.pt2idx(ox + rx, float(np.float32(oy))).xy):
        return False, f"pt2idx with numpy floats {c} differs from the float version"
    return True, "same grid and tiles"


def p_sample(p, ix, iy):
    """a grid rebuilt from tile (ix,iy) has the same footprint for every index"""
    from odc.geo.gridspec import GridSpec
    g = make_grid(p)
    g2 = GridSpec.from_sample_tile(g[(ix, iy)].extent, shape=(p[0], p[1]), idx=(ix, iy), flipx=p[6], flipy=p[7])
    for (jx, jy) in [(0, 0), (ix, iy), (ix + 1, iy - 2), (-7, 5), (13, -11)]:
        a, b = g[(jx, jy)].boundingbox, g2[(jx, jy)].boundingbox
        if tuple(a.bbox) != tuple(b.bbox) or g[(jx, jy)].shape != g2[(jx, jy)].shape:
            return False, f"tile {(jx, jy)}: original {tuple(a.bbox)} rebuilt {tuple(b.bbox)}"
    return True, "identical"


def p_web(z, npix):
    """2^z tiles per side over [-h,h]^2, tile (i,j) at the slippy-map extent (float-rounded comparison:
    the tile size is rounded once to ulp(h) and multiplied by the index, so the stated bound is
    2*ulp(h)*(2^z+4), i.e. < 1/4000 of a tile at every zoom; the exact statement is the Coq theorem)"""
    import math
    from odc.geo.gridspec import GridSpec
    g = GridSpec.web_tiles(z, npix)
    h = F(math.pi * 6_378_137)
    n = 2 ** z
    t = 2 * h / n
    bound = 2 * F(1, 2 ** 28) * (n + 4)
    cells = {(0, 0), (n - 1, n - 1), (n // 2, n // 3), (n - 1, 0), (0, n - 1)}
    for (i, j) in cells:
        gb = g[(i, j)]
        x0, y0, x1, y1 = (F(v) for v in gb.boundingbox.bbox)
        ex = (-h + i * t, h - (j + 1) * t, -h + (i + 1) * t, h - j * t)
        if max(abs(a - b) for a, b in zip((x0, y0, x1, y1), ex)) > bound or tuple(gb.shape) != (npix, npix):
            return False, f"tile {(i, j)} extent {tuple(map(float, (x0, y0, x1, y1)))} expected {tuple(map(float, ex))}"
        cx, cy = float((ex[0] + ex[2]) / 2), float((ex[1] + ex[3]) / 2)
        if tuple(g.pt2idx(cx, cy).xy) != (i, j):
            return False, f"centre of slippy tile {(i, j)} looked up as {tuple(g.pt2idx(cx, cy).xy)}"
    return True, f"zoom {z}: {n} tiles per side"


PREDICATES = {"bin": p_bin, "point": p_point, "neigh": p_neigh, "tiles": p_tiles, "poly": p_poly, "shape": p_shape, "xpoly": p_xpoly, "many_crs": p_many_crs, "touch": p_touch, "xbox": p_xbox, "reprs": p_reprs,
              "sample": p_sample, "web": p_web}


def enc_args(args):
    def e(a):
        if isinstance(a, (tuple, list)):
            return [e(v) for v in a]
        return enc_num(a)
    return [e(a) for a in args]


def dec_args(args):
    def d(a):
        if isinstance(a, list):
            return tuple(d(v) for v in a)
        return dec_num(a)
    return [d(a) for a in args]


def fix_args(name, args):
    """JSON round trip turns tuples into lists; restore what the predicates expect"""
    args = list(args)
    if name == "poly":
        args[1] = [tuple(pt) for pt in args[1]]
    if name == "xpoly":
        args[2] = [tuple(q) for q in args[2]]
    if name == "touch":
        args[1] = [([tuple(q) for q in o], [[tuple(q) for q in h] for h in hs]) for o, hs in args[1]]
    if name == "after_history":
        args[3] = fix_args(args[2], args[3])
    if name == "shape":
        args[1] = [([tuple(q) for q in o], [[tuple(q) for q in h] for h in hs]) for o, hs in args[1]]
    return args


def search(out, tier):
    rng = core.rng("c14-search")
    found = {}

    def run(name, *args):
        try:
            ok, detail = PREDICATES[name](*args)
        except Exception as e:
            ok, detail = False, f"raised {type(e).__name__}: {e}"
        out.count("predicate:" + name)
        out.case(("pred", name, enc_args(args)), True)
        if not ok and name not in found:
            found[name] = True
            out.violation(f"c14:{name}", f"{name}{enc_args(args)}: {detail}",
                          {"predicate": name, "args": enc_args(args), "observed": detail})

    for rp in core.corpus(ID):
        run(rp["predicate"], *fix_args(rp["predicate"], dec_args(rp["args"])))
    big = tier != "quick"
    for _ in range(300 if not big else 3000):
        sz = float(rng.choice(RES_M) * F(2) ** rng.choice(RES_J) * rng.choice([1, 3, 100]))
        o, d = gen_dy(rng), rng.choice([1, -1])
        k = rng.randint(-50, 50)
        for x in (float(F(o) + k * F(sz) * d), float(F(o) + k * F(sz) + F(sz) / 2), gen_dy(rng, bits=10)):
            if F(x).denominator <= 2 ** 12:
                run("bin", sz, o, d, x)
    for gi in range(120 if not big else 1200):
        p = gen_params(rng, small=(gi % 3 != 0))
        ox_, szx, _ = axis_of(p, "x")
        oy_, szy, _ = axis_of(p, "y")
        for _ in range(4):
            kx, ky = rng.randint(-20, 20), rng.randint(-20, 20)
            fxr, fyr = rng.choice([0, 0, F(1, 2), F(1, 8), F(7, 8)]), rng.choice([0, 0, F(1, 2), F(1, 8)])
            x, y = float(ox_ + (kx + fxr) * szx), float(oy_ + (ky + fyr) * szy)
            if F(x).denominator <= 2 ** 12 and F(y).denominator <= 2 ** 12:
                run("point", p, x, y)
        run("neigh", p, rng.randint(-30, 30), rng.randint(-30, 30))
        run("neigh", p, 0, 0)
        for _ in range(5):
            run("tiles", p, gen_bounds(rng, p))
        run("sample", p, rng.randint(-20, 20), rng.randint(-20, 20))
        if gi % 2 == 0:
            k = rng.randint(-2, 2)
            pts = [(float(ox_ + (k + F(rng.randint(-16, 16), 8)) * szx),
                    float(oy_ + (k + F(rng.randint(-16, 16), 8)) * szy)) for _ in range(3)]
            a = (pts[1][0] - pts[0][0]) * (pts[2][1] - pts[0][1]) - (pts[2][0] - pts[0][0]) * (pts[1][1] - pts[0][1])
            if a != 0:
                run("poly", p, pts, CRS)
    # non-convex queries at tile scale: holes, U/L shapes, far-apart multi-parts
    for gi in range(60 if not big else 500):
        p = gen_params(rng, small=(gi % 3 != 0))
        run("shape", p, gen_shape(rng, p))
    # polygons given in another CRS (oracle composition: pyproj + shapely), coarse grids in web-mercator metres
    for _ in range(12 if not big else 80):
        p = (rng.choice([50, 100]), rng.choice([50, 100]), -1000.0 * rng.choice([1, 2]), 1000.0 * rng.choice([1, 2]),
             0.0, 0.0, rng.random() < 0.5, rng.random() < 0.5)
        lon, lat = rng.uniform(-150, 150), rng.uniform(-60, 60)
        pts = [(lon, lat), (lon + rng.uniform(0.5, 3), lat + rng.uniform(-1, 1)), (lon + rng.uniform(-1, 1), lat + rng.uniform(0.5, 3))]
        run("poly", p, pts, "epsg:4326")
    for z in range(0, 21 if big else 13):
        run("web", z, 256 if z % 2 == 0 else 512)
    for gi in range(20 if not big else 150):
        run("xpoly", *gen_xpoly(rng))
    for gi in range(10 if not big else 80):
        run("xpoly", *gen_xpoly_big(rng))
    for gi in range(40 if not big else 300):
        run("touch", *gen_touch(rng))
    for gi in range(12 if not big else 80):
        run("xbox", *gen_xbox(rng))
    for gi in range(8 if not big else 40):
        pp_ = gen_params(rng, small=True)
        run("reprs", rng.randint(0, 12), rng.choice([1, 256, 512]), pp_, rng.randint(-9, 9), rng.randint(-9, 9))
    run("many_crs", 160 if not big else 400, rng.randrange(1000))
    # process histories of the CRS layer, evaluated in a fresh interpreter (tools/vlib/c12c14_hist.py); a violation is
    # recorded through the "after_history" predicate, which applies the perturbations first
    from vlib import c12c14_hist
    rows, ok_child, err = c12c14_hist.run_child("c14", tier)
    out.oblige("search:process-history child ran to completion", "harness", ok_child, err)
    for r in rows:
        hist, name, detail = r["hist"], r["name"], r["detail"]
        out.count("predicate:after_history:" + "+".join(hist) + ":" + name)
        out.case(("pred", "after_history", hist, name, r["args"]), True)
        key = f"c14:after_history:{name}"
        if not r["ok"] and key not in found:
            found[key] = True
            a = [enc_args(list(hist)), enc_args(HIST_SPECS), "str:" + name, r["args"]]
            out.violation(key, f"after_history[{hist}, {name}, {r['args']}]: {detail}",
                          {"predicate": "after_history", "args": a, "observed": detail})


HIST_SPECS = ["epsg:4326", "epsg:3857", "epsg:32633", "epsg:3577"]


def _register_history():
    from vlib import crshist
    PREDICATES.setdefault("after_history", crshist.after_history(PREDICATES))
    keep_crs("epsg:4326")


def history_cases(tier, emit):
    """runs in a fresh interpreter: perturb the caches of odc.geo.crs, then evaluate the cross-CRS polygon queries"""
    from vlib import crshist
    _register_history()
    rng = core.rng("c14-history")
    big = tier != "quick"

    def run_after(hist, name, *args):
        try:
            ok, detail = PREDICATES[name](*args)
        except Exception as e:
            ok, detail = False, f"predicate raised {type(e).__name__}: {e}"
        emit(hist, name, args, ok, detail)

    hist = ("authority-order-first", "queries-first")
    crshist.perturb(hist, HIST_SPECS)
    for gi in range(16 if not big else 100):
        run_after(hist, "xpoly", *gen_xpoly(rng))
    hist = hist + ("churn",)
    crshist.perturb(("churn",), HIST_SPECS)
    for gi in range(2 if not big else 8):
        run_after(hist, "many_crs", 40, rng.randrange(1000))


# ---------------------------------------------------------------- entry points
def run(out, tier, scratch):
    out.rule = ("correspondence: Bin1D and GridSpec on the exactness domain (sizes/resolutions small integer * 2^j, "
                "dyadic origins, indices up to +-3000, points on/next to tile edges, query boxes with edges on tile edges, "
                "at edge+-1e-8 and +-few ulp around the edge at 0, narrower than 2*tol and inverted boxes, polygons with the "
                "shapely disjoint answers replayed as an oracle table, from_sample_tile of own tiles, web tiles with the real "
                "pi*R at zoom 0-2 and with math.pi patched to a dyadic constant at zoom 0-24) plus malformed constructor "
                "arguments; cases whose float evaluation could round across a tile edge are discarded by a generator-side "
                "filter that looks at the inputs only (counted as generator_escapes). non-trivial = valid construction / "
                "non-empty result; distinct = distinct canonical (operation, arguments). "
                "search: the clauses of the property evaluated on the implementation in Fraction arithmetic; polygon queries also with "
                "non-convex shapes at tile scale (holes, U/L shapes, far-apart multi-parts) judged by shapely intersection area / distance "
                "against tile footprints computed from the grid parameters")
    out.assumptions += [
        "process histories of odc.geo.crs (tools/vlib/crshist.py) evaluated in a fresh interpreter: cross-CRS polygon queries (xpoly, many_crs) are judged against pyproj.Transformer(always_xy=True) called directly, never against Geometry.to_crs",
        "exact-rational model of binary64: theorems are about exact arithmetic; the correspondence is exact on the dyadic domain",
        "oracle: shapely (disjoint or touches)(polygon, tile extent) = no overlap, and the CRS conversion + bounding box of query polygons "
        "(universally quantified function parameters in the theorem; replayed from the real calls in the correspondence)",
        "the constant 1e-8 of idx_bounds enters the model as the parameter tol = Fraction(1e-8)",
        "math.pi*R is an opaque positive constant h in the web-tile theorem",
        "CRS equality assertion of idx_bounds is not part of this model (property C01)",
    ]
    cases = gen_cases(out, tier)
    import time as _t
    _t0 = _t.time()
    try:
        fails, log = core.coq_eval_failures(["Base.Result", "Base.QMinMax", "Base.ZRange", "Model.GridSpec", "Model.GridSpecCases"], "case", "check",
                                        cases, scratch, shard=450)
    except core.ModelEvalError as e:
        # a coqc worker died (seen once on a heavily loaded machine): evaluate again with fewer parallel jobs
        out.notes.append("model evaluation retried after a failed coqc worker: " + e.log[-300:])
        fails, log = core.coq_eval_failures(["Base.Result", "Base.QMinMax", "Base.ZRange", "Model.GridSpec", "Model.GridSpecCases"], "case", "check",
                                        cases, scratch, shard=450, tag="retry", jobs=4)
    out.notes.append(f"case generation + model evaluation finished {_t.time() - out.t0:.1f}s after start (model evaluation {_t.time() - _t0:.1f}s)")
    detail = ""
    if fails:
        detail = "model and implementation differ on: " + " | ".join(cases[i] for i in fails[:5])
    out.oblige("correspondence:Model.GridSpec vs odc.geo.gridspec/odc.geo.math.Bin1D", "correspondence", not fails, detail)
    search(out, tier)


def replay(rp) -> int:
    _register_history()
    name = rp["predicate"]
    args = fix_args(name, dec_args(rp["args"]))
    ok, detail = PREDICATES[name](*args)
    print(f"replay {name}{rp['args']}: {'holds' if ok else 'FAILS'}: {detail}")
    return 0 if ok else 1


if __name__ == "__main__":
    import sys as _sys
    if "--history-child" in _sys.argv:
        from vlib import c12c14_hist as _h
        _h.child_main(history_cases, enc_args)


META = {
    "text": ("Coq theorems (coq/Props/C14.v, closed under the global context) over a Gallina model of Bin1D and GridSpec in exact "
             "rational arithmetic, for all tile shapes >= 1, non-zero resolutions of either sign, origins, flip flags and integer "
             "indices: bin(x)=i iff x lies in the half-open interval i; consecutive intervals share an endpoint, distinct tiles have "
             "disjoint interiors and neighbours share their edge exactly; the tile GeoBox has the specified shape/resolution and its "
             "bounding box is the pair of intervals; tiles(bounds) returns exactly (no duplicates) the indices whose interval meets "
             "[lo+tol, hi-tol] on both axes; polygon queries are exactly the candidates the disjointness oracle accepts; "
             "from_sample_tile of any tile reproduces every interval and the point lookup; web_tiles(z) has 2^z tiles per side with "
             "slippy-map extents.  The model is tied to the code by an exact differential correspondence run (vm_compute) and by "
             "direct property predicates on the implementation."),
    "note": ("Trusted: Coq kernel; the hand-written model coq/Model/GridSpec.v (validated by the correspondence run); the "
             "exact-rational abstraction of binary64 (float rounding is not modelled: with floats, from_sample_tile and web_tiles "
             "reproduce extents only up to rounding, which the search checks within 2*ulp(pi*R)*(2^z+4) for web tiles); oracles: shapely disjoint "
             "and pyproj conversion/bounding box of query polygons (function parameters of the theorem, no contract needed for the "
             "'exactly the non-disjoint candidates' clause; completeness of polygon queries w.r.t. true geometric intersection "
             "additionally needs 'the polygon lies in its bounding box', which is tested by interior point sampling, not proved); "
             "1e-8 and pi*R are parameters.  Domain restrictions in theorems: grids that the constructor accepts (shape >= 1, "
             "resolution != 0 — proved to be exactly the accepted domain); web tiles for zoom >= 0, npix >= 1.  Not modelled: CRS "
             "equality assertion in idx_bounds (C01), geobox cache, geojson rendering."),
    "technique": "Coq proof over hand-written Gallina model (Q arithmetic) + exact differential correspondence (vm_compute) + property predicates + leaf functions regenerated from source by py2v on every run and proved equal to the model (source_is_model theorem)",
    "design_ref": "DESIGN.md section 5, C14",
}
