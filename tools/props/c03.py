"""C03 — reprojection planning never drops a needed pixel.

Correspondence: coq/Model/Overlap.v against odc.geo.overlap / odc.geo.math on
the exactness domain (function level and GeoBox level, same CRS; different CRS
with the PROJ point transform recorded as a table).  Search: brute force over
destination pixels with exact Fraction arithmetic of the GeoBox affines.
"""
from __future__ import annotations

import itertools
import math
import warnings
from fractions import Fraction as Fr

from vlib import core
from vlib import overlapgen as G
from vlib.core import cbool, cnat, copt, cq, ctuple, cz

ID = "C03"
ALLOWED_AXIOMS: list[str] = []

REQ = ["Base.Result", "Model.Roi", "Model.Overlap", "Model.OverlapCases"]
STOLS = [1e-3, 2.0 ** -10, 2.0 ** -6]
TTOLS = [0.05, 2.0 ** -5, 2.0 ** -3, 0.25]
SCALES = [Fr(1), Fr(2), Fr(4), Fr(1, 2), Fr(1, 4), Fr(3), Fr(3, 2), Fr(1 / 3), Fr(5), Fr(3, 4), Fr(8),
          Fr(1) + Fr(1, 1024), Fr(1) - Fr(1, 1024), Fr(2) + Fr(1, 256), Fr(7, 8)]


def fewbit(v: Fr, bits=20) -> bool:
    d = v.denominator
    return d & (d - 1) == 0 and d <= (1 << bits) and abs(v.numerator) < (1 << (2 * bits))


# ---------------------------------------------------------------- function level cases
def near_values(rng, tols):
    """numbers at, just inside and just outside every tolerance around integers and halves"""
    vals = set()
    for k in (-3, -1, 0, 1, 2, 5):
        for tol in tols:
            t = Fr(tol)
            for d in (0, t, -t, t - Fr(1, 2 ** 20), t + Fr(1, 2 ** 20), -t + Fr(1, 2 ** 20), -t - Fr(1, 2 ** 20)):
                vals.add(k + d)
        for d in (Fr(1, 2), Fr(-1, 2), Fr(1, 2) + Fr(1, 2 ** 20), Fr(1, 2) - Fr(1, 2 ** 20), Fr(1, 4), Fr(3, 4), Fr(-3, 4)):
            vals.add(k + d)
    for _ in range(60):
        vals.add(G.dyadic(rng, -6, 6, rng.choice([2, 6, 12])))
    return sorted(v for v in vals if G.is_f64(v))


def gen_function_cases(out, tier, rng):
    from affine import Affine
    from odc.geo import math as M
    from odc.geo import overlap as O
    from odc.geo import roi as R

    cases = []

    def add(kind, text, canon, nontrivial=True, sample=None):
        cases.append(text)
        out.count(kind)
        out.case((kind, canon), nontrivial, sample)

    # --- math helpers at the tolerances
    vals = near_values(rng, STOLS + TTOLS)
    for x in vals:
        fx = float(x)
        w, p = M.split_float(fx)
        add("split_float", f"CSplit {cq(x)} {G.cqq((w, p))}", str(x))
        for tol in (STOLS + TTOLS if tier != "quick" else [1e-3, 2.0 ** -10, 0.05]):
            add("maybe_int", f"CMaybeInt {cq(x)} {cq(Fr(tol))} {cq(Fr(M.maybe_int(fx, tol)))}", (str(x), tol))
            add("is_almost_int", f"CAlmost {cq(x)} {cq(Fr(tol))} {cbool(M.is_almost_int(fx, tol))}", (str(x), tol))
            if G.is_f64(1 - Fr(tol)) and (abs(x) >= 1 - Fr(tol) or abs(x) < Fr(tol) or
                                          (G.is_f64(1 / x) and G.is_f64(1 / Fr(M.maybe_int(float(1 / x), tol))))):
                add("snap_scale", f"CSnapScale {cq(x)} {cq(Fr(tol))} {cq(Fr(M.snap_scale(fx, tol)))}", (str(x), tol))
    # --- _pick_read_scale incl. the assertion
    for x in [Fr(0), Fr(-1), Fr(1, 4), Fr(1), Fr(3), Fr(29999, 10000), Fr(2) + Fr(1, 2 ** 11), Fr(3) - Fr(1, 2 ** 11),
              Fr(3) - Fr(1e-3), Fr(3) - Fr(1e-3) - Fr(1, 2 ** 30), Fr(3) - Fr(1e-3) + Fr(1, 2 ** 30), Fr(7, 2), Fr(1000001, 1000)] + \
             [v for v in vals if v > 0][:: 3]:
        if not G.is_f64(x):
            x = Fr(float(x))
        for tol in (1e-3, 2.0 ** -10):
            try:
                e = f"(Ok {cz(O._pick_read_scale(float(x), tol))})"
                kind = "ok"
            except AssertionError as ex:
                e, kind = G.cerr(ex), "assert"
            add("pick_read_scale:" + kind, f"CPick {cq(x)} {cq(Fr(tol))} {e}", (str(x), tol))

    # --- compute_axis_overlap
    sizes = [0, 1, 2, 3, 5, 8, 13] if tier != "quick" else [0, 1, 2, 3, 5, 8]
    n_axis = 0
    combos = []
    for Ns, Nd in itertools.product(sizes, sizes):
        for s in SCALES:
            for sg in (1, -1):
                combos.append((Ns, Nd, sg * s))
    per = 2 if tier == "quick" else 12
    for Ns, Nd, s in combos:
        lo, hi = sorted([-Nd * s if s > 0 else Fr(0), Fr(Ns) if s > 0 else Ns - Nd * s])
        ts = {Fr(0), Fr(Ns), -Nd * s, Ns - Nd * s, Fr(Ns) + 1, -Nd * s - 1, Fr(Ns, 2)}
        picks = rng.sample(sorted(ts), min(len(ts), 1 if tier == "quick" else len(ts)))
        for _ in range(per):
            picks.append(G.dyadic(rng, math.floor(lo) - 2, math.ceil(hi) + 2, rng.choice([0, 1, 2, 3])))
        for t in picks:
            if not G.axis_args_robust(Ns, Nd, s, t):
                out.count("axis:generator-escape")
                continue
            s0, d0 = O.compute_axis_overlap(Ns, Nd, float(s), float(t))
            add("axis_overlap", f"CAxis {cz(Ns)} {cz(Nd)} {cq(s)} {cq(t)} (Ok {ctuple(G.csl(s0), G.csl(d0))})",
                (Ns, Nd, str(s), str(t)), True,
                {"op": "compute_axis_overlap", "Ns": Ns, "Nd": Nd, "s": str(s), "t": str(t),
                 "result": [[s0.start, s0.stop], [d0.start, d0.stop]]} if n_axis < 2 else None)
            n_axis += 1
    for Ns, Nd in ((3, 4), (0, 0)):
        try:
            O.compute_axis_overlap(Ns, Nd, 0.0, 1.0)
            e = "(Ok ((0,0),(0,0)))"
        except AssertionError as ex:
            e = G.cerr(ex)
        add("axis_overlap:assert", f"CAxis {cz(Ns)} {cz(Nd)} {cq(0)} {cq(1)} {e}", (Ns, Nd, "s=0"))

    # --- affines: is_affine_st, snap_affine, scale2, _can_paste, box_overlap
    def rand_affine():
        mode = rng.random()
        k = rng.choice([1, 1, 2, 3, 4, 5, 8, 10])
        stol = rng.choice(STOLS)
        dl = rng.choice([Fr(0), Fr(0), Fr(stol), -Fr(stol), Fr(stol) / 2, Fr(stol) * 2, Fr(stol) - Fr(1, 2 ** 24),
                         Fr(stol) + Fr(1, 2 ** 24), -Fr(stol) + Fr(1, 2 ** 24), -Fr(stol) - Fr(1, 2 ** 24)])
        sx = rng.choice([1, -1]) * k * (1 + dl)
        sy = rng.choice([1, -1]) * k * (1 + rng.choice([Fr(0), dl, -dl]))
        if mode < 0.1:
            sy = sy * rng.choice([2, Fr(1, 2)])
        if mode > 0.9:
            sx, sy = sx / (k * k) if k > 1 else sx / 2, sy / (k * k) if k > 1 else sy / 2
        ttol = rng.choice(TTOLS)
        ep = lambda: rng.choice([Fr(0), Fr(0), Fr(ttol), -Fr(ttol), Fr(ttol) - Fr(1, 2 ** 22), Fr(ttol) + Fr(1, 2 ** 22),
                                 -Fr(ttol) + Fr(1, 2 ** 22), -Fr(ttol) - Fr(1, 2 ** 22), Fr(1, 2), Fr(3, 8), Fr(-1, 4)])
        tx = k * (rng.randint(-9, 9) + ep())
        ty = k * (rng.randint(-9, 9) + ep())
        wx = wy = Fr(0)
        r = rng.random()
        if r < 0.08:
            wx = rng.choice([Fr(1e-10), Fr(1e-10) * 2, Fr(1e-8), Fr(1e-8) * 2, Fr(1, 4), Fr(-1)])
        elif r < 0.16:
            wy = rng.choice([Fr(1e-10), -Fr(1e-10) * 2, Fr(1e-8), Fr(1, 2), Fr(1)])
        elif r < 0.2:
            sx, wx, wy, sy = Fr(0), -sy, sx, Fr(0)
        vals6 = (sx, wx, tx, wy, sy, ty)
        if not all(G.is_f64(v) for v in vals6):
            return None
        return Affine(*[float(v) for v in vals6]), stol, ttol

    n_aff = 600 if tier == "quick" else 6000
    for i in range(n_aff):
        g = rand_affine()
        if g is None:
            out.count("affine:generator-escape")
            continue
        A, stol, ttol = g
        A6 = G.aff6(A)
        st_exact = A6[1] == 0 and A6[3] == 0
        add("is_affine_st", f"CIsSt {G.caff(A)} {cq(Fr(1e-10))} {cbool(M.is_affine_st(A))}", str(A6))
        # snap_affine: the 1/s branch of snap_scale is inexact in binary64 unless 1/s is representable
        snap_ok = all(abs(s) >= 1 - Fr(stol) or abs(s) < Fr(stol) or (G.is_f64(1 / s) and G.is_f64(1 / Fr(M.maybe_int(float(1 / s), stol))))
                      for s in (A6[0], A6[4])) and G.is_f64(1 - Fr(stol))
        if snap_ok:
            add("snap_affine", f"CSnapAffine {G.caff(A)} {cq(Fr(ttol))} {cq(Fr(stol))} {cq(Fr(1e-8))} {G.caff(M.snap_affine(A, ttol=ttol, stol=stol))}",
                (str(A6), stol, ttol))
        if st_exact or G.scale2_exact(A6):
            try:
                e = f"(Ok {G.cqq(O.get_scale_from_linear_transform(A).xy)})"
            except Exception as ex:  # numpy LinAlgError for singular matrices
                e = G.cerr(ex)
            add("scale2", f"CScale2 {G.caff(A)} {e}", str(A6))
        rot = not M.is_affine_st(A)
        if rot or (st_exact and all(G.scaled_exact(A6, k) for k in cand_k(A6))):
            try:
                ok, reason = O._can_paste(A, stol=stol, ttol=ttol)
                code = {None: 0, "has rotation or shear": 1, "non-integer scale": 2, "sx!=sy, probably": 3,
                        "sub-pixel translation": 4}[reason]
                assert ok == (code == 0)
                e, kind = f"(Ok {cz(code)})", str(code)
            except Exception as ex:
                e, kind = G.cerr(ex), "error"
            add("can_paste:" + kind, f"CCanPaste {G.cconsts()} {G.caff(A)} {cq(Fr(stol))} {cq(Fr(ttol))} {e}",
                (str(A6), stol, ttol), True,
                {"op": "_can_paste", "A": [str(v) for v in A6], "stol": stol, "ttol": ttol, "result": kind} if i < 3 else None)
        else:
            out.count("can_paste:generator-escape")
        # box_overlap on the snapped affine (what the paste path does)
        A_ = M.snap_affine(A, ttol=ttol, stol=stol)
        A_6 = G.aff6(A_)
        ss = (rng.randint(0, 12), rng.randint(0, 12))
        ds = (rng.randint(0, 12), rng.randint(0, 12))
        if A_6[0] != 0 and A_6[4] != 0 and G.axis_args_robust(ss[0], ds[0], A_6[4], A_6[5]) and \
                G.axis_args_robust(ss[1], ds[1], A_6[0], A_6[2]):
            rs, rd = O.box_overlap(ss, ds, A_)
            add("box_overlap", f"CBox {G.cpair(ss)} {G.cpair(ds)} {G.caff(A_)} (Ok {ctuple(G.croi(rs), G.croi(rd))})",
                (ss, ds, str(A_6)))
    # singular matrices: LinAlgError
    for A in (Affine(0.0, 0.0, 1.0, 0.0, 1.0, 2.0), Affine(1.0, 0.0, 1.0, 0.0, 0.0, 2.0)):
        try:
            O._can_paste(A)
            e = "(Ok 0)"
        except Exception as ex:
            e = G.cerr(ex)
        add("can_paste:error", f"CCanPaste {G.cconsts()} {G.caff(A)} {cq(Fr(1e-3))} {cq(Fr(1e-2))} {e}", str(G.aff6(A)))

    # --- roi_boundary
    for n in (2, 5):
        for _ in range(20 if tier == "quick" else 100):
            y0, x0 = rng.randint(0, 30), rng.randint(0, 30)
            y1, x1 = y0 + 4 * rng.randint(0, 9), x0 + 4 * rng.randint(0, 9)
            if n == 2:
                y1, x1 = y1 + rng.randint(0, 3), x1 + rng.randint(0, 3)
            pts = R.roi_boundary((slice(y0, y1), slice(x0, x1)), n)
            add("roi_boundary", f"CBoundary {ctuple(G.cpair((y0, y1)), G.cpair((x0, x1)))} {cnat(n)} "
                f"[{'; '.join(G.cqq(p) for p in pts.tolist())}]", (y0, y1, x0, x1, n))
    return cases


def cand_k(A6):
    """read-scale candidates for an axis aligned transform (from the definition, not from the code)"""
    sc = min(abs(A6[0]), abs(A6[4]))
    if sc < 1:
        return [1]
    k0 = max(1, math.floor(sc))
    near_next = sc > k0 + 1 - Fr(1, 256)      # _pick_read_scale may snap up (its tol is 1e-3)
    return [k0, k0 + 1] if near_next else [k0]


# ---------------------------------------------------------------- GeoBox level, same CRS
def pair_stream(rng, n, small=False):
    """(src, dst, kwargs, family) same-CRS GeoBox pairs over every family of the quantifier."""
    from affine import Affine
    fams = ["shift", "subpix", "scale_int", "scale_near", "scale_frac", "mirror", "rot90", "shear", "aniso", "rot345"]
    for i in range(n):
        fam = fams[i % len(fams)] if i < 4 * len(fams) else rng.choice(fams)
        hi = 12 if small else 40
        ns = (rng.randint(1, hi), rng.randint(1, hi))
        stol = rng.choice(STOLS)
        ttol = rng.choice(TTOLS)
        k = 1
        dl = Fr(0)
        if fam in ("scale_int", "scale_near", "mirror") and rng.random() < 0.8:
            k = rng.choice([2, 2, 4, 4, 3, 5, 8, 2])
        if fam == "scale_near":
            dl = rng.choice([Fr(stol), -Fr(stol), Fr(stol) / 2, -Fr(stol) / 4, Fr(stol) * 2, Fr(stol) + Fr(1, 2 ** 24),
                             Fr(stol) - Fr(1, 2 ** 24), -Fr(stol) + Fr(1, 2 ** 24)])
        sx = sy = Fr(k) * (1 + dl)
        if fam == "scale_near" and rng.random() < 0.5:
            sy = Fr(k)
        if fam == "scale_frac":
            sx = sy = rng.choice([Fr(1, 2), Fr(1, 4), Fr(3, 2), Fr(3, 4), Fr(5, 2), Fr(1, 3), Fr(9, 8)])
        if fam == "aniso":
            sx, sy = rng.choice([(Fr(1), Fr(2)), (Fr(2), Fr(1)), (Fr(2), Fr(4)), (Fr(1, 2), Fr(1)), (Fr(3), Fr(2))])
        if fam == "mirror" or rng.random() < 0.25:
            m = rng.choice([(1, -1), (-1, 1), (-1, -1)])
            sx, sy = sx * m[0], sy * m[1]
        # destination size so that its footprint is comparable with the source
        nd = tuple(max(1, min(hi, int(round(ns[j] / float(abs((sy, sx)[j])) * rng.choice([0.5, 1, 1, 1.5]))))) for j in (0, 1))
        if rng.random() < 0.05:
            nd = (nd[0], 0) if rng.random() < 0.5 else (0, nd[1])
        # placement per axis in source pixels
        offs = []
        kinds = []
        for j, s in ((1, sx), (0, sy)):
            kind = rng.choice(G.PLACEMENTS)
            kinds.append(kind)
            ext = max(1, math.ceil(abs(s) * nd[j]))
            o = G.place(rng, kind, ns[j], ext)
            if s < 0:
                o = o + ext  # mirrored: the destination origin maps to the far end
            offs.append(Fr(o))
        ep = [Fr(0), Fr(0)]
        if fam == "subpix" or rng.random() < 0.3:
            for j in (0, 1):
                ep[j] = abs((sx, sy)[j]) * rng.choice([Fr(0), Fr(ttol), -Fr(ttol), Fr(ttol) - Fr(1, 2 ** 20), Fr(ttol) + Fr(1, 2 ** 20),
                                                       -Fr(ttol) + Fr(1, 2 ** 20), -Fr(ttol) - Fr(1, 2 ** 20), Fr(1, 64), Fr(-1, 64),
                                                       Fr(1, 128), Fr(-1, 32), Fr(ttol) / 2, -Fr(ttol) / 4, Fr(ttol) - Fr(1, 2 ** 20),
                                                       Fr(1, 4), Fr(1, 2), Fr(-3, 8)])
        A6 = [sx, Fr(0), offs[0] + ep[0], Fr(0), sy, offs[1] + ep[1]]
        if fam == "rot90":
            q = rng.choice([1, 2, 3])
            kk = rng.choice([Fr(1), Fr(2), Fr(1, 2)])
            R = {1: (0, -1, 1, 0), 2: (-1, 0, 0, -1), 3: (0, 1, -1, 0)}[q]
            A6 = [R[0] * kk, R[1] * kk, Fr(rng.randint(-3, ns[1] + 3)) + ep[0], R[2] * kk, R[3] * kk, Fr(rng.randint(-3, ns[0] + 3)) + ep[1]]
        elif fam == "shear":
            b = rng.choice([Fr(1, 2), Fr(-1, 4), Fr(1), Fr(-2)])
            if rng.random() < 0.5:
                A6 = [Fr(1), b, offs[0], Fr(0), rng.choice([Fr(1), Fr(-1), Fr(2)]), offs[1]]
            else:
                A6 = [Fr(0), Fr(1), offs[0], Fr(1), b, offs[1]]
        elif fam == "rot345":
            kk = rng.choice([Fr(1, 5), Fr(2, 5), Fr(1, 10), Fr(1)])
            sg = rng.choice([1, -1])
            A6 = [3 * kk, -4 * kk * sg, Fr(rng.randint(-3, ns[1] + 3)), 4 * kk * sg, 3 * kk, Fr(rng.randint(-3, ns[0] + 3))]
        if not all(G.is_f64(v) or fam in ("rot345", "scale_frac") for v in A6):
            continue
        A = Affine(*[float(v) for v in A6])
        src, dst = G.mk_pair(ns, nd, A)
        if fam in ("shift", "subpix", "scale_int", "scale_near", "mirror") and rng.random() < 0.75:
            padding, align = rng.choice([None, None, 0]), rng.choice([None, None, 0])
        else:
            padding = rng.choice([None, None, None, 0, 0, 1, 2, 5])
            align = rng.choice([None, None, None, 0, 1, 2, 4, 16, 3])
        kw = {"ttol": ttol, "stol": stol, "padding": padding, "align": align}
        yield src, dst, kw, fam, tuple(kinds)


def gen_reproj_cases(out, tier, rng):
    from odc.geo.overlap import compute_reproject_roi

    cases = []
    n = 1200 if tier == "quick" else 12000
    shown = 0
    for src, dst, kw, fam, kinds in pair_stream(rng, n):
        with warnings.catch_warnings():
            warnings.simplefilter("ignore")
            try:
                r = compute_reproject_roi(src, dst, **kw)
            except Exception as ex:  # pragma: no cover - recorded as a case too
                r = ex
        if isinstance(r, Exception):
            out.count("reproject:raised-" + type(r).__name__)
            continue
        A, F = r.transform.back.linear, r.transform.linear
        A6, F6 = G.aff6(A), G.aff6(F)
        st = A6[1] == 0 and A6[3] == 0
        few = all(fewbit(v) for v in A6 + F6)
        sc_exact = st or G.scale2_exact(A6)
        tight = kw["align"] in (None, 0) and kw["padding"] in (None, 0)
        ok = sc_exact
        if st and tight:
            ok = ok and all(G.scaled_exact(A6, k) for k in cand_k(A6))
        if not (few or (st and r.paste_ok)):
            ok = False
        if not ok:
            out.count(f"reproject:generator-escape:{fam}")
            continue
        path = "paste" if r.paste_ok else "sampled"
        text = (f"CReproj {G.cconsts()} {G.cpair(src.shape)} {G.cpair(dst.shape)} {G.caff(A)} {G.caff(F)} "
                f"{cq(Fr(kw['ttol']))} {cq(Fr(kw['stol']))} {copt(kw['padding'])} {copt(kw['align'])} true (Ok {G.cinfo(r)})")
        cases.append(text)
        out.count(f"reproject:{fam}:{path}:shrink={'1' if r.read_shrink == 1 else '>1'}")
        out.count("placement:" + kinds[0])
        nontrivial = not (r.roi_dst[0].stop == r.roi_dst[0].start or r.roi_dst[1].stop == r.roi_dst[1].start)
        sample = None
        if shown < 3 and nontrivial:
            shown += 1
            sample = {"op": "compute_reproject_roi", "src_shape": list(src.shape), "dst_shape": list(dst.shape),
                      "A_dst_to_src": [str(v) for v in A6], "kwargs": {k: v for k, v in kw.items()},
                      "result": {"roi_src": str(r.roi_src), "roi_dst": str(r.roi_dst), "paste_ok": r.paste_ok,
                                 "read_shrink": r.read_shrink, "scale": r.scale}}
        out.case(("reproject", str(A6), tuple(src.shape), tuple(dst.shape), str(sorted(kw.items()))), nontrivial, sample)
    return cases


# ---------------------------------------------------------------- different CRS: PROJ recorded as a table
class Recorder:
    """Stands in for the point transform: same interface, records argument -> result."""

    def __init__(self, tr, tab_fwd, tab_back, back=None):
        self._tr = tr
        self._tab = tab_fwd
        self._tab_back = tab_back
        self._back = back

    @property
    def linear(self):
        return None

    @property
    def back(self):
        if self._back is None:
            self._back = Recorder(self._tr.back, self._tab_back, self._tab, self)
        return self._back

    def __call__(self, pts):
        res = self._tr(pts)
        for p, q in zip(pts, res):
            self._tab.append(((float(p.x), float(p.y)), (float(q.x), float(q.y))))
        return res


NL_PAIRS = [
    ("EPSG:32633", (1 / 16, 0, 500000.0, 0, -1 / 16, 6000000.0), "EPSG:32634", (1 / 16, 0, 100000.0, 0, -1 / 16, 6000000.0)),
    ("EPSG:4326", (-1 / 64, 0, 140.0, 0, 1 / 64, -30.0), "EPSG:3857", (2048.0, 0, 15500000.0, 0, -2048.0, -3400000.0)),
    ("EPSG:32633", (32.0, 0, 499968.0, 0, -32.0, 6000000.0), "EPSG:4326", (1 / 2048, 0, 14.9, 0, -1 / 2048, 54.2)),
    ("EPSG:3577", (64.0, 0, 1500000.0, 0, -64.0, -3900000.0), "EPSG:32755", (50.0, 0, 600000.0, 0, -50.0, 6100000.0)),
    ("EPSG:6933", (1024.0, 0, 0.0, 0, -1024.0, 1000000.0), "EPSG:4326", (1 / 64, 0, -1.0, 0, -1 / 64, 9.0)),
    # (all pairs stay inside the valid area of both CRSs for every generated shift: the property quantifies over those)
    ("EPSG:4326", (1 / 8, 0, -170.0, 0, -1 / 8, 78.0), "EPSG:3857", (65536.0, 0, -4000000.0, 0, -65536.0, 4000000.0)),
    ("EPSG:3857", (512.0, 0, 1000000.0, 0, -512.0, 7000000.0), "EPSG:32632", (400.0, 0, 300000.0, 0, -400.0, 5900000.0)),
]


def nl_stream(rng, n):
    from affine import Affine
    from odc.geo.geobox import GeoBox
    for i in range(n):
        c1, a1, c2, a2 = NL_PAIRS[i % len(NL_PAIRS)]
        if rng.random() < 0.5:
            c1, c2 = c2, c1
            a1 = a2
        ns = (rng.randint(2, 40), rng.randint(2, 40))
        src = GeoBox(ns, Affine(*a1) * Affine.translation(rng.randint(-20, 20), rng.randint(-20, 20)), c1)
        # destination grid over the source footprint, then windowed / shifted / made coarser or finer
        with warnings.catch_warnings():
            warnings.simplefilter("ignore")
            full = GeoBox.from_bbox(src.footprint(c2).boundingbox, c2, shape=(rng.randint(3, 40), rng.randint(3, 40)), tight=True)
        ny, nx = full.shape
        mode = rng.random()
        if mode < 0.15:      # far away: no overlap
            dst = full * Affine.translation(rng.choice([-1, 1]) * (nx + rng.randint(3, 40)), rng.randint(-3, 3))
        elif mode < 0.2:     # empty destination
            dst = GeoBox((0, nx), full.affine, c2)
        else:                # partial overlap on each side / contained / covering
            dst = full.pad(rng.randint(0, 4))
            h, w = dst.shape
            y0, x0 = rng.randint(0, h - 1), rng.randint(0, w - 1)
            dst = dst[y0:rng.randint(y0 + 1, h), x0:rng.randint(x0 + 1, w)]
        yield src, dst, {"padding": rng.choice([None, None, 0, 1, 3]), "align": rng.choice([None, None, 0, 2, 16])}


def gen_nl_cases(out, tier, rng):
    from odc.geo import overlap as O

    cases = []
    n = 60 if tier == "quick" else 600
    orig = O.native_pix_transform
    for src, dst, kw in nl_stream(rng, n):
        tab_f, tab_b = [], []

        def patched(s, d, _tf=tab_f, _tb=tab_b):
            return Recorder(orig(s, d), _tf, _tb)

        O.native_pix_transform = patched
        try:
            with warnings.catch_warnings():
                warnings.simplefilter("ignore")
                r = O.compute_reproject_roi(src, dst, **kw)
        finally:
            O.native_pix_transform = orig
        # the scale estimate (least-squares fit through 5 PROJ points) is an oracle: keep its points out of the table
        empty = r.roi_dst[0].stop <= r.roi_dst[0].start or r.roi_dst[1].stop <= r.roi_dst[1].start
        sc_at = (0.0, 0.0)
        if not empty:
            sc_at = tab_b[-5][0]          # get_scale_at_point: first of its five points is the centre itself
            tab_b = tab_b[:-5]

        def ctab(tab):
            def cpt(q):
                return "None" if not (math.isfinite(q[0]) and math.isfinite(q[1])) else f"(Some {G.cqq(q)})"
            return "[" + "; ".join(ctuple(G.cqq(p), cpt(q)) for p, q in tab) + "]"

        sc = "(Err EOther)" if empty else f"(Ok {G.cqq(r.scale2.xy)})"
        text = (f"CReprojNL {G.cconsts()} {ctab(tab_b)} {ctab(tab_f)} {G.cqq(sc_at)} {sc} {G.cpair(src.shape)} {G.cpair(dst.shape)} "
                f"{copt(kw['padding'])} {copt(kw['align'])} (Ok {G.cinfo(r)})")
        cases.append(text)
        out.count("reproject-crs:" + ("empty" if empty else "overlap"))
        out.case(("reproject-crs", str(src), str(dst), str(sorted(kw.items()))), not empty)
    return cases


# ---------------------------------------------------------------- property predicates on the implementation
def p_axis(Ns, Nd, s, t):
    """compute_axis_overlap: bounds, inclusion (brute force over destination pixels), disjoint -> empty."""
    from odc.geo.overlap import compute_axis_overlap
    s, t = Fr(s), Fr(t)
    src, dst = compute_axis_overlap(Ns, Nd, float(s), float(t))
    ok = 0 <= src.start <= src.stop <= Ns and 0 <= dst.start <= dst.stop <= Nd
    why = f"src={src} dst={dst}"
    if not ok:
        return False, why + " outside the images"
    lo, hi = sorted([t, Nd * s + t])
    if hi <= 0 or lo >= Ns:
        if src.stop != src.start or dst.stop != dst.start:
            return False, why + " not empty although the images do not overlap"
    for d in range(Nd):
        x = s * (d + Fr(1, 2)) + t
        if 0 <= x < Ns:
            k = math.floor(x)
            if not (dst.start <= d < dst.stop and src.start <= k < src.stop):
                return False, why + f" misses destination pixel {d} -> source pixel {k}"
    return True, why


def _reproj(src_shape, dst_shape, A, kw):
    from affine import Affine
    from odc.geo.overlap import compute_reproject_roi
    src, dst = G.mk_pair(tuple(src_shape), tuple(dst_shape), Affine(*[float(Fr(v)) for v in A]))
    with warnings.catch_warnings():
        warnings.simplefilter("ignore")
        r = compute_reproject_roi(src, dst, **kw)
    return src, dst, r


def p_reproject(src_shape, dst_shape, A, kw):
    """compute_reproject_roi on a same-CRS pair: regions inside the images, every needed pixel
    included (exact arithmetic on the true transform inv(src.affine)*dst.affine), disjoint -> empty,
    scale / read_shrink relations."""
    src, dst, r = _reproj(src_shape, dst_shape, A, kw)
    T = G.true_A(src, dst)
    (ny, nx), (my, mx) = src.shape, dst.shape
    (sy0, sy1), (sx0, sx1) = [(s.start, s.stop) for s in r.roi_src]
    (dy0, dy1), (dx0, dx1) = [(s.start, s.stop) for s in r.roi_dst]
    k = r.read_shrink
    why = f"roi_src={r.roi_src} roi_dst={r.roi_dst} paste_ok={r.paste_ok} read_shrink={k} scale={r.scale}"
    if not (isinstance(k, int) and k >= 1):
        return False, why + ": read_shrink is not a positive integer"
    lim_y, lim_x = (ny, nx) if k == 1 else (-(-ny // k) * k, -(-nx // k) * k)
    if not (0 <= sy0 <= sy1 <= lim_y and 0 <= sx0 <= sx1 <= lim_x and 0 <= dy0 <= dy1 <= my and 0 <= dx0 <= dx1 <= mx):
        return False, why + ": region outside its image"
    # scale relations
    a, b, _, d, e, _ = T
    sc = Fr(r.scale)
    if b == 0 and d == 0:
        want = min(abs(a), abs(e))
        if abs(sc - want) > want / 10 ** 9:
            return False, why + f": scale is not the smaller per-axis ratio {float(want)}"
    else:
        sx2 = a * a + d * d
        det = abs(a * e - b * d)
        sx, sy = Fr(r.scale2.x), Fr(r.scale2.y)
        if abs(sx * sx - sx2) > sx2 / 10 ** 9 or abs(sx * sy - det) > det / 10 ** 9 or sc != min(sx, sy):
            return False, why + f": scale2={r.scale2} does not match the transform"
    tol = Fr(1e-3)
    if sc < 1 and k != 1:
        return False, why + ": read_shrink must be 1 when scale < 1"
    if sc >= 1 and not (k - sc < tol and sc < k + 1):
        return False, why + ": read_shrink is not the integer below scale (or scale snapped up within tolerance)"
    # inclusion
    pad = kw.get("padding")
    pad = (0 if r.paste_ok else 1) if pad is None else pad
    xs = [G.aapply(T, c) for c in ((0, 0), (mx, 0), (mx, my), (0, my))]
    bx0, bx1 = min(p[0] for p in xs), max(p[0] for p in xs)
    by0, by1 = min(p[1] for p in xs), max(p[1] for p in xs)
    # margin: the padding, whatever the alignment.  "more than": strict, with 1e-6 px of slack so that binary64
    # noise in the implementation's own inverse affine cannot decide the case
    eps = Fr(1, 10 ** 6)
    if mx > 0 and my > 0 and (bx1 < -pad - eps or by1 < -pad - eps or bx0 > nx + pad + eps or by0 > ny + pad + eps):
        if (sy1 - sy0) * (sx1 - sx0) != 0 or (dy1 - dy0) * (dx1 - dx0) != 0:
            return False, why + ": regions not empty although the rasters are separated by more than the padding"
    for dy in range(my):
        for dx in range(mx):
            px, py = G.aapply(T, (dx + Fr(1, 2), dy + Fr(1, 2)))
            if 0 <= px < nx and 0 <= py < ny:
                kx, ky = math.floor(px), math.floor(py)
                if not (dx0 <= dx < dx1 and dy0 <= dy < dy1 and sx0 <= kx < sx1 and sy0 <= ky < sy1):
                    return False, why + f": destination pixel (x={dx},y={dy}) maps to source pixel (x={kx},y={ky}) but is not covered"
                if not r.paste_ok and not (sx0 <= max(0, kx - pad) and min(nx, kx + 1 + pad) <= sx1 and
                                           sy0 <= max(0, ky - pad) and min(ny, ky + 1 + pad) <= sy1):
                    return False, why + f": the padding of {pad} source pixels around needed pixel (x={kx},y={ky}) is not part of roi_src"
    return True, why


def p_reproject_crs(i, seed_tag):
    """different CRS: every destination pixel centre whose image (through PROJ, float64) lies inside the
    source must be covered; returns the observed slack in pixels (tests H_boundary_encloses)."""
    import numpy as np
    from odc.geo import xy_
    from odc.geo.overlap import compute_reproject_roi
    rng = core.rng(seed_tag)
    src, dst, kw = list(itertools.islice(nl_stream(rng, i + 1), i, None))[0]
    with warnings.catch_warnings():
        warnings.simplefilter("ignore")
        r = compute_reproject_roi(src, dst, **kw)
    (ny, nx), (my, mx) = src.shape, dst.shape
    (sy0, sy1), (sx0, sx1) = [(s.start, s.stop) for s in r.roi_src]
    (dy0, dy1), (dx0, dx1) = [(s.start, s.stop) for s in r.roi_dst]
    why = f"src={src!r} dst={dst!r} kw={kw} roi_src={r.roi_src} roi_dst={r.roi_dst}"
    if not (0 <= sy0 <= sy1 <= ny and 0 <= sx0 <= sx1 <= nx and 0 <= dy0 <= dy1 <= my and 0 <= dx0 <= dx1 <= mx):
        return False, why + ": region outside its image", None
    ok, msg = check_crs_scale(src, dst, r)
    if not ok:
        return False, why + f" scale={r.scale!r} read_shrink={r.read_shrink}" + msg, None
    if mx == 0 or my == 0:
        return True, why, None
    cc = [xy_(x + 0.5, y + 0.5) for y in range(my) for x in range(mx)]
    pp = r.transform.back(cc)
    slack = None
    eps = 1e-6
    for c, p in zip(cc, pp):
        if not (math.isfinite(p.x) and math.isfinite(p.y)):
            continue
        if eps <= p.x < nx - eps and eps <= p.y < ny - eps:
            kx, ky, dx, dy = math.floor(p.x), math.floor(p.y), int(c.x), int(c.y)
            # distance to those edges of roi_src that are not edges of the source image itself
            sides = [v for v, at_edge in ((p.x - sx0, sx0 == 0), (sx1 - p.x, sx1 == nx), (p.y - sy0, sy0 == 0), (sy1 - p.y, sy1 == ny))
                     if not at_edge]
            sl = min(sides) if sides else None
            if sl is not None:
                slack = sl if slack is None else min(slack, sl)
            if not (dx0 <= dx < dx1 and dy0 <= dy < dy1 and sx0 <= kx < sx1 and sy0 <= ky < sy1):
                return False, why + f": destination pixel (x={dx},y={dy}) maps to source ({p.x:.3f},{p.y:.3f}) but is not covered", sl
    return True, why, slack


SCALE_RTOL = 1e-6


def ref_scale2(src, dst, cx, cy):
    """Independent reference for get_scale_at_point: pyproj directly, central differences with step 1
    around the destination pixel-plane point (cx, cy); sx = |image of the x step|, sy = |det| / sx
    (the Cholesky diagonal the code takes).  The code fits an affine by least squares through the
    symmetric 5-point stencil of radius 1 - its linear part IS the central difference, so the two agree
    up to binary64 rounding of the unnormalised lstsq (measured <= 1e-10 relative for pixel coordinates
    up to 3e4; SCALE_RTOL = 1e-6 leaves four orders of magnitude)."""
    from pyproj import Transformer
    tr = Transformer.from_crs(dst.crs.to_wkt(), src.crs.to_wkt(), always_xy=True)
    Si = ~src.transform

    def to_src(px, py):
        wx, wy = dst.transform * (px, py)
        return Si * tr.transform(wx, wy)

    x1, x0 = to_src(cx + 1, cy), to_src(cx - 1, cy)
    y1, y0 = to_src(cx, cy + 1), to_src(cx, cy - 1)
    a, d = (x1[0] - x0[0]) / 2, (x1[1] - x0[1]) / 2
    b, e = (y1[0] - y0[0]) / 2, (y1[1] - y0[1]) / 2
    sx = math.hypot(a, d)
    return sx, abs(a * e - b * d) / sx


def check_crs_scale(src, dst, r):
    """scale / read_shrink of a different-CRS plan against the reference at the centre of roi_dst"""
    (dy0, dy1), (dx0, dx1) = [(s.start, s.stop) for s in r.roi_dst]
    if dy1 <= dy0 or dx1 <= dx0:
        ok = r.scale == 0 and r.read_shrink == 1
        return ok, "" if ok else ": empty overlap must report scale 0 and read_shrink 1"
    cx, cy = (dx0 + dx1) / 2, (dy0 + dy1) / 2
    sx, sy = ref_scale2(src, dst, cx, cy)
    if not (math.isfinite(sx) and math.isfinite(sy) and sx > 0 and sy > 0):
        return True, ""
    ref = min(sx, sy)
    if abs(r.scale - ref) > SCALE_RTOL * ref:
        tx, ty = ref_scale2(src, dst, cy, cx)
        return False, (f": reported scale {r.scale!r} is not the smaller per-axis ratio at the centre of the overlap "
                       f"(x={cx}, y={cy}): reference {ref!r} (sx={sx!r}, sy={sy!r}); at the transposed point it would be {min(tx, ty)!r}")
    k = r.read_shrink
    if not (isinstance(k, int) and k >= 1):
        return False, ": read_shrink is not a positive integer"
    # expected read_shrink from the reference, unless the reference is within 1e-5 of a decision boundary
    n = math.floor(ref) + 1
    near = min(abs(ref - 1), abs(ref - round(ref)), abs(ref - (n - 1e-3))) < 1e-5
    if not near:
        want = 1 if ref < 1 else (n if n - ref < 1e-3 else math.floor(ref))
        if k != want:
            return False, f": read_shrink {k} but scale {ref!r} at the centre of the overlap calls for {want}"
    return True, ""


def p_crs_scale(src_crs, src_shape, src_aff, dst_crs, dst_shape, dst_aff, kw):
    """different CRS, any size (no pixel enumeration): regions inside the images, scale and read_shrink
    measured at the centre of the overlap"""
    from affine import Affine
    from odc.geo.geobox import GeoBox
    from odc.geo.overlap import compute_reproject_roi
    src = GeoBox(tuple(src_shape), Affine(*src_aff), src_crs)
    dst = GeoBox(tuple(dst_shape), Affine(*dst_aff), dst_crs)
    with warnings.catch_warnings():
        warnings.simplefilter("ignore")
        r = compute_reproject_roi(src, dst, **kw)
    (ny, nx), (my, mx) = src.shape, dst.shape
    (sy0, sy1), (sx0, sx1) = [(s.start, s.stop) for s in r.roi_src]
    (dy0, dy1), (dx0, dx1) = [(s.start, s.stop) for s in r.roi_dst]
    why = f"roi_src={r.roi_src} roi_dst={r.roi_dst} scale={r.scale!r} scale2={r.scale2} read_shrink={r.read_shrink}"
    if not (0 <= sy0 <= sy1 <= ny and 0 <= sx0 <= sx1 <= nx and 0 <= dy0 <= dy1 <= my and 0 <= dx0 <= dx1 <= mx):
        return False, why + ": region outside its image"
    ok, msg = check_crs_scale(src, dst, r)
    return ok, why + msg


def strip_stream(rng, n):
    """lon/lat source with fine pixels, Web-Mercator (and UTM / equal-area) destinations that are strongly
    non-square strips over a range of latitudes: the local scale varies along the strip"""
    from pyproj import Transformer
    src_aff = [2.0 ** -10, 0.0, -20.0, 0.0, -(2.0 ** -10), 75.0]
    src_shape = [80 * 1024, 60 * 1024]            # lon -20..40, lat -5..75
    fixed = [("EPSG:3857", 10.0, 2.0, 11.0, 70.0, 500.0), ("EPSG:3857", -15.0, 60.0, 35.0, 66.0, 500.0),
             ("EPSG:3857", 5.0, 40.0, 7.0, 41.5, 500.0), ("EPSG:6933", 0.0, 5.0, 1.0, 65.0, 1000.0)]
    for i in range(n):
        if i < len(fixed):
            crs, lon0, lat0, lon1, lat1, res = fixed[i]
        else:
            crs = rng.choice(["EPSG:3857", "EPSG:3857", "EPSG:6933", "EPSG:3035"])
            tall = rng.random() < 0.5
            lon0, lat0 = rng.uniform(-18, 30), rng.uniform(-3, 55)
            if crs == "EPSG:3035":
                lon0, lat0 = rng.uniform(-5, 25), rng.uniform(36, 55)
            if tall:
                lon1, lat1 = lon0 + rng.uniform(0.2, 1.5), min(72.0, lat0 + rng.uniform(8, 60))
            else:
                lon1, lat1 = min(38.0, lon0 + rng.uniform(8, 40)), lat0 + rng.uniform(0.2, 3)
            res = rng.choice([250.0, 500.0, 1000.0, 4000.0])
        m = Transformer.from_crs("EPSG:4326", crs, always_xy=True)
        xs, ys = zip(*[m.transform(lo, la) for lo in (lon0, lon1) for la in (lat0, lat1)])
        x0, x1, y0, y1 = min(xs), max(xs), min(ys), max(ys)
        nx, ny = int((x1 - x0) / res), int((y1 - y0) / res)
        if not (2 <= nx <= 30000 and 2 <= ny <= 30000):
            continue
        yield ["EPSG:4326", src_shape, src_aff, crs, [ny, nx], [res, 0.0, float(x0), 0.0, -res, float(y1)],
               {"padding": rng.choice([None, None, 0, 2]), "align": rng.choice([None, None, 0, 16])}]


def pyproj_dst2src(src, dst, px, py):
    """independent reference: destination pixel-plane points -> source pixel-plane points with numpy and
    pyproj only (own 3x3 matrices, own Transformer with always_xy=True; nothing from odc.geo)"""
    import numpy as np
    from pyproj import Transformer

    def mat(g):
        a, b, c, d, e, f = tuple(g.transform)[:6]
        return np.array([[a, b, c], [d, e, f], [0.0, 0.0, 1.0]])

    D, S = mat(dst), np.linalg.inv(mat(src))
    X = D[0, 0] * px + D[0, 1] * py + D[0, 2]
    Y = D[1, 0] * px + D[1, 1] * py + D[1, 2]
    if src.crs.to_wkt() != dst.crs.to_wkt():
        X0, Y0 = X, Y
        X, Y = Transformer.from_crs(dst.crs.to_wkt(), src.crs.to_wkt(), always_xy=True).transform(X0, Y0)
        # a destination point outside the domain of its projection (beyond the outline of a pseudo-cylindrical
        # world map, say) is not "inside the valid area": it must survive the round trip to count
        Xr, Yr = Transformer.from_crs(src.crs.to_wkt(), dst.crs.to_wkt(), always_xy=True).transform(X, Y)
        with np.errstate(invalid="ignore"):
            tol = 1e-6 * max(abs(D[0, 0]), abs(D[1, 1]), abs(D[0, 1]), abs(D[1, 0]))
            bad = ~(np.hypot(np.asarray(Xr) - X0, np.asarray(Yr) - Y0) <= tol)
        X, Y = np.where(bad, np.nan, X), np.where(bad, np.nan, Y)
    return S[0, 0] * X + S[0, 1] * Y + S[0, 2], S[1, 0] * X + S[1, 1] * Y + S[1, 2]


def check_inclusion_pyproj(src, dst, r, step=1, sliver=0.0):
    """every step-th destination pixel (plus the last row/column) whose centre maps inside the source
    (by more than 1e-6 px) must lie in roi_dst and its source pixel in roi_src.  Missed pixels whose source
    location is less than `sliver` source pixels inside the source edge are not a violation here; they are
    reported as ' EDGE-SLIVER ...' in the message (open finding crs-edge-sliver)."""
    import numpy as np
    (ny, nx), (my, mx) = src.shape, dst.shape
    (sy0, sy1), (sx0, sx1) = [(s.start, s.stop) for s in r.roi_src]
    (dy0, dy1), (dx0, dx1) = [(s.start, s.stop) for s in r.roi_dst]
    if not (0 <= sy0 <= sy1 <= ny and 0 <= sx0 <= sx1 <= nx and 0 <= dy0 <= dy1 <= my and 0 <= dx0 <= dx1 <= mx):
        return False, ": region outside its image"
    if mx == 0 or my == 0:
        return True, ""
    ys = np.unique(np.r_[np.arange(0, my, step), my - 1])
    xs = np.unique(np.r_[np.arange(0, mx, step), mx - 1])
    py, px = np.meshgrid(ys, xs, indexing="ij")
    ux, uy = pyproj_dst2src(src, dst, (px + 0.5).ravel().astype("float64"), (py + 0.5).ravel().astype("float64"))
    ux, uy = ux.reshape(px.shape), uy.reshape(px.shape)
    eps = 1e-6
    with np.errstate(invalid="ignore"):
        needed = np.isfinite(ux) & np.isfinite(uy) & (ux > eps) & (ux < nx - eps) & (uy > eps) & (uy < ny - eps)
    kx, ky = np.floor(np.where(needed, ux, 0)).astype("int64"), np.floor(np.where(needed, uy, 0)).astype("int64")
    ok_dst = (px >= dx0) & (px < dx1) & (py >= dy0) & (py < dy1)
    ok_src = (kx >= sx0) & (kx < sx1) & (ky >= sy0) & (ky < sy1)
    miss = needed & ~(ok_dst & ok_src)
    with np.errstate(invalid="ignore"):
        depth = np.minimum(np.minimum(ux, nx - ux), np.minimum(uy, ny - uy))
    deep = miss & (depth >= sliver)
    if deep.any():
        j, i = np.argwhere(deep)[0]
        return False, (f": {int(deep.sum())} of {int(needed.sum())} sampled needed pixels are not covered, e.g. destination pixel "
                       f"(x={int(px[j, i])},y={int(py[j, i])}) maps to source ({ux[j, i]:.3f},{uy[j, i]:.3f})")
    msg = f" ({int(needed.sum())} needed pixels sampled)"
    if miss.any():
        j, i = np.argwhere(miss)[0]
        msg += (f" EDGE-SLIVER {int(miss.sum())} needed pixels within {float(depth[miss].max()):.3f} source px of the source edge "
                f"are not covered, e.g. destination pixel (x={int(px[j, i])},y={int(py[j, i])}) -> source ({ux[j, i]:.3f},{uy[j, i]:.3f})")
    return True, msg


def mk_gbox(crs, shape, aff):
    from affine import Affine
    from odc.geo.geobox import GeoBox
    return GeoBox(tuple(shape), Affine(*aff), crs)


def p_after_history(hist_names, specs, name, args):
    from vlib import crshist
    return crshist.after_history(PREDICATES)(hist_names, specs, name, args)


def p_crs_inclusion(src_crs, src_shape, src_aff, dst_crs, dst_shape, dst_aff, kw, step, sliver=1.0):
    """different CRS, explicit (possibly continental) grids: inclusion on a subsample of destination pixels,
    reference = pyproj called directly; plus the scale clause.  sliver: see check_inclusion_pyproj - the
    unchanged code is known to drop needed pixels that map less than half a (>= 10 km) source pixel inside
    a strongly curved source edge (open finding crs-edge-sliver); sliver=0 states the property in full."""
    from odc.geo.overlap import compute_reproject_roi
    src, dst = mk_gbox(src_crs, src_shape, src_aff), mk_gbox(dst_crs, dst_shape, dst_aff)
    with warnings.catch_warnings():
        warnings.simplefilter("ignore")
        r = compute_reproject_roi(src, dst, **kw)
    why = f"roi_src={r.roi_src} roi_dst={r.roi_dst} scale={r.scale!r} read_shrink={r.read_shrink}"
    ok, msg = check_inclusion_pyproj(src, dst, r, step, sliver)
    if not ok:
        return False, why + msg
    ok2, msg2 = check_crs_scale(src, dst, r)
    return ok2, why + msg + msg2


def continental_stream(rng, n):
    """continental-size equal-area / conic / Mercator sources whose footprint ends INSIDE a larger lon/lat
    (or other) destination canvas: roi_dst is decided by the curved projected source edges"""
    from pyproj import Transformer
    bases = [
        ("EPSG:3577", (-2000000.0, -1200000.0, 4000000.0, 3000000.0)),     # Australian Albers
        ("EPSG:3035", (2600000.0, 1600000.0, 3000000.0, 3000000.0)),        # European LAEA
        ("EPSG:5070", (-2200000.0, 400000.0, 4200000.0, 2600000.0)),        # CONUS Albers
        ("EPSG:6933", (-3000000.0, 1000000.0, 6000000.0, 5000000.0)),       # EASE-2 global equal area
        ("EPSG:3857", (-1000000.0, 4000000.0, 4000000.0, 5000000.0)),       # Web Mercator, Europe
    ]
    for i in range(n):
        crs, (x0, y0, w, h) = bases[i % len(bases)]
        res = rng.choice([10000.0, 12500.0, 20000.0])
        fx, fy = rng.uniform(0.6, 1.0), rng.uniform(0.6, 1.0)
        ox, oy = rng.uniform(0, 1 - fx) * w, rng.uniform(0, 1 - fy) * h
        nx, ny = int(w * fx / res), int(h * fy / res)
        src_aff = [res, 0.0, x0 + ox, 0.0, -res, y0 + oy + ny * res]
        dcrs = "EPSG:4326" if crs != "EPSG:3857" or rng.random() < 0.5 else "EPSG:3035"
        tr = Transformer.from_crs(crs, dcrs, always_xy=True)
        ex = [tr.transform(src_aff[2] + u * nx * res, src_aff[5] - v * ny * res) for u in (0, 0.25, 0.5, 0.75, 1) for v in (0, 0.25, 0.5, 0.75, 1)]
        lx, ly = [p[0] for p in ex], [p[1] for p in ex]
        if dcrs == "EPSG:4326":
            dres, buf = rng.choice([0.1, 0.125, 0.25]), rng.uniform(2.0, 5.0)
        else:
            dres, buf = rng.choice([10000.0, 20000.0]), rng.uniform(200000.0, 500000.0)
        X0, X1, Y0, Y1 = min(lx) - buf, max(lx) + buf, min(ly) - buf, max(ly) + buf
        if dcrs == "EPSG:4326":
            X0, X1, Y0, Y1 = max(X0, -179.0), min(X1, 179.0), max(Y0, -84.0), min(Y1, 84.0)
        dnx, dny = int((X1 - X0) / dres), int((Y1 - Y0) / dres)
        if not (4 <= dnx <= 1500 and 4 <= dny <= 1500):
            continue
        yield [crs, [ny, nx], src_aff, dcrs, [dny, dnx], [dres, 0.0, X0, 0.0, -dres, Y1],
               {"padding": rng.choice([None, None, 1, 2]), "align": rng.choice([None, None, 4])}, 3]


def global_stream(rng, n):
    """global lon/lat sources whose georegistration overshoots [-180,180]x[-90,90] by a hair (typical global
    GeoTIFFs) and destinations that reach the pole rows: global cylindrical equal-area (EPSG:6933: whole grid,
    polar caps, western part) and global Equal Earth (EPSG:8857: whole grid only - a partial window of a
    pseudo-cylindrical map has corners outside the projection's outline, i.e. outside its valid area)"""
    from pyproj import Transformer
    for i in range(n):
        dcrs = "EPSG:8857" if i % 3 == 2 else "EPSG:6933"
        tol = rng.choice([1e-3, 1e-2, 0.1, 0.25])
        nx = rng.choice([360, 720, 1440, 2000])
        ny = nx // 2
        rx, ry = (360 + 2 * tol) / nx, (180 + 2 * tol) / ny
        latmax = rng.choice([89.95, 89.5, 88.0])
        tr = Transformer.from_crs("EPSG:4326", dcrs, always_xy=True)
        x1, _ = tr.transform(180, 0)
        _, y1 = tr.transform(0, latmax)
        dnx = rng.choice([240, 480, 720])
        mode = "global" if dcrs == "EPSG:8857" else rng.choice(["global", "cap_n", "cap_s", "west"])
        X0, X1, Y0, Y1 = -x1, x1, -y1, y1
        if mode == "cap_n":
            Y0 = y1 * rng.uniform(0.5, 0.9)
        if mode == "cap_s":
            Y1 = -y1 * rng.uniform(0.5, 0.9)
        if mode == "west":
            X1 = -x1 * rng.uniform(0.2, 0.8)
        res_x = (X1 - X0) / dnx
        dny = max(2, int((Y1 - Y0) / res_x))
        res_y = (Y1 - Y0) / dny
        yield ["EPSG:4326", [ny, nx], [rx, 0.0, -180.0 - tol, 0.0, -ry, 90.0 + tol], dcrs, [dny, dnx],
               [res_x, 0.0, X0, 0.0, -res_y, Y1], {"padding": rng.choice([None, None, 2]), "align": None}, 3, 1.0]


def polar_stream(rng, n):
    """polar stereographic / polar LAEA sources whose footprint contains the pole, lon/lat destination bands"""
    for i in range(n):
        crs, south = [("EPSG:3413", False), ("EPSG:3031", True), ("EPSG:3995", False), ("EPSG:3976", True)][i % 4]
        half = rng.choice([1.5e6, 2e6, 3e6])
        res = rng.choice([10000.0, 20000.0, 25000.0])
        ox, oy = rng.uniform(-0.3, 0.3) * half, rng.uniform(-0.3, 0.3) * half
        nside = int(2 * half / res)
        src_aff = [res, 0.0, -half + ox, 0.0, -res, half + oy]
        dres = rng.choice([0.1, 0.25, 0.5])
        lat0 = rng.choice([50.0, 60.0, 70.0])
        dny, dnx = int((90 - lat0) / dres), int(360 / dres)
        dst_aff = [dres, 0.0, -180.0, 0.0, -dres, (-lat0 if south else 90.0)]
        yield [crs, [nside, nside], src_aff, "EPSG:4326", [dny, dnx], dst_aff, {"padding": None, "align": None}, 4, 1.0]


def custom_crs(kind, lon0, lat0, uid):
    if kind == "laea":
        return f"+proj=laea +lat_0={lat0} +lon_0={lon0} +x_0=0 +y_0=0 +datum=WGS84 +units=m +no_defs +title=c03scene{uid:06d}"
    return f"+proj=tmerc +lat_0=0 +lon_0={lon0} +k=0.9996 +x_0=500000 +y_0=0 +datum=WGS84 +units=m +no_defs +title=c03scene{uid:06d}"


def p_crs_custom_rounds(seed, rounds, churn_n):
    """a long-running process that handles one scene after the other, each with its own pair of custom CRSs:
    plan scene k (judged with pyproj called directly on the proj strings); go on to build / use / drop churn_n
    other custom CRSs (tools/vlib/crshist.churn + gc) while scene k is still referenced; then scene k goes out of
    scope object by object as scene k+1 comes in (del dst CRS, build the new source CRS, del src CRS, build the
    new destination CRS - the order in which a loader replaces its state); plan scene k+1; ..."""
    import gc
    from pyproj import Transformer
    from odc.geo.crs import CRS
    from odc.geo.overlap import compute_reproject_roi
    from vlib import crshist
    rng = core.rng(f"c03-custom-{seed}")
    uid = seed * 1000

    def defs(rnd):
        nonlocal uid
        uid += 2
        lon0 = ((seed * 37 + rnd * 53) % 300) - 150 + rnd / 16
        lat0 = ((seed * 11 + rnd * 29) % 100) - 50
        return custom_crs("laea", lon0, lat0, uid), custom_crs("tmerc", lon0 + (1 if rnd % 2 else -1), 0, uid + 1)

    sdef, ddef = defs(0)
    s_crs, d_crs = CRS(sdef), CRS(ddef)
    for rnd in range(rounds):
        src = mk_gbox(s_crs, [rng.randint(60, 120), rng.randint(60, 120)], [100.0, 0.0, -5000.0, 0.0, -100.0, 6000.0])
        cx, cy = Transformer.from_crs(sdef, ddef, always_xy=True).transform(1500.0, -1000.0)
        dst = mk_gbox(d_crs, [rng.randint(40, 80), rng.randint(40, 80)], [120.0, 0.0, cx - 4000.0, 0.0, -120.0, cy + 3500.0])
        with warnings.catch_warnings():
            warnings.simplefilter("ignore")
            r = compute_reproject_roi(src, dst)
        ok, msg = check_inclusion_pyproj(src, dst, r, 1)
        why = f"scene {rnd}: src={sdef!r} dst={ddef!r} roi_src={r.roi_src} roi_dst={r.roi_dst} scale={r.scale!r}"
        if ok and msg.startswith(" (0 "):
            return False, why + ": generator produced a pair without overlap"
        if not ok:
            return False, why + msg + (f" (scene {rnd} of a process that built, used and dropped {churn_n} other CRSs between scenes)" if rnd else "")
        del src, dst, r
        crshist.churn(churn_n, salt=seed * 16 + rnd)
        sdef, ddef = defs(rnd + 1)
        del d_crs
        s_new = CRS(sdef)
        del s_crs
        d_new = CRS(ddef)
        s_crs, d_crs = s_new, d_new
        del s_new, d_new
    return True, f"{rounds} scenes"


def p_crs_history(zone, south, history, seed):
    """an earlier public call CRS.transformer_to_crs(other, always_xy=...) on the same CRS pair must not change
    later planning: UTM zone <-> EPSG:4326 (lat/lon authority axis order), dense inclusion check with pyproj"""
    from odc.geo.crs import CRS
    from odc.geo.overlap import compute_reproject_roi
    from pyproj import Transformer
    rng = core.rng(f"c03-hist-{seed}")
    utm = f"EPSG:{(32700 if south else 32600) + zone}"
    lon0 = -183.0 + 6 * zone
    lat = rng.uniform(5, 60) * (-1 if south else 1)
    e0, n0 = Transformer.from_crs("EPSG:4326", utm, always_xy=True).transform(lon0 + rng.uniform(-1, 1), lat)
    res = rng.choice([100.0, 250.0, 1000.0])
    u = mk_gbox(utm, [rng.randint(8, 30), rng.randint(8, 30)], [res, 0.0, round(e0, -2), 0.0, -res, round(n0, -2)])
    ll = Transformer.from_crs(utm, "EPSG:4326", always_xy=True)
    cs = [ll.transform(u.transform.c + a * u.shape[1] * res, u.transform.f - b * u.shape[0] * res) for a in (0, 1) for b in (0, 1)]
    gx0, gx1 = min(c[0] for c in cs), max(c[0] for c in cs)
    gy0, gy1 = min(c[1] for c in cs), max(c[1] for c in cs)
    m = rng.randint(10, 30)
    dres = max(gx1 - gx0, gy1 - gy0) / m
    g = mk_gbox("EPSG:4326", [int((gy1 - gy0) / dres) + 5, int((gx1 - gx0) / dres) + 5],
                [dres, 0.0, gx0 - 2 * dres, 0.0, -dres, gy1 + 3 * dres])
    src, dst = (u, g) if rng.random() < 0.5 else (g, u)
    for direction, axy in history:
        a, b = (src.crs, dst.crs) if direction == "fwd" else (dst.crs, src.crs)
        CRS(str(a)).transformer_to_crs(CRS(str(b)), always_xy=bool(axy))
    with warnings.catch_warnings():
        warnings.simplefilter("ignore")
        r = compute_reproject_roi(src, dst)
    why = f"history={history} src={src!r} dst={dst!r} roi_src={r.roi_src} roi_dst={r.roi_dst} scale={r.scale!r}"
    ok, msg = check_inclusion_pyproj(src, dst, r, 1)
    if ok and "needed" in msg and msg.startswith(" (0 "):
        return False, why + ": generator produced a pair without overlap"
    if not ok:
        return False, why + msg
    ok2, msg2 = check_crs_scale(src, dst, r)
    return ok2, why + msg + msg2


PREDICATES = {"axis": p_axis, "reproject": p_reproject, "crs_scale": p_crs_scale, "crs_inclusion": p_crs_inclusion,
              "crs_history": p_crs_history, "crs_custom_rounds": p_crs_custom_rounds, "after_history": p_after_history}


def search(out, tier):
    rng = core.rng("c03-search")
    found = {}
    last = {}

    def run(name, *args):
        try:
            ok, detail = PREDICATES[name](*args)
        except Exception as e:
            ok, detail = False, f"raised {type(e).__name__}: {e}"
        last["detail"] = detail
        out.count("predicate:" + name)
        out.case(("pred", name, repr(args)), True)
        if not ok and name not in found:
            found[name] = True
            out.violation(f"c03:{name}", f"{name}{args}: {detail}",
                          {"predicate": name, "args": enc(list(args)), "observed": detail})
        return ok

    for rp in core.corpus(ID):
        if rp.get("open_key"):
            continue
        if rp["predicate"] in PREDICATES:
            run(rp["predicate"], *dec(rp["args"]))
        elif rp["predicate"] == "reproject_big":
            ok, detail = p_big(*rp["args"])
            out.count("predicate:reproject_big")
            out.case(("pred", "big", repr(rp["args"])), True)
            if not ok:
                out.violation("c03:reproject_big", f"reproject_big{rp['args']}: {detail}",
                              {"predicate": "reproject_big", "args": rp["args"], "observed": detail})
    # process histories (tools/vlib/crshist.py), first thing in the search so that the CRS pairs involved have not
    # been combined before in this process: cross-CRS inclusion after the authority-axis-order transformer was
    # requested first / after a churn of > 128 custom CRSs; recorded through "after_history" (fresh-process replay)
    hrng = core.rng("c03-history")
    fresh = [a for a in continental_stream(hrng, 40) if a[0] in ("EPSG:3577", "EPSG:3035", "EPSG:5070") and a[3] == "EPSG:4326"]
    seen = set()
    for a in fresh:
        if a[0] in seen:
            continue
        seen.add(a[0])
        out.count("search-family:after-history")
        run("after_history", ["authority-order-first"], [a[0], a[3]], "crs_inclusion", a)
    for a in fresh[3:5]:
        out.count("search-family:after-history")
        run("after_history", ["queries-first", "churn"], [a[0], a[3]], "crs_inclusion", a)
    # scene after scene with per-scene custom CRSs and a churn of other CRSs in between (bounded / id-keyed caches)
    for i in range(4 if tier == "quick" else 16):
        out.count("search-family:custom-crs-rounds")
        run("crs_custom_rounds", i, 6, 200)
    # global lon/lat sources overshooting +-90 / +-180 by a hair, destinations reaching the pole rows
    for args in global_stream(core.rng("c03-global"), 12 if tier == "quick" else 150):
        out.count("search-family:crs-global")
        run("crs_inclusion", *args)
    # same CRS, thousands of pixels, tiny rotation / shear below and above the paste tolerances
    for args in large_stream(core.rng("c03-large"), 30 if tier == "quick" else 300):
        out.count("search-family:large-tiny-rotation")
        run("reproject_edges", *args)
    # per axis: exhaustive over small sizes, scales incl. mirrored / fractional, quarter-pixel offsets
    sizes = [0, 1, 2, 3, 4, 7] if tier == "quick" else [0, 1, 2, 3, 4, 5, 7, 11]
    scales = [Fr(1), Fr(2), Fr(3), Fr(1, 2), Fr(3, 2), Fr(2, 3), Fr(1, 3), Fr(5, 4), Fr(7, 3)]
    for Ns, Nd in itertools.product(sizes, sizes):
        for s0 in scales:
            for sg in (1, -1):
                s = sg * s0
                lo, hi = sorted([Fr(0), -Nd * s]), sorted([Fr(Ns), Ns - Nd * s])
                t0, t1 = math.floor(min(lo[0], hi[0])) - 1, math.ceil(max(lo[1], hi[1])) + 1
                step = 2 if tier == "quick" else 4
                for q in range(t0 * step, t1 * step + 1):
                    run("axis", Ns, Nd, str(s), str(Fr(q, step)))
    for _ in range(300 if tier == "quick" else 5000):
        Ns, Nd = rng.randint(0, 30), rng.randint(0, 30)
        s = rng.choice([1, -1]) * Fr(rng.randint(1, 40), rng.randint(1, 16))
        t = Fr(rng.randint(-16 * 40, 16 * 40), 16)
        run("axis", Ns, Nd, str(s), str(t))
    # GeoBox level
    n = 400 if tier == "quick" else 6000
    for src, dst, kw, fam, _ in pair_stream(rng, n, small=True):
        A = G.amul(G.ainv(G.aff6(src.affine)), G.aff6(dst.affine))
        # inclusion for the true transform needs the accumulated drift of a tolerated scale / shift
        # deviation to stay below half a pixel: images <= 12 px, stol <= 2^-6, ttol <= 1/4
        kw2 = dict(kw)
        out.count("search-family:" + fam)
        run("reproject", list(src.shape), list(dst.shape), [str(v) for v in A], kw2)
    # paste path with read_shrink k >= 2 and source sizes of every remainder mod k (the last, partial overview
    # pixel is needed as soon as the remainder exceeds k/2), plain and mirrored, destination covering the source
    for k in (2, 3, 4, 5, 8):
        for N in range(1, 2 * k + 2):
            M = -(-N // k)
            for mir in (False, True):
                other = rng.randint(1, 9)
                for axis in (0, 1):
                    ns = [other * k, other * k]
                    ns[axis] = N
                    nd = [other + 1, other + 1]
                    nd[axis] = M + rng.choice([0, 1])
                    off = rng.choice([0, 0, -k])
                    sxy = [Fr(k), Fr(k)]
                    txy = [Fr(0), Fr(0)]
                    j = 1 - axis            # A6 index: x first
                    if mir:
                        sxy[j] = Fr(-k)
                        txy[j] = Fr(k * M + off)     # far end of the k-fold overview maps to destination 0
                    else:
                        txy[j] = Fr(off)
                    out.count("search-family:shrink-remainder")
                    run("reproject", ns, nd, [str(v) for v in (sxy[0], 0, txy[0], 0, sxy[1], txy[1])],
                        {"ttol": 0.05, "stol": 1e-3, "padding": None, "align": None})
    # different CRS, strongly non-square overlaps with spatially varying scale: scale / read_shrink at the centre
    for args in strip_stream(rng, 40 if tier == "quick" else 400):
        out.count("search-family:crs-strip")
        run("crs_scale", *args)
    # different CRS, continental sources ending inside the destination canvas (curved projected edges)
    slivers = []
    for args in continental_stream(rng, 25 if tier == "quick" else 300):
        out.count("search-family:crs-continental")
        run("crs_inclusion", *args)
        detail = last["detail"]
        if "EDGE-SLIVER" in detail:
            slivers.append((args, detail[detail.index("EDGE-SLIVER"):]))
    # polar sources that contain the pole in their interior -> lon/lat bands: the pole maps to a whole destination row
    # that no sample of the source PERIMETER reaches (open finding crs-pole-interior)
    poles = []
    for args in polar_stream(core.rng("c03-polar"), 4 if tier == "quick" else 40):
        out.count("search-family:crs-polar(open finding)")
        out.count("predicate:crs_inclusion")
        ok_p, detail_p = p_crs_inclusion(*args)
        if not ok_p:
            poles.append((args, detail_p))
    # open findings: replay the recorded witnesses, report through the known-findings channel once they are listed
    hits = {"crs-edge-sliver": slivers, "crs-pole-interior": poles}
    for rp in core.corpus(ID):
        if rp.get("open_key") in hits:
            ok_w, detail_w = p_crs_inclusion(*rp["args"])
            out.count("predicate:crs_inclusion(open witness)")
            if not ok_w:
                hits[rp["open_key"]].append((rp["args"], detail_w))
    what = {"crs-edge-sliver": "continental cross-CRS plan(s) drop needed destination pixels that map less than one source pixel inside a curved source edge",
            "crs-pole-interior": "plan(s) from a polar source containing the pole into a lon/lat grid drop the destination rows / columns around the pole"}
    for key, lst in hits.items():
        if lst:
            out.notes.append(f"open finding {key}: {len(lst)} {what[key]}; first: {lst[0][1][:300]}")
            if key in core.open_findings(ID):
                a0 = list(lst[0][0])
                if key == "crs-edge-sliver":
                    a0 = a0[:8] + [0.0]
                out.violation(key, lst[0][1], {"predicate": "crs_inclusion", "args": a0, "observed": lst[0][1]})
    # histories: an earlier public transformer_to_crs call (either axis order, either direction) on the same
    # CRS pair must not change planning; every case uses a UTM zone not touched before in this process
    hists = [[["fwd", False]], [["rev", False]], [["fwd", False], ["fwd", True]], [["rev", False], ["fwd", False]],
             [["fwd", True], ["rev", False]], [["rev", True], ["fwd", False], ["rev", False]]]
    zones = [z for z in range(1, 61) if z not in (32, 33, 34, 55)]
    rng.shuffle(zones)
    nh = 12 if tier == "quick" else 56
    for i in range(nh):
        out.count("search-family:crs-history")
        run("crs_history", zones[i % len(zones)], i % 2 == 1, hists[i % len(hists)], i)
    # different CRS: dense check of the enclosing hypothesis
    m = 12 if tier == "quick" else 240
    worst = None
    for i in range(m):
        try:
            ok, detail, slack = p_reproject_crs(i, "c03-crs")
        except Exception as e:
            ok, detail, slack = False, f"raised {type(e).__name__}: {e}", None
        out.count("predicate:reproject_crs")
        out.case(("pred", "crs", i), True)
        if slack is not None:
            worst = slack if worst is None else min(worst, slack)
        if not ok and "crs" not in found:
            found["crs"] = True
            out.violation("c03:reproject_crs", detail, {"predicate": "reproject_crs", "args": [i, "c03-crs"], "observed": detail})
    out.notes.append(f"H_boundary_encloses tested on {m} cross-CRS pairs by checking every destination pixel: "
                     f"smallest observed distance of a needed source location from an interior edge of roi_src = {worst} px "
                     f"(edges that coincide with the image border are not counted)")


def p_big(src_shape, dst_shape, A, kw):
    """sizes beyond 2^24: only the corner pixels are checked (the images are far too large to enumerate)"""
    src, dst, r = _reproj(src_shape, dst_shape, A, kw)
    T = G.true_A(src, dst)
    (ny, nx), (my, mx) = src.shape, dst.shape
    (sy0, sy1), (sx0, sx1) = [(s.start, s.stop) for s in r.roi_src]
    (dy0, dy1), (dx0, dx1) = [(s.start, s.stop) for s in r.roi_dst]
    why = f"roi_src={r.roi_src} roi_dst={r.roi_dst}"
    for dx, dy in ((0, 0), (mx - 1, 0), (mx - 1, my - 1), (0, my - 1)):
        px, py = G.aapply(T, (dx + Fr(1, 2), dy + Fr(1, 2)))
        if 0 <= px < nx and 0 <= py < ny:
            kx, ky = math.floor(px), math.floor(py)
            if not (dx0 <= dx < dx1 and dy0 <= dy < dy1 and sx0 <= kx < sx1 and sy0 <= ky < sy1):
                return False, why + f": destination pixel (x={dx},y={dy}) maps to source pixel (x={kx},y={ky}) but is not covered"
    return True, why


def p_reproject_edges(src_shape, dst_shape, A, kw, n):
    """same CRS, rasters of thousands of pixels (too large to enumerate): n destination pixels along each edge,
    each diagonal and the two centre lines are judged in exact Fraction arithmetic like `reproject` does
    for every pixel: a needed pixel must be in roi_dst and its source pixel in roi_src"""
    src, dst, r = _reproj(src_shape, dst_shape, A, kw)
    T = G.true_A(src, dst)
    (ny, nx), (my, mx) = src.shape, dst.shape
    (sy0, sy1), (sx0, sx1) = [(s.start, s.stop) for s in r.roi_src]
    (dy0, dy1), (dx0, dx1) = [(s.start, s.stop) for s in r.roi_dst]
    k = r.read_shrink
    why = f"roi_src={r.roi_src} roi_dst={r.roi_dst} paste_ok={r.paste_ok} read_shrink={k} scale={r.scale}"
    lim_y, lim_x = -(-ny // k) * k, -(-nx // k) * k
    if not (0 <= sy0 <= sy1 <= lim_y and 0 <= sx0 <= sx1 <= lim_x and 0 <= dy0 <= dy1 <= my and 0 <= dx0 <= dx1 <= mx):
        return False, why + ": region outside its image"
    if mx == 0 or my == 0:
        return True, why
    ts = [Fr(i, n - 1) for i in range(n)]
    xs = sorted({min(mx - 1, int(t * (mx - 1))) for t in ts})
    ys = sorted({min(my - 1, int(t * (my - 1))) for t in ts})
    pts = {(x, y) for x in xs for y in (0, my - 1, my // 2)} | {(x, y) for y in ys for x in (0, mx - 1, mx // 2)}
    pts |= {(min(mx - 1, int(t * (mx - 1))), min(my - 1, int(t * (my - 1)))) for t in ts}
    pts |= {(min(mx - 1, int(t * (mx - 1))), min(my - 1, int((1 - t) * (my - 1)))) for t in ts}
    for dx, dy in sorted(pts):
        px, py = G.aapply(T, (dx + Fr(1, 2), dy + Fr(1, 2)))
        if 0 <= px < nx and 0 <= py < ny:
            kx, ky = math.floor(px), math.floor(py)
            if not (dx0 <= dx < dx1 and dy0 <= dy < dy1 and sx0 <= kx < sx1 and sy0 <= ky < sy1):
                return False, why + f": destination pixel (x={dx},y={dy}) maps to source pixel (x={kx},y={ky}) but is not covered"
    return True, why


def large_stream(rng, n):
    """same-CRS rasters of 1500..6000 pixels related by a whole-pixel shift (partial overlap) plus a tiny
    rotation / shear on either side of the paste tolerances: an off-diagonal term b ignored by the plan moves
    the far end by b * N pixels"""
    for i in range(n):
        ns = [rng.randint(1500, 6000), rng.randint(1500, 6000)]
        nd = [rng.randint(1500, 6000), rng.randint(1500, 6000)]
        b = rng.choice([Fr(1, 2 ** 11), Fr(1, 2 ** 12), Fr(3, 2 ** 13), Fr(1, 2 ** 10) - Fr(1, 2 ** 16), Fr(1, 2 ** 9), Fr(1e-10) / 2, Fr(1, 2 ** 20)])
        b *= rng.choice([1, -1])
        kind = rng.choice(["rot", "rot", "shear_x", "shear_y"])
        wx, wy = (-b, b) if kind == "rot" else ((b, Fr(0)) if kind == "shear_x" else (Fr(0), b))
        sx, sy = rng.choice([1, 1, -1]), rng.choice([1, 1, -1])
        ox = rng.randint(-nd[1] // 2, ns[1] // 2) + (nd[1] if sx < 0 else 0)
        oy = rng.randint(-nd[0] // 2, ns[0] // 2) + (nd[0] if sy < 0 else 0)
        kw = {"ttol": 0.05, "stol": 1e-3, "padding": rng.choice([None, None, 0]), "align": rng.choice([None, None, 0])}
        yield [ns, nd, [str(Fr(sx)), str(wx), str(Fr(ox)), str(wy), str(Fr(sy)), str(Fr(oy))], kw, 40]


PREDICATES["reproject_edges"] = p_reproject_edges


def enc(x):
    return x


def dec(x):
    return x


# ---------------------------------------------------------------- entry points
def run(out, tier, scratch):
    out.rule = ("correspondence: function level (math helpers at every tolerance, compute_axis_overlap over sizes x scales "
                "(incl. mirrored, fractional) x offsets, _can_paste/snap_affine/box_overlap on affines at the tolerance "
                "boundaries, roi_boundary) and GeoBox level (same-CRS pairs over shift/sub-pixel/integer, near-integer, "
                "fractional, anisotropic scale/mirror/rot90/shear families x 9 placements per axis x padding x align; "
                "different-CRS pairs with PROJ recorded as a table); a case is non-trivial when the planned destination "
                "region is not empty or a tolerance/error branch is exercised; distinct = distinct canonical inputs; "
                "cases whose float path is not exact by construction are dropped and counted as generator-escape. "
                "search: inclusion by brute force over destination pixels in exact Fraction arithmetic")
    out.assumptions += [
        "binary64 arithmetic abstracted to exact rationals; correspondence restricted to inputs on which every float operation is exact",
        "sqrt(x*x) = |x| in binary64 (used for axis-aligned transforms in get_scale_from_linear_transform)",
        "different CRS: the PROJ point transform and get_scale_at_point are oracles; inclusion holds under H_boundary_encloses (tested, not proved)",
        "different CRS inclusion on continental grids and after transformer_to_crs histories: judged against pyproj called directly "
        "(own affine matrices, own Transformer), pixels within 1e-6 px of the source edge excluded; on continental grids misses less than "
        "one (>= 10 km) source pixel inside the edge belong to the open finding crs-edge-sliver",
        "different CRS scale: judged against pyproj central differences (step 1 px) at the centre of roi_dst with relative tolerance 1e-6 "
        "(same stencil as the code's least-squares fit; observed agreement <= 1e-10 for pixel coordinates up to 3e4)",
    ]
    rng = core.rng("c03")
    cases = gen_function_cases(out, tier, rng)
    cases += gen_reproj_cases(out, tier, rng)
    cases += gen_nl_cases(out, tier, rng)
    fails, log = core.coq_eval_failures(REQ, "case", "check", cases, scratch, shard=400)
    detail = ""
    if fails:
        detail = "model and implementation differ on: " + " | ".join(cases[i] for i in fails[:4])
    out.oblige("correspondence:Model.Overlap vs odc.geo.overlap", "correspondence", not fails, detail)
    search(out, tier)


def replay(rp) -> int:
    name = rp["predicate"]
    if name == "reproject_crs":
        ok, detail, _ = p_reproject_crs(*rp["args"])
    elif name == "reproject_big":
        ok, detail = p_big(*rp["args"])
    else:
        ok, detail = PREDICATES[name](*rp["args"])
    print(f"replay {name}{rp['args']}: {'holds' if ok else 'FAILS'}: {detail}")
    return 0 if ok else 1


META = {
    "text": ("Coq theorems (coq/Props/C03.v, 20 statements incl. start <= stop of every sampled/cross-CRS region, all closed under the global context) over a Gallina model of "
             "odc/geo/overlap.py: compute_axis_overlap for ALL image sizes and ALL rational scales s != 0 (mirrored, fractional) "
             "and shifts: both slices inside their images, every destination pixel whose centre maps inside the source is in the "
             "destination slice and its source pixel floor(s(d+1/2)+t) in the source slice, non-overlapping images give empty "
             "slices; compute_reproject_roi same CRS: sampled path for every invertible affine (rotation, shear, any scale, every "
             "padding/align) - inclusion, padding honoured, regions inside the images, separated by the margin -> empty; paste path "
             "- inclusion for every true location within half an overview pixel of the snapped transform (in particular the true "
             "transform when its scale is exactly +-k), regions inside the images up to the next multiple of read_shrink, "
             "disjoint -> empty; scale = min of the per-axis ratios (sx^2 = a^2+d^2, sx*sy = |det|), read_shrink a positive "
             "integer, 1 below scale 1, else within (scale-1, scale+tol); different CRS: the same inclusion conditional on the "
             "explicit hypothesis H_boundary_encloses, bounds / separated -> empty / scale relations unconditional.  The model is "
             "tied to the code by an exact correspondence run (about 10k cases, vm_compute inside Coq, rationals compared with "
             "Qeq_bool) and by a brute-force inclusion search over destination pixels in exact Fraction arithmetic."),
    "note": ("Trusted: Coq kernel; the hand-written model coq/Model/Overlap.v (+ roi_from_points of Model/Roi.v) validated by the "
             "correspondence; exact-rational abstraction of binary64 (correspondence restricted to inputs on which every float "
             "operation of the path is exact: dyadic few-bit affines, power-of-two or robustly non-integral divisions; cases "
             "outside are dropped and counted as generator-escape; sqrt(x*x)=|x| in binary64 is assumed); sizes and offsets are "
             "assumed below 2^53 (float64 pixel coordinates).  Oracles: for different CRSs the PROJ point transform (tr, tr.back) "
             "and get_scale_at_point are Section variables; the correspondence replays the implementation's own transformed points "
             "as a table, so only the glue is compared.  Not proved: H_boundary_encloses (the padded envelope of the 5-per-side "
             "sampled boundary contains the image of the interior) - tested numerically on every run, observed slack reported in "
             "the evidence notes; irrational scales (rotations that are not Pythagorean) are outside the executable model (the "
             "theorems state sx^2 = a^2+d^2 for whichever root the model is given).  Domain corrections (not findings): on the "
             "paste path inclusion is stated for true locations within half a pixel of the snapped transform, because a tolerated "
             "scale deviation accumulates over the image (documented paste tolerance stol; the search keeps N*stol + ttol < 1/2).  "
             "Open findings (unchanged code): crs-edge-sliver, crs-pole-interior.  "
             "The model follows the code after four repairs: _relative_rois aligns only when the un-aligned envelope meets the "
             "image, _can_paste '>= stol', align=0 treated as None, "
             "roi_boundary in float64 (witnesses in corpus/C03, corpus/C10)."),
    "technique": "Coq proof over hand-written Gallina model + exact differential correspondence (vm_compute) + exact brute-force search + leaf functions regenerated from source by py2v on every run and proved equal to the model (source_is_model theorem)",
    "design_ref": "DESIGN.md section 5, C03",
}
