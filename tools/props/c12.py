"""C12 — tile queries and tile dependency graphs are complete.

Correspondence: coq/Model/TileQuery.v against odc.geo.roi.{Tiles,VariableSizedTiles}
and odc.geo.geobox.GeoboxTiles (locate, range_from_bbox, tiles, grid_intersect) —
pixel-box queries exhaustively on small tilings, same-CRS grid pairs through the
linear path with the affine returned by the real _check_linear, geometry queries
and the general path with the shapely/pyproj answers replayed as oracle tables.
Search: the property's clauses evaluated on the implementation against
brute-force references in exact (Fraction) arithmetic.
"""
from __future__ import annotations

import itertools
from fractions import Fraction as F

from vlib import core
from vlib.core import cbool, cq, ctuple, cz

ID = "C12"
ALLOWED_AXIOMS: list[str] = []
CRS = "epsg:3857"


# ---------------------------------------------------------------- encoding
def enc(a):
    if isinstance(a, (tuple, list)):
        return [enc(v) for v in a]
    if isinstance(a, bool) or a is None or isinstance(a, int):
        return a
    if isinstance(a, str):
        return "str:" + a
    return str(F(a))


def dec(a):
    if isinstance(a, list):
        return tuple(dec(v) for v in a)
    if isinstance(a, str) and a.startswith("str:"):
        return a[4:]
    if isinstance(a, str):
        f = F(a)
        v = float(f)
        assert F(v) == f
        return v
    return a


# ---------------------------------------------------------------- building blocks (real implementation)
def mk_gbox(g):
    """g = (NY, NX, crs, a, b, c, d, e, f)"""
    from affine import Affine
    from odc.geo.geobox import GeoBox
    NY, NX, crs, a, b, c, d, e, f = g
    return GeoBox((NY, NX), Affine(a, b, c, d, e, f), crs)


def mk_gbt(g, spec):
    """spec = ("reg", ny, nx) | ("var", chy, chx)"""
    from odc.geo.geobox import GeoboxTiles
    gb = mk_gbox(g)
    if spec[0] == "reg":
        return GeoboxTiles(gb, (spec[1], spec[2]))
    return GeoboxTiles(gb, (tuple(spec[1]), tuple(spec[2])))


def mk_tiles(shape, spec):
    from odc.geo.roi import roi_tiles
    if spec[0] == "reg":
        return roi_tiles(shape, (spec[1], spec[2]))
    return roi_tiles(shape, (tuple(spec[1]), tuple(spec[2])))


def caxis(spec, which, shape) -> str:
    if spec[0] == "reg":
        N = shape[0] if which == "y" else shape[1]
        n = spec[1] if which == "y" else spec[2]
        return f"(AReg {cz(N)} {cz(n)})"
    ch = spec[1] if which == "y" else spec[2]
    return "(AVar [" + "; ".join(cz(c) for c in ch) + "])"


def ctiling(spec, shape) -> str:
    return f"(mkTiling {caxis(spec, 'y', shape)} {caxis(spec, 'x', shape)})"


def cpair(p) -> str:
    return ctuple(cz(p[0]), cz(p[1]))


def cidx(ii) -> str:
    return "[" + "; ".join(cpair(i) for i in ii) + "]"


def cq4(b) -> str:
    return ctuple(*(cq(v) for v in b))


def cgraph(g: dict) -> str:
    return "[" + "; ".join(ctuple(cpair(k), cidx(v)) for k, v in g.items()) + "]"


def ctab(tab) -> str:
    return "[" + "; ".join(ctuple(cz(i[0]), cz(i[1]), cbool(d)) for i, d in tab) + "]"


def cres(f, call):
    try:
        v = call()
    except AssertionError:
        return "(Err (EAssert 0))", "AssertionError"
    except IndexError:
        return "(Err EIndex)", "IndexError"
    except ValueError:
        return "(Err EValue)", "ValueError"
    except Exception as e:  # GEOSException and friends
        return "(Err EOther)", type(e).__name__
    return f"(Ok {f(v)})", "ok"


def all_idx(gbt):
    ny, nx = gbt.shape.yx
    return [(iy, ix) for iy in range(ny) for ix in range(nx)]


# ---------------------------------------------------------------- generators
def gen_spec(rng, NY, NX, allow_zero=True):
    if rng.random() < 0.5:
        return ("reg", rng.randint(1, max(1, NY + 1)), rng.randint(1, max(1, NX + 1)))

    def chunks(N):
        out, left = [], N
        while left > 0:
            c = rng.randint(0 if (allow_zero and rng.random() < 0.15) else 1, left)
            out.append(c)
            left -= c
        if allow_zero and rng.random() < 0.1:
            out.append(0)
        return out or [0]
    return ("var", chunks(NY), chunks(NX))


def dyadic_res(rng):
    return float(rng.choice([-1, 1]) * rng.choice([1, 1, 2, 3, 5]) * F(2) ** rng.choice([-3, -2, -1, 0, 0, 1, 2, 4]))


def pow2_res(rng):
    return float(rng.choice([-1, 1]) * F(2) ** rng.choice([-3, -2, -1, 0, 0, 1, 2, 4]))


def gen_pair_linear(rng):
    """same-CRS grids related by a scale+translation: aligned, sub-pixel shifted (also within the snapping
    tolerance), scaled, mirrored, touching, disjoint.  The source resolution is a power of two so that the
    pixel-to-pixel affine is computed exactly in binary64."""
    NYs, NXs = rng.randint(1, 12), rng.randint(1, 12)
    NYd, NXd = rng.randint(1, 12), rng.randint(1, 12)
    rxs, rys = pow2_res(rng), pow2_res(rng)
    oxs, oys = float(rng.randint(-64, 64)), float(rng.randint(-64, 64))
    out = []
    rel = rng.random()
    if rel < 0.6:
        modes = ["over", "over"]
    elif rel < 0.75:
        modes = ["touch", rng.choice(["over", "over", "touch"])]
    elif rel < 0.9:
        modes = ["apart", rng.choice(["over", "touch", "apart", "any"])]
    else:
        modes = ["any", "any"]
    rng.shuffle(modes)
    for (rs, os_, Ns, Nd), place in zip(((rxs, oxs, NXs, NXd), (rys, oys, NYs, NYd)), modes):
        if rng.random() < 0.3:
            k = rng.choice([1, 1, 1, 2, 3, F(1, 2), F(1, 4), -1, -2, F(-1, 2)])
        else:
            k = rng.choice([1, 1, 2, 3, 5, F(1, 2), F(3, 2), F(5, 4), -1, -3, F(-1, 2)])
        rd = float(F(rs) * k)
        # position of the destination, in source pixels: where its first/last edge goes
        span = abs(k) * Nd
        frac = rng.choice([0, 0, 0, F(1, 2), F(1, 4), F(3, 8), F(1, 1024), F(-1, 2048), F(1, 512), F(-3, 256)])
        if place == "over":
            t = F(rng.randint(-int(span) + 1, Ns - 1)) + frac if span > 1 or Ns > 1 else frac / 4
        elif place == "touch":
            t = rng.choice([F(Ns), -span]) + (frac if rng.random() < 0.5 else 0)   # touching / within a fraction of the edge
        elif place == "apart":
            t = F(rng.choice([Ns + rng.randint(1, 40), -span - rng.randint(1, 40)]))
        else:
            t = F(rng.randint(-int(span) - 2, Ns + 2)) + frac
        if k < 0:
            t = t + span                                            # mirrored: first edge maps to the far side
        od = float(F(os_) + t * F(rs))
        out.append((rd, od))
    (rxd, oxd), (ryd, oyd) = out
    gs = (NYs, NXs, CRS, rxs, 0.0, oxs, 0.0, rys, oys)
    gd = (NYd, NXd, CRS, rxd, 0.0, oxd, 0.0, ryd, oyd)
    return gd, gs, gen_spec(rng, NYd, NXd), gen_spec(rng, NYs, NXs)


def gen_pair_nearint(rng):
    """same-CRS north-up/mirrored pairs whose resolution ratio along ONE axis is within 1e-7..1e-3 of an integer or
    of 1/integer (inside and outside the 1e-6 scale-snapping tolerance), rasters thousands of pixels long on that axis
    with tiles of 256..1000 pixels; the other axis is short with an exact ratio"""
    axis = rng.choice(["x", "y"])
    n = rng.choice([1, 1, 2, 3])
    eps = rng.choice([3e-7, 2e-6, 1e-5, 1e-4, 4e-4, 9e-4]) * rng.choice([-1, 1])
    if rng.random() < 0.6:
        ratio = n + eps                      # destination pixels are ~n source pixels
    else:
        ratio = 1.0 / (n + eps)              # ~n destination pixels per source pixel
    rs = rng.choice([10.0, 30.0, 0.25])
    Nd_long = rng.randint(2000, 9000)
    Ns_long = int(Nd_long * ratio) + rng.randint(-300, 600)
    Ns_long = max(Ns_long, 600)
    aligned = rng.random() < 0.6     # tile edges of both rasters (nearly) coincide: sliver overlaps grow along the raster
    shift_long = 0 if aligned else rng.choice([0, 0.5, -17, 250, 0.0004])
    k = rng.choice([1, 1, 2])
    Nd_short = rng.randint(80, 400)
    Ns_short = Nd_short * k + rng.randint(0, 60)
    shift_short = rng.choice([0, 0, 3, 0.5])
    sgn_l, sgn_s = rng.choice([1, -1]), rng.choice([1, -1])
    o_l, o_s = float(rng.randint(-5000, 5000) * 10), float(rng.randint(-5000, 5000) * 10)
    src_long = (sgn_l * rs, o_l, Ns_long)
    dst_long = (sgn_l * rs * ratio, o_l + shift_long * sgn_l * rs, Nd_long)
    src_short = (sgn_s * rs, o_s, Ns_short)
    dst_short = (sgn_s * rs * k, o_s + shift_short * sgn_s * rs, Nd_short)
    tl_d, tl_s = rng.choice([256, 500, 512, 1000]), rng.choice([256, 500, 512, 1000])
    if aligned:
        tl_d = rng.choice([256, 300, 500])
        tl_s = tl_d * n if ratio > 0.75 else tl_d
        if ratio <= 0.75:
            tl_d = tl_s * n
    ts_d, ts_s = rng.choice([128, 256, 512]), rng.choice([128, 256, 512])
    if axis == "x":
        gs = (src_short[2], src_long[2], CRS, src_long[0], 0.0, src_long[1], 0.0, src_short[0], src_short[1])
        gd = (dst_short[2], dst_long[2], CRS, dst_long[0], 0.0, dst_long[1], 0.0, dst_short[0], dst_short[1])
        sd, ss = ("reg", ts_d, tl_d), ("reg", ts_s, tl_s)
    else:
        gs = (src_long[2], src_short[2], CRS, src_short[0], 0.0, src_short[1], 0.0, src_long[0], src_long[1])
        gd = (dst_long[2], dst_short[2], CRS, dst_short[0], 0.0, dst_short[1], 0.0, dst_long[0], dst_long[1])
        sd, ss = ("reg", tl_d, ts_d), ("reg", tl_s, ts_s)
    return gd, gs, sd, ss


def gen_pair_general(rng, gi, exact_rot=True):
    """pairs that take the general path: rotated same-CRS source or EPSG:4326 source; every combination of
    resolution signs (north-up, mirrored in x, in y, in both); overlapping, near and far apart"""
    NYd, NXd, NYs, NXs = (rng.randint(1, 6) for _ in range(4))
    sxd, syd = rng.choice([(1, -1), (1, -1), (-1, -1), (-1, -1), (1, 1), (-1, 1)])
    gd = (NYd, NXd, CRS, sxd * 512.0, 0.0, float(rng.randint(-20, 20) * 256), 0.0, syd * 512.0, float(rng.randint(-20, 20) * 256))
    cx, cy = gd[5] + sxd * rng.uniform(-1, NXd + 1) * 512, gd[8] + syd * rng.uniform(-1, NYd + 1) * 512
    if rng.random() < 0.3:
        cx += rng.choice([-1, 1]) * rng.choice([20000, 50000, 3000000])        # far away: disjoint
    if gi % 2 == 0:
        if exact_rot:
            c, s_ = rng.choice([(F(3, 5), F(4, 5)), (F(4, 5), F(-3, 5)), (F(12, 13), F(5, 13))])
        else:
            c, s_ = rng.choice([(0.6, 0.8), (0.8, -0.6), (12 / 13, 5 / 13)])
        m = rng.choice([1, 1, -1])
        gs = (NYs, NXs, CRS, float(c * 256), float(-s_ * 256) * m, float(round(cx)), float(s_ * 256), float(c * 256) * m, float(round(cy)))
    else:
        from odc.geo.geom import point
        ll = point(cx, cy, CRS).to_crs("epsg:4326").coords[0]
        sxs, sys_ = rng.choice([(1, -1), (1, -1), (-1, -1), (-1, -1), (1, 1), (-1, 1)])
        r = 1 / 256
        gs = (NYs, NXs, "epsg:4326", sxs * r, 0.0, round((ll[0] - sxs * r * NXs / 2) * 64) / 64, 0.0, sys_ * r,
              round((ll[1] - sys_ * r * NYs / 2) * 64) / 64)
    return gd, gs, gen_spec(rng, NYd, NXd, allow_zero=False), gen_spec(rng, NYs, NXs)


REGIONAL = [
    # (crs, safe x range, safe y range): boxes well inside the valid area of regional projected CRSs
    ("epsg:32633", (200000, 800000), (1000000, 8000000)),          # UTM 33N
    ("epsg:3577", (-2200000, 2200000), (-5000000, -1000000)),      # Australian Albers
    ("epsg:3857", (-15000000, 15000000), (-10000000, 12000000)),   # Web Mercator up to ~70 degrees
    ("epsg:32755", (200000, 800000), (2000000, 9500000)),          # UTM 55S
]


CURVED = [
    # (crs, x range, y range): boxes in projections whose x=const / y=const grid lines curve strongly in lon/lat;
    # kept to one side of the pole / central meridian so that footprints neither contain the pole nor cross +-180
    ("epsg:3031", (300000, 3000000), (-2500000, 2500000)),     # Antarctic polar stereographic, beside the pole
    ("epsg:3413", (300000, 2500000), (-2500000, -300000)),     # Arctic polar stereographic
    ("epsg:3035", (2500000, 6500000), (1500000, 5200000)),     # European LAEA up to high latitudes
    ("epsg:32633", (-300000, 1300000), (5500000, 8500000)),    # UTM 33N far outside its zone at high latitude
]


def gen_pair_curved(rng):
    """regional raster in a projection with strongly curved grid lines against an EPSG:4326 grid covering the same
    area (tiles of a few degrees); returned as (lon/lat grid, projected raster, tiles, tiles)"""
    from pyproj import Transformer
    crs, xr, yr = rng.choice(CURVED + CURVED[:2])      # polar stereographic twice as often
    NYp, NXp = rng.randint(40, 200), rng.randint(40, 200)
    frac = rng.choice([0.3, 0.6, 1.0])
    W, H = (xr[1] - xr[0]) * frac, (yr[1] - yr[0]) * frac
    px = float(max(1, int(min(W / NXp, H / NYp))))
    x0 = float(int(rng.uniform(xr[0], xr[1] - px * NXp)))
    y1 = float(int(rng.uniform(yr[0] + px * NYp, yr[1])))
    sxp, syp = rng.choice([(1, -1), (1, -1), (-1, -1), (1, 1)])
    gp = (NYp, NXp, crs, sxp * px, 0.0, x0 if sxp > 0 else x0 + px * NXp, 0.0, syp * px, y1 if syp < 0 else y1 - px * NYp)
    tr = Transformer.from_crs(crs, "epsg:4326", always_xy=True)
    import numpy as np
    ex = np.linspace(x0, x0 + px * NXp, 30)
    ey = np.linspace(y1 - px * NYp, y1, 30)
    bx = np.concatenate([ex, ex, np.full(30, ex[0]), np.full(30, ex[-1])])
    by = np.concatenate([np.full(30, ey[0]), np.full(30, ey[-1]), ey, ey])
    lon, lat = tr.transform(bx, by)
    r = rng.choice([0.25, 0.5, 1.0])
    lon0, lon1 = r * int(min(lon) / r - rng.randint(0, 6)), r * int(max(lon) / r + rng.randint(1, 6))
    lat0, lat1 = max(-90.0, r * int(min(lat) / r - rng.randint(1, 6))), min(90.0, r * int(max(lat) / r + rng.randint(1, 6)))
    NYg, NXg = int(round((lat1 - lat0) / r)), int(round((lon1 - lon0) / r))
    gg = (NYg, NXg, "epsg:4326", r, 0.0, float(lon0), 0.0, -r, float(lat1))
    t = rng.choice([8, 10, 16, 20])
    sp = ("reg", rng.choice([16, 25, 50]), rng.choice([16, 25, 50]))
    return gg, gp, ("reg", t, t), sp


def gen_pair_global(rng):
    """whole-globe (or much larger than the destination CRS's valid area) EPSG:4326 raster paired with a regional
    projected raster that lies inside the valid area of its CRS; returned as (regional, global, tiles, tiles)"""
    crs, xr, yr = rng.choice(REGIONAL)
    NYd, NXd = rng.randint(6, 40), rng.randint(6, 40)
    frac = rng.choice([0.02, 0.1, 0.3, 0.6, 1.0])
    W, H = (xr[1] - xr[0]) * frac, (yr[1] - yr[0]) * frac
    px = float(max(1, int(min(W / NXd, H / NYd))))
    x0 = float(int(rng.uniform(xr[0], xr[1] - px * NXd)))
    y1 = float(int(rng.uniform(yr[0] + px * NYd, yr[1])))
    sxd, syd = rng.choice([(1, -1), (1, -1), (1, -1), (-1, -1), (1, 1)])
    ox = x0 if sxd > 0 else x0 + px * NXd
    oy = y1 if syd < 0 else y1 - px * NYd
    gd = (NYd, NXd, crs, sxd * px, 0.0, ox, 0.0, syd * px, oy)
    r = rng.choice([0.5, 1.0, 2.0])
    kind = rng.random()
    if kind < 0.6:      # whole globe
        lon0, lon1, lat0, lat1 = -180, 180, -90, 90
    elif kind < 0.8:    # a hemisphere reaching both poles
        lon0 = rng.choice([-180, -90, 0])
        lon0, lon1, lat0, lat1 = lon0, lon0 + 180, -90, 90
    else:               # whole globe short of the poles
        lon0, lon1, lat0, lat1 = -180, 180, -80, 84
    NYs, NXs = int((lat1 - lat0) / r), int((lon1 - lon0) / r)
    if rng.random() < 0.8:
        gs = (NYs, NXs, "epsg:4326", r, 0.0, float(lon0), 0.0, -r, float(lat1))
    else:
        gs = (NYs, NXs, "epsg:4326", r, 0.0, float(lon0), 0.0, r, float(lat0))
    t = rng.choice([30, 45, 60, 90])
    sd = ("reg", rng.randint(3, NYd), rng.randint(3, NXd))
    ss = ("reg", max(1, int(t / r)), max(1, int(t / r)))
    return gd, gs, sd, ss


def exact_st(gd, gs):
    """exact pixel-to-pixel map src_pix = A0 * dst_pix for two axis-aligned grids"""
    _, _, _, ad, _, cd, _, ed, fd = gd
    _, _, _, as_, _, cs, _, es, fs = gs
    sx, tx = F(ad) / F(as_), (F(cd) - F(cs)) / F(as_)
    sy, ty = F(ed) / F(es), (F(fd) - F(fs)) / F(es)
    return sx, tx, sy, ty


def axis_offsets(tiles, which):
    ny, nx = tiles.shape.yx
    if which == "y":
        return [tiles[i, 0][0].start for i in range(ny)] + [tiles.base.y]
    return [tiles[0, i][1].start for i in range(nx)] + [tiles.base.x]


# ---------------------------------------------------------------- correspondence cases
def gen_cases(out, tier):
    from odc.geo import geom
    from odc.geo.geom import BoundingBox

    rng = core.rng("c12")
    big = tier != "quick"
    cases = []

    def add(kind, text, canon, nontrivial=True, sample=None):
        cases.append(text)
        out.count(kind)
        out.case((kind, canon), nontrivial, sample)

    # ---- tilings: counts, tile ranges (incl. negative and out-of-range indices), locate (all pixels +- 2)
    specs = []
    for N in range(1, 8 if not big else 11):
        for n in range(1, N + 2):
            specs.append(((N, (N * 3) % 5 + 1), ("reg", n, 2)))
    for _ in range(40 if not big else 300):
        NY, NX = rng.randint(1, 9), rng.randint(1, 9)
        specs.append(((NY, NX), gen_spec(rng, NY, NX)))
    specs.append(((0, 3), ("reg", 2, 2)))
    specs.append(((3, 0), ("var", [1, 2], [0])))
    for shape, spec in specs:
        t = mk_tiles(shape, spec)
        ct = ctiling(spec, shape)
        for which in ("y", "x"):
            cnt = t.shape.y if which == "y" else t.shape.x
            base = t.base.y if which == "y" else t.base.x
            add("axis", f"CAxis {caxis(spec, which, shape)} {cz(cnt)} {cz(base)}", (shape, spec, which))
            lo = -cnt if spec[0] == "var" else -cnt - 2
            for i in range(lo, cnt + 2):
                other_ok = (t.shape.x if which == "y" else t.shape.y) > 0
                if not other_ok:
                    continue
                key = (i, 0) if which == "y" else (0, i)
                tx, kind = cres(cpair, lambda: (lambda s: (s.start, s.stop))(t[key][0 if which == "y" else 1]))
                add("range:" + kind, f"CRange {caxis(spec, which, shape)} {cz(i)} {tx}", (shape, spec, which, i), kind == "ok")
        ys = list(range(-1, shape[0] + 1))
        xs = list(range(-1, shape[1] + 1))
        pts = list(itertools.product(ys, xs))
        npts = 24 if not big else 80
        if len(pts) > npts:
            pts = rng.sample(pts, npts)
        for (y, x) in pts:
            tx, kind = cres(cpair, lambda: t.locate((y, x)))
            add("locate:" + kind, f"CLocate {ct} {cz(y)} {cz(x)} {tx}", (shape, spec, y, x), kind == "ok")

    # ---- pixel-space bounding-box queries, exhaustive per axis on small tilings (half-pixel grid of
    #      endpoints from -2 to N+2, incl. empty and inverted spans), axes paired by rotation
    from affine import Affine
    from odc.geo.geobox import GeoBox, GeoboxTiles

    def spans(N):
        pts = [F(k, 2) for k in range(-4, 2 * N + 5)]
        return [(a, b) for a in pts for b in pts if b >= a - 1]

    small = []
    for N in range(1, 5 if not big else 7):
        for n in range(1, N + 1):
            small.append(((N, max(1, (N + n) % 4 + 1)), ("reg", n, 2)))
    small += [((5, 4), ("var", [2, 0, 3], [1, 3])), ((4, 6), ("var", [1, 1, 2], [0, 2, 4, 0])),
              ((6, 3), ("var", [6], [1, 1, 1])), ((3, 5), ("var", [0, 3], [5]))]
    for shape, spec in small:
        gbt = GeoboxTiles(GeoBox(shape, Affine(1, 0, 0, 0, -1, shape[0]), CRS), spec[1:] if spec[0] == "reg" else (tuple(spec[1]), tuple(spec[2])))
        ct = ctiling(spec, shape)
        sy, sx = spans(shape[0]), spans(shape[1])
        n = max(len(sy), len(sx))
        step = 1 if big else 2
        for k in range(0, n, step):
            (y1, y2), (x1, x2) = sy[k % len(sy)], sx[(k * 7 + 3) % len(sx)]
            b = (float(x1), float(y1), float(x2), float(y2))
            bbox = BoundingBox(*b)
            tx, kind = cres(lambda r: ctuple(cpair((r[0].start, r[0].stop)), cpair((r[1].start, r[1].stop))),
                            lambda: gbt.range_from_bbox(bbox))
            add("pix_range:" + kind, f"CPixRange {ct} {cz(shape[0])} {cz(shape[1])} {cq4(b)} {tx}", (shape, spec, b), kind == "ok")
            if k % 3 == 0:
                tx, kind = cres(cidx, lambda: list(gbt.tiles(bbox)))
                add("pix_tiles:" + kind, f"CPixTiles {ct} {cz(shape[0])} {cz(shape[1])} {cq4(b)} {tx}", (shape, spec, b), kind == "ok",
                    {"op": "tiles(pixel bbox)", "shape": shape, "tiles": enc(spec), "bbox": enc(b), "result": tx} if len(out.samples) < 2 else None)
    # malformed: empty raster, chunks that do not add up to the raster shape
    for shape, spec, gshape in (((0, 3), ("reg", 2, 2), (0, 3)), ((4, 4), ("var", [1, 2], [2, 2]), (4, 4)),
                                ((4, 4), ("var", [3, 3], [2, 2]), (4, 4))):
        gbt = GeoboxTiles(GeoBox(gshape, Affine(1, 0, 0, 0, -1, gshape[0]), CRS), spec[1:] if spec[0] == "reg" else (tuple(spec[1]), tuple(spec[2])))
        for b in ((0.0, 0.0, 2.0, 2.0), (-1.0, 1.5, 9.0, 3.5), (3.0, 3.0, 4.0, 4.0)):
            tx, kind = cres(cidx, lambda: list(gbt.tiles(BoundingBox(*b))))
            add("pix_tiles_malformed:" + kind, f"CPixTiles {ctiling(spec, shape)} {cz(gshape[0])} {cz(gshape[1])} {cq4(b)} {tx}", (shape, spec, b))

    # ---- geometry queries: same CRS and other CRS polygons / boxes; oracle answers replayed
    for gi in range(40 if not big else 300):
        NY, NX = rng.randint(1, 9), rng.randint(1, 9)
        rot = rng.random() < 0.25
        if rot:
            c, s = rng.choice([(F(3, 5), F(4, 5)), (F(4, 5), F(-3, 5)), (F(12, 13), F(5, 13))])
            r = F(2) ** rng.choice([3, 5, 8])
            g = (NY, NX, CRS, float(c * r), float(-s * r), float(rng.randint(-5000, 5000)),
                 float(s * r), float(c * r) * rng.choice([1, -1]), float(rng.randint(-5000, 5000)))
        else:
            r = F(2) ** rng.choice([3, 5, 8])
            g = (NY, NX, CRS, float(r) * rng.choice([1, -1]), 0.0, float(rng.randint(-5000, 5000)),
                 0.0, float(r) * rng.choice([1, -1]), float(rng.randint(-5000, 5000)))
        spec = gen_spec(rng, NY, NX)
        gbt = mk_gbt(g, spec)
        gb = gbt.base
        for qi in range(3):
            # query polygon around a point of the raster, in pixel coordinates, mapped to the world
            px = [(rng.uniform(-2, NX + 2), rng.uniform(-2, NY + 2)) for _ in range(3)]
            mode = rng.random()
            if mode < 0.15:
                px = [(-5 - rng.random() * 3, -4.0), (-7.0, -9.0), (-3.0, -8.0)]          # outside
            elif mode < 0.3:
                px = [(-3.0, -3.0), (2 * NX + 6.0, -3.0), (-3.0, 2 * NY + 6.0)]          # larger than the raster
            elif mode < 0.45:
                k = rng.randint(0, NX)
                px = [(float(k), 0.0), (float(k) + 1, 0.0), (float(k) + 1, 1.0), (float(k), 1.0)]  # one pixel, on tile edges
            wld = [gb.affine * p for p in px]
            poly = geom.polygon(wld + [wld[0]], CRS)
            if not poly.is_valid or poly.area == 0:
                continue
            q = poly
            if qi == 1:
                q = poly.to_crs("epsg:4326")
            elif qi == 2 and rng.random() < 0.5:
                q = poly.boundingbox      # BoundingBox with a CRS
            pp = q.polygon if isinstance(q, BoundingBox) else q
            if pp.crs != gb.crs:
                pp = pp.to_crs(gb.crs, check_and_fix=True)
            tpb, _ = cres(cq4, lambda: tuple(gb.project(pp.boundingbox.polygon).boundingbox.bbox))
            tab = [(i, bool(pp.disjoint(gbt[i].extent))) for i in all_idx(gbt)]
            tx, kind = cres(cidx, lambda: list(gbt.tiles(q)))
            add("geom_query:" + kind, f"CQuery {ctiling(spec, (NY, NX))} {cz(NY)} {cz(NX)} {tpb} {ctab(tab)} {tx}",
                (g, spec, [tuple(map(float, p)) for p in px], qi), kind == "ok" and tx not in ("(Ok [])",))

    # ---- linear dependency graphs
    nlin = 0
    for gi in range(170 if not big else 1500):
        gd, gs, sd, ss = gen_pair_linear(rng)
        dst, src = mk_gbt(gd, sd), mk_gbt(gs, ss)
        A = dst._check_linear(src)
        if A is None:
            out.count("linear:not-linear(skipped)")
            continue
        assert A.b == 0 and A.d == 0
        co = [F(v) for v in (A.a, A.c, A.e, A.f)]
        if any(v.denominator > 2 ** 24 or abs(v.numerator) > 2 ** 40 for v in co):
            out.count("generator_escapes(inexact affine, discarded)")
            continue
        nlin += 1
        holder = {}
        tx, kind = cres(cgraph, lambda: holder.setdefault("g", dst.grid_intersect(src)))
        text = (f"CLinear {ctiling(sd, gd[:2])} {ctiling(ss, gs[:2])} {cz(gs[0])} {cz(gs[1])} "
                f"(mkST {cq(co[0])} {cq(co[1])} {cq(co[2])} {cq(co[3])}) {tx}")
        nonempty = kind == "ok" and any(holder["g"].values())
        add("linear:" + kind, text, (gd, gs, sd, ss), True,
            {"op": "grid_intersect(linear)", "dst": enc(gd), "src": enc(gs), "dst_tiles": enc(sd), "src_tiles": enc(ss),
             "A": enc((A.a, A.c, A.e, A.f))} if nlin <= 2 else None)
        out.count("linear:graph-with-edges" if nonempty else "linear:graph-without-edges")

    # ---- general path (rotated same-CRS source, other-CRS source incl. disjoint): oracles replayed
    for gi in range(30 if not big else 150):
        gd, gs, sd, ss = gen_pair_general(rng, gi)
        NYd, NXd, NYs, NXs = gd[0], gd[1], gs[0], gs[1]
        dst, src = mk_gbt(gd, sd), mk_gbt(gs, ss)
        if dst._check_linear(src) is not None:
            continue
        try:
            if src.base.crs == dst.base.crs:
                fp = src.base.extent
            else:
                fp0 = src.base.footprint(4326, 2) & dst.base.footprint(4326, 2)
                fp = None if fp0.is_empty else fp0.to_crs(dst.base.crs)
        except Exception:
            # the footprint oracle itself failed: nothing to replay; the search predicate "general" reports it
            out.count("general:footprint-oracle-raised(skipped)")
            continue

        def oracle(gbt, q):
            pp = q if q.crs == gbt.base.crs else q.to_crs(gbt.base.crs, check_and_fix=True)
            tpb, _ = cres(cq4, lambda: tuple(gbt.base.project(pp.boundingbox.polygon).boundingbox.bbox))
            tab = [(i, bool(pp.disjoint(gbt[i].extent))) for i in all_idx(gbt)]
            return ctuple(tpb, ctab(tab))

        cfp = "None" if fp is None else f"(Some {oracle(dst, fp)})"
        so = "[" + "; ".join(ctuple(cpair(d), oracle(src, dst[d].extent)) for d in all_idx(dst)) + "]"
        tx, kind = cres(cgraph, lambda: dst.grid_intersect(src))
        add("general:" + kind + (":no-common-footprint" if fp is None else ""),
            f"CGeneral {ctiling(sd, gd[:2])} {ctiling(ss, gs[:2])} {cz(NYd)} {cz(NXd)} {cz(NYs)} {cz(NXs)} {cfp} {so} {tx}",
            (gd, gs, sd, ss), True)
    return cases


# ---------------------------------------------------------------- property predicates on the implementation
def p_locate(shape, spec):
    """locate(pixel) is the tile whose pixel rectangle contains the pixel; IndexError exactly outside"""
    t = mk_tiles(shape, spec)
    ny, nx = t.shape.yx
    rects = {(iy, ix): t[iy, ix] for iy in range(ny) for ix in range(nx)}
    for y in range(-1, shape[0] + 1):
        for x in range(-1, shape[1] + 1):
            inside = 0 <= y < t.base.y and 0 <= x < t.base.x
            try:
                got = tuple(t.locate((y, x)))
            except IndexError:
                got = None
            want = [k for k, (sy, sx) in rects.items() if sy.start <= y < sy.stop and sx.start <= x < sx.stop]
            if inside and (got is None or [got] != want):
                return False, f"pixel {(y, x)}: locate={got} tiles containing it={want}"
            if not inside and got is not None:
                return False, f"pixel {(y, x)} outside the base: locate={got}"
    return True, "all pixels"


def p_pixquery(shape, spec, b):
    """every tile whose pixel rectangle meets the interior of the box is returned"""
    from odc.geo.geom import BoundingBox
    gbt = mk_gbt((shape[0], shape[1], CRS, 1.0, 0.0, 0.0, 0.0, -1.0, float(shape[0])), spec)
    x1, y1, x2, y2 = (F(v) for v in b)
    got = list(gbt.tiles(BoundingBox(*b)))
    for idx in all_idx(gbt):
        sy, sx = gbt.roi[idx]
        meets = max(sx.start, x1) < min(sx.stop, x2) and max(sy.start, y1) < min(sy.stop, y2)
        if meets and idx not in got:
            return False, f"tile {idx} rows {sy.start}:{sy.stop} cols {sx.start}:{sx.stop} meets the box but is missing from {got}"
    if len(set(got)) != len(got):
        return False, f"duplicates in {got}"
    return True, f"returned={got}"


def p_geomquery(g, spec, wld, crs):
    """geometry query: returns only tiles that are not disjoint from the query, and every tile whose footprint
    overlaps the query with positive area (shapely as reference: oracle-level test)"""
    from odc.geo import geom
    gbt = mk_gbt(g, spec)
    poly = geom.polygon(list(wld) + [wld[0]], CRS)
    q = poly if crs == CRS else poly.to_crs(crs)
    got = list(gbt.tiles(q))
    pp = q if q.crs == gbt.base.crs else q.to_crs(gbt.base.crs, check_and_fix=True)
    px_area = abs(g[3] * g[7] - g[4] * g[6])
    for idx in all_idx(gbt):
        ext = gbt[idx].extent
        if idx in got and pp.disjoint(ext):
            return False, f"tile {idx} is disjoint from the query but returned"
        if idx not in got and (pp & ext).area > 1e-6 * px_area:
            return False, f"tile {idx} overlaps the query (area {(pp & ext).area / px_area} px) but is missing from {got}"
    return True, f"returned={got}"


def p_linear(gd, gs, sd, ss):
    """same-CRS scale+translation pair: never an error; every source tile whose pixel rectangle overlaps the mapped
    destination tile by more than the snapping tolerance is listed; no edges when the rasters do not overlap"""
    dst, src = mk_gbt(gd, sd), mk_gbt(gs, ss)
    sx, tx, sy, ty = exact_st(gd, gs)
    A = dst._check_linear(src)
    try:
        graph = dst.grid_intersect(src)
    except Exception as e:
        return False, f"raised {type(e).__name__}: {e}"
    if A is not None and (F(A.a), F(A.c), F(A.e), F(A.f)) == (sx, tx, sy, ty):
        # no snapping happened; products s*x+t are exact in binary64 only for short dyadic coefficients,
        # otherwise allow for their rounding (a few ulp of a pixel coordinate)
        short = all(v.denominator <= 2 ** 24 and abs(v.numerator) <= 2 ** 40 for v in (sx, tx, sy, ty))
        delta = F(0) if short else F(1, 2 ** 30)
    else:   # snapped or rounded: translation moves < 1e-3, scale term < 1e-6 * extent (or the general path was taken)
        ext = max(gd[0], gd[1], gs[0], gs[1]) * max(abs(sx), abs(sy), 1)
        delta = F(1, 1000) + F(1, 10 ** 6) * ext * 2 + F(1, 10 ** 6)
    if A is None:
        return True, "not a linear pair for the implementation (general path), no error"

    def mapped(lo, hi, s, t):
        a, b = s * lo + t, s * hi + t
        return min(a, b), max(a, b)

    NYs, NXs = gs[0], gs[1]
    fx0, fx1 = mapped(0, gd[1], sx, tx)
    fy0, fy1 = mapped(0, gd[0], sy, ty)
    apart = (min(fx1, NXs) - max(fx0, 0) <= -2 * delta) or (min(fy1, NYs) - max(fy0, 0) <= -2 * delta) if delta else \
            (min(fx1, NXs) - max(fx0, 0) <= 0) or (min(fy1, NYs) - max(fy0, 0) <= 0)
    edges = [(d, s) for d, l in graph.items() for s in l]
    if apart and edges:
        return False, f"rasters do not overlap (mapped destination x {float(fx0)}..{float(fx1)} y {float(fy0)}..{float(fy1)}, source {NXs}x{NYs}) but the graph has edges {edges[:6]}"
    # the map is separable: overlapping (destination, source) index pairs per axis, then their product
    ny_d, nx_d = dst.shape.yx
    ny_s, nx_s = src.shape.yx
    drows = [dst.roi[(i, 0)][0] for i in range(ny_d)]
    dcols = [dst.roi[(0, i)][1] for i in range(nx_d)]
    srows = [src.roi[(i, 0)][0] for i in range(ny_s)]
    scols = [src.roi[(0, i)][1] for i in range(nx_s)]

    def axis_pairs(dd, qq, s_, t_):
        out_ = []
        for di, r in enumerate(dd):
            m0, m1 = mapped(r.start, r.stop, s_, t_)
            for si, q in enumerate(qq):
                ov = min(m1, q.stop) - max(m0, q.start)
                if ov > 2 * delta and q.stop > q.start and r.stop > r.start:
                    out_.append((di, si, ov, (m0, m1)))
        return out_

    ypairs = axis_pairs(drows, srows, sy, ty)
    xpairs = axis_pairs(dcols, scols, sx, tx)
    listed = {d: set(map(tuple, l)) for d, l in graph.items()}
    for (dy, sy_, ovy, my) in ypairs:
        for (dx, sx_, ovx, mx) in xpairs:
            if (sy_, sx_) not in listed.get((dy, dx), ()):
                qy, qx = srows[sy_], scols[sx_]
                return False, (f"destination tile {(dy, dx)} maps to x {float(mx[0])}..{float(mx[1])} y {float(my[0])}..{float(my[1])} (exact "
                               f"pixel-to-pixel map); source tile {(sy_, sx_)} (cols {qx.start}:{qx.stop} rows {qy.start}:{qy.stop}) overlaps it by "
                               f"({float(ovx)}, {float(ovy)}) px, more than the documented snapping tolerance 2*delta={float(2 * delta)}, "
                               f"but is not listed: {sorted(listed.get((dy, dx), ()))[:8]}")
    return True, f"{len(edges)} edges, delta={float(delta)}"


def p_general(gd, gs, sd, ss):
    """any pair (rotated, other CRS): never an error; disjoint rasters give no edges; sampled completeness: a
    destination pixel position that lands well inside a source tile forces that edge (oracle-composition test)"""
    import numpy as np
    from odc.geo import geom
    dst, src = mk_gbt(gd, sd), mk_gbt(gs, ss)
    try:
        graph = dst.grid_intersect(src)
    except Exception as e:
        return False, f"raised {type(e).__name__}: {str(e)[:200]}"
    edges = [(d, s) for d, l in graph.items() for s in l]
    de = dst.base.extent
    se = src.base.extent if src.base.crs == dst.base.crs else src.base.footprint(dst.base.crs, 0, 20)
    gap = de.geom.distance(se.geom)
    if gap > 4 * max(abs(gd[3]), abs(gd[7])) + 0.01 * (de.geom.length + se.geom.length) and edges:
        return False, f"rasters are {gap} apart but the graph has edges {edges[:6]}"
    rng = core.rng("c12-general-" + repr((gd, gs)))
    tr = None
    for _ in range(60):
        u, v = rng.uniform(0, gd[1]), rng.uniform(0, gd[0])
        X, Y = dst.base.affine * (u, v)
        if src.base.crs != dst.base.crs:
            if tr is None:
                from pyproj import Transformer       # pyproj called directly, x/y order
                tr = Transformer.from_crs(gd[2], gs[2], always_xy=True).transform
            X, Y = tr(X, Y)
            if not (np.isfinite(X) and np.isfinite(Y)):
                continue
        p, q = (~src.base.affine) * (X, Y)
        if not (0.05 < p < gs[1] - 0.05 and 0.05 < q < gs[0] - 0.05):
            continue
        d = dst.roi.locate((int(v), int(u)))
        s = src.roi.locate((int(q), int(p)))
        dy, dx = dst.roi[d]
        sy, sx = src.roi[s]
        m = 0.05
        if not (dx.start + m < u < dx.stop - m and dy.start + m < v < dy.stop - m and
                sx.start + m < p < sx.stop - m and sy.start + m < q < sy.stop - m):
            continue
        if s not in graph.get(d, []):
            return False, (f"destination pixel position ({u:.3f},{v:.3f}) of tile {d} lands at source position ({p:.3f},{q:.3f}) "
                           f"inside source tile {s}, which is not listed: {graph.get(d)}")
    return True, f"{len(edges)} edges"


def _tile_polys_lonlat(g, gbt):
    """tile footprints from the affine and the tile pixel ranges, densified and moved to lon/lat with pyproj"""
    from pyproj import Transformer
    from shapely.geometry import Polygon
    from shapely.ops import transform as shp_transform
    from affine import Affine
    A = Affine(*g[3:9])
    tr = None if g[2] == "epsg:4326" else Transformer.from_crs(g[2], "epsg:4326", always_xy=True).transform
    out = {}
    for idx in all_idx(gbt):
        ry, rx = gbt.roi[idx]
        if ry.stop <= ry.start or rx.stop <= rx.start:
            continue
        p = Polygon([A * q for q in [(rx.start, ry.start), (rx.stop, ry.start), (rx.stop, ry.stop), (rx.start, ry.stop)]])
        npix = (ry.stop - ry.start) * (rx.stop - rx.start)
        if tr is not None:
            p = shp_transform(tr, p.segmentize(max(p.length / 400, 1e-9)))
        if not p.is_valid:
            continue
        out[idx] = (p, p.area / npix)
    return out


CHORD_KEY = "c12:crossref-chord"


def _chord_class(gd, dst, d, gs, src, s_, frac):
    """Is a missed pair explained by the known open finding?  GeoboxTiles.tiles() moves the destination tile's extent
    to the source CRS through its four corners only; for a destination tile that is very large compared with the
    source raster the straight chords cut off area of the true (curved) footprint.  A miss belongs to that class
    when the source tile does not overlap the four-corner image of the destination tile (by half of what the true
    footprint overlap would imply)."""
    from affine import Affine
    from pyproj import Transformer
    from shapely.geometry import Polygon
    import math

    def rect(g, t, idx):
        A = Affine(*g[3:9])
        ry, rx = t.roi[idx]
        return [A * q for q in [(rx.start, ry.start), (rx.stop, ry.start), (rx.stop, ry.stop), (rx.start, ry.stop)]]
    pts = rect(gd, dst, d)
    if gd[2] != gs[2]:
        tr = Transformer.from_crs(gd[2], gs[2], always_xy=True).transform
        pts = [tr(*q) for q in pts]
    if not all(math.isfinite(v) for q in pts for v in q):
        return True
    cp, tp = Polygon(pts), Polygon(rect(gs, src, s_))
    if not cp.is_valid:
        return True
    return cp.intersection(tp).area < 0.5 * frac * tp.area


CUSTOM_CRS = [
    "+proj=laea +lat_0=52 +lon_0=10 +x_0=4321000 +y_0=3210000 +ellps=GRS80 +units=m +no_defs",
    "+proj=tmerc +lat_0=0 +lon_0=21.5 +k=0.9999 +x_0=250000 +y_0=0 +ellps=GRS80 +units=m +no_defs",
    "+proj=aea +lat_0=40 +lon_0=-96 +lat_1=20 +lat_2=60 +x_0=0 +y_0=0 +ellps=GRS80 +units=m +no_defs",
    "+proj=tmerc +lat_0=-30 +lon_0=135.25 +k=1 +x_0=100000 +y_0=5000000 +ellps=WGS84 +units=m +no_defs",
    "+proj=lcc +lat_1=30 +lat_2=50 +lat_0=40 +lon_0=100 +x_0=0 +y_0=0 +ellps=WGS84 +units=m +no_defs",
    "+proj=laea +lat_0=-20 +lon_0=-60 +x_0=0 +y_0=0 +ellps=WGS84 +units=m +no_defs",
]
CUSTOM_CENTRE = [(10, 52), (21.5, 45), (-96, 40), (135.25, -30), (100, 40), (-60, -20)]   # lon, lat near each origin


_KEEP = {}


def keep_crs(spec):
    """one odc.geo CRS object per query CRS, created once and kept for the life of the process (as a long-running
    caller holding a CRS object would): histories that evict cache entries must not change what it transforms to"""
    from odc.geo.crs import CRS
    if spec is None:
        return None
    if spec not in _KEEP:
        _KEEP[spec] = CRS(spec)
    return _KEEP[spec]


def p_many_crs(n, salt):
    """a process that works with more CRSs than any plausible cache bound: n rasters, each in its own custom
    transverse-Mercator CRS, queried with a lon/lat triangle through one long-lived EPSG:4326 CRS object; every
    query is judged like xquery (pyproj called directly)"""
    rng = core.rng(f"c12-many-{n}-{salt}")
    for i in range(n):
        lon0 = -170 + ((i * 11 + salt * 7) % 340) + (salt % 5) / 16
        crs = f"+proj=tmerc +lat_0=0 +lon_0={lon0} +k=0.9996 +x_0=500000 +y_0={salt * 1000 + i} +ellps=WGS84 +units=m +no_defs"
        CUSTOM_CENTRE_TMP = (lon0 + rng.uniform(-1, 1), rng.uniform(-50, 50))
        g, spec, qpts, qcrs = gen_xquery(rng, crs, CUSTOM_CENTRE_TMP)
        ok, detail = p_xquery(g, spec, qpts, qcrs)
        if not ok:
            return False, f"CRS number {i} ({crs}), raster {g[:2]} at {g[5]},{g[8]}, query {qpts}: {detail}"
    return True, f"{n} custom CRSs"


XBIG = [
    # (query CRS, raster CRS, x range, y range of the query rectangle in the query CRS, minimal width, minimal height)
    ("epsg:4326", "epsg:3577", (112, 152), (-40, -10), 20, 12),
    ("epsg:4326", "epsg:3035", (-10, 40), (35, 68), 20, 12),
    ("epsg:4326", "+proj=lcc +lat_1=30 +lat_2=50 +lat_0=40 +lon_0=100 +x_0=0 +y_0=0 +ellps=WGS84 +units=m +no_defs", (80, 120), (25, 55), 20, 12),
    ("epsg:4326", "+proj=aea +lat_0=40 +lon_0=-96 +lat_1=20 +lat_2=60 +x_0=0 +y_0=0 +ellps=GRS80 +units=m +no_defs", (-125, -70), (25, 55), 25, 12),
    ("epsg:4326", "epsg:32633", (8, 22), (20, 75), 8, 30),
    ("epsg:3577", "epsg:4326", (-1900000, 1900000), (-4600000, -1100000), 2000000, 1500000),
    ("epsg:3035", "epsg:4326", (2600000, 6400000), (1600000, 5200000), 2000000, 1500000),
]


def _ring(x0, y0, x1, y1, n):
    """rectangle outline with n vertices per side (counter-clockwise, not closed)"""
    xs = [x0 + (x1 - x0) * k / n for k in range(n)]
    ys = [y0 + (y1 - y0) * k / n for k in range(n)]
    return ([(x, y0) for x in xs] + [(x1, y) for y in ys] + [(x0 + (x1 - x0) * (n - k) / n, y1) for k in range(n)] +
            [(x0, y0 + (y1 - y0) * (n - k) / n) for k in range(n)])


def p_xbig(g, spec, rect, n, qcrs):
    """large geometry query from another CRS with densified edges (its outline in the raster CRS is curved): every
    tile clearly overlapping the query (more than 1e-4 of a full tile) is returned, no tile further than one pixel
    from it is.  Reference: vertices through pyproj.Transformer(always_xy=True) called directly, tile footprints
    from the affine and the tile pixel ranges, shapely."""
    from affine import Affine
    from pyproj import Transformer
    from shapely.geometry import Polygon
    from shapely.prepared import prep
    from odc.geo import geom
    gbt = mk_gbt(g, spec)
    pts = _ring(*rect, n)
    q = geom.polygon(pts + [pts[0]], keep_crs(qcrs))
    try:
        got = set(map(tuple, gbt.tiles(q)))
    except Exception as e:
        return False, f"raised {type(e).__name__}: {str(e)[:200]}"
    tr = Transformer.from_crs(qcrs, g[2], always_xy=True)
    X, Y = tr.transform([p_[0] for p_ in pts], [p_[1] for p_ in pts])
    P = Polygon(list(zip(X, Y)))
    if not P.is_valid or P.area == 0:
        return True, "query outline not a valid polygon after projection (not judged)"
    PP = prep(P)
    A = Affine(*g[3:9])
    px_area = abs(g[3] * g[7] - g[4] * g[6])
    px = px_area ** 0.5
    full = None
    must = 0
    for idx in all_idx(gbt):
        ry, rx = gbt.roi[idx]
        if full is None:
            full = (ry.stop - ry.start) * (rx.stop - rx.start) * px_area       # tile (0, 0) is a full tile
        T = Polygon([A * c for c in [(rx.start, ry.start), (rx.stop, ry.start), (rx.stop, ry.stop), (rx.start, ry.stop)]])
        if PP.contains(T):
            a = T.area
        elif PP.intersects(T):
            a = P.intersection(T).area
        else:
            a = 0.0
        if a > 1e-4 * full:
            must += 1
            if idx not in got:
                return False, (f"tile {idx} (rows {ry.start}:{ry.stop} cols {rx.start}:{rx.stop}) overlaps the query by {a / px_area:.1f} pixels "
                               f"(pyproj always_xy + shapely reference) but is missing; {len(got)} tiles returned")
        elif idx in got and P.distance(T) > px:
            return False, f"tile {idx} is {P.distance(T) / px:.2f} pixels away from the query but is returned"
    return True, f"{must} clearly overlapping tiles, {len(got)} returned"


def gen_xbig(rng):
    from pyproj import Transformer
    qcrs, gcrs, xr, yr, minw, minh = rng.choice(XBIG)
    w = rng.uniform(minw, xr[1] - xr[0])
    h = rng.uniform(minh, yr[1] - yr[0])
    x0 = rng.uniform(xr[0], xr[1] - w)
    y0 = rng.uniform(yr[0], yr[1] - h)
    rect = tuple(round(v, 4) for v in (x0, y0, x0 + w, y0 + h))
    n = rng.choice([60, 120, 240])
    pts = _ring(*rect, n)
    tr = Transformer.from_crs(qcrs, gcrs, always_xy=True)
    X, Y = tr.transform([p_[0] for p_ in pts], [p_[1] for p_ in pts])
    bx0, bx1, by0, by1 = min(X), max(X), min(Y), max(Y)
    mx, my = 0.04 * (bx1 - bx0), 0.04 * (by1 - by0)
    bx0, bx1, by0, by1 = bx0 - mx, bx1 + mx, by0 - my, by1 + my
    N = rng.randint(240, 420)
    px = max(bx1 - bx0, by1 - by0) / N
    px = float(f"{px:.3g}")
    NX, NY = int((bx1 - bx0) / px) + 1, int((by1 - by0) / px) + 1
    sx_, sy_ = rng.choice([(1, -1), (1, -1), (-1, -1), (1, 1)])
    g = (NY, NX, gcrs, sx_ * px, 0.0, bx0 if sx_ > 0 else bx0 + NX * px, 0.0, sy_ * px, by1 if sy_ < 0 else by1 - NY * px)
    ta, tb = rng.choice([6, 8, 10, 16]), rng.choice([30, 40, 60])
    spec = ("reg", ta, tb) if rng.random() < 0.6 else ("reg", tb, ta)
    return g, spec, rect, n, qcrs


def p_xquery(g, spec, qpts, qcrs):
    """geometry query given in another CRS: the tiles returned are exactly those whose footprint overlaps the query.
    Reference independent of odc.geo.crs / Geometry.to_crs: query vertices moved with pyproj.Transformer
    (always_xy=True) called directly, tile footprints from the affine, shapely intersection area / distance
    (tiles overlapping by less than 1e-3 pixel or closer than 1e-3 pixel are not judged)."""
    from affine import Affine
    from pyproj import Transformer
    from shapely.geometry import Polygon
    from odc.geo import geom
    gbt = mk_gbt(g, spec)
    q = geom.polygon(list(qpts) + [qpts[0]], keep_crs(qcrs))
    try:
        got = set(map(tuple, gbt.tiles(q)))
    except Exception as e:
        return False, f"raised {type(e).__name__}: {str(e)[:200]}"
    if qcrs is None and g[2] is None:       # CRS-less raster queried in its own world coordinates
        P = Polygon(list(qpts))
    else:
        tr = Transformer.from_crs(qcrs, g[2], always_xy=True).transform
        P = Polygon([tr(x, y) for x, y in qpts])
    if not P.is_valid or P.area == 0:
        return True, "degenerate query after projection (not judged)"
    A = Affine(*g[3:9])
    px_area = abs(g[3] * g[7] - g[4] * g[6])
    px = px_area ** 0.5
    n = 0
    for idx in all_idx(gbt):
        ry, rx = gbt.roi[idx]
        if ry.stop <= ry.start or rx.stop <= rx.start:
            continue
        T = Polygon([A * c for c in [(rx.start, ry.start), (rx.stop, ry.start), (rx.stop, ry.stop), (rx.start, ry.stop)]])
        a = P.intersection(T).area
        if a > 1e-3 * px_area:
            n += 1
            if idx not in got:
                return False, (f"tile {idx} overlaps the query by {a / px_area:.3f} pixels (pyproj always_xy + shapely reference) "
                               f"but is missing from {sorted(got)[:10]}")
        elif idx in got and P.distance(T) > 1e-3 * px:
            return False, (f"tile {idx} is {P.distance(T) / px:.3f} pixels away from the query (pyproj always_xy + shapely reference) "
                           f"but is returned: {sorted(got)[:10]}")
    return True, f"{n} overlapping tiles, returned {len(got)}"


def gen_nocrs_query(rng):
    """CRS-less raster with a non-identity affine (scaled, shifted, mirrored) and a CRS-less polygon in its world coordinates"""
    from affine import Affine
    NY, NX = rng.randint(4, 12), rng.randint(4, 12)
    r = float(rng.choice([0.5, 2, 10, 30]))
    sx_, sy_ = rng.choice([(1, 1), (1, -1), (-1, -1), (-1, 1)])
    g = (NY, NX, None, sx_ * r, 0.0, float(rng.randint(-50, 50) * 10), 0.0, sy_ * r, float(rng.randint(-50, 50) * 10))
    A = Affine(*g[3:9])
    mode = rng.random()
    if mode < 0.3:      # exactly one tile's extent, shrunk a little
        spec = ("reg", rng.randint(1, NY), rng.randint(1, NX))
        pix = [(0.25, 0.25), (spec[2] - 0.25, 0.25), (spec[2] - 0.25, spec[1] - 0.25), (0.25, spec[1] - 0.25)]
        k = (rng.randint(0, (NX - 1) // spec[2]) * spec[2], rng.randint(0, (NY - 1) // spec[1]) * spec[1])
        pix = [(u + k[0], v + k[1]) for u, v in pix]
    else:
        spec = gen_spec(rng, NY, NX, allow_zero=False)
        pix = [(rng.uniform(-1, NX + 1), rng.uniform(-1, NY + 1)) for _ in range(3)]
    qpts = [tuple(round(v, 6) for v in (A * q)) for q in pix]
    return g, spec, qpts, None


GEOG = [
    # destination / source rasters in geographic CRSs other than EPSG:4326, with a projected or EPSG:4326 partner
    ("epsg:4283", (115, 150), (-38, -12), ["epsg:3577", "epsg:4326", "epsg:32755"]),     # GDA94
    ("epsg:7844", (115, 150), (-38, -12), ["epsg:3577", "epsg:4326"]),                   # GDA2020
    ("epsg:4269", (-120, -75), (28, 48), ["epsg:3857", "epsg:4326", "epsg:5070"]),        # NAD83
    ("epsg:4258", (-5, 25), (40, 65), ["epsg:3035", "epsg:4326", "epsg:32633"]),          # ETRS89
]


def gen_pair_geog(rng):
    """lon/lat raster in a geographic CRS that is not EPSG:4326 and an overlapping partner raster in a projected CRS or
    in EPSG:4326; returned as (geographic raster, partner, tiles, tiles)"""
    from pyproj import Transformer
    crs, lr, br, partners = rng.choice(GEOG)
    pc = rng.choice(partners)
    r = rng.choice([0.01, 0.05, 0.25])
    NY, NX = rng.randint(8, 40), rng.randint(8, 40)
    lon0 = round(rng.uniform(lr[0], lr[1] - NX * r), 2)
    lat1 = round(rng.uniform(br[0] + NY * r, br[1]), 2)
    if pc == "epsg:32755":
        lon0 = round(rng.uniform(144.5, 149.5 - min(NX * r, 4)), 2)
    if pc == "epsg:32633":
        lon0 = round(rng.uniform(12.5, 17.5 - min(NX * r, 4)), 2)
    sy_ = rng.choice([-1, -1, 1])
    gg = (NY, NX, crs, r, 0.0, lon0, 0.0, sy_ * r, lat1 if sy_ < 0 else round(lat1 - NY * r, 6))
    # partner: around a point of the geographic raster, comparable pixel size
    clon, clat = lon0 + rng.uniform(0, NX * r), lat1 - rng.uniform(0, NY * r)
    NYp, NXp = rng.randint(8, 40), rng.randint(8, 40)
    if pc == "epsg:4326":
        rp = rng.choice([0.01, 0.05, 0.25])
        gp = (NYp, NXp, pc, rp, 0.0, round(clon - NXp * rp / 2, 3), 0.0, -rp, round(clat + NYp * rp / 2, 3))
    else:
        cx, cy = Transformer.from_crs("epsg:4326", pc, always_xy=True).transform(clon, clat)
        px = float(rng.choice([1000, 5000, 25000]))
        gp = (NYp, NXp, pc, px, 0.0, float(round(cx - NXp * px / 2)), 0.0, -px, float(round(cy + NYp * px / 2)))
    return gg, gp, ("reg", rng.randint(3, NY), rng.randint(3, NX)), ("reg", rng.randint(3, NYp), rng.randint(3, NXp))


def gen_xquery(rng, grid_crs=None, centre=None):
    """raster in EPSG:3857 / UTM / a custom CRS around a lon/lat position and a triangle or quadrilateral query given
    in EPSG:4326 (lon, lat) that covers part of it"""
    from pyproj import Transformer
    if grid_crs is None:
        grid_crs, (lon, lat) = rng.choice([("epsg:3857", (rng.uniform(-120, 120), rng.uniform(-55, 60))),
                                           ("epsg:32633", (rng.uniform(12.5, 17.5), rng.uniform(10, 70))),
                                           ("epsg:3577", (rng.uniform(120, 145), rng.uniform(-38, -15)))])
    elif centre is not None:
        lon, lat = centre
    else:
        lon, lat = CUSTOM_CENTRE[CUSTOM_CRS.index(grid_crs)]
        lon, lat = lon + rng.uniform(-3, 3), lat + rng.uniform(-3, 3)
    NY, NX = rng.randint(3, 9), rng.randint(3, 9)
    px = float(rng.choice([500, 2000, 8000]))
    fw = Transformer.from_crs("epsg:4326", grid_crs, always_xy=True).transform
    bw = Transformer.from_crs(grid_crs, "epsg:4326", always_xy=True).transform
    cx, cy = fw(lon, lat)
    sxg, syg = rng.choice([(1, -1), (1, -1), (-1, -1), (1, 1)])
    g = (NY, NX, grid_crs, sxg * px, 0.0, float(round(cx - sxg * px * NX / 2)), 0.0, syg * px, float(round(cy - syg * px * NY / 2)))
    from affine import Affine
    A = Affine(*g[3:9])
    k = rng.choice([3, 4])
    pix = [(rng.uniform(-1, NX + 1), rng.uniform(-1, NY + 1)) for _ in range(k)]
    if k == 4:      # keep the quadrilateral simple: order the vertices around their centroid
        import math
        mx, my = sum(p[0] for p in pix) / 4, sum(p[1] for p in pix) / 4
        pix.sort(key=lambda p: math.atan2(p[1] - my, p[0] - mx))
    qpts = [tuple(round(v, 6) for v in bw(*(A * p))) for p in pix]
    return g, gen_spec(rng, NY, NX, allow_zero=False), qpts, "epsg:4326"


def _point_witness(gd, dst, gs, src, graph):
    """A point at least one pixel inside a source tile whose image (pyproj, called directly) lies at least one pixel
    inside a destination tile witnesses that the two tiles overlap by more than a sliver: the pair must be listed.
    Returns ((is_chord_class, message) | None, number of witnessed pairs)."""
    import numpy as np
    from affine import Affine
    from pyproj import Transformer
    from shapely.geometry import Point, Polygon
    As, Ad = Affine(*gs[3:9]), Affine(*gd[3:9])
    Adi = ~Ad
    fwd = None if gs[2] == gd[2] else Transformer.from_crs(gs[2], gd[2], always_xy=True)
    ny_d, nx_d = dst.shape.yx
    oy = np.array([dst.roi[(i, 0)][0].start for i in range(ny_d)] + [dst.roi[(ny_d - 1, 0)][0].stop])
    ox = np.array([dst.roi[(0, i)][1].start for i in range(nx_d)] + [dst.roi[(0, nx_d - 1)][1].stop])
    listed = {d: set(map(tuple, l)) for d, l in graph.items()}
    pairs = set()
    first = None
    for s_ in all_idx(src):
        ry, rx = src.roi[s_]
        if ry.stop - ry.start < 3 or rx.stop - rx.start < 3:
            continue
        uu, vv = np.meshgrid(np.linspace(rx.start + 1, rx.stop - 1, 6), np.linspace(ry.start + 1, ry.stop - 1, 6))
        uu, vv = uu.ravel(), vv.ravel()
        X, Y = As.a * uu + As.b * vv + As.c, As.d * uu + As.e * vv + As.f
        X2, Y2 = (X, Y) if fwd is None else fwd.transform(X, Y)
        P, Q = Adi.a * X2 + Adi.b * Y2 + Adi.c, Adi.d * X2 + Adi.e * Y2 + Adi.f
        for k in range(len(P)):
            p, q = P[k], Q[k]
            if not (np.isfinite(p) and np.isfinite(q)) or not (1 <= p <= gd[1] - 1 and 1 <= q <= gd[0] - 1):
                continue
            ix, iy = int(np.searchsorted(ox, p, "right")) - 1, int(np.searchsorted(oy, q, "right")) - 1
            if min(p - ox[ix], ox[ix + 1] - p, q - oy[iy], oy[iy + 1] - q) < 1:
                continue
            d = (iy, ix)
            pairs.add((d, s_))
            if s_ in listed.get(d, ()) or first is not None and not first[0]:
                continue
            # chord class of the open finding: the point is outside the four-corner image of the destination tile
            dy, dx = dst.roi[d]
            cs = [Ad * c for c in [(dx.start, dy.start), (dx.stop, dy.start), (dx.stop, dy.stop), (dx.start, dy.stop)]]
            if fwd is not None:
                cs = [Transformer.from_crs(gd[2], gs[2], always_xy=True).transform(*c) for c in cs]
            ok_c = all(np.isfinite(v) for c in cs for v in c)
            cp = Polygon(cs) if ok_c else None
            is_chord = cp is None or not cp.is_valid or not cp.buffer(-0.5 * min(abs(gs[3]), abs(gs[7]))).contains(Point(X[k], Y[k]))
            msg = (f"source pixel position ({uu[k]:.2f},{vv[k]:.2f}) inside source tile {s_} lands (pyproj) at destination position "
                   f"({p:.2f},{q:.2f}), more than a pixel inside destination tile {d}, but the source tile is not listed: {sorted(listed.get(d, ()))[:8]}")
            if first is None or (first[0] and not is_chord):
                first = (is_chord, msg)
    return first, len(pairs)


def p_polar(gd, gs, sd, ss):
    """pair in which one raster contains a pole or spans the world (its lon/lat footprint is not a valid polygon):
    never an error, and every pair witnessed by a point (one pixel inside a source tile, sent through pyproj directly,
    landing one pixel inside a destination tile) is listed; misses of the open chord class keep their own key"""
    dst, src = mk_gbt(gd, sd), mk_gbt(gs, ss)
    try:
        graph = dst.grid_intersect(src)
    except Exception as e:
        return False, f"raised {type(e).__name__}: {str(e)[:200]}"
    miss, nw = _point_witness(gd, dst, gs, src, graph)
    if miss is not None:
        is_chord, msg = miss
        return False, ("[chord] " if is_chord else "") + msg
    return True, f"{nw} point-witnessed pairs, all listed"


def gen_pair_polar(rng):
    """polar-stereographic raster centred on (or near) a pole, or a whole-world Web-Mercator raster, against a valid
    regional EPSG:4326 raster; returned as (polar/world raster, lon/lat raster, tiles, tiles)"""
    kind = rng.choice(["3031", "3031", "3413", "3857"])
    if kind == "3857":
        N = rng.choice([128, 200])
        px = 2 * 20037508.342789244 / N
        gp = (N, N, "epsg:3857", px, 0.0, -20037508.342789244, 0.0, -px, 20037508.342789244)
        lat0 = rng.uniform(-60, 40)
        lon0 = rng.uniform(-170, 80)
    else:
        N = rng.choice([120, 200, 240])
        px = float(rng.choice([10000, 25000]))
        off = rng.choice([0, 0, 0.2]) * N * px
        gp = (N, N, "epsg:" + kind, px, 0.0, -N * px / 2 + off, 0.0, -px, N * px / 2)
        lat0 = rng.uniform(-88, -62) if kind == "3031" else rng.uniform(55, 80)
        lon0 = rng.uniform(-170, 80)
    r = rng.choice([0.25, 0.5, 1.0])
    NYg, NXg = rng.randint(20, 60), rng.randint(40, 180)
    lat1 = min(89.5, lat0 + NYg * r) if kind != "3031" else min(-55.0, lat0 + NYg * r)
    NYg = max(4, int((lat1 - lat0) / r))
    NXg = min(NXg, int((179.5 - lon0) / r))
    gg = (NYg, NXg, "epsg:4326", r, 0.0, round(lon0, 2), 0.0, -r, round(lat0 + NYg * r, 2))
    t = rng.choice([20, 25, 40])
    return gp, gg, ("reg", t, t), ("reg", rng.randint(5, NYg), rng.randint(10, NXg))


def p_crossref(gd, gs, sd, ss):
    """different-CRS pair (testing of the oracle composition): never an error; every source tile whose footprint
    overlaps a destination tile's footprint by more than a sliver (4 pixels of the finer grid) is listed.
    Reference: tile footprints densified, moved to lon/lat with pyproj, intersected with shapely.
    Misses of the class of the open finding (see _chord_class) are reported under their own key."""
    dst, src = mk_gbt(gd, sd), mk_gbt(gs, ss)
    try:
        graph = dst.grid_intersect(src)
    except Exception as e:
        return False, f"raised {type(e).__name__}: {str(e)[:200]}"
    fd, fs = _tile_polys_lonlat(gd, dst), _tile_polys_lonlat(gs, src)
    n = 0
    chord = None
    for d, (dp, dpx) in fd.items():
        got = set(map(tuple, graph.get(d, [])))
        for s_, (sp, spx) in fs.items():
            if not dp.intersects(sp):
                continue
            a = dp.intersection(sp).area
            if a > 4 * min(dpx, spx):
                n += 1
                if s_ not in got:
                    msg = (f"destination tile {d} and source tile {s_} overlap by {a / min(dpx, spx):.1f} pixels of the finer grid, "
                           f"{100 * a / sp.area:.0f}% of the source tile (lon/lat reference), but the source tile is not listed: {sorted(got)[:8]}")
                    if _chord_class(gd, dst, d, gs, src, s_, a / sp.area):
                        chord = chord or msg
                    else:
                        return False, msg
    # second, independent witness: interior points of source tiles sent through pyproj into destination pixels
    miss, nw = _point_witness(gd, dst, gs, src, graph)
    if miss is not None:
        is_chord, msg = miss
        if not is_chord:
            return False, msg
        chord = chord or msg
    if chord:
        return False, "[chord] " + chord
    return True, f"{n} overlapping tile pairs (lon/lat footprints) and {nw} point-witnessed pairs, all listed"


PREDICATES = {"locate": p_locate, "pixquery": p_pixquery, "geomquery": p_geomquery, "linear": p_linear,
              "general": p_general, "crossref": p_crossref, "xquery": p_xquery, "many_crs": p_many_crs, "xbig": p_xbig, "polar": p_polar}


def search(out, tier):
    _register_history()
    rng = core.rng("c12-search")
    big = tier != "quick"
    found = {}

    def run(name, *args):
        try:
            ok, detail = PREDICATES[name](*args)
        except Exception as e:
            ok, detail = False, f"predicate raised {type(e).__name__}: {e}"
        out.count("predicate:" + name)
        out.case(("pred", name, enc(args)), True)
        key = CHORD_KEY if (name in ("crossref", "polar") and detail.startswith("[chord]")) else f"c12:{name}"
        if not ok and key not in found:
            found[key] = True
            out.violation(key, f"{name}{enc(args)}: {detail}",
                          {"predicate": name, "args": enc(list(args)), "observed": detail})

    for rp in core.corpus(ID):
        run(rp["predicate"], *dec(rp["args"]))
    for _ in range(60 if not big else 500):
        NY, NX = rng.randint(1, 10), rng.randint(1, 10)
        spec = gen_spec(rng, NY, NX)
        run("locate", (NY, NX), spec)
        for _ in range(6):
            xs = sorted(F(rng.randint(-6, 2 * NX + 6), 2) for _ in range(2))
            ys = sorted(F(rng.randint(-6, 2 * NY + 6), 2) for _ in range(2))
            if rng.random() < 0.3:
                xs = [xs[0] + F(rng.randint(1, 7), 8), xs[1] - F(rng.randint(0, 7), 8)]
            run("pixquery", (NY, NX), spec, (float(xs[0]), float(ys[0]), float(xs[1]), float(ys[1])))
    for _ in range(40 if not big else 300):
        NY, NX = rng.randint(1, 8), rng.randint(1, 8)
        r = float(F(2) ** rng.choice([3, 5, 8]))
        if rng.random() < 0.3:
            g = (NY, NX, CRS, 0.6 * r, -0.8 * r, float(rng.randint(-5000, 5000)), 0.8 * r, 0.6 * r, float(rng.randint(-5000, 5000)))
        else:
            g = (NY, NX, CRS, r * rng.choice([1, -1]), 0.0, float(rng.randint(-5000, 5000)), 0.0, r * rng.choice([1, -1]), float(rng.randint(-5000, 5000)))
        gb = mk_gbox(g)
        px = [(rng.uniform(-2, NX + 2), rng.uniform(-2, NY + 2)) for _ in range(3)]
        wld = [tuple(gb.affine * p) for p in px]
        a = (wld[1][0] - wld[0][0]) * (wld[2][1] - wld[0][1]) - (wld[2][0] - wld[0][0]) * (wld[1][1] - wld[0][1])
        if abs(a) > 1e-3 * r * r:
            run("geomquery", g, gen_spec(rng, NY, NX), wld, rng.choice([CRS, CRS, "epsg:4326"]))
    for _ in range(250 if not big else 2500):
        gd, gs, sd, ss = gen_pair_linear(rng)
        run("linear", gd, gs, sd, ss)
    # scale ratios that are not exactly representable (1/3, 3/5 ...): snapping tolerance in play
    for _ in range(60 if not big else 500):
        gd, gs, sd, ss = gen_pair_linear(rng)
        k = rng.choice([3, 5, 6, 7, 10])
        gs = (gs[0], gs[1], gs[2], gs[3] * k, 0.0, gs[5], 0.0, gs[7] * k, gs[8])
        run("linear", gd, gs, sd, ss)
    # near-integer resolution ratios on one axis, long rasters: the snapping tolerances (1e-3 translation, 1e-6 scale)
    # bound how far the affine used may drift from the exact map
    for _ in range(80 if not big else 600):
        run("linear", *gen_pair_nearint(rng))
    for gi in range(50 if not big else 300):
        gd, gs, sd, ss = gen_pair_general(rng, gi, exact_rot=False)
        run("general", gd, gs, sd, ss)
    # whole-globe / larger-than-valid-area EPSG:4326 rasters against regional projected rasters, both directions,
    # and the cross-CRS pairs above, against the lon/lat footprint reference
    for gi in range(10 if not big else 80):
        gd, gs, sd, ss = gen_pair_global(rng)
        run("crossref", gd, gs, sd, ss)
        if gi % 3 == 0:
            run("crossref", gs, gd, ss, sd)
    for gi in range(10 if not big else 80):
        gd, gs, sd, ss = gen_pair_general(rng, 1, exact_rot=False)
        run("crossref", gd, gs, sd, ss)
    # projections with strongly curved grid lines (polar stereographic, high-latitude LAEA, UTM far outside its zone)
    # against lon/lat grids of the same area, both directions
    for gi in range(12 if not big else 80):
        gg, gp, sg, sp = gen_pair_curved(rng)
        run("crossref", gg, gp, sg, sp)
        run("crossref", gp, gg, sp, sg)
    for gi in range(24 if not big else 200):
        run("xquery", *gen_xquery(rng, CUSTOM_CRS[gi % len(CUSTOM_CRS)] if gi % 4 == 3 else None))

    # large densified queries whose outline is curved in the raster CRS (wide lon/lat rectangles into conic / equal-area /
    # UTM rasters and projected rectangles into lon/lat rasters), tiles small relative to the bulge
    for gi in range(12 if not big else 60):
        run("xbig", *gen_xbig(rng))
    # rasters containing a pole / spanning the world (invalid lon/lat footprint) on either side
    for gi in range(5 if not big else 30):
        gp, gg, sp, sg = gen_pair_polar(rng)
        run("polar", gp, gg, sp, sg)
        run("polar", gg, gp, sg, sp)
    # geographic CRSs other than EPSG:4326 (GDA94, GDA2020, NAD83, ETRS89) as destination and as source
    for gi in range(8 if not big else 60):
        gg, gp, sg, sp = gen_pair_geog(rng)
        run("crossref", gg, gp, sg, sp)
        run("crossref", gp, gg, sp, sg)
    # CRS-less rasters with a non-identity affine queried with CRS-less geometries in world coordinates
    for gi in range(20 if not big else 150):
        run("xquery", *gen_nocrs_query(rng))
    run("many_crs", 160 if not big else 400, rng.randrange(1000))
    # ---- process histories of the CRS layer (tools/vlib/crshist.py): the same cross-CRS clauses must hold whatever the
    #      process asked of odc.geo.crs before.  Evaluated in a fresh interpreter (see tools/vlib/c12c14_hist.py); a
    #      violation is recorded through the "after_history" predicate, which applies the perturbations first.
    from vlib import c12c14_hist
    rows, ok_child, err = c12c14_hist.run_child("c12", tier)
    out.oblige("search:process-history child ran to completion", "harness", ok_child, err)
    for r in rows:
        hist, name, detail = r["hist"], r["name"], r["detail"]
        out.count("predicate:after_history:" + "+".join(hist) + ":" + name)
        out.case(("pred", "after_history", hist, name, r["args"]), True)
        key = CHORD_KEY if (name == "crossref" and detail.startswith("[chord]")) else f"c12:after_history:{name}"
        if not r["ok"] and key not in found:
            found[key] = True
            a = [enc(list(hist)), enc(HIST_SPECS), "str:" + name, r["args"]]
            out.violation(key, f"after_history[{hist}, {name}, {r['args']}]: {detail}",
                          {"predicate": "after_history", "args": a, "observed": detail})


HIST_SPECS = ["epsg:4326", "epsg:3857", "epsg:32633", "epsg:3577", "epsg:32755", "epsg:3031", "epsg:3413", "epsg:3035"]


def history_cases(tier, emit):
    """runs in a fresh interpreter: perturb the caches of odc.geo.crs, then evaluate cross-CRS clauses"""
    from vlib import crshist
    _register_history()
    rng = core.rng("c12-history")
    big = tier != "quick"

    def run_after(hist, name, *args):
        try:
            ok, detail = PREDICATES[name](*args)
        except Exception as e:
            ok, detail = False, f"predicate raised {type(e).__name__}: {e}"
        emit(hist, name, args, ok, detail)

    hist = ("authority-order-first", "queries-first")
    crshist.perturb(hist, HIST_SPECS)
    for gi in range(14 if not big else 80):
        run_after(hist, "xquery", *gen_xquery(rng))
    for gi in range(3 if not big else 20):
        gd, gs, sd, ss = gen_pair_global(rng)
        run_after(hist, "crossref", gd, gs, sd, ss)
        run_after(hist, "general", *gen_pair_general(rng, 1, exact_rot=False))
        gg, gp, sg, sp = gen_pair_curved(rng)
        run_after(hist, "crossref", gg, gp, sg, sp)
    # many short-lived custom CRSs, then NEW custom CRSs (a bounded CRS cache must not hand out the transformers
    # of dead CRS objects whose ids are re-used)
    hist = hist + ("churn",)
    crshist.perturb(("churn",), HIST_SPECS)
    for gi in range(2 if not big else 8):
        run_after(hist, "many_crs", 40, rng.randrange(1000))      # new custom CRSs built after the churn
    for gi in range(2 if not big else 12):
        gd, gs, sd, ss = gen_pair_global(rng)
        run_after(hist, "crossref", gd, gs, sd, ss)


# ---------------------------------------------------------------- entry points
def run(out, tier, scratch):
    out.rule = ("correspondence: tile counts/ranges/locate for all indices and pixels of small regular and variable tilings "
                "(incl. zero-size chunks, out-of-range indices, empty rasters); pixel-space bounding boxes exhaustively per axis on a "
                "half-pixel lattice from -2 to N+2 (incl. empty/inverted spans) on tilings with N<=4 (quick) / 6 (thorough); geometry "
                "queries (triangles inside/straddling/outside/larger, one-pixel boxes on tile edges, same CRS, EPSG:4326, BoundingBox "
                "with CRS, rotated rasters) with the pyproj/shapely answers replayed as oracle tables; linear dependency graphs of "
                "same-CRS pairs (aligned, shifted by 1/2, 1/4, 3/8 and by amounts inside/outside the 1e-3 snapping tolerance, scaled "
                "1/4..5, mirrored, touching, disjoint) fed with the affine returned by the real _check_linear; general-path graphs "
                "(rotated and EPSG:4326 sources incl. disjoint ones) with oracle tables; search only (predicate crossref): whole-globe / hemisphere EPSG:4326 rasters against regional rasters "
                "inside the valid area of UTM 33N, UTM 55S, Australian Albers and Web Mercator, and rasters in projections with strongly curved "
                "grid lines (EPSG:3031, 3413, 3035, UTM far outside its zone) against lon/lat grids, both directions, judged by lon/lat footprint "
                "overlap and by interior points sent through pyproj; same-CRS pairs with resolution ratios within 1e-7..1e-3 of n or 1/n on "
                "one axis and 2000-9000 pixels along it (tiles 256-1000) against the exact Fraction overlap with the documented snapping "
                "tolerances (1e-3 translation, 1e-6 scale).  non-trivial = successful call with a "
                "non-default result; distinct = distinct canonical (operation, arguments).  search: brute-force exact references")
    out.assumptions += [
        "process histories of odc.geo.crs (tools/vlib/crshist.py) evaluated in a fresh interpreter: cross-CRS queries (xquery, crossref, general, many_crs) are judged against pyproj.Transformer(always_xy=True) called directly, never against Geometry.to_crs",
        "exact-rational model of binary64 (linear pairs are generated so that the pixel-to-pixel affine is exact; pairs whose "
        "affine has long mantissas are discarded and counted)",
        "oracles: GeoBox.project / Geometry.to_crs / boundingbox (pixel-space bounding box of a query), shapely disjoint, common "
        "footprint via EPSG:4326 and its emptiness: universally quantified function parameters of the theorems; replayed from the "
        "real calls in the correspondence; their geometric adequacy is tested by the geomquery/general predicates, not proved",
        "snap_affine / is_affine_st are not modelled: the linear-path theorems hold for every scale+translation affine that "
        "_check_linear may return; the distance between the snapped and the true map is a hypothesis (delta) of the tolerance theorem",
        "VariableSizedTiles offsets are int32 in numpy: totals below 2^31",
        "predicate crossref (testing of the oracle composition): reference = tile footprints from the affines, densified, moved to "
        "lon/lat with pyproj and intersected with shapely; required: no exception and every pair overlapping by more than 4 pixels of "
        "the finer grid is listed; misses explained by the open finding key c12:crossref-chord are reported under that key",
    ]
    cases = gen_cases(out, tier)
    import time as _t
    _t0 = _t.time()
    try:
        fails, log = core.coq_eval_failures(["Base.Result", "Base.QMinMax", "Base.ZRange", "Model.TileQuery", "Model.TileQueryCases"],
                                        "case", "check", cases, scratch, shard=350)
    except core.ModelEvalError as e:
        # a coqc worker died (seen once on a heavily loaded machine): evaluate again with fewer parallel jobs
        out.notes.append("model evaluation retried after a failed coqc worker: " + e.log[-300:])
        fails, log = core.coq_eval_failures(["Base.Result", "Base.QMinMax", "Base.ZRange", "Model.TileQuery", "Model.TileQueryCases"],
                                        "case", "check", cases, scratch, shard=350, tag="retry", jobs=4)
    out.notes.append(f"case generation + model evaluation finished {_t.time() - out.t0:.1f}s after start (model evaluation {_t.time() - _t0:.1f}s)")
    detail = ""
    if fails:
        detail = "model and implementation differ on: " + " | ".join(cases[i][:1500] for i in fails[:4])
    out.oblige("correspondence:Model.TileQuery vs odc.geo.geobox.GeoboxTiles / odc.geo.roi tilings", "correspondence", not fails, detail)
    search(out, tier)


def _register_history():
    from vlib import crshist
    PREDICATES.setdefault("after_history", crshist.after_history(PREDICATES))
    keep_crs("epsg:4326")


def replay(rp) -> int:
    _register_history()
    name = rp["predicate"]
    args = dec(rp["args"])
    ok, detail = PREDICATES[name](*args)
    print(f"replay {name}{rp['args']}: {'holds' if ok else 'FAILS'}: {detail}")
    return 0 if ok else 1


if __name__ == "__main__":
    import sys as _sys
    if "--history-child" in _sys.argv:
        from vlib import c12c14_hist as _h
        _h.child_main(history_cases, enc)


META = {
    "text": ("Coq theorems (coq/Props/C12.v, closed under the global context) over a Gallina model of roi.Tiles / "
             "VariableSizedTiles lookup and GeoboxTiles.range_from_bbox / tiles / grid_intersect, for all regular and variable "
             "tilings: locate(p) is the unique tile containing p (IndexError exactly outside); a pixel-space box query never "
             "fails and returns every non-empty tile whose pixel rectangle meets the interior of the box (all boxes: inside, "
             "straddling, outside, larger, inverted); a geometry query returns exactly the range candidates the disjointness "
             "oracle accepts; the linear dependency graph, for every scale+translation affine (mirrored, scaled, any shift), never "
             "fails, has one entry per destination tile, lists every source tile overlapping the mapped destination tile (also "
             "stated with a snapping tolerance delta), lists only tiles within one pixel of it, and has no edges when the rasters "
             "do not overlap (apart or touching); the general path has an edge exactly for pairs both oracles report non-disjoint, "
             "returns the empty graph when there is no common footprint, and fails only if an oracle fails.  Three defects of the "
             "unchanged code were found/confirmed and repaired (F11, F14, F22); the model follows the repaired code and is tied to it "
             "by an exact differential correspondence run plus brute-force predicates on the implementation."),
    "note": ("Trusted: Coq kernel; the hand-written model coq/Model/TileQuery.v (validated by the correspondence run: exhaustive "
             "per-axis pixel boxes on small tilings, linear pairs fed with the affine returned by the real _check_linear); "
             "exact-rational abstraction of binary64.  Oracles (function parameters of the theorems, no Axiom): pixel-space "
             "bounding box of a query (pyproj to_crs, shapely bounds, GeoBox.project), shapely disjoint, the common footprint via "
             "EPSG:4326 and its emptiness.  What is NOT proved: that these oracles are geometrically adequate (a projected bounding "
             "box encloses the query; disjoint is true geometric disjointness; the 2-pixel-buffered footprints intersect whenever the "
             "rasters overlap) — tested by the geomquery/general predicates (positive-area overlap and sampled point completeness, "
             "incl. mirrored grids and EPSG:4326 sources).  snap_affine/is_affine_st are not modelled: linear theorems quantify over "
             "every scale+translation affine; the distance delta between snapped and true map is a hypothesis of the tolerance "
             "theorem (translation < 1e-3, scale < 1e-6 relative for the real snap_affine; used as such by the search).  'Intersects' "
             "is read as positive-area overlap: tiles that only touch a query/mapped tile along an edge need not be returned (the "
             "repo's own tests require this).  Domain: tilings with base >= 1, tile size >= 1 / chunks >= 0 summing to the raster "
             "shape; zero-size chunks are never required to be listed; int32 offsets of VariableSizedTiles below 2^31."),
    "technique": "Coq proof over hand-written Gallina model (Z/Q arithmetic, oracles as parameters) + exact differential correspondence (vm_compute) + brute-force property predicates",
    "design_ref": "DESIGN.md section 5, C12; section 6 F11, F14",
}

