"""C02 — GeoBox views agree with its pixel-to-world mapping.

Correspondence: the model coq/Model/GeoBoxOps.v against odc.geo.geobox.GeoBox /
odc.geo.gcp.GCPGeoBox in lock-step over random operation chains (every step is
one case: state before, operation, state after), plus the derived views
(extent ring, bounding box, coordinates, resolution, pix2wld, wld2pix) of every
visited state.  All numbers are small dyadic rationals so that every float
operation of the code is exact and results are compared exactly.

Search: the contract of every operation stated directly on the implementation
in exact Fraction arithmetic (new pixel (i,j) lies at old pixel g(i,j)).
"""
from __future__ import annotations

import math
from fractions import Fraction as F

from vlib import core
from vlib.core import cq, ctuple, cz

ID = "C02"
ALLOWED_AXIOMS: list[str] = []

CRS_LIST = [None, "epsg:4326", "epsg:3857", "epsg:32755"]
TOL_ST = F(1e-10)
TENTH = F(0.1)
TOL_SNAP = F(0.01)
CFG = f"(mkCfg {cq(TOL_ST)} {cq(TENTH)} {cq(TOL_SNAP)})"
REQ = ["Base.Result", "Base.Affine", "Model.Roi", "Model.GeoBoxOps", "Model.GeoBoxOpsCases"]


# ---------------------------------------------------------------- exactness domain
def is_dyadic(x: F) -> bool:
    d = x.denominator
    return d & (d - 1) == 0


def small(x: F) -> bool:
    """|x| < 2^16 and a multiple of 2^-8: products of two such numbers and sums
    of three products are exact in binary64."""
    return is_dyadic(x) and x.denominator <= 256 and abs(x) < 65536


def all_small(xs) -> bool:
    return all(small(F(x)) for x in xs)


def exact_div(a, b) -> bool:
    """is the float division a / b exact?"""
    if b == 0:
        return True  # raises in the code, nothing is rounded
    return F(float(a) / float(b)) == F(a) / F(b)


def pow2(x: F) -> bool:
    x = abs(x)
    return x != 0 and x.numerator & (x.numerator - 1) == 0 and is_dyadic(x)


def fsqrt(q: F):
    if q < 0:
        return None
    n, d = q.numerator, q.denominator
    rn, rd = math.isqrt(n), math.isqrt(d)
    if rn * rn == n and rd * rd == d:
        return F(rn, rd)
    return None


# ---------------------------------------------------------------- encoding
def enc_sl(s):
    if isinstance(s, slice):
        return {"slice": [s.start, s.stop, s.step]}
    if isinstance(s, (tuple, list)):
        return [enc_sl(x) for x in s]
    return s


def dec_sl(s):
    if isinstance(s, dict) and "slice" in s:
        return slice(*s["slice"])
    if isinstance(s, list):
        return tuple(dec_sl(x) for x in s)
    return s


def fs(x) -> str:
    return str(F(x))


def a6(A) -> list:
    return [F(v) for v in tuple(A)[:6]]


def tag_of(crs) -> int:
    from odc.geo.crs import CRS
    if crs is None:
        return 0
    for i, c in enumerate(CRS_LIST[1:], 1):
        if crs == CRS(c):
            return i
    return -1


def enc_gb(g) -> dict:
    return {"shape": [int(g.shape[0]), int(g.shape[1])], "affine": [fs(v) for v in a6(g._affine)],
            "crs": CRS_LIST[tag_of(g.crs)] if tag_of(g.crs) >= 0 else str(g.crs)}


def mk_gbox(e):
    from affine import Affine
    from odc.geo.geobox import GeoBox
    return GeoBox(tuple(e["shape"]), Affine(*[float(F(s)) for s in e["affine"]]), e["crs"])


def mk_gcp(e, M6, oracle="poly"):
    """GCPGeoBox with shape/_affine/crs of e whose control points are related by
    the affine map M6.  oracle='affine' replaces the Poly2d fits by the exact
    affine map (the oracle of the model instantiated by an affine function)."""
    import numpy as np
    from affine import Affine
    from odc.geo.gcp import GCPGeoBox, GCPMapping
    M = Affine(*[float(F(s)) for s in M6])
    pix = np.array([(0, 0), (16, 0), (16, 8), (0, 8), (4, 4), (8, 2), (2, 6)], dtype="float64")
    wld = np.array([M * (float(x), float(y)) for x, y in pix], dtype="float64")
    mp = GCPMapping(pix, wld, e["crs"])
    if oracle == "affine":
        Mi = ~M
        mp._approx_affine = M
        mp._p2w = lambda x, y: M * (x, y)
        mp._w2p = lambda x, y: Mi * (x, y)
    return GCPGeoBox(tuple(e["shape"]), mp, Affine(*[float(F(s)) for s in e["affine"]]))


# ---------------------------------------------------------------- Coq text
def caff(c6) -> str:
    return "(mkA " + " ".join(cq(v) for v in c6) + ")"


def cgb(g) -> str:
    return f"(mkG {cz(g.shape[0])} {cz(g.shape[1])} {caff(a6(g._affine))} {cz(tag_of(g.crs))})"


def cpt(p) -> str:
    return ctuple(cq(p[0]), cq(p[1]))


def coptz(x) -> str:
    return "None" if x is None else f"(Some {cz(x)})"


def coptq(x) -> str:
    return "None" if x is None else f"(Some {cq(x)})"


def csl(s) -> str:
    if isinstance(s, slice):
        return f"(SSl {coptz(s.start)} {coptz(s.stop)} {coptz(s.step)})"
    return f"(SInt {cz(s)})"


def croi(r) -> str:
    if isinstance(r, slice):
        return f"(ROne {coptz(r.start)} {coptz(r.stop)} {coptz(r.step)})"
    if isinstance(r, tuple):
        return "(RTup [" + "; ".join(csl(s) for s in r) + "])"
    return f"(RInt {cz(r)})"


ROT = {0: (1, 0), 90: (0, 1), 180: (-1, 0), 270: (0, -1)}


def cop(op) -> str:
    n = op[0]
    if n in ("getitem", "getitem_np"):
        return f"(OGet {croi(dec_sl(op[1]))})"
    if n == "pad":
        return f"(OPad {cz(op[1])} {coptz(op[2])})"
    if n == "pad_wh":
        return f"(OPadWh {cz(op[1])} {coptz(op[2])})"
    if n == "crop":
        return f"(OCrop {cz(op[1])} {cz(op[2])})"
    if n == "translate_pix":
        return f"(OTrans {cq(F(op[1]))} {cq(F(op[2]))})"
    if n in ("flipx", "flipy", "left", "right", "top", "bottom"):
        return {"flipx": "OFlipX", "flipy": "OFlipY", "left": "OLeft", "right": "ORight",
                "top": "OTop", "bottom": "OBottom"}[n]
    if n == "mul":
        return f"(OMul {caff([F(v) for v in op[1]])})"
    if n == "rmul":
        return f"(ORmul {caff([F(v) for v in op[1]])})"
    if n == "rotate":
        c, s = ROT[int(op[1]) % 360]
        return f"(ORot {cq(c)} {cq(s)})"
    if n == "zoom_out":
        return f"(OZoomOut {cq(F(op[1]))})"
    if n == "zoom_to_shape":
        return f"(OZoomToShape {cz(op[1])} {cz(op[2])})"
    if n == "zoom_to_n":
        return f"(OZoomToN {cq(F(op[1]))})"
    if n == "zoom_to_res":
        return f"(OZoomToRes {cq(F(op[1]))} {cq(F(op[2]))})"
    if n == "scaled_down":
        return f"(OScaledDown {cz(op[1])})"
    if n == "buffered":
        return f"(OBuffered {cq(F(op[1]))} {coptq(None if op[2] is None else F(op[2]))})"
    if n == "center_pixel":
        return "OCenter"
    raise ValueError(n)


# ---------------------------------------------------------------- running an operation on the real code
def fl(x):
    return float(F(x))


def np_ints(roi):
    """the same index with every int replaced by a numpy integer (as obtained from an array)"""
    import numpy as np
    kinds = [np.int64, np.int32, np.int16, np.intp]
    if isinstance(roi, tuple):
        return tuple(kinds[(i + abs(s)) % 4](s) if isinstance(s, int) else s for i, s in enumerate(roi))
    return kinds[abs(roi) % 4](roi) if isinstance(roi, int) else roi


def apply_op(g, op):
    from affine import Affine
    from odc.geo.geobox import scaled_down_geobox
    from odc.geo.types import resxy_
    n = op[0]
    if n == "getitem":
        return g[dec_sl(op[1])]
    if n == "getitem_np":
        return g[np_ints(dec_sl(op[1]))]
    if n == "pad":
        return g.pad(op[1], op[2])
    if n == "pad_wh":
        return g.pad_wh(op[1], op[2])
    if n == "crop":
        return g.crop((op[1], op[2]))
    if n == "translate_pix":
        return g.translate_pix(fl(op[1]), fl(op[2]))
    if n in ("flipx", "flipy"):
        return getattr(g, n)()
    if n in ("left", "right", "top", "bottom", "center_pixel"):
        return getattr(g, n)
    if n == "mul":
        return g * Affine(*[fl(v) for v in op[1]])
    if n == "rmul":
        return Affine(*[fl(v) for v in op[1]]) * g
    if n == "rotate":
        return g.rotate(fl(op[1]))
    if n == "zoom_out":
        return g.zoom_out(fl(op[1]))
    if n == "zoom_to_shape":
        return g.zoom_to((op[1], op[2]))
    if n == "zoom_to_n":
        v = F(op[1])
        return g.zoom_to(int(v) if v.denominator == 1 else float(v))
    if n == "zoom_to_res":
        return g.zoom_to(resolution=resxy_(fl(op[1]), fl(op[2])))
    if n == "scaled_down":
        return scaled_down_geobox(g, op[1])
    if n == "buffered":
        return g.buffered(fl(op[1]), None if op[2] is None else fl(op[2]))
    raise ValueError(n)


GCP_OPS = ("getitem", "getitem_np", "pad", "pad_wh", "zoom_out", "zoom_to_shape", "zoom_to_n", "center_pixel")


def run_res(call):
    """(coq text of res geobox, kind, value)"""
    try:
        v = call()
    except ValueError:
        return "(Err EValue)", "ValueError", None
    except AssertionError:
        return "(Err (EAssert 0))", "AssertionError", None
    except (NotImplementedError, ZeroDivisionError) as e:
        return "(Err EOther)", type(e).__name__, None
    except Exception as e:  # noqa: BLE001 - an unexpected exception is a result to compare, not a harness failure
        return "(Err EOther)", "unexpected-" + type(e).__name__, None
    return f"(Ok {cgb(v)})", "ok", v


# ---------------------------------------------------------------- generators
def gen_affine(rng):
    """six exact small dyadic coefficients + a class label"""
    kind = rng.choice(["northup", "northup", "mirror", "nonsquare", "pyth", "pyth", "shear", "general", "rot90"])
    r = F(rng.choice([1, 2, 4, 8, 16, 3, 5, 10, 30])) * F(1, rng.choice([1, 1, 1, 2, 4, 8]))
    tx = F(rng.randint(-1024, 1024), rng.choice([1, 1, 2, 4]))
    ty = F(rng.randint(-1024, 1024), rng.choice([1, 1, 2, 4]))
    if kind == "northup":
        L = (r, 0, 0, -r)
    elif kind == "mirror":
        sx, sy = rng.choice([(1, 1), (-1, 1), (-1, -1)])
        L = (sx * r, 0, 0, sy * r)
    elif kind == "nonsquare":
        L = (r, 0, 0, -r * rng.choice([2, 3, F(1, 2), F(1, 4)]))
    elif kind == "rot90":
        L = rng.choice([(0, -r, r, 0), (0, r, -r, 0), (0, r, r, 0)])
    elif kind == "pyth":
        c, s = rng.choice([(3, 4), (4, 3), (-3, 4), (5, 12), (12, -5), (8, 15), (-4, -3)])
        k = F(rng.choice([1, 2, 1, 3])) * F(1, rng.choice([1, 2, 4, 8]))
        sx, sy = rng.choice([(1, 1), (1, -1), (2, -1), (1, -2), (-1, -1)])
        L = (c * k * sx, -s * k * sy, s * k * sx, c * k * sy)
    elif kind == "shear":
        w = F(rng.choice([1, -1, 2, 3, -3]), rng.choice([1, 2, 4]))
        L = rng.choice([(r, w * r, 0, -r), (r, 0, w * r, -r), (r, w, 0, r)])
    else:
        while True:
            L = tuple(F(rng.randint(-12, 12), rng.choice([1, 2, 4])) for _ in range(4))
            if L[0] * L[3] - L[1] * L[2] != 0:
                break
    a, b, d, e = (F(v) for v in L)
    return [a, b, tx, d, e, ty], kind


def gen_shape(rng):
    m = rng.random()
    if m < 0.12:
        return (1, rng.randint(1, 12))
    if m < 0.24:
        return (rng.randint(1, 12), 1)
    if m < 0.3:
        return (1, 1)
    return (rng.randint(1, 14), rng.randint(1, 14))


def gen_gbox_enc(rng):
    c6, kind = gen_affine(rng)
    return {"shape": list(gen_shape(rng)), "affine": [fs(v) for v in c6], "crs": rng.choice(CRS_LIST)}, kind


def gen_field(rng, n):
    m = rng.random()
    if m < 0.25:
        return None
    if m < 0.7:
        return rng.randint(-n, n)
    if m < 0.88:
        return -n - rng.choice([1, 1, 2, 3, n, n + 1, 2 * n + 5, 100])   # offset from the end reaching past the start
    return rng.randint(-n - 3, n + 3)


def gen_slice(rng, n, step=None):
    return slice(gen_field(rng, n), gen_field(rng, n), step)


def gen_index(rng, n):
    return rng.choice([-1, -1, -n, n - 1, 0, rng.randint(-n, max(n - 1, 0)), rng.randint(-n - 2, n + 1)])


def gen_roi(rng, ny, nx):
    m = rng.random()
    if m < 0.12:
        return gen_index(rng, ny)
    if m < 0.24:
        return gen_slice(rng, ny, rng.choice([None, None, 1]))
    parts = []
    for n in (ny, nx):
        parts.append(gen_index(rng, n) if rng.random() < 0.3 else gen_slice(rng, n, rng.choice([None, None, None, 1])))
    return tuple(parts)


def gen_small_affine(rng):
    kind = rng.choice(["trans", "scale", "flip", "pyth", "shear", "general"])
    t = [F(rng.randint(-8, 8), rng.choice([1, 2])) for _ in range(2)]
    if kind == "trans":
        return [1, 0, t[0], 0, 1, t[1]]
    if kind == "scale":
        s = rng.choice([2, F(1, 2), 4, 3, -1])
        return [s, 0, 0, 0, rng.choice([s, 1, -s]), 0]
    if kind == "flip":
        return rng.choice([[-1, 0, t[0], 0, 1, 0], [1, 0, 0, 0, -1, t[1]], [0, 1, 0, 1, 0, 0]])
    if kind == "pyth":
        c, s = rng.choice([(3, 4), (4, -3), (5, 12), (0, 1)])
        return [c, -s, t[0], s, c, t[1]]
    if kind == "shear":
        return [1, F(rng.choice([1, -1, 3]), 2), 0, 0, 1, t[1]]
    while True:
        L = [F(rng.randint(-4, 4), rng.choice([1, 2])) for _ in range(4)]
        if L[0] * L[3] - L[1] * L[2] != 0:
            return [L[0], L[1], t[0], L[2], L[3], t[1]]


def res_exact(c6):
    """(rx, ry) when resolution_from_affine is exact on this affine, else None"""
    a, b, _, d, e, _ = c6
    if abs(b) < TOL_ST and abs(d) < TOL_ST:
        return (a, e) if (b == 0 and d == 0) else None
    l = fsqrt(a * a + d * d)
    if l is None or l == 0 or not small(l):
        return None
    l21 = (a * b + d * e) / l
    det = a * e - b * d
    if not (small(l21) and small(det / l)) or det == 0:
        return None
    return (l, det / l)


def gen_op(rng, g, malformed=False):
    """random operation for the current state; returns op or None"""
    ny, nx = int(g.shape[0]), int(g.shape[1])
    c6 = a6(g._affine)
    if malformed:
        return rng.choice([
            ["getitem", enc_sl((slice(None), slice(None), slice(None)))],
            ["getitem", enc_sl((0, 0, 0))],
            ["getitem", enc_sl(())],
            ["getitem", enc_sl((slice(0, 1),))],
            ["getitem", enc_sl((slice(0, 1, 2),))],
            ["getitem", enc_sl(slice(None, None, 2))],
            ["getitem", enc_sl((slice(None), slice(0, nx, 3)))],
            ["getitem", enc_sl((slice(None, None, -1), slice(None)))],
            ["zoom_out", "0"], ["zoom_to_shape", 0, 3], ["zoom_to_shape", 2, 0], ["zoom_to_n", "0"],
            ["scaled_down", 1], ["scaled_down", 0], ["scaled_down", -2],
            ["zoom_to_res", "0", "1"], ["zoom_to_res", "1", "0"],
        ])
    names = ["getitem"] * 5 + ["pad", "pad", "pad_wh", "crop", "translate_pix", "translate_pix", "flipx", "flipy",
                                 "left", "right", "top", "bottom", "mul", "rmul", "rotate", "zoom_out", "zoom_out",
                                 "zoom_to_shape", "zoom_to_n", "zoom_to_res", "scaled_down", "buffered", "buffered",
                                 "center_pixel"]
    n = rng.choice(names)
    if n == "getitem":
        roi = gen_roi(rng, ny, nx)
        has_int = isinstance(roi, int) or (isinstance(roi, tuple) and any(isinstance(v, int) for v in roi))
        return ["getitem_np" if has_int and rng.random() < 0.35 else n, enc_sl(roi)]
    if n == "pad":
        return [n, rng.choice([0, 1, 2, 3, 5, -1]), rng.choice([None, None, 0, 1, 4, -1])]
    if n == "pad_wh":
        return [n, rng.choice([1, 2, 3, 4, 8, 16]), rng.choice([None, None, 1, 2, 5, 16])]
    if n == "crop":
        return [n, rng.randint(0, 16), rng.randint(0, 16)]
    if n == "translate_pix":
        return [n, fs(F(rng.randint(-16, 16), rng.choice([1, 1, 2, 4]))), fs(F(rng.randint(-16, 16), rng.choice([1, 1, 2, 4])))]
    if n in ("flipx", "flipy", "left", "right", "top", "bottom", "center_pixel"):
        return [n]
    if n in ("mul", "rmul"):
        return [n, [fs(v) for v in gen_small_affine(rng)]]
    if n == "rotate":
        return [n, fs(rng.choice([90, 180, 270, -90, 0, 450, -180]))]
    if n == "zoom_out":
        f = rng.choice([F(2), F(4), F(1, 2), F(1, 4), F(3), F(3, 2), F(5), F(3, 4), F(1), F(7), F(16), F(-2)])
        return [n, fs(f)]
    if n == "zoom_to_shape":
        return [n, rng.choice([1, 2, 4, 8, ny, 2 * ny, 3, 5, 16]), rng.choice([1, 2, 4, 8, nx, 2 * nx, 3, 6, 16])]
    if n == "zoom_to_n":
        return [n, fs(rng.choice([F(1), F(2), F(4), F(8), F(max(ny, nx)), F(2 * max(ny, nx)), F(3), F(5), F(1, 2)]))]
    if n == "zoom_to_res":
        rx = F(rng.choice([1, 2, 4, 8, 16, 32, 64])) * F(1, rng.choice([1, 2, 4]))
        return [n, fs(rx * rng.choice([1, 1, -1])), fs(rx * rng.choice([-1, -1, 1, -2]))]
    if n == "scaled_down":
        return [n, rng.choice([2, 2, 3, 4, 5, 8])]
    if n == "buffered":
        r = res_exact(c6)
        if r is None or not (pow2(r[0]) and pow2(r[1])):
            return None
        xb = abs(r[0]) * F(rng.randint(0, 80), 16)
        yb = rng.choice([None, abs(r[1]) * F(rng.randint(0, 80), 16)])
        return [n, fs(xb), None if yb is None else fs(yb)]
    return None


def op_exact(g, op):
    """are all float operations the code performs for this op exact (or robust)?"""
    ny, nx = int(g.shape[0]), int(g.shape[1])
    c6 = a6(g._affine)
    n = op[0]
    if not all_small(c6):
        return False
    if n == "zoom_out":
        f = F(op[1])
        if f == 0:
            return True
        return all(math.ceil(s / float(f)) == math.ceil(F(s) / f) for s in (ny, nx)) and small(f)
    if n == "zoom_to_shape":
        return exact_div(ny, op[1]) and exact_div(nx, op[2]) and \
            (op[1] == 0 or op[2] == 0 or (small(F(ny, op[1])) and small(F(nx, op[2]))))
    if n == "zoom_to_n":
        v = F(op[1])
        if v == 0:
            return True
        f = F(max(ny, nx)) / v
        return exact_div(max(ny, nx), v) and small(f) and f != 0 and \
            all(math.ceil(s / float(f)) == math.ceil(F(s) / f) for s in (ny, nx))
    if n == "zoom_to_res":
        bb = [F(v) for v in g.boundingbox.bbox]
        rx, ry = F(op[1]), F(op[2])
        return exact_div(bb[2] - bb[0], abs(rx)) and exact_div(bb[3] - bb[1], abs(ry)) and all_small(bb)
    if n in ("mul", "rmul"):
        return all_small(F(v) for v in op[1])
    return True


# ---------------------------------------------------------------- correspondence cases
def view_cases(g, add, rng, with_coords=True):
    """derived views of one state"""
    ny, nx = int(g.shape[0]), int(g.shape[1])
    c6 = a6(g._affine)
    if not all_small(c6) or ny > 40 or nx > 40 or ny < 0 or nx < 0:
        return
    gt = cgb(g)
    if ny >= 1 and nx >= 1:
        ring = [(F(x), F(y)) for x, y in g.extent.exterior.points]
        bb = [F(v) for v in g.boundingbox.bbox]
        add("view", f"CView {gt} [{'; '.join(cpt(p) for p in ring)}] "
            f"({cq(bb[0])}, {cq(bb[1])}, {cq(bb[2])}, {cq(bb[3])})", ("view", gt), True,
            {"op": "extent/boundingbox", "geobox": enc_gb(g), "extent": [[fs(x), fs(y)] for x, y in ring],
             "bbox": [fs(v) for v in bb]}, judge=("views", {"geobox": enc_gb(g), "seed": 0}))
    if with_coords:
        try:
            cc = g.coordinates
            ys, xs = (v.values for v in cc.values())
            t = f"(Ok ([{'; '.join(cq(F(float(v))) for v in xs)}], [{'; '.join(cq(F(float(v))) for v in ys)}]))"
            kind = "ok"
        except ValueError:
            t, kind = "(Err EValue)", "ValueError"
        add("coords:" + kind, f"CCoords {CFG} {gt} {t}", ("coords", gt))
    r = res_exact(c6)
    if r is not None:
        rr = g.resolution
        add("resolution:" + ("st" if c6[1] == 0 and c6[3] == 0 else "rotated"),
            f"CRes {CFG} {gt} (Ok ({cq(F(rr.x))}, {cq(F(rr.y))}))", ("res", gt))
    for _ in range(1):
        p = (F(rng.randint(-4, 2 * nx + 4), 2), F(rng.randint(-4, 2 * ny + 4), 2))
        w = g.pix2wld(float(p[0]), float(p[1]))
        add("pix2wld", f"CP2W {gt} {cpt(p)} {cpt((F(w[0]), F(w[1])))}", ("p2w", gt, p))
    det = c6[0] * c6[4] - c6[1] * c6[3]
    if pow2(det):
        w = (F(rng.randint(-64, 64), 2), F(rng.randint(-64, 64), 2))
        p = g.wld2pix(float(w[0]), float(w[1]))
        inv = a6(~g._affine)
        if all_small(inv):
            add("wld2pix", f"CW2P {gt} {cpt(w)} {cpt((F(p[0]), F(p[1])))}", ("w2p", gt, w))


CASE_JUDGE: dict = {}


def gen_cases(out, tier):
    rng = core.rng("c02")
    cases = []
    CASE_JUDGE.clear()

    def add(kind, text, canon, nontrivial=True, sample=None, judge=None):
        if judge is not None:
            CASE_JUDGE[len(cases)] = judge
        cases.append(text)
        out.count(kind)
        out.case((kind, canon), nontrivial, sample)

    def step(g, op, gcp=None):
        """one lock-step case; returns the new state or None"""
        if not op_exact(g, op):
            out.count("generator-escape(not exact)")
            return None
        t, kind, g2 = run_res(lambda: apply_op(g, op))
        add(f"op:{op[0]}:{kind}", f"COp {CFG} {cgb(g)} {cop(op)} {t}", ("op", cgb(g), op), True,
            {"op": op, "geobox": enc_gb(g), "result": enc_gb(g2) if g2 is not None else kind},
            judge=("op", {"geobox": enc_gb(g), "op": op, "seed": 0}))
        if gcp is not None and op[0] in GCP_OPS:
            t2, kind2, _ = run_res(lambda: apply_op(gcp, op))
            add(f"gcp-op:{op[0]}:{kind2}", f"CGcpOp {CFG} {cgb(gcp)} {cop(op)} {t2}", ("gcpop", cgb(gcp), op))
        return g2

    # corpus witnesses first (fixed findings): the F18 index family
    for rp in core.corpus(ID):
        if rp.get("predicate") == "op" and "geobox" in rp.get("args", {}):
            g = mk_gbox(rp["args"]["geobox"])
            g2 = step(g, rp["args"]["op"])
            if g2 is not None:
                view_cases(g2, add, rng)

    # F18 family, systematically: every int index on small boxes
    for ny, nx in [(1, 1), (1, 5), (4, 1), (3, 4)] + ([] if tier == "quick" else [(10, 20)]):
        g = mk_gbox({"shape": [ny, nx], "affine": ["2", "0", "10", "0", "-2", "40"], "crs": "epsg:3857"})
        for i in range(-ny - 1, ny + 1):
            step(g, ["getitem", i])
            step(g, ["getitem", enc_sl((i, slice(None)))])
        for j in range(-nx - 1, nx + 1):
            step(g, ["getitem", enc_sl((slice(None), j))])
            step(g, ["getitem", enc_sl((-1, j))])

    n_chains = 150 if tier == "quick" else 1500
    for k in range(n_chains):
        e, kind = gen_gbox_enc(rng)
        g = mk_gbox(e)
        out.count("start-affine:" + kind)
        out.count(f"start-shape:{'1xN' if e['shape'][0] == 1 else 'Nx1' if e['shape'][1] == 1 else 'NxM'}")
        view_cases(g, add, rng)
        for _ in range(rng.randint(1, 5)):
            op = gen_op(rng, g, malformed=rng.random() < 0.08)
            if op is None:
                continue
            g2 = step(g, op)
            if g2 is None:
                if op_exact(g, op):
                    continue  # the operation raised: the state is unchanged
                break
            g = g2
            if not all_small(a6(g._affine)) or max(g.shape) > 60 or min(g.shape) < 0:
                break
            view_cases(g, add, rng, with_coords=max(g.shape) <= 24)

    # GCP geoboxes: the (shape, _affine) bookkeeping of gcp.py, lock-step, and the affine oracle
    for k in range(40 if tier == "quick" else 600):
        e, kind = gen_gbox_enc(rng)
        e["affine"] = [fs(v) for v in gen_small_affine(rng)]
        M6, _ = gen_affine(rng)
        if e["crs"] is None:
            e["crs"] = "epsg:4326"
        gp = mk_gcp(e, M6, oracle="affine")
        for _ in range(rng.randint(1, 4)):
            op = gen_op(rng, gp, malformed=rng.random() < 0.05)
            if op is None or op[0] not in GCP_OPS or not op_exact(gp, op):
                continue
            t, kind2, g2 = run_res(lambda: apply_op(gp, op))
            add(f"gcp-op:{op[0]}:{kind2}", f"CGcpOp {CFG} {cgb(gp)} {cop(op)} {t}", ("gcpop", cgb(gp), op), True,
                {"op": op, "gcpgeobox": enc_gb(gp), "result": enc_gb(g2) if g2 is not None else kind2} if k < 1 else None,
                judge=("gcp", {"geobox": enc_gb(gp), "M": [fs(v) for v in M6], "op": op, "seed": 0}))
            if g2 is None:
                continue
            gp = g2
            if not all_small(a6(gp._affine)) or max(gp.shape) > 60 or min(gp.shape) < 0:
                break
            ap = gp.approx
            if all_small(a6(ap._affine)):
                add("gcp-approx", f"CGcpApprox {cgb(gp)} {caff(M6)} {cgb(ap)}", ("gcpapprox", cgb(gp), str(M6)))
                p = (F(rng.randint(0, 2 * int(gp.shape[1])), 2), F(rng.randint(0, 2 * int(gp.shape[0])), 2))
                w = gp.pix2wld(float(p[0]), float(p[1]))
                add("gcp-pix2wld", f"CGcpP2W {cgb(gp)} {caff(M6)} {cpt(p)} {cpt((F(w[0]), F(w[1])))}",
                    ("gcpp2w", cgb(gp), str(M6), p))
    return cases


# ---------------------------------------------------------------- property predicates on the implementation
def Aq(g):
    return a6(g._affine)


def app(c6, p):
    a, b, c, d, e, f = c6
    return (a * p[0] + b * p[1] + c, d * p[0] + e * p[1] + f)


def sample_pixels(rng, ny, nx, k=4):
    ny, nx = max(ny, 0), max(nx, 0)
    pts = [(F(0), F(0)), (F(nx), F(0)), (F(nx), F(ny)), (F(0), F(ny)), (F(nx, 2), F(ny, 2))]
    for _ in range(k):
        pts.append((F(rng.randint(-2, 2 * nx + 2), 2), F(rng.randint(-2, 2 * ny + 2), 2)))
    return pts


def np_select(s, n):
    """index list numpy selects on an axis of length n; None when IndexError"""
    import numpy as np
    try:
        v = np.arange(n)[s]
    except IndexError:
        return None
    return [int(v)] if np.ndim(v) == 0 else [int(x) for x in v]


def in_domain_index(s, n):
    """indices the property quantifies over: valid ints; slices with step None/1 whose non-negative
    bounds do not exceed n (GeoBox does not clamp those: documented domain decision), whose negative
    bounds may be ANY negative number (offsets from the end reaching past the beginning select from
    element 0 on, like numpy), and that are not reversed"""
    if isinstance(s, int):
        return -n <= s < n
    if s.step not in (None, 1):
        return False
    for v in (s.start, s.stop):
        if v is not None and v > n:
            return False
    a, b, _ = s.indices(n)
    return a <= b


def expected_contract(g, op):
    """(shape or None, pixel map new->old or None, world map or None) from the documented contract;
    None when the operation is outside the domain the property quantifies over"""
    ny, nx = int(g.shape[0]), int(g.shape[1])
    n = op[0]
    ident = lambda p: p
    if n in ("getitem", "getitem_np"):
        roi = dec_sl(op[1])
        if isinstance(roi, int):
            roi = (roi, slice(None))
        elif isinstance(roi, slice):
            roi = (roi, slice(None))
        if len(roi) != 2 or not in_domain_index(roi[0], ny) or not in_domain_index(roi[1], nx):
            return None
        sy, sx = np_select(roi[0], ny), np_select(roi[1], nx)
        if not sy or not sx:
            return ((len(sy), len(sx)), None, None)
        return ((len(sy), len(sx)), lambda p: (p[0] + sx[0], p[1] + sy[0]), None)
    if n == "pad":
        px = op[1]
        py = px if op[2] is None else op[2]
        return ((ny + 2 * py, nx + 2 * px), lambda p: (p[0] - px, p[1] - py), None)
    if n == "pad_wh":
        ax = op[1]
        ay = ax if op[2] is None else op[2]
        return ((-(-ny // ay) * ay, -(-nx // ax) * ax), ident, None)
    if n == "crop":
        return ((op[1], op[2]), ident, None)
    if n == "translate_pix":
        tx, ty = F(op[1]), F(op[2])
        return ((ny, nx), lambda p: (p[0] + tx, p[1] + ty), None)
    if n == "flipx":
        return ((ny, nx), lambda p: (nx - p[0], p[1]), None)
    if n == "flipy":
        return ((ny, nx), lambda p: (p[0], ny - p[1]), None)
    if n == "left":
        return ((ny, nx), lambda p: (p[0] - nx, p[1]), None)
    if n == "right":
        return ((ny, nx), lambda p: (p[0] + nx, p[1]), None)
    if n == "top":
        return ((ny, nx), lambda p: (p[0], p[1] - ny), None)
    if n == "bottom":
        return ((ny, nx), lambda p: (p[0], p[1] + ny), None)
    if n == "mul":
        T = [F(v) for v in op[1]]
        return ((ny, nx), lambda p: app(T, p), None)
    if n == "rmul":
        T = [F(v) for v in op[1]]
        return ((ny, nx), ident, lambda w: app(T, w))
    if n == "rotate":
        c, s = ROT[int(F(op[1])) % 360]
        cx, cy = app(Aq(g), (F(nx, 2), F(ny, 2)))
        return ((ny, nx), ident,
                lambda w: (cx + c * (w[0] - cx) - s * (w[1] - cy), cy + s * (w[0] - cx) + c * (w[1] - cy)))
    if n in ("zoom_out", "zoom_to_n"):
        f = F(op[1]) if n == "zoom_out" else F(max(ny, nx)) / F(op[1])
        if f <= 0:
            return None
        return ((max(1, math.ceil(F(ny) / f)), max(1, math.ceil(F(nx) / f))), lambda p: (f * p[0], f * p[1]), None)
    if n == "zoom_to_shape":
        my, mx = op[1], op[2]
        if my < 1 or mx < 1:
            return None
        return ((my, mx), lambda p: (p[0] * F(nx, mx), p[1] * F(ny, my)), None)
    if n == "scaled_down":
        s = op[1]
        if s <= 1:
            return None
        return ((-(-ny // s), -(-nx // s)), lambda p: (s * p[0], s * p[1]), None)
    if n == "center_pixel":
        return ((1, 1), lambda p: (p[0] + nx // 2, p[1] + ny // 2), None)
    return None


COVERING = ("pad", "pad_wh", "zoom_out", "zoom_to_n", "zoom_to_shape", "scaled_down", "buffered")


def inverse_exact(c6):
    a, b, c, d, e, f = c6
    det = a * e - b * d
    ra, rb, rd, re = e / det, -b / det, -d / det, a / det
    return [ra, rb, -c * ra - f * rb, rd, re, -c * rd - f * re]


def p_op(genc, op, seed=0):
    """contract of one operation: shape, CRS, pixel (i,j) -> world location"""
    import random
    g = mk_gbox(genc)
    rng = random.Random(seed)
    ny, nx = int(g.shape[0]), int(g.shape[1])
    g2 = apply_op(g, op)
    A, B = Aq(g), Aq(g2)
    msgs = []
    if tag_of(g2.crs) != tag_of(g.crs) or (g.crs is None) != (g2.crs is None):
        msgs.append(f"crs changed: {g.crs} -> {g2.crs}")
    n = op[0]
    if n == "buffered":
        rr = g.resolution
        rx, ry = abs(F(rr.x)), abs(F(rr.y))
        xb = F(op[1])
        yb = xb if op[2] is None else F(op[2])
        dy, dx = int(g2.shape[0]) - ny, int(g2.shape[1]) - nx
        if dy % 2 or dx % 2:
            msgs.append(f"shape grows by an odd amount: {g.shape} -> {g2.shape}")
        bx, by = dx // 2, dy // 2
        for b_, buf, r_ in ((bx, xb, rx), (by, yb, ry)):
            if not (b_ * r_ >= buf - TENTH * r_ and (b_ - 1) * r_ < buf - TENTH * r_):
                msgs.append(f"buffer of {b_} pixels of size {r_} is not the smallest one reaching {buf} (less 0.1 pixel)")
        exp = ((ny + 2 * by, nx + 2 * bx), lambda p: (p[0] - bx, p[1] - by), None)
    elif n == "zoom_to_res":
        rx, ry = F(op[1]), F(op[2])
        l, b, r, t = (F(v) for v in g.boundingbox.bbox)
        my, mx = int(g2.shape[0]), int(g2.shape[1])
        if [B[0], B[1], B[3], B[4]] != [rx, 0, 0, ry]:
            msgs.append(f"resolution of the result is not ({rx},{ry}): {B}")
        for (t0, res, m, lo, hi, nm) in ((B[2], rx, mx, l, r, "x"), (B[5], ry, my, b, t, "y")):
            e0, e1 = sorted((t0, t0 + m * res))
            ar = abs(res)
            if res > 0 and not (e0 == lo and e1 >= hi - TOL_SNAP * ar):
                msgs.append(f"{nm}: [{e0},{e1}] does not cover [{lo},{hi}] within tol")
            if res < 0 and not (e1 == hi and e0 <= lo + TOL_SNAP * ar):
                msgs.append(f"{nm}: [{e0},{e1}] does not cover [{lo},{hi}] within tol")
            if not (m == 1 or (m - 1) * ar < hi - lo):
                msgs.append(f"{nm}: {m} pixels is more than needed for [{lo},{hi}] at {res}")
        exp = None
    else:
        exp = expected_contract(g, op)
        if exp is None:
            return True, "outside the property's domain"
    if exp is not None:
        shape, pmap, wmap = exp
        if shape is not None and (int(g2.shape[0]), int(g2.shape[1])) != tuple(shape):
            msgs.append(f"shape {tuple(g2.shape)} expected {tuple(shape)}")
        if pmap is not None:
            for p in sample_pixels(rng, int(g2.shape[0]), int(g2.shape[1])):
                got = app(B, p)
                want = app(A, pmap(p))
                if wmap is not None:
                    want = wmap(want)
                if got != want:
                    msgs.append(f"new pixel {tuple(map(str, p))} is at world {tuple(map(str, got))}, contract says "
                                f"{tuple(map(str, want))}")
                    break
    if n in COVERING and exp is not None and not msgs:
        ok_dom = not ((n == "pad" and (op[1] < 0 or (op[2] or 0) < 0)) or (n == "pad_wh" and (op[1] < 1 or (op[2] or 1) < 1)))
        det = B[0] * B[4] - B[1] * B[3]
        if ok_dom and det != 0 and ny >= 1 and nx >= 1:
            Bi = inverse_exact(B)
            my, mx = int(g2.shape[0]), int(g2.shape[1])
            for p in [(F(0), F(0)), (F(nx), F(0)), (F(nx), F(ny)), (F(0), F(ny))]:
                q = app(Bi, app(A, p))
                if not (0 <= q[0] <= mx and 0 <= q[1] <= my):
                    msgs.append(f"old corner {tuple(map(str, p))} falls at new pixel {tuple(map(str, q))} outside "
                                f"the new {my}x{mx} geobox: the original is not covered")
                    break
    return not msgs, "; ".join(msgs) if msgs else f"{op} ok: {enc_gb(g2)}"


def p_roundtrip(genc, p):
    g = mk_gbox(genc)
    A = Aq(g)
    det = A[0] * A[4] - A[1] * A[3]
    p = (F(p[0]), F(p[1]))
    w = g.pix2wld(float(p[0]), float(p[1]))
    q = g.wld2pix(*w)
    q = (F(float(q[0])), F(float(q[1])))
    w2 = g.pix2wld(*g.wld2pix(float(p[0]), float(p[1])))
    w2 = (F(float(w2[0])), F(float(w2[1])))
    if (F(w[0]), F(w[1])) != app(A, p):
        return False, f"pix2wld{tuple(map(str, p))} = {w}, the affine gives {tuple(map(str, app(A, p)))}"
    if pow2(det) and all_small(inverse_exact(A)):
        ok = q == p and w2 == p
        return ok, f"exact: wld2pix(pix2wld(p))={tuple(map(str, q))} pix2wld(wld2pix(p))={tuple(map(str, w2))} p={tuple(map(str, p))}"
    scale = 1 + max(abs(v) for v in A) + max(abs(v) for v in inverse_exact(A))
    tol = F(1, 10 ** 9) * scale * (1 + abs(p[0]) + abs(p[1]))
    ok = all(abs(u - v) <= tol for u, v in zip(q + w2, p + p))
    return ok, f"rounded (bound {float(tol):.3g}): wld2pix(pix2wld(p))={tuple(map(float, q))} pix2wld(wld2pix(p))={tuple(map(float, w2))} p={tuple(map(float, p))}"


def p_views(genc, seed=0):
    """extent = image of the pixel rectangle's corners; bounding box = smallest box containing them
    (and hence every pixel); coordinate labels = pixel centres; resolution = pixel step"""
    import random
    g = mk_gbox(genc)
    rng = random.Random(seed)
    ny, nx = int(g.shape[0]), int(g.shape[1])
    A = Aq(g)
    msgs = []
    corners = [app(A, p) for p in [(0, 0), (0, ny), (nx, ny), (nx, 0)]]
    ring = [(F(x), F(y)) for x, y in g.extent.exterior.points]
    if ring != corners + corners[:1]:
        msgs.append(f"extent ring {[(str(x), str(y)) for x, y in ring]} is not the image of the pixel rectangle")
    l, b, r, t = (F(v) for v in g.boundingbox.bbox)
    pts = corners + [app(A, (F(rng.randint(0, 4 * nx), 4), F(rng.randint(0, 4 * ny), 4))) for _ in range(6)]
    for x, y in pts:
        if not (l <= x <= r and b <= y <= t):
            msgs.append(f"bounding box ({l},{b},{r},{t}) does not contain footprint point ({x},{y})")
            break
    xs, ys = [c[0] for c in corners], [c[1] for c in corners]
    if (l, b, r, t) != (min(xs), min(ys), max(xs), max(ys)):
        msgs.append(f"bounding box ({l},{b},{r},{t}) is not the min/max over the four corners")
    if A[1] == 0 and A[3] == 0:
        cc = g.coordinates
        yl, xl = (v.values for v in cc.values())
        want_x = [app(A, (F(2 * i + 1, 2), F(0)))[0] for i in range(nx)]
        want_y = [app(A, (F(0), F(2 * j + 1, 2)))[1] for j in range(ny)]
        if [F(float(v)) for v in xl] != want_x or [F(float(v)) for v in yl] != want_y:
            msgs.append("coordinate labels are not the pixel centres")
        rr = g.resolution
        if (F(rr.x), F(rr.y)) != (A[0], A[4]):
            msgs.append(f"resolution {rr} is not the pixel step ({A[0]},{A[4]})")
    else:
        try:
            g.coordinates
            msgs.append("coordinates of a rotated / sheared grid did not raise ValueError")
        except ValueError:
            pass
        r_ = res_exact(A)
        if r_ is not None:
            rr = g.resolution
            rx, ry = F(rr.x), F(rr.y)
            if not (rx > 0 and rx * rx == A[0] ** 2 + A[3] ** 2 and rx * ry == A[0] * A[4] - A[1] * A[3]):
                msgs.append(f"resolution {rr}: x is not the length of the pixel x-step or x*y is not the signed pixel area")
    return not msgs, "; ".join(msgs) if msgs else "views ok"


def p_rotate(genc, deg):
    """rotation by an arbitrary angle: centre fixed, displacements rotated by the angle (float cos/sin
    taken as given; the rounding of the products is bounded, not ignored)"""
    from affine import cos_sin_deg
    g = mk_gbox(genc)
    ny, nx = int(g.shape[0]), int(g.shape[1])
    g2 = g.rotate(float(F(deg)))
    A, B = Aq(g), Aq(g2)
    c, s = (F(v) for v in cos_sin_deg(float(F(deg))))
    cx, cy = app(A, (F(nx, 2), F(ny, 2)))
    scale = 1 + max(abs(v) for v in A) * (1 + nx + ny)
    tol = F(1, 2 ** 40) * scale
    worst = F(0)
    for p in [(F(0), F(0)), (F(nx), F(0)), (F(0), F(ny)), (F(nx, 2), F(ny, 2)), (F(1), F(1))]:
        w = app(A, p)
        want = (cx + c * (w[0] - cx) - s * (w[1] - cy), cy + s * (w[0] - cx) + c * (w[1] - cy))
        got = app(B, p)
        worst = max(worst, abs(got[0] - want[0]), abs(got[1] - want[1]))
    ok = worst <= tol and tuple(g2.shape) == tuple(g.shape) and tag_of(g2.crs) == tag_of(g.crs)
    return ok, f"rotate({deg}): max deviation from the contract {float(worst):.3g} (bound {float(tol):.3g}), shape {tuple(g2.shape)}"


def p_gcp(genc, M6, op, seed=0):
    """GCP geobox: views compose the fit with the crop/zoom affine as gcp.py does; with an affine
    oracle the relations are exact"""
    import random
    rng = random.Random(seed)
    msgs = []
    # (a) real Poly2d fit: composition only (the fit itself is the oracle)
    gp = mk_gcp(genc, M6, oracle="poly")
    if op is not None and expected_contract(gp, op) is None:
        return True, "outside the property's domain"
    g2 = apply_op(gp, op) if op is not None else gp
    Bq = Aq(g2)
    for p in sample_pixels(rng, int(g2.shape[0]), int(g2.shape[1]), 2):
        q = app(Bq, p)
        if not all_small(q):
            continue
        got = g2.pix2wld(float(p[0]), float(p[1]))
        want = g2._mapping.p2w(float(q[0]), float(q[1]))
        if (float(got[0]), float(got[1])) != (float(want[0]), float(want[1])):
            msgs.append(f"pix2wld{tuple(map(str, p))} = {got} is not fit(affine*p) = {want}")
            break
    if g2._mapping is not gp._mapping or tag_of(g2.crs) != tag_of(gp.crs):
        msgs.append("mapping / crs not preserved")
    # bounding box is that of the footprint (GCP bbox finding): compare with the extent
    bb = g2.boundingbox
    eb = g2.extent.boundingbox
    if min(g2.shape) >= 1 and tuple(bb.bbox) != tuple(eb.bbox):
        msgs.append(f"boundingbox {tuple(bb.bbox)} is not the bounding box of the footprint {tuple(eb.bbox)}")
    # (b) affine oracle: exact agreement with the linear GeoBox (M*A, same shape)
    ga = mk_gcp(genc, M6, oracle="affine")
    g3 = apply_op(ga, op) if op is not None else ga
    Mq = [F(v) for v in M6]
    exp = expected_contract(ga, op) if op is not None else ((int(ga.shape[0]), int(ga.shape[1])), lambda p: p, None)
    if exp is not None and exp[1] is not None:
        shape, pmap, _ = exp
        if (int(g3.shape[0]), int(g3.shape[1])) != tuple(shape):
            msgs.append(f"shape {tuple(g3.shape)} expected {tuple(shape)}")
        for p in sample_pixels(rng, int(g3.shape[0]), int(g3.shape[1]), 2):
            old_pix = app(Aq(ga), pmap(p))
            if not all_small(old_pix) or not all_small(app(Mq, old_pix)):
                continue
            got = g3.pix2wld(float(p[0]), float(p[1]))
            want = app(Mq, old_pix)
            if (F(float(got[0])), F(float(got[1]))) != want:
                msgs.append(f"affine oracle: new pixel {tuple(map(str, p))} at {got}, contract says {tuple(map(str, want))}")
                break
            ap = g3.approx
            if all_small(Aq(ap)) and app(Aq(ap), p) != want:
                msgs.append("approx geobox disagrees with the GCP geobox for an affine fit")
                break
    return not msgs, "; ".join(msgs) if msgs else "gcp ok"


# ---- sequences of view operations: everything judged against plain 3x3 matrix products
def m3(c6):
    a, b, c, d, e, f = (F(v) for v in c6)
    return ((a, b, c), (d, e, f), (F(0), F(0), F(1)))


def m3_mul(A, B):
    return tuple(tuple(sum(A[i][k] * B[k][j] for k in range(3)) for j in range(3)) for i in range(3))


def m3_inv(A):
    (a, b, c), (d, e, f), _ = A
    det = a * e - b * d
    ra, rb, rd, re = e / det, -b / det, -d / det, a / det
    return ((ra, rb, -c * ra - f * rb), (rd, re, -c * rd - f * re), (F(0), F(0), F(1)))


def m3_app(A, p):
    return (A[0][0] * p[0] + A[0][1] * p[1] + A[0][2], A[1][0] * p[0] + A[1][1] * p[1] + A[1][2])


def m3_of_map(pmap):
    """3x3 matrix of an affine pixel map given as a function (the documented contract of one operation)"""
    o, ex, ey = pmap((F(0), F(0))), pmap((F(1), F(0))), pmap((F(0), F(1)))
    return ((ex[0] - o[0], ey[0] - o[0], o[0]), (ex[1] - o[1], ey[1] - o[1], o[1]), (F(0), F(0), F(1)))


SEQ_OPS_GCP = GCP_OPS
SEQ_OPS_LINEAR = GCP_OPS + ("crop", "translate_pix", "flipx", "flipy", "left", "right", "top", "bottom", "mul",
                            "scaled_down")


def p_seq(kind, genc, M6, ops, seed=0):
    """a SEQUENCE of view operations on a GCP geobox whose control points are exactly affinely related
    by M (kind 'gcp': fit instantiated by the affine map; kind 'gcp-fit': the real Poly2d least-squares
    fit, compared within a stated bound) or on the linear GeoBox with transform M*A0 (kind 'linear'):
    pix2wld must be M @ A0 @ V1 @ ... @ Vk with Vi the 3x3 matrix of operation i's documented pixel
    contract, wld2pix its inverse, and wld2pix(pix2wld(p)) == p"""
    import random
    from affine import Affine
    from odc.geo.geobox import GeoBox
    rng = random.Random(seed)
    Mq = [F(v) for v in M6]
    A0 = [F(v) for v in genc["affine"]]
    if kind == "linear":
        T0 = m3_mul(m3(Mq), m3(A0))
        c0 = [T0[0][0], T0[0][1], T0[0][2], T0[1][0], T0[1][1], T0[1][2]]
        if not all_small(c0):
            return True, "outside the exactness domain"
        g = GeoBox(tuple(genc["shape"]), Affine(*[float(v) for v in c0]), genc["crs"])
        T = T0
    else:
        g = mk_gcp(genc, M6, oracle="affine" if kind == "gcp" else "poly")
        T = m3_mul(m3(Mq), m3(A0))
    g0 = g
    shape = (int(g.shape[0]), int(g.shape[1]))
    msgs = []
    for op in ops:
        exp = expected_contract(g, op)
        if exp is None or exp[1] is None or exp[2] is not None or not op_exact(g, op):
            return True, f"outside the property's domain at {op}"
        eshape, pmap, _ = exp
        g = apply_op(g, op)
        T = m3_mul(T, m3_of_map(pmap))
        shape = tuple(eshape)
        if (int(g.shape[0]), int(g.shape[1])) != shape:
            msgs.append(f"after {op}: shape {tuple(g.shape)} expected {shape}")
            break
        if min(shape) < 1:
            return True, "empty view"
    if tag_of(g.crs) != tag_of(g0.crs) or (g.crs is None) != (g0.crs is None):
        msgs.append(f"crs changed: {g0.crs} -> {g.crs}")
    if kind != "linear" and g._mapping is not g0._mapping:
        msgs.append("mapping not shared with the original")
    det = T[0][0] * T[1][1] - T[0][1] * T[1][0]
    if det == 0 or msgs:
        return not msgs, "; ".join(msgs) if msgs else "singular view"
    Ti = m3_inv(T)
    flat = [v for row in T[:2] for v in row] + [v for row in Ti[:2] for v in row]
    exact = kind != "gcp-fit" and all_small(flat) and pow2(det) and \
        pow2(Mq[0] * Mq[4] - Mq[1] * Mq[3]) and all_small(inverse_exact(Mq))
    scale = 1 + max(abs(v) for v in flat)

    def close(u, v, what):
        bound = F(0) if exact else (F(1, 10 ** 9) if kind != "gcp-fit" else F(1, 10 ** 5)) * scale * (1 + abs(v[0]) + abs(v[1]))
        if abs(u[0] - v[0]) > bound or abs(u[1] - v[1]) > bound:
            msgs.append(f"{what}: got ({float(u[0])!r}, {float(u[1])!r}) expected ({float(v[0])!r}, {float(v[1])!r})"
                        f" [{'exact' if exact else 'bound ' + format(float(bound), '.3g')}]")
            return False
        return True

    for p in sample_pixels(rng, shape[0], shape[1], 3):
        w = m3_app(T, p)
        if not all_small(p + w):
            continue
        got = g.pix2wld(float(p[0]), float(p[1]))
        if not close((F(float(got[0])), F(float(got[1]))), w, f"pix2wld{tuple(map(str, p))} vs M@V"):
            break
        back = g.wld2pix(float(w[0]), float(w[1]))
        if not close((F(float(back[0])), F(float(back[1]))), p, f"wld2pix{tuple(map(str, w))} vs inv(M@V)"):
            break
        rt = g.wld2pix(*got)
        if not close((F(float(rt[0])), F(float(rt[1]))), p, f"wld2pix(pix2wld{tuple(map(str, p))})"):
            break
    return not msgs, "; ".join(msgs) if msgs else f"sequence ok: view {enc_gb(g)}"



def p_zoom_to_int(kind, genc, M6, k):
    """zoom_to(k), k a positive integer: the longest side becomes exactly k pixels, the other
    ceil(other*k/longest) (>= 1), the grid is scaled by longest/k about pixel (0,0) (the factor is a
    rounded float when the division is not exact: compared within 2^-45 relative), CRS kept, original covered"""
    g = mk_gbox(genc) if kind == "linear" else mk_gcp(genc, M6, oracle="affine")
    ny, nx = int(g.shape[0]), int(g.shape[1])
    k = int(k)
    if min(ny, nx) < 1 or k < 1:
        return True, "outside the property's domain"
    g2 = g.zoom_to(k)
    nmax = max(ny, nx)
    want = tuple(max(1, math.ceil(F(n * k, nmax))) for n in (ny, nx))
    msgs = []
    if (int(g2.shape[0]), int(g2.shape[1])) != want:
        msgs.append(f"zoom_to({k}) of a {ny}x{nx} geobox has shape {tuple(g2.shape)}, expected {want} (longest side {k})")
    f = F(nmax, k)
    A, B = Aq(g), Aq(g2)
    wantB = [A[0] * f, A[1] * f, A[2], A[3] * f, A[4] * f, A[5]]
    for got, w in zip(B, wantB):
        if abs(got - w) > abs(w) * F(1, 2 ** 45):
            msgs.append(f"view affine {[float(v) for v in B]} is not the original scaled by {nmax}/{k}")
            break
    if tag_of(g2.crs) != tag_of(g.crs) or (g.crs is None) != (g2.crs is None):
        msgs.append("crs changed")
    return not msgs, "; ".join(msgs) if msgs else f"zoom_to({k}) ok: {tuple(g2.shape)}"


def p_crop_by_geobox(genc, roi_enc):
    """gbox[sub] with sub the geobox of the window gbox[roi] (built here from numpy selection and exact
    affine arithmetic, not by the implementation) is that window: same shape, same affine, same CRS -
    for geoboxes with and without CRS"""
    from affine import Affine
    from odc.geo.geobox import GeoBox
    g = mk_gbox(genc)
    A = Aq(g)
    exp = expected_contract(g, ["getitem", roi_enc])
    det = A[0] * A[4] - A[1] * A[3]
    if exp is None or exp[1] is None or min(exp[0]) < 1 or not pow2(det) or not all_small(inverse_exact(A)):
        return True, "outside the property's domain / exactness domain"
    shape, pmap, _ = exp
    o = pmap((F(0), F(0)))
    W = [A[0], A[1], app(A, o)[0], A[3], A[4], app(A, o)[1]]
    if not all_small(W):
        return True, "outside the exactness domain"
    sub = GeoBox(tuple(shape), Affine(*[float(v) for v in W]), genc["crs"])
    got = g[sub]
    msgs = []
    if (int(got.shape[0]), int(got.shape[1])) != tuple(shape) or Aq(got) != W:
        msgs.append(f"gbox[window geobox {tuple(shape)} at pixel ({o[0]},{o[1]})] is {tuple(got.shape)} with affine "
                    f"{[str(v) for v in Aq(got)]}, expected the window itself, affine {[str(v) for v in W]}")
    if tag_of(got.crs) != tag_of(g.crs) or (g.crs is None) != (got.crs is None):
        msgs.append("crs changed")
    return not msgs, "; ".join(msgs) if msgs else "crop by geobox ok"


def world_resolution(T):
    """(|x step|, |det| / |x step|) of a 3x3 pixel->world matrix; None when irrational"""
    a, b, d, e = T[0][0], T[0][1], T[1][0], T[1][1]
    if b == 0 and d == 0:
        return (abs(a), abs(e))
    l = fsqrt(a * a + d * d)
    if l is None or l == 0:
        return None
    return (l, abs(a * e - b * d) / l)


def p_gcp_zoom_res(kind, genc, M6, rx, ry):
    """GCP geobox, exactly affine control points M, zoom_to(resolution=(rx, ry)): the pixel grid is scaled
    about pixel (0,0) so that the world resolution becomes (|rx|, |ry|); the zoomed box covers the original up
    to the snapping tolerance (0.01 pixel) with less than one extra pixel per axis; CRS and mapping are kept
    (kind 'gcp': fit = the affine map, exact; 'gcp-fit': real Poly2d fit, bound 1e-6 relative)"""
    from odc.geo.types import resxy_
    g = mk_gcp(genc, M6, oracle="affine" if kind == "gcp" else "poly")
    ny, nx = int(g.shape[0]), int(g.shape[1])
    rx, ry = F(rx), F(ry)
    A0 = [F(v) for v in genc["affine"]]
    T = m3_mul(m3([F(v) for v in M6]), m3(A0))
    cur = world_resolution(T)
    if cur is None or min(ny, nx) < 1 or rx == 0 or ry == 0 or cur[0] == 0 or cur[1] == 0:
        return True, "outside the property's domain"
    g2 = g.zoom_to(resolution=resxy_(float(rx), float(ry)))
    sx, sy = abs(rx) / cur[0], abs(ry) / cur[1]
    my, mx = int(g2.shape[0]), int(g2.shape[1])
    B = Aq(g2)
    msgs = []
    rel = F(0) if (kind == "gcp" and all_small([sx, sy] + [v * sx for v in A0] + [v * sy for v in A0])) else F(1, 10 ** 6)
    wantB = [A0[0] * sx, A0[1] * sy, A0[2], A0[3] * sx, A0[4] * sy, A0[5]]
    if any(abs(u - v) > rel * (abs(v) + 1) for u, v in zip(B, wantB)):
        msgs.append(f"view affine {[float(v) for v in B]} is not the original view scaled by ({float(sx)}, {float(sy)}) "
                    f"= {[float(v) for v in wantB]}")
    for n, m, s_, nm in ((nx, mx, sx, "x"), (ny, my, sy, "y")):
        q = F(n) / s_
        if not (m >= 1 and m >= q - TOL_SNAP - rel * 100 and (m == 1 or m < q + 1 + rel * 100)):
            msgs.append(f"{nm}: {m} pixels at scale {float(s_)} for {n} original pixels (needs ceil({float(q):.6g}))")
    if tag_of(g2.crs) != tag_of(g.crs) or g2._mapping is not g._mapping:
        msgs.append("crs / mapping not kept")
    # footprints in world coordinates through the public views
    if not msgs:
        ob, nb = g.extent.boundingbox, g2.extent.boundingbox
        slack = float(TOL_SNAP) * max(abs(float(rx)), abs(float(ry))) * 2 + 1e-6 * (1 + max(abs(v) for v in ob.bbox))
        grow = max(abs(float(rx)), abs(float(ry))) * 2 + slack
        if not (nb.left <= ob.left + slack and nb.bottom <= ob.bottom + slack and nb.right >= ob.right - slack
                and nb.top >= ob.top - slack):
            msgs.append(f"footprint {tuple(nb.bbox)} of the zoomed geobox does not cover the original {tuple(ob.bbox)}")
        elif not (nb.left >= ob.left - grow and nb.bottom >= ob.bottom - grow and nb.right <= ob.right + grow
                  and nb.top <= ob.top + grow):
            msgs.append(f"footprint {tuple(nb.bbox)} of the zoomed geobox is far larger than the original {tuple(ob.bbox)}")
        r2 = g2.resolution
        if abs(abs(r2.x) - float(abs(rx))) > 1e-6 * float(abs(rx)) or abs(abs(r2.y) - float(abs(ry))) > 1e-6 * float(abs(ry)):
            msgs.append(f"resolution of the zoomed geobox is {r2}, requested ({float(rx)}, {float(ry)})")
    return not msgs, "; ".join(msgs) if msgs else f"gcp zoom_to(resolution) ok: {tuple(g2.shape)}"



def p_crop_by_region(kind, genc, M6, box):
    """gbox[region] for a region whose edges are NOT on pixel boundaries: the result is the block of
    pixels the region touches inside the image - start floor(max(x0, 0)), stop ceil(min(x1, W)) of the exact
    pixel bounding box (Fractions) - at the contract's location, CRS kept.  kind: how the region is given
    ('geom-pix' Geometry in pixel coordinates / 'geom' world polygon / 'bbox' world BoundingBox / 'geobox'
    a GeoBox whose grid is offset and scaled against gbox's), prefix 'gcp-' for a GCPGeoBox with exactly
    affine control points M (fit = the affine map)"""
    from affine import Affine
    from odc.geo import geom
    from odc.geo.geobox import GeoBox
    gcp = kind.startswith("gcp-")
    k = kind[4:] if gcp else kind
    A0 = [F(v) for v in genc["affine"]]
    g = mk_gcp(genc, M6, oracle="affine") if gcp else mk_gbox(genc)
    T = m3_mul(m3([F(v) for v in M6]), m3(A0)) if gcp else m3(A0)       # pixel -> world
    det = T[0][0] * T[1][1] - T[0][1] * T[1][0]
    H, W = int(g.shape[0]), int(g.shape[1])
    x0, y0, x1, y1 = (F(v) for v in box)
    flatT = [v for row in T[:2] for v in row]
    if det == 0 or not pow2(det) or not all_small(flatT + [v for row in m3_inv(T)[:2] for v in row]):
        return True, "outside the exactness domain"
    if gcp and not (pow2(F(M6[0]) * F(M6[4]) - F(M6[1]) * F(M6[3])) and all_small(inverse_exact([F(v) for v in M6]))):
        return True, "outside the exactness domain"
    if not (x0 < x1 and y0 < y1 and max(x0, 0) < min(x1, W) and max(y0, 0) < min(y1, H)):
        return True, "outside the property's domain (region does not overlap the image)"
    corners = [(x0, y0), (x0, y1), (x1, y1), (x1, y0)]
    wc = [m3_app(T, c) for c in corners]
    if not all_small([v for c in wc for v in c]):
        return True, "outside the exactness domain"
    crs = genc["crs"]
    if k == "geom-pix":
        region = geom.polygon([(float(a), float(b)) for a, b in corners + corners[:1]], None)
    elif k == "geom":
        if crs is None:
            return True, "world geometry needs a CRS"
        region = geom.polygon([(float(a), float(b)) for a, b in wc + wc[:1]], crs)
    elif k == "bbox":
        if crs is None or not ((T[0][1] == 0 and T[1][0] == 0) or (T[0][0] == 0 and T[1][1] == 0)):
            return True, "a world BoundingBox is the image of a pixel box only on axis-parallel grids"
        xs, ys = [c[0] for c in wc], [c[1] for c in wc]
        region = geom.BoundingBox(float(min(xs)), float(min(ys)), float(max(xs)), float(max(ys)), crs)
    elif k == "geobox":
        if gcp and crs is None:
            return True, "needs a CRS"
        # region grid: origin at pixel (x0, y0) of gbox, pixels half as big, so that it ends at (x1, y1)
        w2, h2 = (x1 - x0) * 2, (y1 - y0) * 2
        if w2.denominator != 1 or h2.denominator != 1:
            return True, "region size not representable by a half-pixel grid"
        R = m3_mul(T, ((F(1, 2), F(0), x0), (F(0), F(1, 2), y0), (F(0), F(0), F(1))))
        r6 = [R[0][0], R[0][1], R[0][2], R[1][0], R[1][1], R[1][2]]
        if not all_small(r6):
            return True, "outside the exactness domain"
        region = GeoBox((int(h2), int(w2)), Affine(*[float(v) for v in r6]), crs)
    else:
        raise ValueError(kind)
    got = g[region]
    tx, ty = math.floor(max(x0, 0)), math.floor(max(y0, 0))
    nx, ny = math.ceil(min(x1, W)) - tx, math.ceil(min(y1, H)) - ty
    want = [A0[0], A0[1], A0[0] * tx + A0[1] * ty + A0[2], A0[3], A0[4], A0[3] * tx + A0[4] * ty + A0[5]]
    msgs = []
    if (int(got.shape[0]), int(got.shape[1])) != (ny, nx) or Aq(got) != want:
        gs = (int(got.shape[0]), int(got.shape[1]))
        msgs.append(f"region with pixel bounding box x {x0}..{x1}, y {y0}..{y1} in a {H}x{W} image: got a {gs[0]}x{gs[1]} "
                    f"crop with view affine {[str(v) for v in Aq(got)]}; the pixels the region touches are rows {ty}..{ty + ny}, "
                    f"columns {tx}..{tx + nx}: {ny}x{nx} with affine {[str(v) for v in want]}")
    if tag_of(got.crs) != tag_of(g.crs) or (g.crs is None) != (got.crs is None):
        msgs.append("crs changed")
    return not msgs, "; ".join(msgs) if msgs else f"crop by region ok: {ny}x{nx} at ({tx},{ty})"



PREDICATES = {"op": p_op, "roundtrip": p_roundtrip, "views": p_views, "rotate": p_rotate, "gcp": p_gcp, "seq": p_seq, "zoom_to_int": p_zoom_to_int,
              "crop_by_geobox": p_crop_by_geobox, "crop_by_region": p_crop_by_region, "gcp_zoom_res": p_gcp_zoom_res}


def call_pred(name, args):
    if name == "op":
        return p_op(args["geobox"], args["op"], args.get("seed", 0))
    if name == "roundtrip":
        return p_roundtrip(args["geobox"], args["p"])
    if name == "views":
        return p_views(args["geobox"], args.get("seed", 0))
    if name == "rotate":
        return p_rotate(args["geobox"], args["deg"])
    if name == "gcp":
        return p_gcp(args["geobox"], args["M"], args["op"], args.get("seed", 0))
    if name == "seq":
        return p_seq(args["kind"], args["geobox"], args["M"], args["ops"], args.get("seed", 0))
    if name == "zoom_to_int":
        return p_zoom_to_int(args["kind"], args["geobox"], args.get("M"), args["k"])
    if name == "crop_by_geobox":
        return p_crop_by_geobox(args["geobox"], args["roi"])
    if name == "crop_by_region":
        return p_crop_by_region(args["kind"], args["geobox"], args.get("M"), args["box"])
    if name == "gcp_zoom_res":
        return p_gcp_zoom_res(args["kind"], args["geobox"], args["M"], args["rx"], args["ry"])
    raise ValueError(name)


def search(out, tier):
    rng = core.rng("c02-search")
    found = {}

    def run(name, args, keysuffix=""):
        try:
            ok, detail = call_pred(name, args)
        except Exception as e:  # the operations must not fail inside the property's domain
            ok, detail = False, f"raised {type(e).__name__}: {e}"
        out.count("predicate:" + name + (":" + args["op"][0] if name == "op" else ""))
        out.case(("pred", name, repr(args)), True)
        key = f"c02:{name}" + (":" + args["op"][0] if name == "op" else "") + keysuffix
        if not ok and key not in found:
            found[key] = True
            out.violation(key, f"{name} {args}: {detail}", {"predicate": name, "args": args, "observed": detail})
        return ok

    for rp in core.corpus(ID):
        run(rp["predicate"], rp["args"])

    n = 400 if tier == "quick" else 5000
    for k in range(n):
        e, kind = gen_gbox_enc(rng)
        g = mk_gbox(e)
        run("views", {"geobox": e, "seed": k})
        run("roundtrip", {"geobox": e, "p": [fs(F(rng.randint(-8, 40), 2)), fs(F(rng.randint(-8, 40), 2))]})
        for _ in range(4):
            op = gen_op(rng, g)
            if op is None or not op_exact(g, op):
                continue
            if op[0] == "getitem":
                roi = dec_sl(op[1])
            run("op", {"geobox": e, "op": op, "seed": k})
        if k % 4 == 0:
            run("rotate", {"geobox": e, "deg": fs(rng.choice([30, 45, -60, 17, 200, 1, 359, 90, F(45, 2)]))})
    # systematic index family (F18 class): every valid int / negative index, every in-range slice, n <= 5
    base = {"affine": ["2", "0", "-8", "0", "-2", "12"], "crs": "epsg:3857"}
    for ny, nx in [(1, 1), (1, 4), (5, 1), (3, 5)]:
        e = dict(base, shape=[ny, nx])
        for i in range(-ny, ny):
            run("op", {"geobox": e, "op": ["getitem", i]})
            run("op", {"geobox": e, "op": ["getitem_np", i]})
            run("op", {"geobox": e, "op": ["getitem_np", enc_sl((i, slice(None, -nx - 1 if i % 2 else None)))]})
            for j in range(-nx, nx):
                run("op", {"geobox": e, "op": ["getitem", enc_sl((i, j))]})
        for j in range(-nx, nx):
            run("op", {"geobox": e, "op": ["getitem", enc_sl((slice(None), j))]})
        ff = [None] + list(range(-ny, ny + 1))
        for a in ff:
            for b in ff:
                run("op", {"geobox": e, "op": ["getitem", enc_sl(slice(a, b))]})
                run("op", {"geobox": e, "op": ["getitem", enc_sl((slice(a, b), slice(-nx, None)))]})
    # crops whose negative bounds reach past the beginning of the axis (numpy clamps them to element 0):
    # every axis, 1xN / Nx1 / NxM, north-up / mirrored / rotated / sheared affines, linear and GCP boxes
    affs = [["2", "0", "-8", "0", "-2", "12"], ["-1/2", "0", "3", "0", "1/2", "-4"], ["3", "-4", "10", "4", "3", "-2"],
            ["0", "-2", "5", "2", "0", "1"], ["1", "1/2", "0", "0", "-1", "7"]]
    for ai, aff in enumerate(affs):
        for ny, nx in [(1, 4), (5, 1), (3, 5), (1, 1)]:
            e = {"shape": [ny, nx], "affine": aff, "crs": CRS_LIST[ai % len(CRS_LIST)]}
            lows_y = [-ny - 1, -ny - 2, -2 * ny - 3, -100]
            lows_x = [-nx - 1, -nx - 3, -2 * nx - 1, -100]
            rois = []
            for a in lows_y:
                rois += [slice(a, None), slice(a, ny), slice(a, -ny), slice(a, rng.randint(0, ny)), slice(None, a),
                         (slice(a, None), slice(None)), (slice(a, rng.randint(-ny, ny)), slice(rng.randint(-nx, 0), None))]
            for b in lows_x:
                rois += [(slice(None), slice(b, None)), (slice(None), slice(b, nx)), (slice(None), slice(b, rng.randint(0, nx))),
                         (slice(None), slice(None, b)), (rng.randint(-ny, ny - 1), slice(b, None)),
                         (slice(rng.choice(lows_y), None), slice(b, rng.randint(-nx, nx)))]
            for roi in rois:
                run("op", {"geobox": e, "op": ["getitem", enc_sl(roi)], "seed": ai})
            if ai < 3:
                eg = dict(e, affine=[["1", "0", "0", "0", "1", "0"], ["2", "0", "1", "0", "2", "-1"],
                                     ["1", "0", "2", "0", "1", "3"]][ai], crs=e["crs"] or "epsg:4326")
                for roi in rois[::3]:
                    if isinstance(roi, tuple):
                        run("gcp", {"geobox": eg, "M": aff, "op": ["getitem", enc_sl(roi)], "seed": ai})
    # GCP geoboxes
    for k in range(40 if tier == "quick" else 400):
        e, _ = gen_gbox_enc(rng)
        e["affine"] = [fs(v) for v in gen_small_affine(rng)]
        e["crs"] = e["crs"] or "epsg:4326"
        M6, _ = gen_affine(rng)
        gp = mk_gcp(e, M6, oracle="affine")
        ny, nx = e["shape"]
        ops = [gen_op(rng, gp), None] if k % 4 else [
            None, ["pad", 1, 2], ["pad", 2, None], ["pad_wh", 4, 3], ["pad_wh", 3, None], ["pad_wh", 2, 5],
            ["zoom_out", "2"], ["zoom_out", "1/2"], ["zoom_to_shape", 2 * ny, 4 * nx], ["zoom_to_n", "4"],
            ["center_pixel"], ["getitem", -1], ["getitem", enc_sl((slice(None), -1))],
            ["getitem", enc_sl((slice(-2, None), slice(None, -1)))],
            ["getitem", enc_sl((slice(-ny - 2, None), slice(-nx - 1, nx)))],
            ["getitem", enc_sl((slice(-ny - 5, -1), slice(-100, None)))]]
        for op in ops:
            if op is not None and (op[0] not in GCP_OPS or not op_exact(gp, op)):
                continue
            run("gcp", {"geobox": e, "M": [fs(v) for v in M6], "op": op, "seed": k})

    # SEQUENCES of 2-3 view operations (single operations keep scale or translation trivial): GCP boxes with
    # exactly affine control points (north-up, rotated+mirrored, sheared maps; crs present / None) and the
    # linear boxes with the same total transform
    MAPS = [["2", "0", "100", "0", "-2", "500"], ["0", "-2", "40", "-2", "0", "-24"], ["1", "1/2", "-16", "0", "-1", "8"],
            ["3", "-4", "10", "4", "3", "-2"], ["-1/2", "0", "3", "0", "1/4", "-4"]]
    for mi, M in enumerate(MAPS):
        for ny, nx in [(6, 9), (1, 8), (8, 1)][: 3 if mi < 3 else 1]:
            crs = [None, "epsg:4326", "epsg:3857"][(mi + ny) % 3]
            e = {"shape": [ny, nx], "affine": ["1", "0", "0", "0", "1", "0"], "crs": crs}
            unit = [["zoom_out", "2"], ["zoom_out", "1/2"], ["zoom_out", "4"], ["pad", 1, None], ["pad", 2, 1],
                    ["getitem", enc_sl((slice(min(1, ny - 1), None), slice(min(2, nx - 1), None)))],
                    ["getitem", enc_sl((slice(-2, None), slice(None, -1) if nx > 1 else slice(None)))],
                    ["zoom_to_shape", 2 * ny, 4 * nx], ["pad_wh", 4, 3], ["center_pixel"], ["zoom_to_n", "4"]]
            seqs = [[a, b] for a in unit for b in unit if a is not b]
            seqs += [[a, b, c] for a, b, c in (rng.sample(unit, 3) for _ in range(12))]
            if tier == "quick" and (mi >= 3 or ny == 1 or nx == 1):
                seqs = rng.sample(seqs, 40)
            for q in seqs:
                run("seq", {"kind": "gcp", "geobox": e, "M": M, "ops": q, "seed": mi})
                if mi < 3 and len(q) == 2 and q[0][0] != q[1][0]:
                    run("seq", {"kind": "gcp-fit", "geobox": e, "M": M, "ops": q, "seed": mi})
                run("seq", {"kind": "linear", "geobox": e, "M": M, "ops": q, "seed": mi})
    for k in range(150 if tier == "quick" else 1500):
        e, _ = gen_gbox_enc(rng)
        e["affine"] = [fs(v) for v in (gen_small_affine(rng) if k % 3 == 0 else [1, 0, 0, 0, 1, 0])]
        M6 = [fs(v) for v in gen_affine(rng)[0]]
        kind = "gcp" if k % 2 == 0 else "linear"
        names = SEQ_OPS_GCP if kind == "gcp" else SEQ_OPS_LINEAR
        g = mk_gcp(e, M6, oracle="affine")          # generation only: shapes of the intermediate views
        q = []
        for _ in range(rng.randint(2, 3)):
            op = None
            for _try in range(8):
                op = gen_op(rng, g)
                if op is not None and op[0] in names and op_exact(g, op) and expected_contract(g, op) is not None \
                        and expected_contract(g, op)[1] is not None:
                    break
                op = None
            if op is None:
                break
            g2 = apply_op(g, op) if op[0] in GCP_OPS else None
            q.append(op)
            if g2 is None or min(g2.shape) < 1 or max(g2.shape) > 60 or not all_small(a6(g2._affine)):
                break
            g = g2
        if len(q) >= 2:
            run("seq", {"kind": kind, "geobox": e, "M": M6, "ops": q, "seed": k})

    # zoom_to(<int>): sizes for which longest / k is NOT an exact float (the exactness filter of the
    # correspondence drops those), linear and GCP boxes
    ident = ["1", "0", "0", "0", "1", "0"]
    pairs = [(100, 50, 29), (100, 50, 31), (200, 7, 58), (1, 1, 49), (17, 3, 7), (3, 17, 29), (21, 21, 15), (15, 4, 26)]
    for _ in range(120 if tier == "quick" else 1500):
        a, b = rng.randint(1, 300), rng.randint(1, 300)
        pairs.append((a, b, rng.randint(1, 2 * max(a, b))))
    for i, (ny, nx, k) in enumerate(pairs):
        c6, _ = gen_affine(rng)
        e = {"shape": [ny, nx], "affine": [fs(v) for v in c6], "crs": CRS_LIST[i % 4]}
        run("zoom_to_int", {"kind": "linear", "geobox": e, "k": k})
        if i % 3 == 0:
            eg = dict(e, affine=ident, crs=e["crs"] or "epsg:4326")
            run("zoom_to_int", {"kind": "gcp", "geobox": eg, "M": [fs(v) for v in c6], "k": k})
    # cropping by the geobox of a window gives that window, with and without CRS
    for i in range(160 if tier == "quick" else 1600):
        for _try in range(12):      # affines whose inverse is exact, windows that are in range and not empty
            e, _ = gen_gbox_enc(rng)
            A = [F(v) for v in e["affine"]]
            ny, nx = e["shape"]
            roi = (gen_slice(rng, ny), gen_slice(rng, nx)) if i % 3 else (gen_index(rng, ny), gen_slice(rng, nx))
            exp = expected_contract(mk_gbox(e), ["getitem", enc_sl(roi)])
            if pow2(A[0] * A[4] - A[1] * A[3]) and all_small(inverse_exact(A)) and exp is not None and exp[1] is not None:
                break
        if i % 2 == 0:
            e["crs"] = None
        run("crop_by_geobox", {"geobox": e, "roi": enc_sl(roi)})
    for crs in (None, "epsg:3857"):
        for aff in (["10", "0", "0", "0", "-10", "0"], ["0", "-2", "5", "2", "0", "1"], ["-1/2", "0", "3", "0", "1/2", "-4"]):
            e = {"shape": [10, 20], "affine": aff, "crs": crs}
            for roi in ((slice(2, 4), slice(3, 5)), (slice(None), slice(None)), (-1, slice(None)), (slice(-3, None), slice(0, 1))):
                run("crop_by_geobox", {"geobox": e, "roi": enc_sl(roi)})
    # GCPGeoBox.zoom_to(resolution=)
    for mi, M in enumerate(MAPS):
        for (ny, nx), view in (((10, 20), ident), ((6, 6), ["1", "0", "4", "0", "1", "2"]), ((5, 8), ["2", "0", "0", "0", "2", "0"]),
                               ((1, 7), ident)):
            e = {"shape": [ny, nx], "affine": view, "crs": ["epsg:3857", "epsg:4326", None][mi % 3]}
            T = m3_mul(m3([F(v) for v in M]), m3([F(v) for v in view]))
            cur = world_resolution(T)
            if cur is None:
                continue
            for fx, fy in ((2, 2), (F(1, 2), F(1, 2)), (4, 2), (F(7, 10), F(7, 10)), (3, 5), (1, 1)):
                args = {"geobox": e, "M": M, "rx": fs(cur[0] * fx), "ry": fs(-cur[1] * fy)}
                run("gcp_zoom_res", dict(args, kind="gcp"))
                if mi < 3:
                    run("gcp_zoom_res", dict(args, kind="gcp-fit"))

    # crop by a region whose edges are not on pixel boundaries: geometry / BoundingBox / GeoBox regions,
    # GeoBox and GCPGeoBox, north-up / mirrored / south-up / quarter-turn grids, regions inside and sticking out
    grids = [["2", "0", "-8", "0", "-2", "12"], ["-4", "0", "64", "0", "-2", "30"], ["1/2", "0", "3", "0", "1/2", "-4"],
             ["0", "-2", "5", "2", "0", "1"], ["0", "4", "-20", "-4", "0", "8"], ["1", "1/2", "0", "0", "-1", "7"]]
    gmaps = [["2", "0", "100", "0", "-2", "500"], ["0", "-2", "40", "-2", "0", "-24"], ["-1/2", "0", "3", "0", "1/4", "-4"]]
    views = [["1", "0", "0", "0", "1", "0"], ["1", "0", "2", "0", "1", "1"], ["2", "0", "0", "0", "2", "0"]]
    for gi in range(len(grids) + len(gmaps) * 2):
        for ny, nx in [(10, 12), (1, 9), (7, 1)]:
            gcp = gi >= len(grids)
            if gcp:
                e = {"shape": [ny, nx], "affine": views[(gi + ny) % 3], "crs": ["epsg:3857", "epsg:4326"][gi % 2]}
                M = gmaps[(gi - len(grids)) % 3]
            else:
                e = {"shape": [ny, nx], "affine": grids[gi], "crs": [None, "epsg:3857", "epsg:4326"][(gi + nx) % 3]}
                M = None
            boxes = [(F(13, 5).limit_denominator(8), F(1, 4), F(37, 5).limit_denominator(8), F(3, 4))]
            for _ in range(7 if tier == "quick" else 30):
                ax = F(rng.randint(-8, 8 * nx), 8)
                ay = F(rng.randint(-8, 8 * ny), 8)
                bx = ax + F(rng.choice([1, 3, 5, 11, 18, 21, 37, 8 * nx]), 8)
                by = ay + F(rng.choice([1, 2, 5, 7, 12, 19, 27, 8 * ny]), 8)
                boxes.append((ax, ay, bx, by))
            for (ax, ay, bx, by) in boxes:
                for k in ("geom-pix", "geom", "bbox", "geobox"):
                    bb = (ax, ay, bx, by)
                    if k == "geobox":       # sizes must be multiples of half a pixel
                        bb = (ax, ay, ax + F(math.ceil((bx - ax) * 2), 2), ay + F(math.ceil((by - ay) * 2), 2))
                    run("crop_by_region", {"kind": ("gcp-" if gcp else "") + k, "geobox": e, "M": M, "box": [fs(v) for v in bb]},
                        keysuffix=":" + ("gcp-" if gcp else "") + k)


# ---------------------------------------------------------------- entry points
def run(out, tier, scratch):
    import warnings
    warnings.simplefilter("ignore")
    out.rule = ("correspondence: random GeoBoxes (shapes 1xN/Nx1/NxM <= 14, affines north-up / mirrored / non-square / "
                "Pythagorean-rotated / sheared / general with small dyadic coefficients, 4 CRS tags incl. none) -> random "
                "operation chains of length <= 5 (8% malformed), every step compared in lock-step (shape, six affine "
                "coefficients, CRS tag or error kind) and every visited state's extent ring, bounding box, coordinates, "
                "resolution, pix2wld, wld2pix compared exactly; GCPGeoBox bookkeeping likewise.  A case is discarded "
                "(counted as generator-escape) when a float operation of the code would not be exact.  distinct = distinct "
                "(kind, state, operation).  search: each operation's documented pixel contract, covering, round trip, "
                "views and GCP composition evaluated on the implementation in exact Fraction arithmetic")
    out.assumptions += [
        "exact-rational model of binary64: inputs restricted to dyadic rationals |x|<2^16 with <=8 fractional bits so every float operation of the code is exact",
        "GeoBox.rotate is compared exactly only for multiples of 90 degrees (cos/sin of other angles are irrational); other angles through the search predicate with an explicit rounding bound",
        "oracles: Poly2d fit of GCPMapping (p2w/w2p), numpy Cholesky inside decompose_rws (modelled as (sqrt(a^2+d^2), det/sqrt(a^2+d^2)), validated on Pythagorean cases)",
        "affine.Affine (third-party) is modelled by Base/Affine.v and validated by the same correspondence",
    ]
    cases = gen_cases(out, tier)
    fails, log = core.coq_eval_failures(REQ, "case", "check", cases, scratch, shard=250)
    detail = ""
    if fails:
        detail = "model and implementation differ on: " + " | ".join(cases[i] for i in fails[:4])
    out.oblige("correspondence:Model.GeoBoxOps vs odc.geo.geobox/gcp/geom/math", "correspondence", not fails, detail)
    # a disagreement is judged on that very input with the property's own predicate (independent
    # references: numpy indexing, exact Fraction arithmetic), so that it becomes the concrete replay
    # whenever it is a violation of the property and not only of the model
    judged = set()
    for i in fails:
        if i not in CASE_JUDGE or len(judged) >= 12:
            continue
        name, args = CASE_JUDGE[i]
        try:
            ok, det = call_pred(name, args)
        except Exception as e:  # noqa: BLE001
            ok, det = False, f"raised {type(e).__name__}: {e}"
        out.count("predicate-on-disagreement:" + name)
        key = f"c02:{name}" + (":" + args["op"][0] if name == "op" else "")
        if not ok and key not in judged:
            judged.add(key)
            out.violation(key, f"{name} {args}: {det}", {"predicate": name, "args": args, "observed": det,
                                                         "found_by": "correspondence disagreement: " + cases[i][:400]})
    search(out, tier)


def replay(rp) -> int:
    import warnings
    warnings.simplefilter("ignore")
    ok, detail = call_pred(rp["predicate"], rp["args"])
    print(f"replay {rp['predicate']} {rp['args']}: {'holds' if ok else 'FAILS'}: {detail}")
    return 0 if ok else 1


META = {
    "text": ("Coq theorems (coq/Props/C02.v, 40 statements, all closed under the global context) over a Gallina model of "
             "GeoBox = (shape, affine over Q, opaque CRS tag): the affine group laws; pix2wld/wld2pix mutual inverses for every "
             "invertible affine; the extent ring is the image of the pixel rectangle's corners and their convex hull is exactly "
             "the image of the rectangle; the bounding box is the min/max over all four corner images, each side attained, and "
             "contains the image of every point of the rectangle; coordinate labels are pixel centres; resolution is the pixel "
             "step (axis aligned) / (|x-step|, signed area / |x-step|) for rotated grids with the square root as a universally "
             "quantified variable; one contract theorem per view operation (indexing with int / negative / slice indices linked "
             "to numpy selection through C17, pad, pad_wh, crop/expand, translate_pix, flipx/flipy, left/right/top/bottom, "
             "GeoBox*Affine, Affine*GeoBox, rotate about the centre for any (c,s) and isometry when c^2+s^2=1, zoom_out, zoom_to "
             "shape / number / resolution, scaled_down_geobox, buffered, center_pixel) of the form 'new pixel p lies at old "
             "pixel g(p)', CRS unchanged, shape as documented; covering theorems for pad, pad_wh, zoom_out, zoom_to, "
             "scaled_down_geobox, buffered, flips; GCP geoboxes with the polynomial fit as an oracle (contracts transfer, exact "
             "agreement with the linear GeoBox when the fit is affine).  The model is tied to odc/geo/geobox.py, geom.py, math.py, "
             "gcp.py by lock-step differential execution of random operation chains (exact comparison of shape, six affine "
             "coefficients, CRS, extent ring, bounding box, coordinates, resolution, pix2wld, wld2pix evaluated by vm_compute) "
             "and by the operations' contracts evaluated on the implementation in exact Fraction arithmetic."),
    "note": ("Trusted: Coq kernel; the hand-written models coq/Base/Affine.v (third-party affine.Affine: product, inverse, "
             "rotation about a pivot) and coq/Model/GeoBoxOps.v, validated by the correspondence run of this check, not verified "
             "against the source text; the harness.  Floats are exact rationals: binary64 rounding is not modelled, the "
             "correspondence only uses inputs (dyadic, |x|<2^16, <=8 fractional bits, Pythagorean rotations, power-of-two or exact "
             "divisions) on which every float operation of the code is exact; the float constants 1e-10 (is_affine_st), 0.1 "
             "(_round_to_res), 0.01 (from_bbox tol) enter as parameters with their exact binary64 values.  Oracles: the Poly2d "
             "least-squares fits of GCPMapping (arbitrary function respecting point equality; round trip conditional on w2p "
             "inverting p2w; exactness stated for an affine fit); numpy's Cholesky inside decompose_rws is modelled by its closed "
             "form (sqrt(a^2+d^2), det/sqrt(a^2+d^2)), executable only when the root is rational (Err otherwise), the theorem "
             "quantifies over any positive root.  Domain restrictions in the theorems: round trip needs det != 0; zoom factors > 0; "
             "scaler > 1; pad/buffer covering needs non-negative amounts; the equality 'view height = number of rows numpy "
             "selects' is for in-range, non-reversed slices (out-of-range stops are not clamped by GeoBox and reversed slices give "
             "negative sizes: outside the property's domain, the location contract still holds); GeoBox.rotate takes degrees: the "
             "theorem is for any (cos, sin) pair, the executable comparison for multiples of 90 degrees, other angles only through "
             "the search predicate with an explicit rounding bound.  NOT modelled/proved: indexing by Geometry/BoundingBox/GeoBox "
             "(shapely), GCPGeoBox.to_crs, fit error of non-affine control points (measured nowhere, oracle), zoom_to(resolution=) "
             "of a GCPGeoBox, minimality of the pixel count of zoom_to(resolution=)."),
    "technique": "Coq proof over hand-written Gallina model (affine algebra over Q) + lock-step differential correspondence (vm_compute) + exact-Fraction contract predicates on the implementation",
    "design_ref": "DESIGN.md section 5, C02; section 3 (number model)",
}
