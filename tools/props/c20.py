"""C20 — numeric helpers of odc/geo/math.py meet their documented contracts.

Correspondence: coq/Model/MathH.v against the real functions, on inputs of the
exactness domain (every float operation of the code is exact, checked
dynamically with vlib.exactf.XF), results compared exactly as rationals.
Search: the property's clauses as executable predicates on the implementation
(exact Fraction arithmetic; tolerance-based only for the numpy-linear-algebra
oracles, labelled as numeric validation).
"""
from __future__ import annotations

import math
from fractions import Fraction

from vlib import core
from vlib import exactf
from vlib.core import cbool, clist, copt, cq, ctuple, cz

ID = "C20"
ALLOWED_AXIOMS: list[str] = []
REQ = ["Base.Result", "Model.Roi", "Model.MathH", "Model.MathHCases"]

F = Fraction
TOLS = [F(1, 128), F(1, 2 ** 20), F(0), F(1, 4), F(1, 2), F(3, 4), F(0.01), F(1e-6), F(1e-3), F(-1, 8), F(1), F(3, 2)]
EPS = [F(1, 2 ** 30), F(1, 2 ** 40), F(1, 2 ** 45)]


# ---------------------------------------------------------------- encoding
def enc(x):
    if isinstance(x, bool) or x is None or isinstance(x, (int, str)):
        return x
    if isinstance(x, float):
        return {"f": x.hex()}
    if isinstance(x, Fraction):
        return {"q": f"{x.numerator}/{x.denominator}"}
    if isinstance(x, (tuple, list)):
        return [enc(v) for v in x]
    raise TypeError(type(x))


def dec(x):
    if isinstance(x, dict) and "f" in x:
        return float.fromhex(x["f"])
    if isinstance(x, dict) and "q" in x:
        return Fraction(x["q"])
    if isinstance(x, list):
        return tuple(dec(v) for v in x)
    return x


def cres(f, call):
    """Run call(); render Ok/Err as Coq text (f renders the value)."""
    import numpy as np
    try:
        v = call()
    except np.linalg.LinAlgError:           # a ValueError subclass: must come first
        return "(Err EOther)", "LinAlgError"
    except ValueError:
        return "(Err EValue)", "ValueError"
    except AssertionError:
        return "(Err (EAssert 0))", "AssertionError"
    except ZeroDivisionError:
        return "(Err EOther)", "ZeroDivisionError"
    return f"(Ok {f(v)})", "ok"


def cqz(v):
    return ctuple(cq(F(v[0])), cz(int(v[1])))


def cqq(v):
    return ctuple(cq(F(v[0])), cq(F(v[1])))


def caff(A):
    a, b, c, d, e, f = list(A)[:6]
    return "(mkAff " + " ".join(cq(F(v)) for v in (a, b, c, d, e, f)) + ")"


def cmat(m):
    return "(mkM " + " ".join(cq(F(float(v))) for v in (m[0][0], m[0][1], m[1][0], m[1][1])) + ")"


def cbin(b):
    return f"(mkBin {cq(F(b.sz))} {cq(F(b.origin))} {cz(b.direction)})"


def coq_opt_q(x):
    return "None" if x is None else f"(Some {cq(F(x))})"


# ---------------------------------------------------------------- input domains
def near_int(rng, tol) -> float:
    """A float at / just inside / just outside distance tol (or 1/2) of an integer."""
    n = rng.choice([0, 0, 1, -1, 2, -3, 7, 37, -129, 1000, -4096, 12345, 2 ** 20, -(2 ** 20) - 1])
    e = rng.choice(EPS)
    t = abs(tol)
    d = rng.choice([F(0), t, -t, t + e, t - e, -(t + e), -(t - e), F(1, 2), F(-1, 2), F(1, 2) + e, F(1, 2) - e,
                    -(F(1, 2) + e), -(F(1, 2) - e), F(rng.randint(-255, 255), 256), F(rng.randint(-2 ** 20, 2 ** 20), 2 ** 20),
                    e, -e])
    return float(n + d)


def rand_res(rng, allow_zero=True) -> float:
    if allow_zero and rng.random() < 0.03:
        return rng.choice([0.0, -0.0])
    m = rng.choice([1, 1, 1, 1, 3, 5, 10, 15, 30, 25, 100])
    j = rng.randint(-12, 8)
    return float(rng.choice([1, -1]) * m * F(2) ** j)


def near_count_case(rng):
    """(x0, x1, res, off_pix, tol): the span is a whole number of pixels k plus/minus eps, eps on both sides of
    tol (and 0), for both signs of the resolution, snapping and floating; all quantities dyadic so that the float
    arithmetic of the code is exact"""
    j = rng.randint(-6, 4)
    m = rng.choice([1, 1, 1, 3, 5])
    res = float(rng.choice([1, -1]) * m * F(2) ** j)
    a = abs(F(res))
    tol = rng.choice([F(1, 128), F(1, 128), F(1, 128), F(1, 4), F(1, 2 ** 20), F(0.01), F(1e-6), F(0)])
    e = rng.choice([F(1, 2 ** 20), F(1, 2 ** 24), F(1, 2 ** 30)])
    eps = rng.choice([e, -e, tol - e, -(tol - e), tol, -tol, tol + e, -(tol + e), tol / 2, -tol / 2, F(0)])
    k = rng.choice([1, 1, 2, 3, 6, 7, 30, 1000, 4096])
    off = rng.choice([None, None, None, 0, 0.5, 0.25])
    o = F(0) if off is None else F(off)
    q0 = F(rng.choice([0, 1, -3, 37, -129, 1001])) + rng.choice([F(0), F(0), e, -e, F(1, 4), F(-3, 8), tol / 2])
    if off is None and rng.random() < 0.5:
        q0 = F(rng.randint(-2 ** 16, 2 ** 16), 2 ** 10)            # floating: any origin
    x0 = float((q0 + o) * a)
    x1 = float(F(x0) + (k + eps) * a)
    return x0, x1, res, off, float(tol)


def grid_case(rng):
    """(x0, x1, res, off_pix, tol): one-axis snapping input of the exactness domain."""
    res = rand_res(rng)
    a = abs(F(res)) if res != 0 else F(1)
    tol = rng.choice(TOLS[:9] + [F(1, 128), F(0.01), F(0.01)])
    off = rng.choice([None, None, 0, 0, 0.5, 0.5, 0.25, 0.375, 0.75, float(F(1, 3)), 1 - 2.0 ** -30, 1, -0.25, 1.5, 2.0 ** -20])
    o = F(off) if off is not None and 0 <= off < 1 else F(0)
    q0 = F(near_int(rng, tol))
    mode = rng.random()
    if mode < 0.12:
        span = F(0)
    elif mode < 0.3:
        span = rng.choice([F(1, 128), F(1, 2), F(1), abs(tol), abs(tol) + EPS[0], 2 * abs(tol), F(3, 4), F(1) - abs(tol), F(1) + abs(tol)])
    elif mode < 0.8:
        span = F(near_int(rng, tol)) - q0 + rng.choice([0, 1, 2, 5, 100, 10 ** 4, 10 ** 6])
    else:
        span = F(rng.randint(1, 2 ** 24), 2 ** rng.randint(0, 12))
    if span < 0 and rng.random() < 0.8:
        span = -span
    x0 = float((q0 + o) * a)
    x1 = float((q0 + o + span) * a)
    return x0, x1, res, off, float(tol)


# ---------------------------------------------------------------- correspondence cases
def gen_cases(out, tier):
    import numpy as np
    from affine import Affine
    from odc.geo import math as M
    from odc.geo.types import resxy_

    rng = core.rng("c20")
    cases: list[str] = []
    kept: dict[str, list] = {"grid": [], "scale": [], "affine": [], "bin": []}
    mult = 1 if tier == "quick" else 12

    def add(kind, text, canon, nontrivial=True, sample=None):
        cases.append(text)
        out.count(kind)
        out.case((kind, canon), nontrivial, sample)

    def exact(kind, fn, *args, **kw):
        if exactf.is_exact(fn, *args, **kw):
            return True
        out.count("escape:" + kind)
        return False

    # corpus first
    for rp in core.corpus(ID):
        if rp.get("predicate") == "pow2":
            x = int(rp["args"][0])
            add("pow2", f"CPow2 {cz(x)} {cz(M.align_up_pow2(x))} {cz(M.align_down_pow2(x))}", x)

    # --- scalar helpers
    for _ in range(250 * mult):
        tol = rng.choice(TOLS)
        x = near_int(rng, tol)
        ftol = float(tol)
        if exact("split", M.split_float, x):
            w, p = M.split_float(x)
            add("split", f"CSplit {cq(F(x))} {cq(F(w))} {cq(F(p))}", x, True,
                {"op": "split_float", "x": x, "result": [w, p]})
        if exact("maybe_int", M.maybe_int, x, ftol):
            r = M.maybe_int(x, ftol)
            snapped = r if isinstance(r, int) else None
            assert snapped is not None or r == x
            add("maybe_int:" + ("int" if snapped is not None else "same"),
                f"CMaybeInt {cq(F(x))} {cq(tol)} {copt(snapped)}", (x, ftol), True,
                {"op": "maybe_int", "x": x, "tol": ftol, "result": r})
        if exact("almost", M.is_almost_int, x, ftol):
            r = M.is_almost_int(x, ftol)
            add(f"almost_int:{r}", f"CAlmostInt {cq(F(x))} {cq(tol)} {cbool(r)}", (x, ftol))
        z = float(F(x) - round(F(x)))
        add("maybe_zero", f"CMaybeZero {cq(F(z))} {cq(tol)} {cq(F(M.maybe_zero(z, ftol)))}", (z, ftol))
        lo, up = sorted([near_int(rng, tol), near_int(rng, tol)])
        if rng.random() < 0.1:
            lo, up = up, lo
        xx = rng.choice([x, lo, up, lo - 1, up + 1])
        t, kind = cres(lambda v: cq(F(v)), lambda: M.clamp(xx, lo, up))
        add("clamp:" + kind, f"CClamp {cq(F(xx))} {cq(F(lo))} {cq(F(up))} {t}", (xx, lo, up))
    for _ in range(80):
        lo, up, x = rng.randint(-5, 5), rng.randint(-5, 5), rng.randint(-8, 8)
        t, kind = cres(cz, lambda: M.clamp(x, lo, up))
        add("clampZ:" + kind, f"CClampZ {cz(x)} {cz(lo)} {cz(up)} {t}", (x, lo, up))

    # --- snap_scale
    for i in range(300 * mult):
        tol = rng.choice(TOLS)
        ftol = float(tol)
        mode = rng.random()
        if mode < 0.45:
            s = near_int(rng, tol)
        elif mode < 0.7:
            s = rng.choice([1, -1]) * 2.0 ** -rng.randint(0, 24)
        elif mode < 0.85:
            e = rng.choice(EPS)
            s = float(rng.choice([1, -1]) * rng.choice([1 - tol, 1 - tol - e, 1 - tol + e, tol, tol - e, tol + e, F(0), e]))
        else:
            s = float(F(rng.randint(-2 ** 12, 2 ** 12), 2 ** 12))
        use_default = i % 10 == 0
        call = (lambda: M.snap_scale(s)) if use_default else (lambda: M.snap_scale(s, ftol))
        if use_default:
            tol, ftol = F(1e-6), 1e-6
        if not exact("snap_scale", M.snap_scale, s, ftol):
            continue
        t, kind = cres(lambda v: cq(F(v)), call)
        add("snap_scale:" + kind, f"CSnapScale {cq(F(s))} {cq(tol)} {t}", (s, ftol), True,
            {"op": "snap_scale", "s": s, "tol": ftol, "result": t} if i < 3 else None)
        kept["scale"].append((s, ftol))

    # --- integer alignment
    for x in list(range(-20, 40)) + [2 ** 40 + 3, -(2 ** 40) - 3, 2 ** 70 + 1]:
        for a in (1, 2, 3, 8, 16, 1000):
            add("align", f"CAlignDU {cz(x)} {cz(a)} {cz(M.align_down(x, a))} {cz(M.align_up(x, a))}", (x, a))
    xs = list(range(-3, 70))
    for k in list(range(5, 80)) + [100, 200]:
        xs += [2 ** k - 1, 2 ** k, 2 ** k + 1]
    xs += [rng.randint(1, 2 ** 64) for _ in range(60)]
    for x in xs:
        add("pow2", f"CPow2 {cz(x)} {cz(M.align_up_pow2(x))} {cz(M.align_down_pow2(x))}", x)

    # --- one axis snapping
    for i in range(1250 * mult):
        x0, x1, res, off, tol = grid_case(rng) if i % 25 < 18 else near_count_case(rng)
        which = i % 5
        if which == 0:
            if not exact("snap_edge", M._snap_edge, x0, x1, res, tol):
                continue
            t, kind = cres(cqz, lambda: M._snap_edge(x0, x1, res, tol))
            add("snap_edge:" + kind, f"CSnapEdge {cq(F(x0))} {cq(F(x1))} {cq(F(res))} {cq(F(tol))} {t}", (x0, x1, res, tol))
        elif which == 1:
            if not exact("snap_edge_pos", M._snap_edge_pos, x0, x1, res, tol):
                continue
            t, kind = cres(cqz, lambda: M._snap_edge_pos(x0, x1, res, tol))
            add("snap_edge_pos:" + kind, f"CSnapEdgePos {cq(F(x0))} {cq(F(x1))} {cq(F(res))} {cq(F(tol))} {t}", (x0, x1, res, tol))
        else:
            dflt = i % 35 == 2
            if dflt:
                off, tol = 0, 1e-6
            if not exact("snap_grid", M.snap_grid, x0, x1, res, off, tol):
                continue
            t, kind = cres(cqz, (lambda: M.snap_grid(x0, x1, res)) if dflt else (lambda: M.snap_grid(x0, x1, res, off, tol)))
            sign = "zero" if res == 0 else ("pos" if res > 0 else "neg")
            add(f"snap_grid:{kind}:{sign}:{'float' if off is None else 'snap'}",
                f"CSnapGrid {cq(F(x0))} {cq(F(x1))} {cq(F(res))} {coq_opt_q(off)} {cq(F(tol))} {t}",
                (x0, x1, res, off, tol), True,
                {"op": "snap_grid", "x0": x0, "x1": x1, "res": res, "off_pix": off, "tol": tol, "result": t} if i < 12 else None)
            kept["grid"].append((x0, x1, res, off, tol))

    # --- affine snapping
    for i in range(200 * mult):
        ttol, stol, tol = rng.choice([(1e-3, 1e-6, 1e-8), (2.0 ** -10, 2.0 ** -20, 2.0 ** -27), (0.25, 2.0 ** -7, 0.0),
                                      (2.0 ** -7, 2.0 ** -7, -1.0)])
        e = float(rng.choice(EPS))
        up, dn = (math.nextafter(tol, 1), math.nextafter(tol, -1)) if tol != 0 else (2.0 ** -60, -(2.0 ** -60))   # no denormals: 1000-bit literals are slow to parse
        wset = [0.0, 0.0, 0.0, tol, -tol, up, -up, dn, tol / 2, 0.5, -2.0, e * 2.0 ** -10]
        wx, wy = rng.choice(wset), rng.choice(wset)

        def sc():
            r = rng.random()
            if r < 0.5:
                return near_int(rng, F(stol))
            if r < 0.85:
                return rng.choice([1, -1]) * 2.0 ** -rng.randint(0, 12)
            return float(F(rng.randint(-2 ** 12, 2 ** 12), 2 ** 12))

        sx, sy, tx, ty = sc(), sc(), near_int(rng, F(ttol)), near_int(rng, F(ttol))
        A = Affine(sx, wx, tx, wy, sy, ty)
        if not (exact("snap_affine", M.snap_scale, sx, stol) and exact("snap_affine", M.snap_scale, sy, stol)
                and exact("snap_affine", M.maybe_int, tx, ttol) and exact("snap_affine", M.maybe_int, ty, ttol)):
            continue
        dflt = i % 7 == 0
        if dflt:
            ttol, stol, tol = 1e-3, 1e-6, 1e-8
            if not (exactf.is_exact(M.snap_scale, sx, stol) and exactf.is_exact(M.snap_scale, sy, stol)):
                continue
        t, kind = cres(caff, (lambda: M.snap_affine(A)) if dflt else (lambda: M.snap_affine(A, ttol, stol, tol)))
        rot = abs(wx) > tol or abs(wy) > tol
        add(f"snap_affine:{kind}:{'rotated' if rot else 'st'}",
            f"CSnapAffine {caff(A)} {cq(F(ttol))} {cq(F(stol))} {cq(F(tol))} {t}", (tuple(A)[:6], ttol, stol, tol))
        kept["affine"].append((tuple(A)[:6], ttol, stol, tol))
        st_tol = rng.choice([1e-10, tol, 2.0 ** -27])
        r = M.is_affine_st(A) if st_tol == 1e-10 else M.is_affine_st(A, st_tol)
        add(f"is_affine_st:{r}", f"CIsSt {caff(A)} {cq(F(st_tol))} {cbool(r)}", (tuple(A)[:6], st_tol))

    # --- axis labels (numpy float64 arithmetic; representability checked with Fractions)
    def axis(n):
        r = F(rand_res(rng, allow_zero=False))
        c0 = F(rng.randint(-2 ** 16, 2 ** 16), 2 ** rng.randint(0, 6)) * abs(r)
        vals = [c0 + i * r for i in range(n)]
        if n >= 3 and rng.random() < 0.3:       # irregular: only first/last matter
            vals[1] = vals[1] + abs(r) / 4
        return vals

    def axis_exact(vals, fb):
        if not vals:
            return True
        if len(vals) >= 2:
            rr = (vals[-1] - vals[0]) / (len(vals) - 1)
        elif fb is not None:
            rr = F(fb)
        else:
            return True
        return all(exactf.isrep(v) for v in vals) and exactf.isrep(rr) and exactf.isrep(rr / 2) and exactf.isrep(vals[0] - rr / 2)

    for i in range(100 * mult):
        n = rng.choice([0, 1, 1, 2, 2, 3, 4, 5, 9, 17, 33])
        vals = axis(n)
        fb = rng.choice([None, None, 0.5, -30.0, 7.0])
        if not axis_exact(vals, fb):
            out.count("escape:data_res")
            continue
        arr = np.asarray([float(v) for v in vals], dtype="float64")
        t, kind = cres(cqq, lambda: M.data_resolution_and_offset(arr, fb))
        add("data_res:" + kind, f"CDataRes {clist(vals, cq)} {coq_opt_q(fb)} {t}", (tuple(vals), fb))
        ny = rng.choice([0, 1, 2, 3, 6])
        yv = axis(ny)
        fres = rng.choice([None, None, 10.0, -0.25, resxy_(0.5, -0.25), resxy_(3.0, 3.0)])
        if fres is None:
            fbx = fby = None
            cf = "None"
        elif isinstance(fres, float):
            fbx, fby = fres, -fres
            cf = f"(Some (RScalar {cq(F(fres))}))"
        else:
            fbx, fby = fres.x, fres.y
            cf = f"(Some (RXY {cq(F(fres.x))} {cq(F(fres.y))}))"
        if not (axis_exact(vals, fbx) and axis_exact(yv, fby)):
            out.count("escape:axis")
            continue
        yarr = np.asarray([float(v) for v in yv], dtype="float64")
        t, kind = cres(caff, lambda: M.affine_from_axis(arr, yarr, fres))
        add("axis:" + kind, f"CAxis {clist(vals, cq)} {clist(yv, cq)} {cf} {t}", (tuple(vals), tuple(yv), str(fres)))

    # --- Bin1D
    for i in range(200 * mult):
        sz = abs(rand_res(rng, allow_zero=False)) if rng.random() < 0.93 else rng.choice([0.0, -1.0])
        a = F(sz) if sz > 0 else F(1)
        origin = float(F(rng.randint(-2 ** 12, 2 ** 12), 2 ** rng.randint(0, 4)) * a)
        d = rng.choice([1, 1, -1, -1, -1, 0, 2]) if rng.random() < 0.1 else rng.choice([1, -1])
        t, kind = cres(cbin, lambda: M.Bin1D(sz, origin, d))
        add("bin_new:" + kind, f"CBinNew {cq(F(sz))} {cq(F(origin))} {cz(d)} {t}", (sz, origin, d))
        if kind != "ok":
            continue
        b = M.Bin1D(sz, origin, d)
        idx = rng.choice([0, 1, -1, 2, -7, 100, -1000, rng.randint(-10 ** 5, 10 ** 5)])
        frac = rng.choice([F(0), F(0), F(1, 2), F(1, 2 ** 20), 1 - F(1, 2 ** 20), -F(1, 2 ** 20), F(rng.randint(0, 255), 256)])
        x = float(F(origin) + (idx + frac) * a)
        if exact("bin", lambda s, o, i_, x_: (M.Bin1D(s, o, d)[i_], M.Bin1D(s, o, d).bin(x_)), sz, origin, idx, x):
            g = b[idx]
            add("bin_get", f"CBinGet {cq(F(sz))} {cq(F(origin))} {cz(d)} {cz(idx)} {cqq(g)}", (sz, origin, d, idx))
            add("bin_bin", f"CBinBin {cq(F(sz))} {cq(F(origin))} {cz(d)} {cq(F(x))} {cz(b.bin(x))}", (sz, origin, d, x), True,
                {"op": "Bin1D.bin", "sz": sz, "origin": origin, "direction": d, "x": x, "result": b.bin(x)} if i < 3 else None)
            kept["bin"].append((sz, origin, d, idx, x))
        x0 = float(F(origin) + idx * a)
        x1 = x0 + float(a * rng.choice([1, 1, 1, 0, -1, F(1, 2)]))
        dd = rng.choice([1, -1])
        if exact("bin_sample", lambda p, q: M.Bin1D.from_sample_bin(idx, (p, q), dd), x0, x1):
            t, kind = cres(cbin, lambda: M.Bin1D.from_sample_bin(idx, (x0, x1), dd))
            add("bin_sample:" + kind, f"CBinSample {cz(idx)} {cq(F(x0))} {cq(F(x1))} {cz(dd)} {t}", (idx, x0, x1, dd))

    # --- decompose_rws / resolution_from_affine: right-angle rotations, power-of-two scales, dyadic shear
    rots = [((1, 0), (0, 1)), ((0, -1), (1, 0)), ((-1, 0), (0, -1)), ((0, 1), (-1, 0))]
    for i in range(80 * mult):
        (ra, rb), (rc, rd) = rng.choice(rots)
        sx = rng.choice([1, -1]) * F(2) ** rng.randint(-6, 6)
        sy = rng.choice([1, -1]) * F(2) ** rng.randint(-6, 6)
        w = rng.choice([F(0), F(0), F(1, 4), F(-1, 2), F(3, 8), F(2)])
        if rng.random() < 0.08:
            sy = F(0)
        # A = R * W * S
        ws = ((sx, w * sy), (F(0), sy))
        A = [[ra * ws[0][0] + rb * ws[1][0], ra * ws[0][1] + rb * ws[1][1]],
             [rc * ws[0][0] + rd * ws[1][0], rc * ws[0][1] + rd * ws[1][1]]]
        arr = np.asarray([[float(v) for v in row] for row in A], dtype="float64")
        t, kind = cres(lambda v: ctuple(ctuple(cmat(v[0]), cmat(v[1])), cmat(v[2])), lambda: M.decompose_rws(arr.copy()))
        add("rws:" + kind, f"CRws {cmat(arr)} {t}", tuple(map(tuple, A)))
        tx, ty = float(rng.randint(-100, 100)), float(rng.randint(-100, 100))
        Af = Affine(float(A[0][0]), float(A[0][1]), tx, float(A[1][0]), float(A[1][1]), ty)
        t, kind = cres(lambda v: cqq(v.xy), lambda: M.resolution_from_affine(Af))
        add("res_from_affine:" + kind, f"CResAff {caff(Af)} {cq(F(1e-10))} {t}", tuple(Af)[:6])
    return cases, kept


# ---------------------------------------------------------------- property predicates on the implementation
def p_split(x):
    from odc.geo.math import split_float
    w, p = split_float(x)
    ok = F(w) + F(p) == F(x) and F(-1, 2) <= F(p) <= F(1, 2) and F(w).denominator == 1
    return ok, f"split_float({x!r}) = ({w!r}, {p!r})"


def p_near_int(x, tol):
    from odc.geo.math import is_almost_int, maybe_int
    r = maybe_int(x, tol)
    ia = is_almost_int(x, tol)
    dist = abs(F(x) - round(F(x)))
    ok = isinstance(ia, bool) and ia == (dist < F(tol)) and isinstance(r, int) == ia
    if isinstance(r, int):
        ok = ok and abs(F(x) - r) == dist
    else:
        ok = ok and r == x
    return ok, f"maybe_int={r!r} is_almost_int={ia} dist={float(dist)!r} tol={tol!r}"


def p_nonfinite(x):
    from odc.geo.math import is_almost_int, maybe_int, split_float
    w, p = split_float(x)
    r = maybe_int(x, 1e-6)
    same = lambda a, b: (a != a and b != b) or a == b
    ok = same(w, x) and p == 0 and same(r, x) and is_almost_int(x, 1e-6) is False
    return ok, f"split_float={w, p} maybe_int={r} is_almost_int={is_almost_int(x, 1e-6)}"


def p_snap_scale(s, tol):
    """changes within tol (to an integer, or 1/integer via the float reciprocal), idempotent"""
    from odc.geo.math import snap_scale
    if tol <= 0:
        return True, "outside the property's domain (tolerance must be positive)"
    r = snap_scale(s, tol)
    detail = f"snap_scale({s!r}, {tol!r}) = {r!r}"
    ok = True
    if isinstance(r, int):
        ok = abs(F(s) - r) < F(tol)
    elif r != s:
        n = round(1 / F(r))
        ok = n != 0 and r == 1 / n and abs(F(1 / s) - n) < F(tol)
    elif abs(F(s)) >= 1 - F(tol):
        ok = not abs(F(s) - round(F(s))) < F(tol)       # a near-integer scale must have been snapped
    elif abs(F(s)) >= F(tol):
        si = F(1 / s)                                    # the float reciprocal the code looks at
        if abs(si - round(si)) < F(tol):                 # 1/s near an integer: must have been snapped to 1/n
            ok = round(si) != 0 and r == 1 / round(si)
    if ok and 0 < tol < 0.5:
        r2 = snap_scale(r, tol)
        ok = r2 == r
        detail += f", applied again: {r2!r}"
    return ok, detail


def p_align(x, a):
    from odc.geo.math import align_down, align_up
    d, u = align_down(x, a), align_up(x, a)
    ok = d % a == 0 and d <= x and x - d < a and u % a == 0 and u >= x and u - x < a
    return ok, f"align_down({x},{a})={d} align_up={u}"


def p_pow2(x):
    from odc.geo.math import align_down_pow2, align_up_pow2
    u, d = align_up_pow2(x), align_down_pow2(x)
    ispow = lambda y: isinstance(y, int) and y >= 1 and y & (y - 1) == 0
    ok = ispow(u) and u >= x and (u == 1 or u // 2 < x)
    if x >= 1:
        ok = ok and ispow(d) and d <= x and 2 * d > x
    return ok, f"align_up_pow2({x})={u} align_down_pow2={d}"


def p_clamp(x, lo, up):
    from odc.geo.math import clamp
    r = clamp(x, lo, up)
    ok = lo <= r <= up and (r == x if lo <= x <= up else r in (lo, up))
    return ok, f"clamp({x},{lo},{up})={r}"


def p_snap_grid(x0, x1, res, off, tol):
    """covering up to tol, alignment, minimality; inputs of the exactness domain"""
    from odc.geo.math import snap_grid
    if res == 0 or x1 < x0 or tol < 0 or (off is not None and not 0 <= off < 1):
        return True, "outside the property's domain"
    tx, nx = snap_grid(x0, x1, res, off, tol)
    a, t = abs(F(res)), F(tol)
    lo = F(tx) if res > 0 else F(tx) + nx * F(res)
    hi = lo + nx * a
    ok = isinstance(nx, int) and nx >= 1
    ok = ok and lo <= F(x0) + t * a and F(x1) - t * a <= hi          # covers up to tol
    if off is None:
        # floating: starts exactly at x0 (res>0) / x1 (res<0); the far side exceeds by at most one pixel
        ok = ok and F(tx) == (F(x0) if res > 0 else F(x1))
        far = hi - F(x1) if res > 0 else F(x0) - lo
        ok = ok and far <= a and (x0 == x1 or far < a)
        if nx >= 2 and t <= F(1, 2):
            ok = ok and (nx - 1) * a <= F(x1) - F(x0) - t * a            # minimal count: nx-1 pixels would not cover up to tol
    else:
        ok = ok and F(x0) - lo < a                                    # minimal on the low side
        ok = ok and hi - F(x1) <= (1 + t) * a and (x0 == x1 or hi - F(x1) < (1 + t) * a)
        if nx >= 2:
            ok = ok and hi - F(x1) < a
        ok = ok and (F(tx) / a - F(off)).denominator == 1             # aligned to the pixel fraction
        if t <= F(1, 2):                                              # minimal count among aligned grids covering up to tol
            ok = ok and F(x0) + t * a <= lo + a                       # cannot start one pixel later
            if nx >= 2:
                ok = ok and hi - a <= F(x1) - t * a                   # cannot end one pixel earlier
    return ok, f"snap_grid -> tx={tx!r} nx={nx} lo={float(lo)!r} hi={float(hi)!r}"


def ref_snap_scale(s, tol):
    """independent reference for snap_scale (0 < tol < 1/2), exact Fractions; the only float step is the reciprocal
    the contract is stated on: nearest integer if within tol (|s| >= 1 - tol), 1/n if 1/s is within tol of n, else s"""
    fs, t = F(s), F(tol)
    if abs(fs) >= 1 - t:
        n = round(fs)
        return float(n) if abs(fs - n) < t else s
    if abs(fs) < t:
        return s
    si = F(1 / s)
    n = round(si)
    return 1 / n if abs(si - n) < t else s


def ref_maybe_int(x, tol):
    """independent reference for maybe_int (0 < tol < 1/2): the nearest integer if strictly within tol, else x"""
    n = round(F(x))
    return float(n) if abs(F(x) - n) < F(tol) else x


def p_snap_affine(A6, ttol, stol, tol):
    """rotated input untouched; otherwise EACH coefficient snapped with its OWN tolerance (x and y scale: stol,
    translations: ttol, off-diagonal terms zeroed when <= tol); idempotent"""
    from affine import Affine
    from odc.geo.math import snap_affine
    A = Affine(*A6)
    B = snap_affine(A, ttol, stol, tol)
    sx, wx, tx, wy, sy, ty = A6
    detail = f"snap_affine -> {tuple(B)[:6]}"
    if abs(wx) > tol or abs(wy) > tol:
        return tuple(B)[:6] == tuple(A6), detail + " (rotated input must be returned unchanged)"
    b = tuple(B)[:6]
    ok = b[1] == 0 and b[3] == 0
    if ttol > 0:
        ok = ok and abs(F(b[2]) - F(tx)) < F(ttol) and abs(F(b[5]) - F(ty)) < F(ttol)
        ok = ok and (b[2] == tx or F(b[2]).denominator == 1) and (b[5] == ty or F(b[5]).denominator == 1)
    if 0 < ttol < 0.5 and 0 < stol < 0.5:
        want = (ref_snap_scale(sx, stol), 0.0, ref_maybe_int(tx, ttol), 0.0, ref_snap_scale(sy, stol), ref_maybe_int(ty, ttol))
        ok = ok and b == want
        detail += f", expected {want} (scales within stol={stol!r}, translations within ttol={ttol!r})"
    if ok and ttol > 0 and 0 < stol < 0.5:
        B2 = snap_affine(B, ttol, stol, tol)
        ok = tuple(B2)[:6] == b
        detail += f", applied again: {tuple(B2)[:6]}"
    return ok, detail


def rand_st_affine(rng):
    """unrotated affine whose x scale, y scale and translations are perturbed INDEPENDENTLY, at magnitudes below
    stol, between stol and ttol, and above ttol; (A6, ttol, stol, tol)"""
    ttol, stol, tol = rng.choice([(1e-3, 1e-6, 1e-8), (1e-3, 1e-6, 1e-8), (2.0 ** -10, 2.0 ** -20, 2.0 ** -27), (0.01, 1e-4, 1e-10)])

    def delta():
        lo, hi = stol, ttol
        return rng.choice([1, -1]) * rng.choice([0.0, lo / 4, lo * 0.9, lo * 1.1, (lo * hi) ** 0.5, 2.0 ** -12, 2.0 ** -15, hi * 0.4, hi * 0.9, hi * 1.1, hi * 7, 0.3])

    def scale():
        n = rng.choice([1, 1, 2, 3, 5, 10, 30, 256]) * rng.choice([1, -1])
        v = n + delta()
        return float(v) if rng.random() < 0.6 else float(1 / v)

    def trans():
        return float(rng.choice([0, 1, -7, 100, 4096, -123456]) + delta())

    w = rng.choice([0.0, 0.0, 0.0, tol / 2, -tol / 2])
    return (scale(), w, trans(), rng.choice([0.0, 0.0, -tol / 3]), scale(), trans()), ttol, stol, tol


def p_bin(sz, origin, d, idx, x):
    from odc.geo.math import Bin1D
    b = Bin1D(sz, origin, d)
    i = b.bin(x)
    lo, hi = b[i]
    ok = isinstance(i, int) and F(lo) <= F(x) < F(hi)
    for j in (i - 1, i + 1, idx):
        if j != i:
            l2, h2 = b[j]
            ok = ok and not (F(l2) <= F(x) < F(h2))
    l0, h0 = b[idx]
    l1, _ = b[idx + d]
    ok = ok and F(h0) == F(l1) and F(h0) - F(l0) == F(sz)               # consecutive bins share an edge
    b2 = Bin1D.from_sample_bin(idx, (l0, h0), d)
    ok = ok and b2 == b and b2[idx] == (l0, h0) and b2.bin(x) == i
    return ok, f"bin({x!r})={i} interval={lo, hi} from_sample_bin={b2.sz, b2.origin, b2.direction}"


def p_axis(c0, r, n, c1, r1, m):
    import numpy as np
    from odc.geo.math import affine_from_axis
    xx = np.asarray([c0 + i * r for i in range(n)])
    yy = np.asarray([c1 + i * r1 for i in range(m)])
    A = affine_from_axis(xx, yy)
    ok = True
    for i in (0, n - 1, n // 2):
        for j in (0, m - 1):
            px, py = A * (i + 0.5, j + 0.5)
            ok = ok and px == xx[i] and py == yy[j]
    return ok, f"affine_from_axis -> {tuple(A)[:6]}"


def _labels(c0, r, n):
    return [F(c0) + i * F(r) for i in range(n)]


INT_DTYPES = {"uint8": (0, 255), "uint16": (0, 65535), "int8": (-128, 127), "int16": (-32768, 32767), "int32": (-2 ** 31, 2 ** 31 - 1),
              "uint32": (0, 2 ** 32 - 1), "int64": (-2 ** 40, 2 ** 40)}     # int64: only labels (and half-pixel offsets) that binary64 holds exactly


def _label_array(lab, dtype):
    """the labels as a numpy array of the requested dtype (None: float64); None when they do not fit"""
    import numpy as np
    if dtype is None:
        return np.asarray([float(v) for v in lab])
    lo, hi = INT_DTYPES[dtype]
    if any(v.denominator != 1 or not lo <= v <= hi for v in lab):
        return None
    return np.asarray([int(v) for v in lab], dtype=dtype)


def _fallback(fb):
    """fb: None | float (scalar: x = s, y = -s) | ("xy", fx, fy) -> (argument for the call, (fx, fy) as Fractions)"""
    from odc.geo import resxy_
    if fb is None:
        return None, (None, None)
    if isinstance(fb, (tuple, list)):
        return resxy_(fb[1], fb[2]), (F(fb[1]), F(fb[2]))
    return fb, (F(fb), -F(fb))


def p_axis_fb(c0, r, n, c1, r1, m, fb, dtx=None, dty=None):
    """affine_from_axis with a fallback_resolution that may DISAGREE with the label spacing: pixel centre k must map to
    label k on every axis (exact Fractions); the pixel size is the label spacing for an axis with >= 2 labels and the
    fallback component only for a single-label axis; a single label without fallback raises ValueError"""
    import numpy as np
    from odc.geo.math import affine_from_axis
    lx, ly = _labels(c0, r, n), _labels(c1, r1, m)
    xx, yy = _label_array(lx, dtx), _label_array(ly, dty)        # float64 or integer labels (signed / unsigned, narrow)
    if xx is None or yy is None:
        return True, "outside the domain (labels do not fit the drawn integer dtype)"
    arg, (fx, fy) = _fallback(fb)
    if (n == 1 or m == 1) and fb is None:
        try:
            A = affine_from_axis(xx, yy)
        except ValueError:
            return True, "ValueError as documented"
        return False, f"single-label axis without fallback did not raise: {tuple(A)[:6]}"
    A = affine_from_axis(xx, yy, arg)
    want_rx = F(r) if n >= 2 else fx
    want_ry = F(r1) if m >= 2 else fy
    ok = (F(A.a), F(A.e)) == (want_rx, want_ry) and A.b == 0 and A.d == 0
    for i in range(n):
        ok = ok and F(A.c) + (F(i) + F(1, 2)) * F(A.a) == lx[i]
    for j in range(m):
        ok = ok and F(A.f) + (F(j) + F(1, 2)) * F(A.e) == ly[j]
    return ok, f"affine_from_axis({n} {dtx or 'float64'} x-labels from {c0!r} step {r!r}, {m} {dty or 'float64'} y-labels from {c1!r} step {r1!r}, fallback={fb!r}) -> {tuple(A)[:6]}"


def p_data_res(c0, r, n, fb, dtype=None):
    """data_resolution_and_offset on n regular labels: (spacing, first - spacing/2); the fallback counts only for n == 1"""
    import numpy as np
    from odc.geo.math import data_resolution_and_offset
    lab = _labels(c0, r, n)
    arr = _label_array(lab, dtype)
    if arr is None:
        return True, "outside the domain (labels do not fit the drawn integer dtype)"
    if n == 0 or (n == 1 and fb is None):
        try:
            got = data_resolution_and_offset(arr, fb)
        except ValueError:
            return True, "ValueError as documented"
        return False, f"did not raise: {got}"
    res, off = data_resolution_and_offset(arr, fb)
    want = F(r) if n >= 2 else F(fb)
    ok = F(res) == want and F(off) == lab[0] - want / 2
    ok = ok and isinstance(res, float) and isinstance(off, float)
    return ok, f"data_resolution_and_offset({n} {dtype or 'float64'} labels from {c0!r} step {r!r}, fallback {fb!r}) = {(res, off)}"


def p_res_from_affine(A6):
    """resolution_from_affine: the diagonal for scale+translation transforms; otherwise the scale S of A = R W S
    (R proper rotation, W unit upper triangular): sx = |first column|, sy = det / sx -- NOT the length of the second
    column, which differs as soon as there is shear.  Reference computed here with math.hypot, relative 1e-9."""
    from affine import Affine
    from odc.geo.math import resolution_from_affine
    a, b, c, d, e, f = A6
    r = resolution_from_affine(Affine(*A6))
    if abs(b) < 1e-10 and abs(d) < 1e-10:
        want = (a, e)
    else:
        sx = math.hypot(a, d)
        want = (sx, (a * e - b * d) / sx)
    ok = abs(r.x - want[0]) <= 1e-9 * (1 + abs(want[0])) and abs(r.y - want[1]) <= 1e-9 * (1 + abs(want[1]))
    return ok, f"resolution_from_affine{tuple(A6)} = {(r.x, r.y)}, scale of the R*W*S decomposition {want}"


REPRS = ("int", "int64", "int32", "float", "float32", "float64")


def _conv(v, rep):
    """the exactly representable float v in the requested representation, or None when it does not fit"""
    import numpy as np
    if rep in ("int", "int64", "int32"):
        if F(v).denominator != 1 or (rep == "int32" and abs(v) >= 2 ** 31):
            return None
        return {"int": int, "int64": np.int64, "int32": np.int32}[rep](int(v))
    if rep == "float32":
        return np.float32(v) if float(np.float32(v)) == v else None
    return float(v) if rep == "float" else np.float64(v)


def p_from_pts_repr(A6, pts, xrep, yrep, seq):
    """affine_from_pts must reproduce an exact affine mapping whatever the REPRESENTATION of its inputs: Python ints,
    numpy ints, float32, float64, sources and targets independently, lists or tuples.  The mapping is built with
    Fractions; all sources and targets are exactly representable in the representation drawn for them."""
    import numpy as np
    from odc.geo import xy_
    from odc.geo.math import affine_from_pts
    a, b, c, d, e, f = (F(v) for v in A6)
    X, Y, want = [], [], []
    for x, y in pts:
        tx, ty = a * F(x) + b * F(y) + c, d * F(x) + e * F(y) + f
        cx, cy, ctx, cty = _conv(x, xrep), _conv(y, xrep), _conv(float(tx), yrep), _conv(float(ty), yrep)
        if None in (cx, cy, ctx, cty) or F(float(tx)) != tx or F(float(ty)) != ty:
            return True, "outside the domain (a value is not representable in the drawn representation)"
        X.append(xy_(cx, cy))
        Y.append(xy_(ctx, cty))
        want.append((tx, ty))
    if seq == "tuple":
        X, Y = tuple(X), tuple(Y)
    B = affine_from_pts(X, Y)
    ok = True
    worst = 0.0
    for (x, y), (tx, ty) in zip(pts, want):
        gx, gy = B * (float(x), float(y))
        mx = 1 + abs(a * F(x)) + abs(b * F(y)) + abs(c)
        my = 1 + abs(d * F(x)) + abs(e * F(y)) + abs(f)
        ex, ey = abs(F(gx) - tx), abs(F(gy) - ty)
        worst = max(worst, float(ex), float(ey))
        ok = ok and ex <= F(1, 10 ** 9) * mx and ey <= F(1, 10 ** 9) * my
    return ok, f"affine_from_pts(sources as {xrep}, targets as {yrep}, {seq}) -> {tuple(B)[:6]}; max error at the control points {worst!r}"


def p_poly2d_repr(icoef, ipts, arep, brep):
    """Poly2d.fit on integer control points with an integer-coefficient mapping, the two arrays given in the drawn
    dtypes (int64/int32/float32/float64 independently): the fit must reproduce the mapping at the control points
    (1e-6 of the term size; 2^-20 of the largest term when an input is float32, whose 24 bit mantissa the library's
    normalisation inherits)"""
    import numpy as np
    from odc.geo.math import Poly2d
    pts = [(int(x), int(y)) for x, y in ipts]
    n = len(pts)
    nt = 9 if n >= 9 else 4 if n >= 4 else 3
    cf = [(int(cx), int(cy)) for cx, cy in icoef][:nt]

    def mono(x, y):
        return [1, x, y, x * y, x * x, y * y, x * x * y, x * y * y, x * x * y * y]

    want = [[sum(c[k] * t for c, t in zip(cf, mono(x, y))) for k in (0, 1)] for x, y in pts]
    size = [[1 + sum(abs(c[k] * t) for c, t in zip(cf, mono(x, y))) for k in (0, 1)] for x, y in pts]
    dt = {"int64": "int64", "int32": "int32", "float32": "float32", "float64": "float64"}
    aa, bb = np.asarray(pts, dtype=dt[arep]), np.asarray(want, dtype=dt[brep])
    if not (np.array_equal(aa.astype("float64"), np.asarray(pts, dtype="float64")) and np.array_equal(bb.astype("float64"), np.asarray(want, dtype="float64"))):
        return True, "outside the domain (a value is not representable in the drawn dtype)"
    p = Poly2d.fit(aa, bb)
    got = np.asarray(p(np.asarray(pts, dtype="float64")), dtype="float64")
    err = np.abs(got - np.asarray(want, dtype="float64"))
    size = np.asarray(size, dtype="float64")
    if "float32" in (arep, brep):
        # float32 inputs are normalised in float32 by the library: errors are relative to the LARGEST term of the array
        ok = bool(np.all(err <= 2.0 ** -20 * size.max()))
    else:
        ok = bool(np.all(err <= 1e-6 * size))
    return ok, f"Poly2d.fit(control points as {arep}, targets as {brep}): max error {float(err.max())!r}"


def _close(a, b, tol=1e-9):
    import numpy as np
    a, b = np.asarray(a, dtype="float64"), np.asarray(b, dtype="float64")
    return bool(np.all(np.abs(a - b) <= tol * (1 + np.abs(a) + np.abs(b))))


def p_rws(a, b, c, d):
    """numeric validation (tolerance 1e-9): R W S = A, R proper rotation, W unit upper, S diagonal"""
    import numpy as np
    from odc.geo.math import decompose_rws
    A = np.asarray([[a, b], [c, d]], dtype="float64")
    R, W, S = decompose_rws(A.copy())
    ok = _close(R @ W @ S, A) and _close(R.T @ R, np.eye(2)) and _close(np.linalg.det(R), 1.0)
    ok = ok and _close(W[0, 0], 1) and _close(W[1, 1], 1) and W[1, 0] == 0 and S[0, 1] == 0 and S[1, 0] == 0
    return ok, f"R={R.tolist()} W={W.tolist()} S={S.tolist()}"


def p_from_pts(A6, pts):
    """numeric validation (relative tolerance 1e-9 on the mapped points) of the lstsq oracle: points in general position reproduce the map"""
    import numpy as np
    from affine import Affine
    from odc.geo import xy_
    from odc.geo.math import affine_from_pts
    A = Affine(*A6)
    X = [xy_(x, y) for x, y in pts]
    Y = [xy_(*(A * (x, y))) for x, y in pts]
    B = affine_from_pts(X, Y)
    # judged on the mapping (control points and their centroid), not on the coefficients: with a large offset and a
    # small extent the coefficients are ill-conditioned while the mapping is reproduced to ~1e-15 relative
    cx, cy = sum(p[0] for p in pts) / len(pts), sum(p[1] for p in pts) / len(pts)
    probe = list(pts) + [(cx, cy)]
    # float64 cancellation: a*x + b*y + c may be small while its terms are large (control points far from the origin),
    # so the admissible error scales with the size of the TERMS, not of the result
    mag = [[1 + abs(A.a * x) + abs(A.b * y) + abs(A.c), 1 + abs(A.d * x) + abs(A.e * y) + abs(A.f)] for x, y in probe]
    got, want = np.asarray([B * p for p in probe]), np.asarray([A * p for p in probe])
    ok = bool(np.all(np.abs(got - want) <= 1e-9 * np.asarray(mag)))
    return ok, f"affine_from_pts -> {tuple(B)[:6]}"


def p_poly2d(coef, pts, A6):
    """numeric validation (tolerance 1e-6) of the lstsq oracle behind Poly2d.fit, of evaluation, and of
    with_input_transform(A): q(u) must equal the exact map applied to A u (A applied with numpy, not with the library)"""
    import numpy as np
    from affine import Affine
    from odc.geo.math import Poly2d
    aa = np.asarray(pts, dtype="float64")
    x, y = aa.T
    n = len(pts)
    nt = 9 if n >= 9 else 4 if n >= 4 else 3
    cf = np.asarray(coef, dtype="float64")[:nt]

    def exact_map(px, py):
        terms = [np.ones_like(px), px, py, px * py, px * px, py * py, px * px * py, px * py * py, px * px * py * py]
        return np.stack([sum(c[0] * t for c, t in zip(cf, terms)), sum(c[1] * t for c, t in zip(cf, terms))], axis=1)

    def term_size(px, py):
        """sum of |terms|: the scale float64 cancellation errors grow with (control points far from the origin)"""
        terms = [np.ones_like(px), px, py, px * py, px * px, py * py, px * px * py, px * py * py, px * px * py * py]
        return 1 + np.stack([sum(abs(c[0] * t) for c, t in zip(cf, terms)), sum(abs(c[1] * t) for c, t in zip(cf, terms))], axis=1)

    def close(got, want, size):
        return bool(np.all(np.abs(np.asarray(got, dtype="float64") - want) <= 1e-6 * size))

    bb = exact_map(x, y)
    size = term_size(x, y)
    p = Poly2d.fit(aa, bb)
    ok = close(p(aa), bb, size)
    ok = ok and close(np.asarray(p(x, y)).T, bb, size)               # two-argument form returns (2, N)
    a, b, c, d, e, f = A6
    M = np.asarray([[a, b], [d, e]], dtype="float64")
    t = np.asarray([c, f], dtype="float64")
    q = p.with_input_transform(Affine(*A6))
    u = np.linalg.solve(M, (aa - t).T).T                      # points of the new input space that A maps onto the control points
    au = u @ M.T + t                                          # A u, applied with numpy
    want = exact_map(au[:, 0], au[:, 1])
    got = q(u)
    ok2 = close(got, want, term_size(au[:, 0], au[:, 1]))
    return ok and ok2, (f"max fit error {float(np.abs(p(aa) - bb).max())!r}; with_input_transform{tuple(A6)}: "
                        f"max |q(u) - map(A u)| = {float(np.abs(np.asarray(got) - want).max())!r}")


def rand_input_affine(rng):
    """input transforms for Poly2d.with_input_transform: identity, scale+translate, exactly ONE off-diagonal term
    (pure x- or y-shear), rotations, general affines"""
    kind = rng.choice(["id", "st", "shear_x", "shear_x", "shear_y", "shear_y", "rot", "general"])
    sx, sy = rng.choice([1.0, 2.0, 0.5, -1.0]), rng.choice([1.0, 0.5, 3.0, -1.0])
    tx, ty = rng.choice([0.0, -5.0, 7.0]), rng.choice([0.0, 3.0, -2.0])
    if kind == "id":
        return (1.0, 0.0, 0.0, 0.0, 1.0, 0.0)
    if kind == "st":
        return (sx, 0.0, tx, 0.0, sy, ty)
    if kind == "shear_x":
        return (sx, rng.choice([0.36397023426620234, 0.25, -1.0, 1e-3]), tx, 0.0, sy, ty)      # tan(20 deg) = Affine.shear(20)
    if kind == "shear_y":
        return (sx, 0.0, tx, rng.choice([0.36397023426620234, -0.5, 2.0, 1e-3]), sy, ty)
    if kind == "rot":
        ang = rng.choice([0.3, -1.1, math.pi / 2, 2.5])
        return (math.cos(ang) * sx, -math.sin(ang) * sx, tx, math.sin(ang) * sx, math.cos(ang) * sx, ty)
    return (sx, 0.25, tx, -0.5, sy, ty)


def p_norm_xy(pts):
    """norm_xy: finite result, centroid moved to 0, mean distance from it sqrt(2) (docstring), A maps pts to the output"""
    import numpy as np
    from odc.geo.math import norm_xy
    aa = np.asarray(pts, dtype="float64")
    XX, A = norm_xy(aa.copy())
    ok = bool(np.isfinite(XX).all()) and all(math.isfinite(v) for v in tuple(A)[:6])
    if ok:
        # float64 cancellation: the centroid and A*pt are differences of numbers of size |pts|*scale, so the
        # admissible absolute error grows with that size (64 ulp of it), never below 1e-9
        tol = 1e-9 + 64 * 2.0 ** -52 * float(np.abs(aa).max()) * abs(A.a) * len(aa)
        ok = bool(np.all(np.abs(XX.mean(axis=0)) <= tol)) and _close(np.sqrt((XX ** 2).sum(axis=1)).mean(), math.sqrt(2), 1e-9)
        ok = ok and bool(np.all(np.abs(np.asarray([A * (x, y) for x, y in pts]) - XX) <= tol * 3)) and A.b == 0 and A.d == 0 and A.a == A.e
    return ok, f"norm_xy -> A={tuple(A)[:6]} first rows={XX[:3].tolist()}"


def gcp_layouts(rng):
    """regular and symmetric control-point layouts (the natural GCP grids), many with a point exactly on the centroid"""
    out = []
    for gx, gy in [(2, 2), (3, 3), (4, 4), (5, 5), (6, 6), (7, 7), (3, 5), (5, 3), (2, 9), (9, 1 + 1), (3, 4), (1 + 2, 7)]:
        sx, sy = rng.choice([1.0, 0.5, 30.0, 256.0, 1000.0]), rng.choice([1.0, 0.25, 30.0, 512.0])
        ox, oy = rng.choice([0.0, 0.0, -17.0, 5e5, 1e6]), rng.choice([0.0, 3.0, -6e6, 4096.0])
        out.append((f"grid{gx}x{gy}", tuple((ox + i * sx, oy + j * sy) for i in range(gx) for j in range(gy))))
    r = rng.choice([1.0, 10.0, 250.0])
    cx, cy = rng.choice([0.0, 100.0, -3e5]), rng.choice([0.0, -50.0, 7e5])
    cross = [(cx, cy), (cx + r, cy), (cx - r, cy), (cx, cy + r), (cx, cy - r)]
    out.append(("cross5", tuple(cross)))
    out.append(("cross9", tuple(cross + [(cx + 2 * r, cy + r), (cx - 2 * r, cy - r), (cx - r, cy + 2 * r), (cx + r, cy - 2 * r)])))
    ring = [(cx + r * math.cos(2 * math.pi * k / 8 + 0.3), cy + r * math.sin(2 * math.pi * k / 8 + 0.3)) for k in range(8)]
    out.append(("ring8+centre", tuple(ring + [(sum(p[0] for p in ring) / 8, sum(p[1] for p in ring) / 8)])))
    out.append(("triangle+centroid", ((cx, cy), (cx + 3 * r, cy), (cx, cy + 3 * r), (cx + r, cy + r))))
    out.append(("triangle", ((cx, cy), (cx + 3 * r, cy), (cx, cy + 3 * r))))
    return out


PREDICATES = {"split": p_split, "near_int": p_near_int, "nonfinite": p_nonfinite, "snap_scale": p_snap_scale,
              "align": p_align, "pow2": p_pow2, "clamp": p_clamp, "snap_grid": p_snap_grid,
              "snap_affine": p_snap_affine, "bin": p_bin, "axis": p_axis, "axis_fb": p_axis_fb, "data_res": p_data_res, "rws": p_rws, "from_pts": p_from_pts,
              "from_pts_repr": p_from_pts_repr, "res_from_affine": p_res_from_affine, "poly2d_repr": p_poly2d_repr,
              "poly2d": p_poly2d, "norm_xy": p_norm_xy}


def search(out, tier, kept):
    rng = core.rng("c20-search")
    found = {}
    mult = 1 if tier == "quick" else 10

    def run(name, *args):
        try:
            ok, detail = PREDICATES[name](*args)
        except Exception as e:       # inside the property's domain the helpers must not fail
            ok, detail = False, f"raised {type(e).__name__}: {e}"
        out.count("predicate:" + name)
        out.case(("pred", name, enc(list(args))), True)
        if not ok and name not in found:
            found[name] = True
            out.violation(f"c20:{name}", f"{name}{args!r}: {detail}",
                          {"predicate": name, "args": enc(list(args)), "observed": detail})

    for rp in core.corpus(ID):
        run(rp["predicate"], *dec(rp["args"]))

    # scalar helpers: arbitrary finite floats (these clauses hold bit-exactly in binary64)
    for _ in range(3000 * mult):
        tol = float(rng.choice(TOLS[:9]))
        x = near_int(rng, F(tol)) if rng.random() < 0.6 else rng.uniform(-1e6, 1e6) * 10 ** rng.randint(-8, 3)
        run("split", x)
        run("near_int", x, tol)
    for x in (float("nan"), float("inf"), float("-inf")):
        run("nonfinite", x)
    for x in (2.0 ** 52 + 1, -(2.0 ** 53), 1e300, 5e-324, -0.0, 0.5, -0.5, 1.5, -2.5):
        run("split", x)
        run("near_int", x, 1e-6)
    for s, tol in kept["scale"]:
        run("snap_scale", s, tol)
    for _ in range(1500 * mult):
        tol = rng.choice([1e-6, 1e-3, 0.01, 2.0 ** -7])
        n = rng.choice([1, -1]) * rng.randint(1, 10 ** rng.randint(1, 5))
        delta = rng.choice([0, 0.3, -0.3, 0.9, -0.9, 1.5, -1.5, 20.0]) * tol
        s = (n + delta) if rng.random() < 0.5 else 1 / (n + delta)
        run("snap_scale", float(s), tol)
    for x in range(-40, 60):
        for a in (1, 2, 3, 5, 8, 16, 1000):
            run("align", x, a)
    for _ in range(200 * mult):
        run("align", rng.randint(-2 ** 70, 2 ** 70), rng.randint(1, 2 ** 40))
    for x in list(range(-2, 300)) + [v for k in range(8, 90) for v in (2 ** k - 1, 2 ** k, 2 ** k + 1)]:
        run("pow2", x)
    for _ in range(300 * mult):
        lo, up = sorted([rng.uniform(-5, 5), rng.uniform(-5, 5)])
        run("clamp", rng.uniform(-8, 8), lo, up)
    for c in kept["grid"]:
        run("snap_grid", *c)
    for c in kept["affine"]:
        run("snap_affine", *c)
    for _ in range(400 * mult):
        run("snap_affine", *rand_st_affine(rng))
    for c in kept["bin"]:
        run("bin", *c)
    for _ in range(100 * mult):
        r, r1 = (float(rng.choice([1, -1]) * rng.choice([1, 3, 5, 30]) * 2.0 ** rng.randint(-6, 4)) for _ in "xy")
        run("axis", float(rng.randint(-1000, 1000)) * abs(r), r, rng.randint(2, 40),
            float(rng.randint(-1000, 1000)) * abs(r1), r1, rng.randint(2, 40))
    # fallback_resolution that disagrees with the label spacing (other magnitude, other sign); axes of 1, 2, 3.. labels
    for _ in range(150 * mult):
        r, r1 = (float(rng.choice([1, -1]) * rng.choice([1, 3, 5, 10, 20, 30]) * 2.0 ** rng.randint(-4, 3)) for _ in "xy")
        n, m = rng.choice([1, 1, 2, 2, 3, 4, 7, 20]), rng.choice([1, 1, 2, 3, 5, 16])
        c0, c1 = float(rng.randint(-1000, 1000)) * abs(r), float(rng.randint(-1000, 1000)) * abs(r1)
        s_ = float(rng.choice([1, -1]) * rng.choice([1, 7, 10, 25]) * 2.0 ** rng.randint(-3, 2))
        fb = rng.choice([None, s_, s_, ("xy", s_, -s_), ("xy", -abs(r) * 2, abs(r1) / 2), ("xy", r, r1), abs(r) / 2, -r])
        run("axis_fb", c0, r, n, c1, r1, m, fb)
        run("data_res", c0, r, rng.choice([0, 1, 1, 2, 3, 4, 9]), rng.choice([None, s_, -r, r * 3.5]))
    # integer-dtype label axes (unsigned / narrow, ascending and descending): differences must not wrap around
    for _ in range(150 * mult):
        dtx, dty = rng.choice(list(INT_DTYPES)), rng.choice(list(INT_DTYPES) + [None])
        n, m = rng.choice([1, 2, 2, 3, 4, 7]), rng.choice([1, 2, 3, 5])
        r, r1 = float(rng.choice([1, -1]) * rng.choice([1, 2, 5, 10, 30])), float(rng.choice([1, -1]) * rng.choice([1, 3, 10, 20]))
        lo, hi = INT_DTYPES[dtx]
        c0 = float(rng.choice([lo, hi, (lo + hi) // 2, 30, 100]))
        c0 = c0 if (r > 0) == (c0 < (lo + hi) / 2) or n == 1 else float(hi if r < 0 else lo)     # room to run in the drawn direction
        lo1, hi1 = INT_DTYPES[dty] if dty else (-10 ** 6, 10 ** 6)
        c1 = float(hi1 if r1 < 0 else lo1) if rng.random() < 0.5 else float(rng.choice([30, 100, 120]))
        if dty is None:
            c1 = float(rng.randint(-1000, 1000)) * abs(r1)
        fb = rng.choice([None, 7.0, -2.5, ("xy", 4.0, -4.0)]) if min(n, m) > 1 or rng.random() < 0.8 else None
        if (n == 1 or m == 1) and fb is None and rng.random() < 0.7:
            fb = 10.0
        run("axis_fb", c0, r, n, c1, r1, m, fb, dtx, dty)
        run("data_res", c0, r, rng.choice([1, 2, 3, 4, 9]), rng.choice([None, 7.0, -r]), dtx)
    # resolution_from_affine: rotation x shear x scale (the scale of the R*W*S decomposition, not the column lengths)
    for _ in range(200 * mult):
        ang = rng.choice([0.0, 0.0, math.radians(20), -1.1, math.pi / 2, 2.5, rng.uniform(-3, 3)])
        w = rng.choice([0.0, math.tan(math.radians(20)), -0.5, 2.0, 1e-3, rng.uniform(-1.5, 1.5)])
        sx, sy = rng.choice([10.0, 30.0, 0.25, 1.0, -2.0]), rng.choice([-10.0, -30.0, 0.5, 3.0, 1.0])
        ca, sa = math.cos(ang), math.sin(ang)
        run("res_from_affine", (ca * sx, (ca * w - sa) * sy, rng.uniform(-1e5, 1e5), sa * sx, (sa * w + ca) * sy, rng.uniform(-1e5, 1e5)))
    # representation of the inputs of the fits (Python ints, numpy ints, float32, float64; lists / tuples)
    for _ in range(200 * mult):
        xrep, yrep = rng.choice(REPRS), rng.choice(REPRS)
        frac = rng.choice([0.5, 0.5, 0.0, 0.25])
        if xrep in ("int", "int64", "int32"):
            frac = 0.0
        base = rng.choice([0, 0, 100, -37, 2 ** 24 + 1, 2 ** 24 + 3, 2 ** 26 + 5]) if xrep != "float32" else rng.choice([0, 100, -37])   # beyond ~2^27 the unnormalised lstsq itself loses the mapping
        k = rng.randint(3, 7)
        pts = [(0, 0), (5, 0), (0, 3), (4, 7), (9, 2), (2, 9), (6, 6)][:k]
        pts = tuple((float(base + x + frac), float(y + frac)) for x, y in pts)
        even = yrep in ("int", "int64", "int32") or frac == 0.25
        mul = (4 if frac == 0.25 else 2) if even and frac else 1
        A6 = (float(mul * rng.choice([1, -1, 2])), float(mul * rng.choice([0, 0, 1, -1])), float(rng.choice([0, 3, -1000]) - (mul * base if abs(base) >= 2 ** 24 else 0)),
              float(mul * rng.choice([0, 1, -2])), float(mul * rng.choice([1, -1, 3])), float(rng.choice([0, -7, 250])))
        if A6[0] * A6[4] - A6[1] * A6[3] == 0:
            continue
        run("from_pts_repr", A6, pts, xrep, yrep, rng.choice(["list", "tuple"]))
    for _ in range(60 * mult):
        g = rng.choice([2, 3, 3, 4, 5])
        o, st = rng.choice([0, 10, 100]), rng.choice([1, 1, 2])
        ipts = tuple((x * st + o, y) for x in range(g) for y in range(g))
        icoef = tuple((rng.randint(-3, 3), rng.randint(-3, 3)) for _ in range(9))
        run("poly2d_repr", icoef, ipts, rng.choice(["int64", "int32", "float32", "float64"]), rng.choice(["int64", "int32", "float32", "float64"]))
    # numpy linear algebra oracles: numeric validation on well conditioned inputs
    for _ in range(150 * mult):
        ang = rng.uniform(-math.pi, math.pi)
        sx, sy = (rng.choice([1, -1]) * rng.uniform(0.2, 5) for _ in "xy")
        w = rng.uniform(-1.5, 1.5)
        ca, sa = math.cos(ang), math.sin(ang)
        a, b, c, d = ca * sx, (ca * w - sa) * sy, sa * sx, (sa * w + ca) * sy
        run("rws", a, b, c, d)
        A6 = (a, b, rng.uniform(-100, 100), c, d, rng.uniform(-100, 100))
        npts = rng.choice([3, 4, 7, 20])
        pts = [(0.0, 0.0), (10.0, 0.0), (0.0, 10.0)] + [(rng.uniform(-10, 10), rng.uniform(-10, 10)) for _ in range(npts - 3)]
        run("from_pts", A6, tuple(pts))
    # regular / symmetric control point layouts (incl. odd grids: a point exactly on the centroid)
    for rep in range(2 * mult):
        for name, pts in gcp_layouts(rng):
            run("norm_xy", pts)
            coef = [(rng.uniform(-3, 3), rng.uniform(-3, 3)) for _ in range(4)] + [(rng.uniform(-1, 1), rng.uniform(-1, 1)) for _ in range(5)]
            span = max(max(abs(p[0] - pts[0][0]), abs(p[1] - pts[0][1])) for p in pts) or 1.0
            # keep the higher-order terms of comparable size over the layout's extent
            coef = [(cx_ / span ** d, cy_ / span ** d) for (cx_, cy_), d in zip(coef, (0, 1, 1, 2, 2, 2, 3, 3, 4))]
            A6 = rand_input_affine(rng)
            run("poly2d", tuple(coef), pts, A6)
            if len(pts) >= 3:
                B6 = (rng.uniform(0.5, 3) * rng.choice([1, -1]), rng.uniform(-1, 1), rng.uniform(-100, 100),
                      rng.uniform(-1, 1), rng.uniform(0.5, 3) * rng.choice([1, -1]), rng.uniform(-100, 100))
                run("from_pts", B6, pts)
    for _ in range(40 * mult):
        n = rng.choice([3, 4, 6, 9, 16, 25])
        k = math.isqrt(n - 1) + 1
        pts = [(float(i % k) * 3 + rng.uniform(-1, 1), float(i // k) * 3 + rng.uniform(-1, 1)) for i in range(n)]
        coef = [(rng.uniform(-3, 3), rng.uniform(-3, 3)) for _ in range(4)] + [(rng.uniform(-.1, .1), rng.uniform(-.1, .1)) for _ in range(5)]
        A6 = rand_input_affine(rng)
        run("poly2d", tuple(coef), tuple(pts), A6)


# ---------------------------------------------------------------- entry points
def run(out, tier, scratch):
    out.rule = ("correspondence: model vs odc.geo.math on exactness-domain floats (dyadic / small-integer multiples of "
                "power-of-two resolutions; values at, just inside and just outside every tolerance and the half-way point; "
                "both signs of the resolution; off_pix None/0/0.5/other/invalid; default arguments), results compared exactly "
                "as rationals; a generated case with an inexact float step is discarded and counted under escape:*. "
                "A case is non-trivial when it is a distinct (function, arguments) tuple. search: the property's clauses "
                "evaluated on the implementation with Fraction arithmetic; rws/from_pts/poly2d are tolerance-based numeric "
                "validations of the numpy oracles")
    out.assumptions += [
        "binary64 arithmetic is modelled by exact rational arithmetic; correspondence inputs are restricted to (and dynamically checked to lie in) the domain where every float operation of the code is exact",
        "numpy.linalg.cholesky/inv/det are exact on the right-angle/power-of-two inputs used for decompose_rws; numpy.linalg.lstsq (affine_from_pts, Poly2d) is an oracle validated numerically only",
    ]
    cases, kept = gen_cases(out, tier)
    fails, log = core.coq_eval_failures(REQ, "case", "check", cases, scratch, shard=400)
    detail = ""
    if fails:
        detail = "model and implementation differ on: " + " | ".join(cases[i] for i in fails[:5])
    out.oblige("correspondence:Model.MathH vs odc.geo.math", "correspondence", not fails, detail)
    search(out, tier, kept)


def replay(rp) -> int:
    name = rp["predicate"]
    args = dec(rp["args"])
    ok, detail = PREDICATES[name](*args)
    print(f"replay {name}{args!r}: {'holds' if ok else 'FAILS'}: {detail}")
    return 0 if ok else 1


META = {
    "text": ("Coq theorems (coq/Props/C20.v, closed under the global context) over a Gallina model of odc/geo/math.py with floats "
             "as exact rationals: split_float (whole+fraction = x, fraction in [-1/2,1/2], whole an integer), maybe_int / "
             "is_almost_int agree with each other and with dist(x,Z) < tol, snap_scale (moves within tol to an integer or 1/integer, "
             "idempotent), align_down/up, align_*_pow2 (power of two, extremal), clamp, snap_grid for either sign of the resolution "
             "and for off_pix None (at least one pixel, covers up to tol, aligned to the pixel fraction, excess < 1+tol pixel), "
             "snap_affine (idempotent, identity on rotated input, coefficients within tolerance), affine_from_axis reproduces "
             "regularly spaced labels, Bin1D (bin(x)=i iff x in interval i, adjacent intervals share an edge, from_sample_bin "
             "consistency), decompose_rws (R W S = A, R proper rotation, W unit upper triangular, S diagonal, with the Cholesky "
             "square roots universally quantified), affine_from_pts as normal-equation solution reproduces any affine map.  "
             "Model tied to the code by exact differential execution on the exactness domain plus direct predicates."),
    "note": ("Loaded-but-unused axioms: Proofs/MathHLinear.v imports Nsatz, which loads Coq.Reals and FunctionalExtensionality; coqchk -o therefore lists functional_extensionality_dep, sig_not_dec, sig_forall_dec and classic for the closure although Print Assumptions reports every C20 theorem closed under the global context.  Trusted: Coq kernel; the hand-written model coq/Model/MathH.v (validated by the correspondence run); floats are "
             "modelled as exact rationals (binary64 rounding NOT modelled; correspondence restricted to inputs on which every float "
             "step is exact, checked dynamically); non-finite inputs only tested (pass-through).  Oracles, NOT proved: numpy lstsq "
             "(affine_from_pts is proved for the exact normal-equation/Cramer solution; Poly2d fit/evaluate/with_input_transform "
             "only validated numerically), numpy cholesky/inv/det (decompose_rws is modelled with the two Cholesky square roots as "
             "universally quantified positive roots; executable via an exact rational square root).  Domain restrictions in the "
             "theorems: tol >= 0 for snapping, 0 < tol < 1/2 for snap_scale/snap_affine idempotence, resolution != 0, x0 <= x1, "
             "off_pix in [0,1) or None, alignment > 0, pow2 extremality for x >= 1, Bin1D size > 0 and direction +-1."),
    "technique": "Coq proof over hand-written Gallina model (Q/Z) + exact differential correspondence (vm_compute) + Fraction predicates + leaf functions regenerated from source by py2v on every run and proved equal to the model (source_is_model theorem)",
    "design_ref": "DESIGN.md section 5, C20; section 3",
}
