"""C08 — a GeoBox built from a region covers it and is snapped as requested.

Correspondence: coq/Model/FromBbox.v against GeoBox.from_bbox /
from_geopolygon / zoom_to(resolution=) on exactness-domain inputs (shape and
affine compared exactly).  Search: the property's clauses as Fraction
predicates on the GeoBox returned by the implementation.
"""
from __future__ import annotations

from fractions import Fraction

from vlib import core
from vlib import crshist
from vlib import exactf
from vlib.core import cbool, clist, cq, ctuple, cz
from props.c20 import EPS, caff, cres, dec, enc, near_int, rand_res

ID = "C08"
ALLOWED_AXIOMS: list[str] = []
REQ = ["Base.Result", "Model.Roi", "Model.MathH", "Model.MathHCases", "Model.FromBbox", "Model.FromBboxCases"]
F = Fraction
CRS = "epsg:3857"
TOLS = [None, None, None, 2.0 ** -7, 0.0, 0.25, 1e-6, 0.5]


# ---------------------------------------------------------------- rendering
def cbbox(b):
    return "(mkBBox " + " ".join(cq(F(v)) for v in b) + ")"


def cgbox(g):
    return ctuple(ctuple(cz(g.shape[0]), cz(g.shape[1])), caff(g.affine))


def canchor(a):
    """anchor argument as given by the caller -> Coq anchor_in"""
    from odc.geo import XY
    from odc.geo.geobox import AnchorEnum
    if isinstance(a, XY):
        return f"(AnXY {cq(F(a.x))} {cq(F(a.y))})"
    if isinstance(a, AnchorEnum):
        return {AnchorEnum.EDGE: "AnEdge", AnchorEnum.CENTER: "AnCenter", AnchorEnum.FLOATING: "AnFloating"}[a]
    if isinstance(a, str):
        return {"default": "AnDefault", "edge": "AnEdge", "center": "AnCenter", "centre": "AnCenter", "floating": "AnFloating"}[a]
    return f"(AnNum {cq(F(float(a)))})"


def cresolution(r):
    from odc.geo.types import Resolution
    if r is None:
        return "None"
    if isinstance(r, Resolution):
        return f"(Some (RXY {cq(F(r.x))} {cq(F(r.y))}))"
    return f"(Some (RScalar {cq(F(r))}))"


def cshape(s):
    if s is None:
        return "ShNone"
    if isinstance(s, (int, float)):
        return f"(ShScalar {cq(F(s))})"
    return f"(ShYX {cz(s[0])} {cz(s[1])})"


def anchor_key(a):
    from odc.geo import XY
    return ("xy", a.x, a.y) if isinstance(a, XY) else f"{type(a).__name__}:{a}"


def anchor_offsets(tight, a):
    """(ox, oy) pixel fractions the grid must be aligned to, or None when floating"""
    from odc.geo import XY
    from odc.geo.geobox import AnchorEnum
    if tight:
        return None
    if isinstance(a, XY):
        return F(a.x), F(a.y)
    import numpy as np
    if isinstance(a, (np.floating, np.integer)):
        a = float(a)                                                   # numpy scalars are numbers like any other
    if a in ("default", "edge", AnchorEnum.EDGE) or (isinstance(a, (int, float)) and a == 0):
        return F(0), F(0)
    if a in ("center", "centre", AnchorEnum.CENTER) or (isinstance(a, (int, float)) and a == 0.5):
        return F(1, 2), F(1, 2)
    if a in ("floating", AnchorEnum.FLOATING):
        return None
    return F(a), F(a)


# ---------------------------------------------------------------- input domain
def rand_anchor(rng, valid_only=False):
    import numpy as np
    from odc.geo import xy_
    from odc.geo.geobox import AnchorEnum
    good = ["default", "default", "edge", "center", "centre", "floating", AnchorEnum.EDGE, AnchorEnum.CENTER,
            AnchorEnum.FLOATING, 0, 0.5, 0.25, 0.75, 0.375, 2.0 ** -20, np.float32(0.5), np.float32(0.25), np.float64(0.75),
            np.int64(0), np.int32(0), np.float32(0.0), xy_(0.25, 0.5), xy_(0.0, 0.5), xy_(0.5, 0.0),
            xy_(0.875, 0.125), xy_(1 - 2.0 ** -30, 2.0 ** -30)]
    if valid_only or rng.random() < 0.93:
        return rng.choice(good)
    return rng.choice([1.5, -0.25, 1, xy_(0.5, 1.0), xy_(-0.125, 0.5)])


def axis_interval(rng, a, o, tol):
    """[x0, x1] in units of |res| = a around near-integer positions (anchor offset o), as Fractions"""
    t = F(0.01) if tol is None else F(tol)
    q0 = F(near_int(rng, t))
    mode = rng.random()
    if mode < 0.06:
        span = F(0)
    elif mode < 0.22:
        e = rng.choice(EPS)                                            # a whole number of pixels +- eps, eps on both sides of tol
        q0 = F(rng.choice([0, 1, -3, 37, 1001])) + rng.choice([F(0), e, -e, F(1, 4), F(rng.randint(-512, 512), 1024)])
        span = rng.choice([1, 2, 3, 6, 30, 1000]) + rng.choice([e, -e, t - e, -(t - e), t, -t, t + e, -(t + e), t / 2, -t / 2, F(0)])
    elif mode < 0.35:
        span = rng.choice([F(1, 128), F(1, 2), F(1), abs(t), abs(t) + EPS[0], 2 * abs(t), F(3, 4), 1 - abs(t), 1 + abs(t)])
    elif mode < 0.8:
        span = abs(F(near_int(rng, t)) - q0) + rng.choice([0, 1, 2, 5, 100, 10 ** 4, 10 ** 6])
    else:
        span = F(rng.randint(1, 2 ** 24), 2 ** rng.randint(0, 12))
    x0 = float((q0 + o) * a)
    x1 = float((q0 + o + span) * a)
    return x0, x1


def bbox_case(rng):
    """(l, b, r, t), kwargs for a resolution-driven from_bbox call"""
    from odc.geo import resxy_
    rx = rand_res(rng)
    mode = rng.random()
    if mode < 0.35:
        resolution = abs(rx) if rng.random() < 0.8 else rx       # scalar: (r, -r)
        ry = -resolution
        rx = resolution
    else:
        ry = rand_res(rng)
        resolution = resxy_(rx, ry)
    tight = rng.random() < 0.3
    anchor = rand_anchor(rng)
    tol = rng.choice(TOLS)
    off = anchor_offsets(tight, anchor)
    ox, oy = off if off is not None and all(0 <= v < 1 for v in off) else (F(0), F(0))
    ax = abs(F(rx)) if rx != 0 else F(1)
    ay = abs(F(ry)) if ry != 0 else F(1)
    l, r = axis_interval(rng, ax, ox, tol)
    b, t = axis_interval(rng, ay, oy, tol)
    if rng.random() < 0.04:
        l, r = r, l
    return (l, b, r, t), dict(tight=tight, resolution=resolution, anchor=anchor, tol=tol)


def cres_or_none(f, call):
    """cres, but an exception kind the model does not know (e.g. KeyError for a legal anchor) yields (None, kind):
    the case is then judged by the property predicate only, which reports it with the concrete input"""
    try:
        return cres(f, call)
    except Exception as e:  # noqa: BLE001
        return None, "unexpected:" + type(e).__name__


def call_from_bbox(bb, kw, wrap=False):
    from odc.geo import XY, xy_
    from odc.geo.geobox import GeoBox
    from odc.geo.geom import BoundingBox
    kw = dict(kw)
    if kw.get("tol") is None:
        kw.pop("tol", None)
    if wrap:
        bb = exactf.wrap(tuple(bb))
        if isinstance(kw.get("anchor"), XY):
            kw["anchor"] = xy_(exactf.wrap(kw["anchor"].x), exactf.wrap(kw["anchor"].y))
        if "tol" in kw:
            kw["tol"] = exactf.wrap(kw["tol"])
    return GeoBox.from_bbox(BoundingBox(*bb, crs=CRS), **kw)


def from_bbox_exact(bb, kw) -> bool:
    exactf.STATE.inexact = 0
    try:
        call_from_bbox(bb, kw, wrap=True)
    except Exception:
        pass
    return exactf.STATE.inexact == 0


def bbox_text(bb, kw):
    tol = 0.01 if kw.get("tol") is None else kw["tol"]
    return (f"CFromBbox {cbbox(bb)} {cbool(kw.get('tight', False))} {cshape(kw.get('shape'))} "
            f"{cresolution(kw.get('resolution'))} {canchor(kw.get('anchor', 'default'))} {cq(F(tol))}")


def kw_key(kw):
    return tuple((k, anchor_key(v) if k == "anchor" else str(v)) for k, v in sorted(kw.items()))



# ---------------------------------------------------------------- polygons reprojected into another CRS
# (source CRS, target CRS, a centre in source units well inside both areas of use)
CRS_PAIRS = [("epsg:3577", "epsg:32750", (-1.5e6, -3.3e6)), ("epsg:32750", "epsg:3577", (5e5, 6.5e6)),
             ("epsg:4326", "epsg:3577", (133.0, -25.0)), ("epsg:3857", "epsg:32633", (1.67e6, 6.1e6)),
             ("epsg:32633", "epsg:3035", (5e5, 5.5e6)), ("epsg:3035", "epsg:32633", (4.3e6, 3.0e6)),
             ("epsg:4326", "epsg:32755", (147.0, -35.0)), ("epsg:3577", "epsg:4326", (0.5e6, -3e6))]
DENSE_N = 256          # reference: points per polygon edge, vertices included
EPS_PX = 1e-6          # allowance (pixels) for float rounding / transformer differences; measured: 0


def crs_polygon(rng, pairs=None):
    """a non-rectangular polygon (open ring) in the source CRS of a rotated / non-separable CRS pair"""
    import math
    src, dst, (cx, cy) = rng.choice(pairs or CRS_PAIRS)
    r = rng.choice([2e3, 7e3, 2e4, 6e4]) * rng.uniform(0.7, 1.3)
    if src == "epsg:4326":
        r = r / 1.1e5
    cx, cy = cx + rng.uniform(-5, 5) * r, cy + rng.uniform(-5, 5) * r
    kind = rng.choice(["diamond", "diamond", "sliver", "sliver", "triangle", "convex", "rectangle",
                       "notched", "notched", "notched", "star", "bowtie", "bowtie", "multi"])
    if kind == "notched":
        # concave: a wide box whose top or bottom edge has a reflex vertex a hair INSIDE the convex hull; after a non-linear
        # reprojection that vertex can become the extreme point of the footprint
        w, h = r * rng.choice([1, 5, 30, 50]), r * rng.choice([0.3, 1, 3])
        if src == "epsg:4326":
            w, h = min(w, 3.0), min(h, 1.5)
        depth = h * rng.choice([1e-3, 1e-4, 1e-5])
        fx = rng.choice([0.5, 0.5, 0.3, 0.7])
        box = [(cx - w, cy - h), (cx - w, cy + h), (cx + w, cy + h), (cx + w, cy - h)]
        top = (cx - w + 2 * w * fx, cy + h - depth)
        bot = (cx - w + 2 * w * fx, cy - h + depth)
        pts = {0: [box[0], box[1], top, box[2], box[3]], 1: [box[0], box[1], box[2], box[3], bot],
               2: [box[0], box[1], top, box[2], box[3], bot]}[rng.randint(0, 2)]
    elif kind == "star":
        k, a0 = rng.choice([4, 5, 6, 8]), rng.uniform(0, 6.28)
        inner = rng.choice([0.2, 0.5, 0.9, 0.99])
        pts = [(cx + r * (1 if i % 2 == 0 else inner) * math.cos(a0 + math.pi * i / k),
                cy + r * (1 if i % 2 == 0 else inner) * math.sin(a0 + math.pi * i / k)) for i in range(2 * k)]
    elif kind == "bowtie":
        # self-crossing ring (invalid as a polygon, a legal footprint outline): both lobes belong to the region
        w, h = r * rng.choice([1, 3, 10]), r * rng.choice([0.3, 1])
        if src == "epsg:4326":
            w, h = min(w, 3.0), min(h, 1.5)
        pts = [(cx - w, cy - h), (cx + w, cy + h), (cx + w, cy - h * rng.choice([1, 0.5])), (cx - w, cy + h)]
        if rng.random() < 0.5:
            pts = [(y - cy + cx, x - cx + cy) for x, y in pts] if src != "epsg:4326" else pts
    elif kind == "multi":
        d = r * rng.choice([1.5, 4, 10])
        if src == "epsg:4326":
            d = min(d, 2.0)
        rings = [[(cx - r / 2, cy), (cx, cy + r / 2), (cx + r / 2, cy), (cx, cy - r / 2)],
                 [(cx + d, cy + d / 3), (cx + d + r / 3, cy + d / 3 + r), (cx + d + r, cy + d / 3 - r / 4)],
                 [(cx - d, cy - d), (cx - d, cy - d + r / 5), (cx - d + r / 5, cy - d + r / 5), (cx - d + r / 5, cy - d)]][:rng.choice([2, 3])]
        return kind, src, dst, tuple(tuple((float(x), float(y)) for x, y in ring) for ring in rings)
    elif kind == "diamond":
        pts = [(cx - r, cy), (cx, cy + r), (cx + r, cy), (cx, cy - r)]
    elif kind == "sliver":
        w = r / rng.choice([20, 50, 200])
        sgn = rng.choice([1, -1])
        pts = [(cx - r, cy - sgn * r), (cx + r, cy + sgn * r), (cx + r + w, cy + sgn * r), (cx - r + w, cy - sgn * r)]
    elif kind == "triangle":
        pts = [(cx - r, cy - r / 3), (cx + r / 2, cy + r), (cx + r, cy - r / 2)]
    elif kind == "convex":
        k, a0 = rng.randint(5, 9), rng.uniform(0, 6.28)
        pts = [(cx + r * rng.uniform(.6, 1) * math.cos(a0 + 2 * math.pi * i / k),
                cy + r * rng.uniform(.6, 1) * math.sin(a0 + 2 * math.pi * i / k)) for i in range(k)]
    else:
        pts = [(cx - r, cy - r / 2), (cx - r, cy + r / 2), (cx + r, cy + r / 2), (cx + r, cy - r / 2)]
    return kind, src, dst, tuple((float(x), float(y)) for x, y in pts)


def rings_of(pts):
    """pts is one open ring, or a tuple of open rings (multi-polygon)"""
    pts = [tuple(p) for p in pts]
    if pts and isinstance(pts[0][0], (tuple, list)):
        return [[tuple(q) for q in ring] for ring in pts]
    return [pts]


def make_geom(pts, src):
    from odc.geo.geom import multipolygon, polygon
    rings = rings_of(pts)
    if len(rings) == 1:
        return polygon(rings[0] + [rings[0][0]], src)
    return multipolygon([[ring + [ring[0]]] for ring in rings], src)


def reference_bbox(pts, src, dst, n=DENSE_N):
    """all rings of the region: (tight bbox of the densified projected outline, bbox of ALL projected vertices)"""
    boxes = [_reference_bbox_ring(ring, src, dst, n) for ring in rings_of(pts)]
    merge = lambda k: (min(b[k][0] for b in boxes), min(b[k][1] for b in boxes), max(b[k][2] for b in boxes), max(b[k][3] for b in boxes))
    return merge(0), merge(1)


def _reference_bbox_ring(pts, src, dst, n=DENSE_N):
    """independent reference: every edge densified (n points, vertices included), projected with pyproj
    directly; returns (tight bbox of the projected dense ring, bbox of the projected vertices only)"""
    import numpy as np
    from pyproj import Transformer
    ring = np.asarray(list(pts) + [pts[0]], dtype="float64")
    seg = []
    for (x0, y0), (x1, y1) in zip(ring[:-1], ring[1:]):
        t = np.linspace(0, 1, n, endpoint=False)
        seg.append(np.stack([x0 + (x1 - x0) * t, y0 + (y1 - y0) * t], axis=1))
    d = np.concatenate(seg)
    tr = Transformer.from_crs(src, dst, always_xy=True)
    X, Y = tr.transform(d[:, 0], d[:, 1])
    vx, vy = tr.transform(ring[:-1, 0], ring[:-1, 1])
    return ((float(X.min()), float(Y.min()), float(X.max()), float(Y.max())),
            (float(min(vx)), float(min(vy)), float(max(vx)), float(max(vy))))


def nice_resolution(rng, span):
    """m * 2^j (m small) close to span / (50..4000 pixels)"""
    import math
    want = span / rng.choice([50, 300, 1000, 4000])
    m = rng.choice([1, 1, 3, 5, 25, 125])
    return float(m * 2.0 ** round(math.log2(want / m)))


def decisions_robust(x0, x1, res, off, tol) -> bool:
    """True when every floor/ceil/near-integer decision of snap_grid on this axis is at least 1e-6 pixel away
    from its boundary, so that binary64 rounding of the (inexact) projected coordinates cannot change it"""
    a, t = abs(F(res)), F(tol)
    us = [(F(x1) - F(x0)) / a] if off is None else [F(x0) / a - off, F(x1) / a - off]
    for u in us:
        d = abs(u - round(u))
        if d < F(1, 10 ** 6) or abs(d - t) < F(1, 10 ** 6) or abs(d - F(1, 2)) < F(1, 10 ** 6):
            return False
    return True


# ---------------------------------------------------------------- correspondence cases
def gen_cases(out, tier):
    from affine import Affine
    from odc.geo import resxy_, xy_
    from odc.geo import geobox as GB
    from odc.geo.geobox import GeoBox
    from odc.geo.geom import BoundingBox, polygon

    rng = core.rng("c08")
    mult = 1 if tier == "quick" else 8
    cases: list[str] = []
    kept = {"res": [], "shape": [], "int": [], "poly": [], "zoom": [], "polycrs": []}

    def add(kind, text, canon, nontrivial=True, sample=None):
        cases.append(text)
        out.count(kind)
        out.case((kind, canon), nontrivial, sample)

    for rp in core.corpus(ID):
        pass  # no fixed defect witnesses for C08 (none found); corpus predicates are replayed by search()

    # --- anchor normalisation
    for a in ["default", "edge", "center", "centre", "floating", GB.AnchorEnum.EDGE, GB.AnchorEnum.CENTER, GB.AnchorEnum.FLOATING,
              0, 0.0, 0.5, 1, 0.25, -0.5, 2, xy_(0.0, 0.0), xy_(0.5, 0.5), xy_(0.25, 0.75)]:
        r = GB._norm_anchor(a)
        if isinstance(r, GB.AnchorEnum):
            t = {GB.AnchorEnum.EDGE: "NEdge", GB.AnchorEnum.CENTER: "NCenter", GB.AnchorEnum.FLOATING: "NFloating"}[r]
        else:
            t = f"(NXY {cq(F(r.x))} {cq(F(r.y))})"
        add("norm_anchor", f"CNormAnchor {canchor(a)} {t}", anchor_key(a))

    # --- resolution driven
    for i in range(900 * mult):
        bb, kw = bbox_case(rng)
        if not from_bbox_exact(bb, kw):
            out.count("escape:from_bbox_resolution")
            continue
        t, kind = cres_or_none(cgbox, lambda: call_from_bbox(bb, kw))
        kept["res"].append((bb, kw))
        if t is None:
            out.count("from_bbox:resolution:" + kind)
            continue
        snap = "float" if anchor_offsets(kw["tight"], kw["anchor"]) is None else "snap"
        add(f"from_bbox:resolution:{kind}:{snap}", f"{bbox_text(bb, kw)} {t}", (bb, kw_key(kw)), True,
            {"op": "GeoBox.from_bbox", "bbox": list(bb), "kwargs": {k: str(v) for k, v in kw.items()}, "result": t} if i < 6 else None)

    # --- shape driven: (ny, nx)
    for i in range(350 * mult):
        nx, ny = (rng.choice([1, 2, 3, 4, 5, 7, 8, 16, 100, 256, 1000, 4096]) for _ in "xy")
        ux, uy = abs(F(rand_res(rng, False))), abs(F(rand_res(rng, False)))
        tight = rng.random() < 0.3
        anchor = rand_anchor(rng)
        tol = rng.choice(TOLS)
        off = anchor_offsets(tight, anchor)
        ox, oy = off if off is not None and all(0 <= v < 1 for v in off) else (F(0), F(0))
        t_ = F(0.01) if tol is None else F(tol)
        l = float((F(near_int(rng, t_)) + ox) * ux)
        b = float((F(near_int(rng, t_)) + oy) * uy)
        r, t = float(F(l) + nx * ux), float(F(b) + ny * uy)
        if rng.random() < 0.05:
            nx = 0
        if rng.random() < 0.04:
            r = l
        shape = (ny, nx)
        kw = dict(tight=tight, shape=shape, anchor=anchor, tol=tol)
        if rng.random() < 0.05:
            kw.pop("shape")                                     # neither shape nor resolution: ValueError
        if not from_bbox_exact((l, b, r, t), kw):
            out.count("escape:from_bbox_shape")
            continue
        tt, kind = cres_or_none(cgbox, lambda: call_from_bbox((l, b, r, t), kw))
        if tt is None:
            out.count("from_bbox:shape:" + kind)
            if "shape" in kw:
                kept["shape"].append(((l, b, r, t), kw))
            continue
        add(f"from_bbox:shape:{kind}", f"{bbox_text((l, b, r, t), kw)} {tt}", ((l, b, r, t), kw_key(kw)), True,
            {"op": "GeoBox.from_bbox", "bbox": [l, b, r, t], "kwargs": {k: str(v) for k, v in kw.items()}, "result": tt} if i < 3 else None)
        if "shape" in kw:
            kept["shape"].append(((l, b, r, t), kw))

    # --- a single number as shape
    for i in range(250 * mult):
        n = rng.choice([1, 2, 3, 5, 8, 10, 64, 100, 512, 1000, 0])
        if rng.random() < 0.15:
            n = float(n)
        u = abs(F(rand_res(rng, False)))
        e = rng.choice([0, 0, 1, 2, 3])
        long_, short = max(n, 1) * u, max(n, 1) * u / 2 ** e
        sx, sy = (long_, short) if rng.random() < 0.5 else (short, long_)
        tight = rng.random() < 0.5
        anchor = rand_anchor(rng, valid_only=True)
        tol = rng.choice(TOLS)
        l, b = float(F(near_int(rng, F(0.01))) * u), float(F(near_int(rng, F(0.01))) * u)
        r, t = float(F(l) + sx), float(F(b) + sy)
        if rng.random() < 0.04:
            t = b
        kw = dict(tight=tight, shape=n, anchor=anchor, tol=tol)
        if rng.random() < 0.2:
            kw["resolution"] = 123.0                            # ignored when shape is a number
        if not from_bbox_exact((l, b, r, t), kw):
            out.count("escape:from_bbox_int_shape")
            continue
        tt, kind = cres_or_none(cgbox, lambda: call_from_bbox((l, b, r, t), kw))
        if tt is None:
            out.count("from_bbox:int_shape:" + kind)
            kept["int"].append(((l, b, r, t), kw))
            continue
        add(f"from_bbox:int_shape:{kind}", f"{bbox_text((l, b, r, t), kw)} {tt}", ((l, b, r, t), kw_key(kw)))
        kept["int"].append(((l, b, r, t), kw))

    # --- polygons: shapely bounds (oracle contract) and from_geopolygon incl. the legacy align
    for i in range(300 * mult):
        bb, kw = bbox_case(rng)
        l, b, r, t = bb
        if l > r or b > t:
            continue
        k = rng.randint(0, 4)
        inner = [(float(F(l) + (F(r) - F(l)) * F(rng.randint(0, 16), 16)), float(F(b) + (F(t) - F(b)) * F(rng.randint(0, 16), 16)))
                 for _ in range(k)]
        pts = [(l, b), (r, float(F(b) + (F(t) - F(b)) / 4)), (float(F(l) + (F(r) - F(l)) / 2), t)] + inner
        if len({p for p in pts}) < 3 or l == r or b == t:
            continue
        rng.shuffle(pts)
        poly = polygon(pts + [pts[0]], CRS)
        pb = poly.boundingbox
        add("poly_bounds", f"CPolyBounds {ctuple(cq(F(pts[0][0])), cq(F(pts[0][1])))} "
            f"{clist(pts[1:], lambda p: ctuple(cq(F(p[0])), cq(F(p[1]))))} {cbbox(tuple(pb.bbox))}", tuple(pts))
        align = None
        res = kw["resolution"]
        mode = rng.random()
        if mode < 0.45:
            rxy = (res, -res) if isinstance(res, float) else (res.x, res.y)
            if mode < 0.1:
                align = xy_(0.0, 0.0)
            elif rxy[0] != 0 and rxy[1] != 0:
                align = xy_(float(abs(F(rxy[0])) * rng.choice([0, F(1, 4), F(1, 2), F(7, 8)])),
                            float(abs(F(rxy[1])) * rng.choice([F(1, 4), F(1, 2), F(3, 8), 0])))
        pkw = dict(resolution=res, anchor=kw["anchor"], tight=kw["tight"], tol=kw["tol"], align=align)
        if mode > 0.92:
            pkw["resolution"] = None
            pkw["shape"] = (rng.choice([1, 2, 8]), rng.choice([1, 4, 16]))
        if pkw.get("tol") is None:
            pkw.pop("tol")
        # exactness: same arithmetic as from_bbox on the polygon's bounds with the anchor the align turns into
        ekw = {k_: v for k_, v in pkw.items() if k_ != "align"}
        if align is not None and not (align.x == 0 and align.y == 0) and pkw["resolution"] is not None:
            rxy = (res, -res) if isinstance(res, float) else (res.x, res.y)
            if rxy[0] != 0 and rxy[1] != 0:
                fa = (F(align.x) / abs(F(rxy[0])), F(align.y) / abs(F(rxy[1])))
                if not (exactf.isrep(fa[0]) and exactf.isrep(fa[1])):
                    out.count("escape:from_geopolygon")
                    continue
                ekw["anchor"] = xy_(float(fa[0]), float(fa[1]))
        elif align is not None:
            ekw["anchor"] = "edge"
        if not from_bbox_exact(tuple(pb.bbox), ekw):
            out.count("escape:from_geopolygon")
            continue
        tt, kind = cres_or_none(cgbox, lambda: GeoBox.from_geopolygon(poly, **pkw))
        if tt is None:
            out.count("from_geopolygon:" + kind)
            kept["poly"].append((tuple(pts), pkw))
            continue
        calign = "None" if align is None else f"(Some {ctuple(cq(F(align.x)), cq(F(align.y)))})"
        tol = 0.01 if "tol" not in pkw else pkw["tol"]
        add(f"from_geopolygon:{kind}:{'align' if align is not None else 'anchor'}",
            f"CFromPoly {cbbox(tuple(pb.bbox))} {cresolution(pkw['resolution'])} {calign} {cshape(pkw.get('shape'))} "
            f"{cbool(pkw['tight'])} {canchor(pkw['anchor'])} {cq(F(tol))} {tt}", (tuple(pts), kw_key({k_: v for k_, v in pkw.items() if k_ != 'align'}), str(align)))
        kept["poly"].append((tuple(pts), pkw))

    # --- from_geopolygon with crs= different from the polygon's CRS.  Reprojection itself is an oracle; the
    #     model is fed the bounding box of the polygon *as projected by the implementation* (Geometry.to_crs), which
    #     pins down WHICH geometry is reprojected (the polygon, not its bounding box).  Projected coordinates are
    #     arbitrary floats, so a case is kept for the exact comparison only when every rounding decision is robust.
    for i in range(70 * mult):
        kind, src, dst, pts = crs_polygon(rng)
        poly = make_geom(pts, src)
        pb = tuple(poly.to_crs(dst).boundingbox.bbox)
        span = max(pb[2] - pb[0], pb[3] - pb[1])
        res = nice_resolution(rng, span)
        if rng.random() < 0.3:
            res = resxy_(res * rng.choice([1, -1]), res * rng.choice([1, -1, 2]))
        tight = rng.random() < 0.25
        anchor = rng.choice(["default", "edge", "center", 0.25, xy_(0.0, 0.5)])
        tol = rng.choice([None, None, 2.0 ** -7])
        pkw = dict(resolution=res, anchor=anchor, tight=tight)
        if tol is not None:
            pkw["tol"] = tol
        kept["polycrs"].append((pts, src, dst, pkw))
        off = anchor_offsets(tight, anchor)
        rx, ry = res_xy(res)
        tolv = 0.01 if tol is None else tol
        if not (decisions_robust(pb[0], pb[2], rx, None if off is None else off[0], tolv)
                and decisions_robust(pb[1], pb[3], ry, None if off is None else off[1], tolv)):
            out.count("escape:from_geopolygon_crs")
            continue
        tt, kind_ = cres_or_none(cgbox, lambda: GeoBox.from_geopolygon(poly, crs=dst, **pkw))
        if tt is None:
            out.count("from_geopolygon:crs:" + kind_)
            continue
        add(f"from_geopolygon:crs:{kind_}:{kind}",
            f"CFromPoly {cbbox(pb)} {cresolution(res)} None ShNone {cbool(tight)} {canchor(anchor)} {cq(F(tolv))} {tt}",
            (pts, src, dst, kw_key(pkw)), True,
            {"op": "GeoBox.from_geopolygon", "polygon": [list(p) for p in pts], "polygon_crs": src, "crs": dst,
             "kwargs": {k: str(v) for k, v in pkw.items()}, "projected_polygon_bbox": list(pb), "result": tt} if i < 2 else None)

    # --- zoom_to(resolution=) incl. BoundingBox.from_transform of flipped / sheared grids
    for i in range(300 * mult):
        ny, nx = rng.choice([1, 2, 3, 10, 100, 512]), rng.choice([1, 2, 5, 16, 100, 1000])
        sx, sy = F(rand_res(rng, False)), F(rand_res(rng, False))
        w1, w2 = rng.choice([(0, 0), (0, 0), (0, 0), (F(1, 2), 0), (F(1, 4), F(-1, 2)), (-1, 1)])
        tx, ty = F(rng.randint(-2 ** 12, 2 ** 12)) * abs(sx), F(rng.randint(-2 ** 12, 2 ** 12)) * abs(sy)
        A = Affine(float(sx), float(w1 * sy), float(tx), float(w2 * sx), float(sy), float(ty))
        g = GeoBox((ny, nx), A, CRS)
        corners = [(F(A.a) * px + F(A.b) * py + F(A.c), F(A.d) * px + F(A.e) * py + F(A.f)) for px, py in ((0, 0), (nx, 0), (nx, ny), (0, ny))]
        if not all(exactf.isrep(v) for c in corners for v in c):
            out.count("escape:zoom_to")
            continue
        bbx = g.boundingbox
        add("bbox_from_transform", f"CBoxFromTransform {ctuple(cz(ny), cz(nx))} {caff(A)} {cbbox(tuple(bbx.bbox))}", (ny, nx, tuple(A)[:6]))
        k = rng.choice([F(1, 2), 2, 3, F(1, 4), 5, F(3, 2), 10, 1])
        if rng.random() < 0.5:
            res = float(abs(sx) * k)
        else:
            res = resxy_(float(sx * k), float(sy * rng.choice([1, -1, 2, F(1, 2)])))
        if rng.random() < 0.03:
            res = 0.0
        if not from_bbox_exact(tuple(bbx.bbox), dict(resolution=res, tight=True)):
            out.count("escape:zoom_to")
            continue
        tt, kind = cres(cgbox, lambda: g.zoom_to(resolution=res))
        cr = cresolution(res)[6:-1]            # strip "(Some " ... ")"
        add(f"zoom_to:{kind}", f"CZoomRes {ctuple(cz(ny), cz(nx))} {caff(A)} {cr} {cq(F(0.01))} {tt}", (ny, nx, tuple(A)[:6], str(res)))
        kept["zoom"].append(((ny, nx), tuple(A)[:6], res))
    return cases, kept


# ---------------------------------------------------------------- property predicates on the implementation
def axis_ok(x0, x1, res, off, tol, tx, n):
    """one axis of the property, exact arithmetic; returns (ok, text)"""
    a, t = abs(F(res)), F(tol)
    lo = F(tx) if res > 0 else F(tx) + n * F(res)
    hi = lo + n * a
    ok = isinstance(n, int) and n >= 1
    ok = ok and lo <= F(x0) + t * a and F(x1) - t * a <= hi            # covers up to tol pixel
    ok = ok and F(x0) - lo <= a and hi - F(x1) <= (1 + t) * a          # less than a pixel (+tol) too large
    if x0 < x1:
        ok = ok and F(x0) - lo < a and hi - F(x1) < (1 + t) * a
    if F(x1) - F(x0) >= a and t < 1:
        ok = ok and hi - F(x1) < a
    if off is None:
        ok = ok and F(tx) == (F(x0) if res > 0 else F(x1))             # floating: starts exactly on the region's edge
        if n >= 2 and t <= F(1, 2):
            ok = ok and (n - 1) * a <= F(x1) - F(x0) - t * a           # minimal count: n-1 pixels would not cover up to tol
    else:
        ok = ok and (F(tx) / a - off).denominator == 1                 # edges at (integer + anchor) pixels
        if t <= F(1, 2):                                               # minimal count among aligned grids covering up to tol
            ok = ok and F(x0) + t * a <= lo + a
            if n >= 2:
                ok = ok and hi - a <= F(x1) - t * a
    return ok, f"[{x0!r},{x1!r}] res={res!r}: origin={tx!r} n={n} -> [{float(lo)!r},{float(hi)!r}]"


def res_xy(resolution):
    from odc.geo.types import Resolution
    if isinstance(resolution, Resolution):
        return resolution.x, resolution.y
    return float(resolution), -float(resolution)


def p_resolution(bb, tight, resolution, anchor, tol):
    l, b, r, t = bb
    rx, ry = res_xy(resolution)
    off = anchor_offsets(tight, anchor)
    tolv = 0.01 if tol is None else tol
    if rx == 0 or ry == 0 or l > r or b > t or tolv < 0 or (off is not None and not all(0 <= v < 1 for v in off)):
        return True, "outside the property's domain"
    g = call_from_bbox(bb, dict(tight=tight, resolution=resolution, anchor=anchor, tol=tol))
    A = g.affine
    ok = (A.a, A.b, A.d, A.e) == (rx, 0, 0, ry)                         # exactly the requested pixel size, no rotation
    okx, dx = axis_ok(l, r, rx, None if off is None else off[0], tolv, A.c, g.shape.x)
    oky, dy = axis_ok(b, t, ry, None if off is None else off[1], tolv, A.f, g.shape.y)
    gb = g.boundingbox
    okb = True
    lo_x = F(A.c) if rx > 0 else F(A.c) + g.shape.x * F(rx)
    lo_y = F(A.f) if ry > 0 else F(A.f) + g.shape.y * F(ry)
    want = (lo_x, lo_y, lo_x + g.shape.x * abs(F(rx)), lo_y + g.shape.y * abs(F(ry)))
    if all(exactf.isrep(v) for v in want):
        okb = tuple(F(v) for v in gb.bbox) == want                      # boundingbox is the grid's extent
    return ok and okx and oky and okb, f"shape={tuple(g.shape)} affine={tuple(A)[:6]} bbox={tuple(gb.bbox)} x:{dx} y:{dy}"


def p_shape(bb, tight, shape, anchor, tol):
    l, b, r, t = bb
    ny, nx = shape
    off = anchor_offsets(tight, anchor)
    tolv = 0.01 if tol is None else tol
    if nx < 1 or ny < 1 or l >= r or b >= t or not 0 <= tolv < 1 or (off is not None and not all(0 <= v < 1 for v in off)):
        return True, "outside the property's domain"
    g = call_from_bbox(bb, dict(tight=tight, shape=shape, anchor=anchor, tol=tol))
    A = g.affine
    rx, ry = (F(r) - F(l)) / nx, -(F(t) - F(b)) / ny
    ok = tuple(g.shape) == (ny, nx) and (F(A.a), F(A.e)) == (rx, ry) and A.b == 0 and A.d == 0
    if off is None:
        ok = ok and A.c == l and A.f == t                                # not displaced at all
    else:
        ok = ok and abs(F(A.c) - F(l)) < rx and abs(F(A.f) - F(t)) < -ry  # displaced by less than a pixel
        ok = ok and (F(A.c) / rx - off[0]).denominator == 1 and (F(A.f) / -ry - off[1]).denominator == 1
    return ok, f"shape={tuple(g.shape)} affine={tuple(A)[:6]}"


def p_int_shape(bb, tight, n, anchor, tol):
    l, b, r, t = bb
    off = anchor_offsets(tight, anchor)
    tolv = 0.01 if tol is None else tol
    if n < 1 or l >= r or b >= t or tolv < 0 or (off is not None and not all(0 <= v < 1 for v in off)):
        return True, "outside the property's domain"
    g = call_from_bbox(bb, dict(tight=tight, shape=n, anchor=anchor, tol=tol))
    A = g.affine
    sx, sy = F(r) - F(l), F(t) - F(b)
    s = sx if sx > sy else sy
    ok = F(A.a) == s / F(n) and A.e == -A.a and A.b == 0 and A.d == 0   # square pixels of size longest/n
    if tight and F(n).denominator == 1:
        ok = ok and (g.shape.x if sx > sy else g.shape.y) == int(n)      # longest side spans exactly n pixels
    ok2, d = p_resolution(bb, tight, float(A.a), anchor, tol)
    return ok and ok2, f"shape={tuple(g.shape)} affine={tuple(A)[:6]}; {d}"


def p_polygon(pts, pkw):
    from odc.geo.geobox import GeoBox
    from odc.geo.geom import BoundingBox, polygon
    pts = [tuple(p) for p in pts]
    poly = polygon(pts + [pts[0]], CRS)
    xs, ys = [p[0] for p in pts], [p[1] for p in pts]
    bb = (min(xs), min(ys), max(xs), max(ys))
    kw = {k: v for k, v in pkw.items() if k != "align"}
    align = pkw.get("align")
    # the property's domain: non-zero resolution (or a positive shape), tol >= 0, anchor fractions in [0,1)
    if pkw.get("tol", 0.01) < 0:
        return True, "outside the property's domain"
    if pkw.get("resolution") is not None:
        if 0 in res_xy(pkw["resolution"]):
            return True, "outside the property's domain"
    elif pkw.get("shape") is None or min(pkw["shape"]) < 1:
        return True, "outside the property's domain"
    if align is None or pkw.get("resolution") is None or (align.x == 0 and align.y == 0):
        off = anchor_offsets(pkw["tight"], "edge" if align is not None else pkw["anchor"])
        if off is not None and not all(0 <= v < 1 for v in off):
            return True, "outside the property's domain"
        if align is not None and pkw.get("resolution") is None and not (align.x == 0 and align.y == 0):
            return True, "outside the property's domain (align needs a resolution)"
    else:
        rx_, ry_ = res_xy(pkw["resolution"])
        if not pkw["tight"] and not (0 <= align.x < abs(rx_) and 0 <= align.y < abs(ry_)):
            return True, "outside the property's domain"
    g = GeoBox.from_geopolygon(poly, **pkw)
    detail = f"shape={tuple(g.shape)} affine={tuple(g.affine)[:6]}"
    if align is None or (align.x == 0 and align.y == 0):
        if align is not None:
            kw["anchor"] = "edge"
        g2 = GeoBox.from_bbox(BoundingBox(*bb, crs=CRS), **kw)
        ok = g2 == g
        if kw.get("resolution") is not None:
            ok2, d = p_resolution(bb, kw["tight"], kw["resolution"], kw["anchor"], kw.get("tol"))
            ok, detail = ok and ok2, detail + "; " + d
        return ok, detail
    # legacy align, in CRS units: pixel edges at align + k*|res|, region covered
    rx, ry = res_xy(pkw["resolution"])
    if pkw["tight"] or not (0 <= align.x < abs(rx) and 0 <= align.y < abs(ry)):
        return True, "outside the property's domain"
    A = g.affine
    tol = pkw.get("tol", 0.01)
    okx, dx = axis_ok(bb[0], bb[2], rx, F(align.x) / abs(F(rx)), tol, A.c, g.shape.x)
    oky, dy = axis_ok(bb[1], bb[3], ry, F(align.y) / abs(F(ry)), tol, A.f, g.shape.y)
    ok = (A.a, A.e) == (rx, ry) and okx and oky
    ok = ok and ((F(A.c) - F(align.x)) / abs(F(rx))).denominator == 1 and ((F(A.f) - F(align.y)) / abs(F(ry))).denominator == 1
    return ok, detail + f" x:{dx} y:{dy}"


def p_zoom(shape, A6, resolution):
    from affine import Affine
    from odc.geo.geobox import GeoBox
    g = GeoBox(tuple(shape), Affine(*A6), CRS)
    rx, ry = res_xy(resolution)
    if rx == 0 or ry == 0:
        return True, "outside the property's domain"
    z = g.zoom_to(resolution=resolution)
    ny, nx = shape
    A = Affine(*A6)
    cx = [F(A.a) * px + F(A.b) * py + F(A.c) for px, py in ((0, 0), (nx, 0), (nx, ny), (0, ny))]
    cy = [F(A.d) * px + F(A.e) * py + F(A.f) for px, py in ((0, 0), (nx, 0), (nx, ny), (0, ny))]
    Z = z.affine
    ok = (Z.a, Z.b, Z.d, Z.e) == (rx, 0, 0, ry)
    okx, dx = axis_ok(float(min(cx)), float(max(cx)), rx, None, 0.01, Z.c, z.shape.x)
    oky, dy = axis_ok(float(min(cy)), float(max(cy)), ry, None, 0.01, Z.f, z.shape.y)
    return ok and okx and oky, f"zoom_to -> shape={tuple(z.shape)} affine={tuple(Z)[:6]} x:{dx} y:{dy}"


def p_polygon_crs(pts, src, dst, pkw):
    """from_geopolygon(poly, crs=dst) with dst != poly.crs, judged against an independent reference: the polygon's
    edges densified and projected with pyproj directly.  Pixel size exact; edges on the anchor; every side of the
    grid exceeds the reference's tight bounding box by less than 1 + tol (+EPS_PX) pixel; and covers it up to
    tol (+ the amount by which curved edges bulge beyond the projected vertices, + EPS_PX) pixel."""
    from odc.geo.geobox import GeoBox
    from odc.geo.geom import polygon
    pts = [tuple(p) for p in pts]
    rx, ry = res_xy(pkw["resolution"])
    tol = pkw.get("tol", 0.01)
    off = anchor_offsets(pkw["tight"], pkw["anchor"])
    if rx == 0 or ry == 0 or tol < 0 or (off is not None and not all(0 <= v < 1 for v in off)):
        return True, "outside the property's domain"
    g = GeoBox.from_geopolygon(make_geom(pts, src), crs=dst, **pkw)
    return judge_projected(g, pts, src, dst, pkw)


def judge_projected(g, pts, src, dst, pkw, bulge_share=1.0):
    """g: GeoBox built from the polygon pts (in src) reprojected to dst; reference: pyproj called directly.
    bulge_share: share of the chord bulge (curved edges beyond the projected vertices) that may stay uncovered: 1 for
    polygons (the implementation projects the vertices only), 1/500 for the lon/lat box of the 'utm' path, which the
    implementation densifies before projecting (residual measured: 1/2000 of the bulge)"""
    rx, ry = res_xy(pkw["resolution"])
    tol = pkw.get("tol", 0.01)
    off = anchor_offsets(pkw["tight"], pkw["anchor"])
    (dx0, dy0, dx1, dy1), (vx0, vy0, vx1, vy1) = reference_bbox(pts, src, dst)
    A = g.affine
    ok = (A.a, A.b, A.d, A.e) == (rx, 0, 0, ry) and str(g.crs).lower() == dst and g.shape.x >= 1 and g.shape.y >= 1
    txt = []
    for name, res, tx, n, lo_ref, hi_ref, lo_v, hi_v, o in (("x", rx, A.c, g.shape.x, dx0, dx1, vx0, vx1, None if off is None else off[0]),
                                                          ("y", ry, A.f, g.shape.y, dy0, dy1, vy0, vy1, None if off is None else off[1])):
        a = abs(res)
        lo = tx if res > 0 else tx + n * res
        hi = lo + n * a
        ex_lo, ex_hi = (lo_ref - lo) / a, (hi - hi_ref) / a              # excess over the tight reference box, pixels
        bulge = bulge_share * max(lo_v - lo_ref, hi_ref - hi_v, 0.0) / a  # curved edges beyond the projected vertices
        ok = ok and ex_lo < 1 + tol + EPS_PX and ex_hi < 1 + tol + EPS_PX
        ok = ok and ex_lo >= -(tol + bulge + EPS_PX) and ex_hi >= -(tol + bulge + EPS_PX)
        if o is not None:
            ok = ok and (F(tx) / F(a) - o).denominator == 1
        txt.append(f"{name}: excess low={ex_lo:.4f}px high={ex_hi:.4f}px (bulge {bulge:.4f}px)")
    return ok, f"shape={tuple(g.shape)} affine={tuple(A)[:6]} reference bbox={dx0, dy0, dx1, dy1}; " + "; ".join(txt)


# CRS pairs reserved for the runs after a process history (tools/vlib/crshist.py): they are used nowhere else in this
# check, so the perturbation really is the first thing the process does with them.  (specs, polygon pairs, lon/lat boxes
# whose UTM zone is not used elsewhere)
HIST = {
    ("authority-order-first",): (
        ("epsg:4326", "epsg:3857", "epsg:6933", "epsg:32632", "epsg:32719"),
        [("epsg:4326", "epsg:3857", (15.0, 48.0)), ("epsg:4326", "epsg:6933", (20.0, 40.0)),
         ("epsg:3857", "epsg:4326", (1.67e6, 6.1e6)), ("epsg:6933", "epsg:4326", (1.9e6, 4.9e6))],
        [(10.2, 47.1, 10.9, 47.6), (-70.4, -30.6, -69.8, -30.1)]),
    ("queries-first", "churn"): (
        ("epsg:4326", "epsg:3031", "epsg:32755", "epsg:32610", "epsg:32736"),
        [("epsg:32755", "epsg:4326", (5e5, 6.1e6)), ("epsg:3031", "epsg:4326", (1e6, 1e6)), ("epsg:4326", "epsg:3031", (45.0, -75.0))],
        [(-122.9, 37.2, -122.1, 37.9), (32.3, -2.6, 32.9, -2.1)]),
}


def p_bbox_utm(bbox, resolution, anchor):
    """GeoBox.from_bbox(lon/lat box, "utm", resolution=..): the box is reprojected to its UTM zone; judged against the
    zone computed from the centre longitude and the four corners projected with pyproj directly (always_xy=True)"""
    from odc.geo.geobox import GeoBox
    l, b, r, t = bbox
    zone = int(((l + r) / 2 + 180) // 6) + 1
    dst = f"epsg:{(32600 if (b + t) / 2 >= 0 else 32700) + zone}"
    g = GeoBox.from_bbox(tuple(bbox), "utm", resolution=resolution, anchor=anchor)
    pkw = dict(resolution=resolution, anchor=anchor, tight=False)
    return judge_projected(g, [(l, b), (l, t), (r, t), (r, b)], "epsg:4326", dst, pkw, bulge_share=1 / 500)


PREDICATES = {"resolution": p_resolution, "shape": p_shape, "int_shape": p_int_shape, "polygon": p_polygon, "polygon_crs": p_polygon_crs, "bbox_utm": p_bbox_utm, "zoom": p_zoom}
PREDICATES["after_history"] = crshist.after_history(PREDICATES)


def enc_kw(v):
    import numpy as np
    from odc.geo import XY
    from odc.geo.geobox import AnchorEnum
    from odc.geo.types import Resolution
    if isinstance(v, Resolution):
        return {"res": [v.x.hex(), v.y.hex()]}
    if isinstance(v, (np.floating, np.integer)):
        return {"np": [type(v).__name__, float(v).hex()]}
    if isinstance(v, XY):
        return {"xy": [float(v.x).hex(), float(v.y).hex()]}
    if isinstance(v, AnchorEnum):
        return {"enum": v.name}
    if isinstance(v, dict):
        return {"kw": {k: enc_kw(x) for k, x in v.items()}}
    if isinstance(v, (tuple, list)):
        return [enc_kw(x) for x in v]
    return enc(v)


def dec_kw(v):
    from odc.geo import resxy_, xy_
    from odc.geo.geobox import AnchorEnum
    if isinstance(v, dict) and "res" in v:
        return resxy_(float.fromhex(v["res"][0]), float.fromhex(v["res"][1]))
    if isinstance(v, dict) and "np" in v:
        import numpy as np
        return getattr(np, v["np"][0])(float.fromhex(v["np"][1]))
    if isinstance(v, dict) and "xy" in v:
        return xy_(float.fromhex(v["xy"][0]), float.fromhex(v["xy"][1]))
    if isinstance(v, dict) and "enum" in v:
        return AnchorEnum[v["enum"]]
    if isinstance(v, dict) and "kw" in v:
        return {k: dec_kw(x) for k, x in v["kw"].items()}
    if isinstance(v, list):
        return tuple(dec_kw(x) for x in v)
    return dec(v)


def search(out, tier, kept):
    found = {}

    def run(name, *args):
        try:
            ok, detail = PREDICATES[name](*args)
        except Exception as e:
            ok, detail = False, f"raised {type(e).__name__}: {e}"
        out.count("predicate:" + name)
        out.case(("pred", name, repr(args)), True)
        if not ok and name not in found:
            found[name] = True
            out.violation(f"c08:{name}", f"{name}{args!r}: {detail}",
                          {"predicate": name, "args": enc_kw(list(args)), "observed": detail})

    for rp in core.corpus(ID):
        run(rp["predicate"], *dec_kw(rp["args"]))
    for bb, kw in kept["res"]:
        run("resolution", bb, kw["tight"], kw["resolution"], kw["anchor"], kw["tol"])
    for bb, kw in kept["shape"]:
        run("shape", bb, kw["tight"], kw["shape"], kw["anchor"], kw["tol"])
    for bb, kw in kept["int"]:
        run("int_shape", bb, kw["tight"], kw["shape"], kw["anchor"], kw["tol"])
    for pts, pkw in kept["poly"]:
        run("polygon", pts, pkw)
    for shape, A6, res in kept["zoom"]:
        run("zoom", shape, A6, res)
    for pts, src, dst, pkw in kept["polycrs"]:
        run("polygon_crs", pts, src, dst, pkw)
    rng = core.rng("c08-history")
    for bbox in [(148.1, -35.9, 148.8, -35.2), (15.2, 59.1, 15.9, 59.6),      # 'utm' path of from_bbox, pristine process state
                 (2.0, 40.0, 4.0, 43.0), (-76.5, -12.0, -73.5, -10.0), (86.2, 20.0, 87.9, 21.5)]:   # straddling the central meridian
        run("bbox_utm", bbox, rng.choice([30.0, 100.0, 250.0]), rng.choice(["default", "center"]))

    # the reprojecting variants again AFTER process histories of the CRS layer (cache of CRS objects / transformers);
    # recorded through "after_history" so that a hit replays in a fresh process.  Runs last: a history is permanent.
    def run_after(hist, specs, name, *args):
        try:
            ok, detail = PREDICATES[name](*args)
        except Exception as e:  # noqa: BLE001
            ok, detail = False, f"raised {type(e).__name__}: {e}"
        out.count("predicate:after_history:" + "+".join(hist) + ":" + name)
        out.case(("after", hist, name, repr(args)), True)
        key = "after_history:" + "+".join(hist)
        if not ok and key not in found:
            found[key] = True
            out.violation(f"c08:{key}", f"after {hist}: {name}{args!r}: {detail}",
                          {"predicate": "after_history", "args": enc_kw([list(hist), list(specs), name, list(args)]), "observed": detail})

    for hist, (specs, pairs, boxes) in HIST.items():
        crshist.perturb(hist, specs)
        for _ in range(10 if tier == "quick" else 60):
            kind, src, dst, pts = crs_polygon(rng, pairs)
            (dx0, dy0, dx1, dy1), _v = reference_bbox(pts, src, dst, 8)
            res = nice_resolution(rng, max(dx1 - dx0, dy1 - dy0))
            pkw = dict(resolution=res, anchor=rng.choice(["default", "center", 0.25]), tight=rng.random() < 0.25)
            run_after(hist, specs, "polygon_crs", pts, src, dst, pkw)
        for bbox in boxes:
            run_after(hist, specs, "bbox_utm", bbox, rng.choice([30.0, 100.0, 250.0]), rng.choice(["default", "center"]))


# ---------------------------------------------------------------- entry points
def run(out, tier, scratch):
    out.rule = ("correspondence: Model.FromBbox vs GeoBox.from_bbox / from_geopolygon / zoom_to(resolution=) on exactness-domain "
                "boxes (edges at near-integer multiples of a small-integer x power-of-two resolution, on both sides of tol and of "
                "the half pixel; spans from 0 and 2^-7 pixel to 10^6 pixels; both signs of each resolution component; all anchor "
                "spellings incl. invalid ones; tight; default and explicit tol; tuple / single-number / missing shape), shape and "
                "affine compared exactly; inexact cases are discarded (escape:*). distinct = distinct (bbox, arguments). "
                "search: the property's clauses in Fraction arithmetic on the returned GeoBox (shape, affine, boundingbox)")
    out.assumptions += [
        "binary64 arithmetic is modelled by exact rational arithmetic; inputs restricted to (and dynamically checked to lie in) the domain where every float operation of the code is exact",
        "shapely: the bounding box of a polygon is the min/max of its vertex coordinates (validated on every CPolyBounds case)",
        "polygon reprojection (crs=) is an oracle: the model receives the bounding box of the polygon as projected by Geometry.to_crs (so the order 'reproject the polygon, then take its bounding box' IS checked); the result is additionally judged against a dense-edge pyproj reference (predicate polygon_crs)",
        "the CRS attached to the result is not part of the model",
    ]
    cases, kept = gen_cases(out, tier)
    fails, log = core.coq_eval_failures(REQ, "case", "check", cases, scratch, shard=200)
    detail = ""
    if fails:
        detail = "model and implementation differ on: " + " | ".join(cases[i] for i in fails[:4])
    out.oblige("correspondence:Model.FromBbox vs odc.geo.geobox", "correspondence", not fails, detail)
    search(out, tier, kept)


def replay(rp) -> int:
    name = rp["predicate"]
    args = dec_kw(rp["args"])
    ok, detail = PREDICATES[name](*args)
    print(f"replay {name}{args!r}: {'holds' if ok else 'FAILS'}: {detail}")
    return 0 if ok else 1


META = {
    "text": ("Coq theorems (coq/Props/C08.v, closed under the global context) over a Gallina model of GeoBox.from_bbox, "
             "from_geopolygon (from the polygon's bounding box on) and zoom_to(resolution=), composed from the per-axis snap_grid "
             "theorems of C20: for all rational boxes, non-zero resolutions of either sign per axis, anchors in [0,1) per axis or "
             "floating/tight, tol >= 0: pixel size exactly as requested, at least one pixel, region covered except at most tol "
             "pixel per side, excess <= 1 pixel on the low and (1+tol) pixel on the high side (strict for non-degenerate boxes, "
             "< 1 pixel when the box is at least a pixel long), pixel edges at (integer + anchor) pixels from the origin or exactly "
             "on the region's edge when floating; shape-driven: exact shape, pixel = span/shape, displacement < 1 pixel (0 when "
             "floating); single-number shape; legacy align; zoom_to over the four-corner bounding box of any affine grid."),
    "note": ("Trusted: Coq kernel; hand-written models coq/Model/FromBbox.v and MathH.v (validated by exact differential "
             "correspondence); floats modelled as exact rationals (binary64 rounding NOT modelled; correspondence and predicates "
             "restricted to inputs on which every float step is exact, checked dynamically).  Oracles NOT proved: shapely's polygon "
             "bounds (contract: min/max of the vertices, validated by CPolyBounds cases), polygon reprojection in from_geopolygon "
             "(crs= argument: the projection is pyproj's; the model is fed the implementation's projected-polygon bounding box and "
             "the result is judged against an independent dense-edge pyproj reference), CRS normalisation, 'utm' string handling of from_bbox.  Invalid anchor "
             "strings (KeyError) are outside the model.  Domain restrictions in the theorems: resolution components non-zero, "
             "left <= right and bottom <= top (strict for the shape-driven clause), tol >= 0 (tol < 1 for the one-pixel bounds), "
             "anchor fractions in [0,1), shape entries >= 1."),
    "technique": "Coq proof over hand-written Gallina model (Q/Z) + exact differential correspondence (vm_compute) + Fraction predicates + leaf functions regenerated from source by py2v on every run and proved equal to the model (source_is_model theorem)",
    "design_ref": "DESIGN.md section 5, C08; section 3",
}
