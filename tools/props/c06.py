"""C06 — multi-part assembly preserves the byte stream under any schedule.

Correspondence: coq/Model/Mpu.v against odc.geo.cog._mpu, lock-step (every
intermediate MPUChunk of a post-order walk over a random merge tree is compared
slot by slot) and end-to-end through dask (the merge tree dask actually executed
is reconstructed from the recorded merge calls).  Search: the property's clauses
evaluated directly on the implementation with a recording writer.
"""
from __future__ import annotations

import itertools
import os
import json
import threading

from vlib import core
from vlib.core import cbool, clist, copt, ctuple, cz

ID = "C06"
ALLOWED_AXIOMS: list[str] = []


# ------------------------------------------------------------------ cases (plain data)
# cfg: dict(minw, minp, maxp, wpc, spill, hdr: list[int]|None, has_footer: bool, footer: list[int])
# tree: {"leaf": [size, ...]} | [tree, tree]
def leaves(t):
    if isinstance(t, dict):
        return [t["leaf"]]
    return leaves(t[0]) + leaves(t[1])


def stream(t):
    """chunk list [(bytes, id)] per leaf; byte k of the stream has value k % 251"""
    out, pos, cid = [], 0, 0
    for sizes in leaves(t):
        part = []
        for sz in sizes:
            part.append((bytes((pos + i) % 251 for i in range(sz)), cid))
            pos += sz
            cid += 1
        out.append(part)
    return out


def payloads(parts, kind):
    """the chunk payloads as the objects handed to the implementation: bytes (default), a fresh bytearray per
    chunk, or bytearrays with ONE shared object for all chunks of equal content (all empty chunks; SomeData allows
    bytearray and nothing says a buffer may occur only once in a stream)"""
    if kind in (None, "bytes"):
        return parts
    shared = {}
    out = []
    for part in parts:
        q = []
        for d, i in part:
            if kind == "shared":
                q.append((shared.setdefault(bytes(d), bytearray(d)), i))
            else:
                q.append((bytearray(d), i))
        out.append(q)
    return out


def modified_inputs(parts, given):
    """payload objects that no longer hold the bytes they were created with"""
    return [(i, len(d), len(g)) for part, gpart in zip(parts, given) for (d, i), (g, _) in zip(part, gpart) if bytes(g) != d]


class Writer:
    """Recording PartsWriter."""

    def __init__(self, cfg):
        self.min_write_sz = cfg["minw"]
        self.max_write_sz = 1 << 40
        self.min_part = cfg["minp"]
        self.max_part = cfg["maxp"]
        self.log = []
        self.final = None
        self._lock = threading.Lock()

    def __call__(self, part, data):
        rec = (int(part), bytes(data))
        with self._lock:
            self.log.append(rec)
        return {"PartNumber": int(part), "data": bytes(data)}

    def finalise(self, parts):
        self.final = [(p["PartNumber"], p["data"]) for p in parts]
        return self.final

    def __dask_tokenize__(self):
        return ("verif-writer", id(self))


def sink_writer(cfg, dst):
    """the real MPUFileSink (odc/geo/cog/_mpu_fs.py) with the limits of `cfg`, recording like Writer"""
    from odc.geo.cog._mpu_fs import MPUFileSink

    class RecSink(MPUFileSink):
        def __init__(self):
            super().__init__(dst, min_write_sz=cfg["minw"], max_write_sz=1 << 40, min_part=cfg["minp"], max_part=cfg["maxp"])
            self.log = []
            self.final = None
            self._lock = threading.Lock()

        def __call__(self, part, data):
            rec = (int(part), bytes(data))
            with self._lock:
                self.log.append(rec)
            out = super().__call__(part, data)
            out["data"] = bytes(data)
            return out

        def finalise(self, parts, keep_parts=False):
            self.final = [(p["PartNumber"], p["data"]) for p in parts]
            super().finalise(parts, keep_parts)
            return self.final

        def __dask_tokenize__(self):
            return ("verif-sink", id(self))

    return RecSink()


def snapshot(c):
    return {"next": c.nextPartId, "credits": c.write_credits, "data": bytes(c.data), "left": bytes(c.left_data),
            "parts": [(p["PartNumber"], p["data"]) for p in c.parts],
            "observed": [(int(s), i) for s, i in c.observed], "final": bool(c.is_final), "keep": c.lhs_keep}


def err_kind(e):
    if isinstance(e, AssertionError):
        return "assert"
    if isinstance(e, RuntimeError):
        return "runtime"
    if isinstance(e, ValueError):
        return "value"
    return "other:" + type(e).__name__


def run_real(cfg, tree):
    """Drive the implementation along the tree.  Returns dict(trace|trace_err, out|out_err, seen)."""
    from odc.geo.cog import _mpu as M

    w = Writer(cfg)
    parts0 = stream(tree)
    parts = payloads(parts0, cfg.get("payload"))
    n = len(parts)
    mpus = list(M.MPUChunk.gen_bunch(cfg["minp"] + 1, n, writes_per_chunk=cfg["wpc"],
                                     mark_final=not cfg["has_footer"], lhs_keep=cfg["minw"]))
    trace = []
    idx = itertools.count()

    def walk(t):
        if isinstance(t, dict):
            j = next(idx)
            (c,) = M._mpu_append_chunks_op([mpus[j]], parts[j], write=w, spill_sz=cfg["spill"])
        else:
            a = walk(t[0])
            b = walk(t[1])
            c = M._merge_and_spill_op(a, b, write=w, spill_sz=cfg["spill"])
        trace.append(snapshot(c))
        return c

    res = {"seen": None}
    try:
        root = walk(tree)
    except Exception as e:  # noqa: BLE001
        res["trace_err"] = err_kind(e)
        res["out_err"] = err_kind(e)
        res["exc"] = repr(e)
        return res
    res["trace"] = trace
    seen = []

    def mk_header(obs, **kw):
        seen.append(("hdr", [(int(s), i) for s, i in obs]))
        return None if cfg["hdr"] is None else bytes(cfg["hdr"])

    def mk_footer(obs, **kw):
        seen.append(("ftr", [(int(s), i) for s, i in obs]))
        return bytes(cfg["footer"])

    try:
        rr = M._finalizer_dask_op(root, write=w, mk_header=mk_header if cfg["hdr"] is not None else None,
                                  mk_footer=mk_footer if cfg["has_footer"] else None)
    except Exception as e:  # noqa: BLE001
        res["out_err"] = err_kind(e)
        res["exc"] = repr(e)
        res["log"] = list(w.log)
        return res
    res["out"] = {"final": rr, "log": list(w.log),
                  "obs": [(len(d), i) for part in parts0 for d, i in part],
                  "modified": modified_inputs(parts0, parts)}
    res["seen"] = seen
    return res


def run_dask(cfg, partitions, substreams, scheduler, seed, recompute=False, sink=False):
    """End to end: mpu_write over dask bags.  partitions: list of chunk-size lists; substreams:
    how many consecutive partitions each bag takes.  recompute: the same graph is computed twice and the
    SECOND execution is the one observed (a task graph must not be consumed by its first execution).
    sink: the parts go to the real MPUFileSink (limits of cfg) and the assembled file is read back.
    Returns (tree, result dict)."""
    import dask
    import dask.bag
    from dask import delayed
    from odc.geo.cog import _mpu as M

    tree_flat = [{"leaf": p} for p in partitions]
    t_for_stream = tree_flat[0]
    for x in tree_flat[1:]:
        t_for_stream = [t_for_stream, x]
    parts0 = stream(t_for_stream)
    parts = payloads(parts0, cfg.get("payload"))
    first_id = [p[0][1] for p in parts]
    last_id = [p[-1][1] for p in parts]
    workdir = None
    if sink:
        import tempfile
        workdir = tempfile.mkdtemp(prefix="verif-c06-")
        w = sink_writer(cfg, os.path.join(workdir, "out.bin"))
    else:
        w = Writer(cfg)
    merges = []
    orig = M.MPUChunk.merge

    def rec_merge(lhs, rhs, write=None):
        ll = [i for _, i in lhs.observed if i is not None]
        rr = [i for _, i in rhs.observed if i is not None]
        if ll and rr:
            merges.append((ll[0], ll[-1], rr[0], rr[-1]))
        return orig(lhs, rhs, write)

    bags, k = [], 0
    for cnt in substreams:
        bags.append(dask.bag.from_delayed([delayed(list, pure=False)(parts[k + i]) for i in range(cnt)]))
        k += cnt
    seen = []

    def mk_header(obs, **kw):
        seen.append(("hdr", [(int(s), i) for s, i in obs]))
        return None if cfg["hdr"] is None else bytes(cfg["hdr"])

    def mk_footer(obs, **kw):
        seen.append(("ftr", [(int(s), i) for s, i in obs]))
        return bytes(cfg["footer"])

    res = {"seen": seen}
    M.MPUChunk.merge = staticmethod(rec_merge)
    try:
        fut = M.mpu_write(bags if len(bags) > 1 else bags[0], w,
                          mk_header=mk_header if cfg["hdr"] is not None else None,
                          mk_footer=mk_footer if cfg["has_footer"] else None,
                          writes_per_chunk=cfg["wpc"], spill_sz=cfg["spill"])
        kw = {"scheduler": scheduler}
        if scheduler == "threads":
            kw["num_workers"] = 4
        rr = fut.compute(**kw)
        if recompute:
            del w.log[:], seen[:], merges[:]
            w.final = None
            rr = fut.compute(**kw)
        res["out"] = {"final": rr, "log": list(w.log),
                      "obs": [(len(d), i) for part in parts0 for d, i in part],
                      "modified": modified_inputs(parts0, parts)}
        if sink:
            with open(os.path.join(workdir, "out.bin"), "rb") as f:
                res["out"]["file"] = f.read()
            res["out"]["leftover"] = sorted(x for x in os.listdir(workdir) if x != "out.bin")
    except Exception as e:  # noqa: BLE001
        res["out_err"] = err_kind(e)
        res["exc"] = repr(e)
    finally:
        M.MPUChunk.merge = orig
        if workdir is not None:
            import shutil
            shutil.rmtree(workdir, ignore_errors=True)
    # reconstruct the executed tree from the merge records (ranges of chunk ids -> ranges of leaves)
    leaf_of_first = {f: j for j, f in enumerate(first_id)}
    leaf_of_last = {l: j for j, l in enumerate(last_id)}
    nodes = {(j, j): {"leaf": partitions[j]} for j in range(len(partitions))}
    pend = [m for m in merges]
    progress = True
    while pend and progress:
        progress = False
        for m in list(pend):
            a = (leaf_of_first.get(m[0]), leaf_of_last.get(m[1]))
            b = (leaf_of_first.get(m[2]), leaf_of_last.get(m[3]))
            if a in nodes and b in nodes and a[1] + 1 == b[0]:
                nodes[(a[0], b[1])] = [nodes[a], nodes[b]]
                pend.remove(m)
                progress = True
    tree = nodes.get((0, len(partitions) - 1))
    return tree, res


# ------------------------------------------------------------------ Coq literals
def cbytes(b):
    return clist(list(b))


def cpart(p):
    return ctuple(cz(p[0]), cbytes(p[1]))


def cobs(o):
    return ctuple(cz(o[0]), copt(o[1]))


def ctree(t, st):
    if isinstance(t, dict):
        items = []
        for sz in t["leaf"]:
            d = bytes((st["pos"] + i) % 251 for i in range(sz))
            items.append(ctuple(cbytes(d), f"(Some {cz(st['cid'])})"))
            st["pos"] += sz
            st["cid"] += 1
        return "(Leaf [" + "; ".join(items) + "])"
    return f"(Node {ctree(t[0], st)} {ctree(t[1], st)})"


def ccfg(cfg, fx="fixed"):
    hdr = [] if cfg["hdr"] is None else cfg["hdr"]
    return (f"{{| c_fx := {fx}; c_w := {{| minw := {cz(cfg['minw'])}; minp := {cz(cfg['minp'])}; maxp := {cz(cfg['maxp'])} |}}; "
            f"c_wpc := {cz(cfg['wpc'])}; c_spill := {cz(cfg['spill'])}; c_hdr := {clist(hdr)}; "
            f"c_has_footer := {cbool(cfg['has_footer'])}; c_footer := {clist(cfg['footer'] if cfg['has_footer'] else [])} |}}")


def cchunk(s):
    return (f"(mk {cz(s['next'])} {cz(s['credits'])} {cbytes(s['data'])} {cbytes(s['left'])} "
            f"{clist(s['parts'], cpart)} {clist(s['observed'], cobs)} {cbool(s['final'])} {cz(s['keep'])})")


ERR = {"assert": "(Err (EAssert 0))", "runtime": "(Err ERuntime)", "value": "(Err EValue)"}


def cerr(kind):
    return ERR.get(kind, "(Err EOther)")


def case_run(cfg, tree, r, fx="fixed"):
    tr = cerr(r["trace_err"]) if "trace_err" in r else f"(Ok {clist(r['trace'], cchunk)})"
    if "out" in r:
        o = r["out"]
        out = f"(Ok {ctuple(clist(o['final'], cpart), clist(o['log'], cpart), clist(o['obs'], cobs))})"
    else:
        out = cerr(r["out_err"])
    return f"CRun {ccfg(cfg, fx)} {ctree(tree, {'pos': 0, 'cid': 0})} {tr} {out}"


def case_end(cfg, tree, r):
    if "out" in r:
        o = r["out"]
        out = f"(Ok {ctuple(clist(o['final'], cpart), clist(o['obs'], cobs))})"
    else:
        out = cerr(r["out_err"])
    return f"CEnd {ccfg(cfg)} {ctree(tree, {'pos': 0, 'cid': 0})} {out}"


# ------------------------------------------------------------------ generators
def rand_tree(rng, leaf_list):
    if len(leaf_list) == 1:
        return {"leaf": leaf_list[0]}
    k = rng.randint(1, len(leaf_list) - 1)
    return [rand_tree(rng, leaf_list[:k]), rand_tree(rng, leaf_list[k:])]


def all_trees(leaf_list):
    if len(leaf_list) == 1:
        yield {"leaf": leaf_list[0]}
        return
    for k in range(1, len(leaf_list)):
        for a in all_trees(leaf_list[:k]):
            for b in all_trees(leaf_list[k:]):
                yield [a, b]


def rand_cfg(rng, n_leaves, tight=None):
    minw = rng.choice([1, 2, 3, 4, 4, 8])
    minp = rng.choice([1, 1, 1, 0, 0, 2, 3, 7])
    wpc = rng.choice([1, 1, 2, 3])
    spill = rng.choice([0, 1, minw - 1, minw, minw + 1, 2 * minw, 3 * minw, rng.randint(0, 4 * minw)])
    spill = max(spill, 0)
    need = minp + n_leaves * wpc
    maxp = need if (tight if tight is not None else rng.random() < 0.4) else need + rng.randint(1, 50)
    hdr = None if rng.random() < 0.4 else [250 + (i % 5) for i in range(rng.choice([0, 1, minw - 1, minw, 2 * minw + 1]))]
    has_footer = rng.random() < 0.5
    footer = [240 + (i % 7) for i in range(rng.choice([0, 1, minw, 2 * minw]))] if has_footer else []
    return {"minw": minw, "minp": minp, "maxp": maxp, "wpc": wpc, "spill": spill, "hdr": hdr,
            "has_footer": has_footer, "footer": footer, "payload": rng.choice(["bytes", "bytes", "bytearray", "shared"])}


def rand_sizes(rng, minw):
    pool = [0, 0, 1, minw - 1, minw, minw + 1, 2 * minw - 1, 2 * minw, 2 * minw + 1, 3 * minw, 3 * minw + 2]
    return [max(0, rng.choice(pool)) for _ in range(rng.choice([1, 1, 2, 2, 3]))]


# ------------------------------------------------------------------ the property, directly on the implementation
def clauses(cfg, tree, r):
    """Return list of (clause-key, detail) violated by the run `r` of the implementation."""
    bad = []
    if "out" not in r:
        return [("fails", f"raised {r.get('exc')}")]
    o = r["out"]
    parts = stream(tree)
    want = bytes(cfg["hdr"] or []) + b"".join(d for p in parts for d, _ in p) + bytes(cfg["footer"] if cfg["has_footer"] else [])
    final = o["final"]
    ids = [p for p, _ in final]
    by_id = sorted(final)
    got = b"".join(d for _, d in by_id)
    if got != want:
        bad.append(("bytes", f"concatenated parts (len {len(got)}) != header+chunks+footer (len {len(want)})"))
    if "file" in o and (o["file"] != want or o["leftover"]):
        bad.append(("sink-file", f"file assembled by MPUFileSink has {len(o['file'])} bytes, want {len(want)}; left behind: {o['leftover']}"))
    if len(set(ids)) != len(ids):
        bad.append(("ids-unique", f"part numbers {ids}"))
    if any(not (cfg["minp"] <= i <= cfg["maxp"]) for i in ids):
        bad.append(("ids-range", f"part numbers {ids} outside [{cfg['minp']},{cfg['maxp']}]"))
    if ids != sorted(ids):
        bad.append(("ids-order", f"part numbers along the stream {ids}"))
    if any(len(d) < cfg["minw"] for _, d in by_id[:-1]):
        bad.append(("min-size", f"sizes by part number {[len(d) for _, d in by_id]} min_write_sz={cfg['minw']}"))
    if sorted(o["log"]) != sorted(final) or len(o["log"]) != len(final):
        bad.append(("finalise-list", f"written {[(i, len(d)) for i, d in o['log']]} vs finalised {[(i, len(d)) for i, d in final]}"))
    for kind, obs in (r.get("seen") or []):
        if obs != o["obs"]:
            bad.append(("observed", f"{kind} callback saw {obs} expected {o['obs']}"))
    return bad


def in_domain(cfg, tree):
    n = len(leaves(tree))
    return (cfg["minw"] >= 0 and cfg["wpc"] >= 1 and cfg["spill"] >= 0 and all(len(l) >= 1 for l in leaves(tree))
            and cfg["minp"] + n * cfg["wpc"] <= cfg["maxp"])


def p_tree(cfg, tree):
    r = run_real(cfg, tree)
    bad = clauses(cfg, tree, r)
    return (not bad), "; ".join(f"{k}: {d}" for k, d in bad), [k for k, _ in bad]


PREDICATES = {"tree": p_tree}   # "dask" replays are dispatched in replay()


# ------------------------------------------------------------------ run
def run(out, tier, scratch):
    out.rule = ("correspondence: random and (thorough: exhaustive over <=5 partitions) merge trees x partition/chunk sizes in "
                "{0,1,minw-1,minw,minw+1,..,3minw+2} x spill on both sides of min_write_sz x writes_per_chunk x header/footer x "
                "part-number limits (tight and loose) ; a case is non-trivial when at least one part is written before "
                "finalisation or an error is raised; distinct = distinct (config, tree).  Lock-step: every intermediate MPUChunk "
                "(8 slots) compared.  End-to-end: dask synchronous and threaded schedulers, the executed merge tree reconstructed.")
    out.assumptions += [
        "each intermediate MPUChunk is consumed by exactly one merge (dask fold/collate structure); the model is a pure function of the merge tree",
        "part numbers/limits of the writer are read-only (PartsWriter protocol)",
        "task purity (the model is functional: an operator never changes its inputs) is not a theorem about the Python code; it is "
        "checked by computing the same graph twice in the end-to-end family (defect 440f778 was found there)",
    ]
    rng = core.rng("c06")
    cases, metas = [], []

    def add_run(cfg, tree, kind):
        r = run_real(cfg, tree)
        cases.append(case_run(cfg, tree, r))
        metas.append((cfg, tree, r))
        out.count(kind)
        out.count("outcome:" + ("ok" if "out" in r else r["out_err"]))
        nontriv = ("out" not in r) or len(r["out"]["log"]) > 1
        out.case((json.dumps(cfg, sort_keys=True), json.dumps(tree)), nontriv,
                 {"cfg": cfg, "tree": tree, "final_parts": [(i, len(d)) for i, d in r["out"]["final"]] if "out" in r else r["out_err"]}
                 if len(out.samples) < 3 else None)
        return r

    found = {}

    def judge(cfg, tree, r, src, dask_args=None):
        if not in_domain(cfg, tree):
            return
        if "out" in r and r["out"].get("modified"):
            # not a clause of the property by itself (a writer may take ownership of a buffer); it is what makes a
            # buffer that occurs twice in the stream come out wrong, which the byte-stream clause then reports
            out.count("observed:chunk buffer changed in place")
        for key, detail in clauses(cfg, tree, r):
            out.count("violated:" + key)
            if key not in found:
                found[key] = True
                rp = ({"predicate": "tree", "args": [cfg, tree], "observed": detail} if dask_args is None else
                      {"predicate": "dask", "args": dask_args, "observed": detail})
                out.violation(f"c06:{key}", f"{src}: {detail}", rp)

    # corpus first
    for rp in core.corpus(ID):
        if rp.get("predicate") == "dask":
            cfg, partitions, subs, sched, again = rp["args"][:5]
            tree, r = run_dask(cfg, partitions, subs, sched, 0, recompute=again, sink=bool(rp["args"][5:] and rp["args"][5]))
            out.count("corpus:dask")
            if tree is not None:
                judge(cfg, tree, r, "corpus " + rp["_file"], rp["args"])
            continue
        cfg, tree = rp["args"]
        r = add_run(cfg, tree, "corpus")
        judge(cfg, tree, r, "corpus " + rp["_file"])

    n_rand = 1500 if tier == "quick" else 12000
    for i in range(n_rand):
        n = rng.choice([1, 2, 2, 3, 3, 4, 5, 6])
        cfg = rand_cfg(rng, n)
        if rng.random() < 0.08:   # malformed stream: too few part numbers
            cfg["maxp"] = cfg["minp"] + rng.randint(0, max(0, n * cfg["wpc"] - 1))
        tree = rand_tree(rng, [rand_sizes(rng, cfg["minw"]) for _ in range(n)])
        r = add_run(cfg, tree, f"random:n={n}")
        judge(cfg, tree, r, f"random case {i}")

    # every bracketing of 3-4 partitions mixing tiny (< min_write_sz) and large partitions: interactions of
    # lhs_keep, left_data accumulation and credits depend on the bracketing, not only on the sizes
    for i in range(40 if tier == "quick" else 400):
        n = rng.choice([3, 3, 4])
        cfg = rand_cfg(rng, n)
        mw = cfg["minw"]
        ll = []
        for _ in range(n):
            if rng.random() < 0.55:
                ll.append([rng.randint(0, max(0, mw - 1)) for _ in range(rng.choice([1, 1, 2]))])
            else:
                ll.append([rng.randint(2 * mw, 5 * mw) for _ in range(rng.choice([1, 2]))])
        cfg["spill"] = rng.choice([mw, mw, mw + 1, 2 * mw, 1])
        for tree in all_trees(ll):
            r = add_run(cfg, tree, f"brackets:n={n}")
            judge(cfg, tree, r, "all bracketings of tiny/large partitions")

    if tier == "thorough":
        # every merge tree over <= 5 partitions, a few size/parameter patterns each
        for n in range(1, 6):
            for pat in range(4):
                cfg = rand_cfg(rng, n)
                ll = [rand_sizes(rng, cfg["minw"]) for _ in range(n)]
                for tree in all_trees(ll):
                    r = add_run(cfg, tree, f"all-trees:n={n}")
                    judge(cfg, tree, r, "all-trees")

    # end-to-end through dask
    n_e2e = 60 if tier == "quick" else 500
    e2e_cases = []
    for i in range(n_e2e):
        n = rng.choice([1, 2, 3, 5, 6, 9])
        cfg = rand_cfg(rng, n, tight=False)
        partitions = [rand_sizes(rng, cfg["minw"]) for _ in range(n)]
        subs, left = [], n
        while left:
            k = rng.randint(1, left)
            subs.append(k)
            left -= k
        if rng.random() < 0.5:
            subs = [n]
        sched = "threads" if i % 3 == 0 else "synchronous"
        again = i % 4 == 1
        sink = i % 5 in (2, 3)
        if sink and i % 2:
            cfg["minw"] = 0          # a writer without a minimum part size: zero-length parts are legitimate
        if i in (7, 23):
            # more partitions than dask.bag.from_sequence puts one-per-partition by default (100)
            n = 101 + i
            cfg = rand_cfg(rng, n, tight=False)
            partitions = [[rng.choice([0, 1, cfg["minw"], 2 * cfg["minw"] + 1])] for _ in range(n)]
            subs = [n] if i == 7 else [60, n - 60]
        tree, r = run_dask(cfg, partitions, subs, sched, i, recompute=again, sink=sink)
        out.count(f"dask:{sched}" + (":computed-twice" if again else "") + (":file-sink" if sink else ""))
        if tree is None:
            if "out" not in r:       # the write itself failed: that is the property's last clause, whatever the tree
                flat = {"leaf": partitions[0]}
                for x in partitions[1:]:
                    flat = [flat, {"leaf": x}]
                judge(cfg, flat, r, f"dask {sched} case {i}", [cfg, partitions, subs, sched, again, sink])
            out.oblige("e2e:merge tree reconstruction", "correspondence", False,
                       f"could not rebuild tree {str(partitions)[:300]} {subs}" + (f" ({r.get('exc')})" if "out" not in r else ""))
            continue
        e2e_cases.append(case_end(cfg, tree, r))
        out.case(("e2e", json.dumps(cfg, sort_keys=True), json.dumps(tree)), True)
        judge(cfg, tree, r, f"dask {sched} case {i}" + (" (second compute of the same graph)" if again else ""),
              [cfg, partitions, subs, sched, again, sink])

    # two graphs that differ only in their data, computed by one dask.compute call
    trng = core.rng("c06-together")
    for i in range(6 if tier == "quick" else 60):
        n = trng.choice([1, 2, 3])
        sa = [[trng.choice([1, 2, 5, 9]) for _ in range(trng.choice([1, 2]))] for _ in range(n)]
        sb = [[trng.choice([1, 3, 7]) for _ in range(len(q))] for q in sa] if i % 2 == 0 else \
             [[trng.choice([1, 3, 7]) for _ in range(trng.choice([1, 2]))] for _ in range(trng.choice([1, 2, 3]))]
        sched = "threads" if i % 3 == 2 else "synchronous"
        ok, detail, _ = p_together(sa, sb, sched)
        out.count("dask:two-graphs-computed-together")
        out.case(("together", json.dumps(sa), json.dumps(sb)), True)
        if not ok and "together" not in found:
            found["together"] = True
            out.violation("c06:together", detail, {"predicate": "together", "args": [sa, sb, sched], "observed": detail})

    fails, log = core.coq_eval_failures(["Base.Result", "Model.Mpu", "Model.MpuCases"], "case", "check", cases, scratch,
                                        shard=60, tag="mpu")
    detail = ""
    if fails:
        detail = "model and implementation differ (lock-step) on: " + " | ".join(
            json.dumps({"cfg": metas[i][0], "tree": metas[i][1]}) for i in fails[:3])
    out.oblige("correspondence:Model.Mpu vs odc.geo.cog._mpu (lock-step)", "correspondence", not fails, detail)
    fails2 = []
    if e2e_cases:
        fails2, log2 = core.coq_eval_failures(["Base.Result", "Model.Mpu", "Model.MpuCases"], "case", "check", e2e_cases,
                                              scratch, shard=20, tag="mpue")
        out.oblige("correspondence:Model.Mpu vs mpu_write(...).compute() through dask", "correspondence", not fails2,
                   "differs on e2e cases " + str(fails2[:5]) if fails2 else "")
    # the dask path disagrees with the model but no clause was seen to fail yet: search that path harder
    if e2e_cases and fails2 and not found:
        srng = core.rng("c06-e2e-search")
        for i in range(3000):
            n = srng.choice([2, 2, 3, 4, 5])
            cfg = rand_cfg(srng, n, tight=(i % 4 == 0))
            partitions = [rand_sizes(srng, cfg["minw"]) for _ in range(n)]
            subs, left = [], n
            while left:
                k = srng.randint(1, left)
                subs.append(k)
                left -= k
            again = i % 3 == 2
            tree, r = run_dask(cfg, partitions, subs if i % 2 else [n], "synchronous", i, recompute=again)
            out.count("dask:search")
            flat = {"leaf": partitions[0]}
            for x in partitions[1:]:
                flat = [flat, {"leaf": x}]
            judge(cfg, tree if tree is not None else flat, r, f"dask search case {i}",
                  [cfg, partitions, subs if i % 2 else [n], "synchronous", again])
            if found:
                break
    # when the model and the code disagree, shrink towards a property violation on the implementation
    if fails and not found:
        for i in fails[:50]:
            cfg, tree, r = metas[i]
            judge(cfg, tree, r, "disagreeing case")


def p_dask(cfg, partitions, subs, sched, again, sink=False):
    tree, r = run_dask(cfg, partitions, subs, sched, 0, recompute=again, sink=sink)
    if tree is None:
        tree = {"leaf": partitions[0]}
        for x in partitions[1:]:
            tree = [tree, {"leaf": x}]
    bad = clauses(cfg, tree, r)
    return (not bad), "; ".join(f"{k}: {d}" for k, d in bad), [k for k, _ in bad]


def p_together(sizes_a, sizes_b, scheduler="synchronous"):
    """two uploads that differ only in their data (no writer: the bytes are returned), computed in ONE dask.compute
    call, each return their own header+chunks+footer"""
    import dask
    import dask.bag
    from odc.geo.cog import _mpu as M

    def bag(sizes, salt):
        parts, pos, cid = [], 0, 0
        for part in sizes:
            q = []
            for sz in part:
                q.append((bytes((salt + pos + i) % 251 for i in range(sz)), cid))
                pos += sz
                cid += 1
            parts.append(q)
        return parts, dask.bag.from_delayed([dask.delayed(list, pure=False)(q) for q in parts])

    pa, ba = bag(sizes_a, 0)
    pb, bb = bag(sizes_b, 100)
    ra, rb = M.mpu_write(ba), M.mpu_write(bb)
    xa, xb = dask.compute(ra, rb, scheduler=scheduler)
    wa, wb = (b"".join(d for q in pp for d, _ in q) for pp in (pa, pb))
    ga, gb = bytes(xa.data), bytes(xb.data)
    ok = ga == wa and gb == wb
    return ok, ("each upload returned its own bytes" if ok else
                f"computed together: first returned {len(ga)} bytes ({'its own' if ga == wa else 'NOT its own'}), "
                f"second returned {len(gb)} bytes ({'its own' if gb == wb else 'the first one\'s' if gb == wa else 'NOT its own'}); "
                f"same dask key: {ra.key == rb.key}"), ["together"]


def replay(rp) -> int:
    if rp.get("predicate") == "together":
        ok, detail, _ = p_together(*rp["args"])
        print(f"replay two uploads computed together {json.dumps(rp['args'])}: {'holds' if ok else 'FAILS: ' + detail}")
        return 0 if ok else 1
    if rp.get("predicate") == "dask":
        ok, detail, _ = p_dask(*rp["args"])
        print(f"replay mpu_write through dask {json.dumps(rp['args'])}: {'holds' if ok else 'FAILS: ' + detail}")
        return 0 if ok else 1
    cfg, tree = rp["args"]
    ok, detail, _ = p_tree(cfg, tree)
    print(f"replay mpu tree {json.dumps(rp['args'])}: {'holds' if ok else 'FAILS: ' + detail}")
    return 0 if ok else 1


META = {
    "text": ("Coq theorems (coq/Props/C06.v, closed under the global context) over a statement-by-statement Gallina model of "
             "MPUChunk and the dask graph operators: for EVERY binary merge tree over adjacent partitions, every chunk list "
             "(>=1 chunk per partition, any sizes incl. 0), every spill size >= 0, writes-per-chunk >= 1, header/footer option "
             "and writer limits with enough part numbers, the run never raises, the finalised parts concatenated equal "
             "header ++ chunks ++ footer, part numbers are strictly increasing within [min_part, max_part], the finalise list is a "
             "permutation of the writer calls, every part but the last is >= min_write_sz and the callbacks observe the full "
             "(size, id) list.  Proved by an inductive chunk invariant preserved by append/maybe_write/merge and lifted over trees.  "
             "The three defects of the pinned code (final-partition spill, undersized spill parts, hard-coded part 1) are "
             "_refuted theorems with vm_compute witnesses and were repaired in /repo."),
    "note": ("Trusted: Coq kernel; hand-written model coq/Model/Mpu.v tied to odc/geo/cog/_mpu.py by lock-step correspondence "
             "(all 8 slots of every intermediate MPUChunk) and by end-to-end dask runs with the executed merge tree reconstructed; "
             "dask's contract that each intermediate chunk is consumed by exactly one merge (aliasing of lhs.parts/left_data is then "
             "unobservable) and that the fold/collate shape is a binary bracketing of adjacent partitions; the writer is modelled "
             "as a pure log (thread-safety of the real writer and max_write_sz are not part of the statement)."),
    "technique": "Coq proof (inductive invariant over all merge trees) on hand-written Gallina model + lock-step differential correspondence",
    "design_ref": "DESIGN.md section 5, C06",
}
