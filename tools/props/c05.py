"""C05 — parallel (dask) COG writer: layout rule, tile enumeration, offsets, overview-first.

Correspondence (a): the model of coq/Model/CogLayout.v against the real
functions of odc/geo/cog/_shared.py and _tifffile.py on exhaustive small
domains.  Correspondence (b): end-to-end runs of save_cog_with_dask; the
produced file's tags 256/257/322/323/324/325 per IFD against the model's
prediction from the observed stream.  Search: the property's own predicates
evaluated directly on the implementation / on the produced file (no model
involved); decoding by rasterio AND tifffile against the input pixels (that
part validates the decoder / codec oracles and is testing).
"""
from __future__ import annotations

import copy
import itertools
import json
import os
import tempfile
from pathlib import Path

import numpy as np

from vlib import core
from vlib.core import clist, copt, ctuple, cz

ID = "C05"
ALLOWED_AXIOMS: list[str] = []
AX_CODE = {"YX": 0, "YXS": 1, "SYX": 2}


# ---------------------------------------------------------------- Coq literals
def cpair(p) -> str:
    return ctuple(cz(p[0]), cz(p[1]))


def cblk(b) -> str:
    if isinstance(b, (tuple, list)):
        return f"(BPair {cz(b[0])} {cz(b[1])})"
    return f"(BInt {cz(b)})"


def cblks(bs) -> str:
    return "[" + "; ".join(cblk(b) for b in bs) + "]"


def cmeta_t(t) -> str:
    ax, shape, tile, ns = t
    return f"(Meta {ax} {cpair(shape)} {cpair(tile)} {cz(ns)})"


def cmetas(ts) -> str:
    return "[" + "; ".join(cmeta_t(t) for t in ts) + "]"


def c3(t) -> str:
    return ctuple(cz(t[0]), cz(t[1]), cz(t[2]))


def c4(t) -> str:
    return ctuple(cz(t[0]), cz(t[1]), cz(t[2]), cz(t[3]))


def cobs(o) -> str:
    return ctuple(*(cz(v) for v in o))


def cinfo(info) -> str:
    return "[" + "; ".join(ctuple(clist(o), clist(l)) for o, l in info) + "]"


def cmeta_obs(m) -> str:
    """m = (axis, shape, tile, nsamples, chunked, num_tiles, num_planes)"""
    ax, shape, tile, ns, ch, nt, npl = m
    return ctuple(cz(AX_CODE[ax]), cpair(shape), cpair(tile), cz(ns), cpair(ch), cz(nt), cz(npl))


def cres(f, call):
    try:
        v = call()
    except ValueError:
        return "(Err EValue)", "ValueError"
    except IndexError:
        return "(Err EIndex)", "IndexError"
    except AssertionError:
        return "(Err (EAssert 0))", "AssertionError"
    except ImplTimeout:
        raise
    except Exception as e:      # anything else: no model result has this kind, the case will be reported
        return "(Err EOther)", type(e).__name__
    return f"(Ok {f(v)})", "ok"


class ImplTimeout(Exception):
    pass


class limited:
    """Wall-clock limit for calls into the implementation (SIGALRM; main thread only)."""

    def __init__(self, seconds, what):
        self.seconds, self.what = seconds, what

    def __enter__(self):
        import signal

        def on_alarm(*_):
            raise ImplTimeout(f"{self.what}: implementation did not return within {self.seconds}s")
        self.old = signal.signal(signal.SIGALRM, on_alarm)
        signal.alarm(self.seconds)

    def __exit__(self, *a):
        import signal
        signal.alarm(0)
        signal.signal(signal.SIGALRM, self.old)
        return False


# ---------------------------------------------------------------- real objects
def mk_meta(t, overviews=()):
    from odc.geo.cog._shared import CogMeta
    from odc.geo.types import shape_

    ax, shape, tile, ns = t
    m = CogMeta(ax, shape_(tuple(shape)), shape_(tuple(tile)), ns, "uint8", 8, 1)
    m.overviews = tuple(overviews)
    return m


def mk_metas(ts):
    ms = [mk_meta(t) for t in ts]
    ms[0].overviews = tuple(ms[1:])
    return ms[0]


def meta_tuple(m):
    return (m.axis, tuple(m.shape.yx), tuple(m.tile.yx), int(m.nsamples))


def observe_meta(m):
    return (m.axis, tuple(m.shape.yx), tuple(m.tile.yx), int(m.nsamples), tuple(m.chunked.yx),
            int(m.num_tiles), int(m.num_planes))


def mk_gbox(shape):
    from affine import Affine
    from odc.geo.geobox import GeoBox

    return GeoBox(tuple(shape), Affine(4.0, 0.0, 1000.0, 0.0, -4.0, 2000.0), "epsg:3857")


def ceil16(b):
    return -(-b // 16) * 16


PYRAMIDS = [[("YX", (56, 72), (32, 32), 1), ("YX", (28, 36), (16, 16), 1), ("YX", (14, 18), (16, 16), 1), ("YX", (7, 9), (16, 16), 1)],
            [("SYX", (32, 40), (16, 16), 2), ("SYX", (16, 20), (16, 16), 2)],
            [("YXS", (32, 40), (16, 16), 3), ("YXS", (16, 20), (16, 16), 3), ("YXS", (8, 10), (16, 16), 3)],
            [("SYX", (5, 7), (16, 16), 3)]]


# ---------------------------------------------------------------- correspondence (a)
def gen_cases(out, tier):
    from odc.geo.cog import _shared as S
    from odc.geo.cog import _tifffile as T
    from odc.geo.math import align_down_pow2, align_up_pow2

    rng = core.rng("c05")
    thorough = tier != "quick"
    cases = []

    def add(kind, text, canon, nontrivial=True, sample=None):
        cases.append(text)
        out.count(kind)
        out.case((kind, canon), nontrivial, sample)

    sections = []

    def sec_blocksizes():
        # adjust_blocksize / norm_blocksize
        blocks = list(range(-2, 70)) + [100, 255, 256, 257, 511, 512, 513, 1000, 2048]
        dims = list(range(0, 70)) + [100, 255, 256, 257, 500, 512, 3000]
        for b in blocks:
            for d in (dims if (thorough or b in (16, 17, 33, 40)) else dims[::4]):
                add("adjust_blocksize", f"CAdjust {cz(b)} {cz(d)} {cz(S.adjust_blocksize(b, d))}", (b, d), 0 < d < b,
                    {"op": "adjust_blocksize", "block": b, "dim": d, "result": S.adjust_blocksize(b, d)} if (b, d) == (40, 17) else None)
            add("norm_blocksize", f"CNormBlk {cblk(b)} {cpair(S.norm_blocksize(b))}", b)
        for b1, b2 in itertools.product([1, 15, 16, 17, 31, 32, 33, 100, 256, 500], repeat=2):
            add("norm_blocksize", f"CNormBlk {cblk((b1, b2))} {cpair(S.norm_blocksize((b1, b2)))}", (b1, b2))

    sections.append(("blocksizes", sec_blocksizes))

    def sec_overview_count():
        # num_overviews (terminating inputs: block >= 0)
        for b in [0, 1, 2, 15, 16, 17, 32, 48, 64, 100, 256, 512]:
            for d in list(range(-3, 300 if thorough else 70)) + [100, 127, 128, 129, 255, 256, 257, 511, 512, 513, 1023, 1024, 1025, 4096, 10 ** 6, 2 ** 40 + 1]:
                with limited(20, f"num_overviews({b}, {d})"):
                    c = S.num_overviews(b, d)
                add("num_overviews", f"CNumOvr {cz(b)} {cz(d)} {cz(c)}", (b, d), b < d)
        for x in list(range(-2, 70)) + [2 ** k + e for k in (7, 10, 20, 49, 60) for e in (-1, 0, 1)]:
            add("pow2", f"CPow2 {cz(x)} {cz(align_up_pow2(x))} {cz(align_down_pow2(x))}", x, x > 0)

    sections.append(("overview_count", sec_overview_count))

    def sec_cog_spec():
        # compute_cog_spec
        tiles = [(16, 16), (16, 32), (32, 16), (5, 100), (48, 48), (1, 1), (64, 16)]
        pads = [None, None, 0, 1, 2, 3, 4, 7, 8, 100]
        shapes = [(h, w) for h in range(1, 41 if thorough else 25) for w in (1, 2, 15, 16, 17, 33, 40, 70, 129, 300, 520)]
        shapes += [(w, h) for h, w in shapes[:: 3]]
        for sh in shapes:
            for tl in (tiles if thorough else rng.sample(tiles, 2)):
                mp = rng.choice(pads)
                s2, t2, n = S.compute_cog_spec(sh, tl, max_pad=mp)
                exp = ctuple(ctuple(cpair(s2.yx), cpair(t2.yx)), cz(n))
                add("compute_cog_spec", f"CSpec {cpair(sh)} {cpair(tl)} {copt(mp)} {exp}", (sh, tl, mp), n > 0,
                    {"op": "compute_cog_spec", "shape": sh, "tile": tl, "max_pad": mp, "result": [list(s2.yx), list(t2.yx), n]}
                    if (sh, tl) == ((17, 300), (16, 16)) else None)

    sections.append(("cog_spec", sec_cog_spec))

    def sec_yaxis():
        # yaxis_from_shape (malformed stream included: 1-d, 4-d, mismatching GeoBox)
        ysh = [(5,), (5, 7), (5, 7, 2), (5, 7, 3), (5, 7, 4), (2, 5, 7), (3, 5, 7), (4, 4, 4), (3, 3, 3), (2, 5, 3),
               (2, 5, 4), (5, 5, 5), (2, 3, 4, 5), (7, 5, 2)]
        for sh in ysh:
            gshapes = [None, (5, 7), (7, 5), (4, 4), (3, 3), (5, 3), (5, 4), (5, 5), (2, 5)]
            for g in gshapes:
                for ya in (None, 0, 1):
                    gbox = None if g is None else mk_gbox(g)
                    t, kind = cres(lambda v: ctuple(cz(AX_CODE[v[0]]), cz(v[1])), lambda: S.yaxis_from_shape(sh, gbox, ya))
                    g_txt = "None" if g is None else f"(Some {cpair(g)})"
                    add("yaxis_from_shape:" + kind, f"CYaxis {clist(sh)} {g_txt} {copt(ya)} {t}", (sh, g, ya))

    sections.append(("yaxis", sec_yaxis))

    def sec_make_empty_cog():
        # _make_empty_cog: metas (and the IFDs tifffile rendered for them)
        mshapes = [(1, 1), (1, 70), (50, 1), (5, 7), (16, 16), (17, 300), (16, 300), (50, 70), (48, 520), (33, 33),
                   (64, 64), (65, 64), (100, 37), (8, 70), (2, 1000)]
        if thorough:
            mshapes += [(h, w) for h in (1, 2, 3, 15, 16, 17, 31, 32, 33, 47, 48, 49, 64, 127, 128, 129, 255, 256, 257)
                        for w in (1, 16, 17, 100, 256, 257, 700)]
        bss = [[16], [32, 16], [(16, 32)], [48, 16], [(32, 16), 16, 32], [100], [16, 16, 16, 16, 64], [20], [256, 128], [5]]
        ifd_bad = []
        n_ifd = 0
        for sh in mshapes:
            for bs in (bss if thorough else rng.sample(bss, 4)):
                for ax, ns in (("YX", 1), ("YXS", 2), ("YXS", 3), ("SYX", 2), ("SYX", 4)):
                    if not thorough and rng.random() < 0.5:
                        continue
                    full = sh if ax == "YX" else ((*sh, ns) if ax == "YXS" else (ns, *sh))
                    use_gbox = rng.random() < (0.3 if thorough else 0.15)
                    ya = None if rng.random() < 0.5 else (0 if ax != "SYX" else 1)
                    gbox = mk_gbox(sh) if use_gbox else None
                    bsz = bs[0] if (len(bs) == 1 and rng.random() < 0.5 and isinstance(bs[0], int)) else list(bs)

                    def call():
                        meta, hdr = T._make_empty_cog(full, "uint8", gbox, blocksize=bsz, yaxis=ya, compression="deflate")
                        return meta, bytes(hdr)
                    try:
                        meta, hdr = call()
                        obs = [observe_meta(m) for m in meta.flatten()]
                        t = f"(Ok [{'; '.join(cmeta_obs(m) for m in obs)}])"
                        kind = "ok"
                    except ValueError:
                        t, kind, obs, hdr = "(Err EValue)", "ValueError", None, None
                    except ImplTimeout:
                        raise
                    except Exception as e:
                        t, kind, obs, hdr = "(Err EOther)", type(e).__name__, None, None
                    g_txt = "None" if gbox is None else f"(Some {cpair(sh)})"
                    add("make_empty_cog:" + kind, f"CMetas {clist(full)} {g_txt} {copt(ya)} {cblks(bs)} {t}",
                        (full, use_gbox, ya, str(bs)), True,
                        {"op": "_make_empty_cog", "shape": full, "blocksize": bs,
                         "levels": [[list(m[1]), list(m[2])] for m in obs]} if (obs and sh == (17, 300) and len(out.samples) < 4) else None)
                    if obs is not None:
                        # oracle: tifffile's empty-IFD writer rendered exactly these levels
                        n_ifd += 1
                        got = ifds_of_bytes(hdr)
                        want = [(m[1][1], m[1][0], m[2][1], m[2][0], m[5]) for m in obs]
                        have = [(i["width"], i["length"], i["tile_w"], i["tile_l"], len(i["offsets"])) for i in got]
                        if want != have:
                            ifd_bad.append((full, bs, want, have))
        out.oblige("oracle:tifffile empty-IFD writer renders the CogMeta levels (tags 256/257/322/323, tile count)",
                   "oracle-contract", not ifd_bad, f"{len(ifd_bad)} of {n_ifd}: {ifd_bad[:2]}")
        out.count("oracle:ifd-render", n_ifd)

    sections.append(("make_empty_cog", sec_make_empty_cog))

    def sec_cogmeta_indices():
        # CogMeta: flat_tile_idx / tidx / cog_tidx, exhaustive over small metas
        small = [("YX", (5, 7), (16, 16), 1), ("YX", (33, 17), (16, 16), 1), ("YX", (40, 50), (16, 32), 1),
                 ("YXS", (33, 17), (16, 16), 3), ("SYX", (33, 17), (16, 16), 2), ("SYX", (17, 49), (16, 16), 3),
                 ("SYX", (1, 1), (16, 16), 1), ("YX", (64, 64), (16, 16), 1), ("SYX", (20, 70), (32, 16), 4)]
        for t in small:
            m = mk_meta(t)
            ny, nx = m.chunked.yx
            for idx in itertools.product(range(-1, m.num_planes + 1), range(-1, ny + 1), range(-1, nx + 1)):
                r, kind = cres(cz, lambda: m.flat_tile_idx(idx))
                add("flat_tile_idx:" + kind, f"CFlat {cmeta_t(t)} {c3(idx)} {r}", (t, idx))
            add("tidx", f"CTidx {cmeta_t(t)} [{'; '.join(c3(i) for i in m.tidx())}]", t)
            for s in range(0, m.num_planes + 2):
                r, kind = cres(lambda v: "[" + "; ".join(c3(i) for i in v) + "]", lambda: list(m.tidx(s)))
                add("tidx_of:" + kind, f"CTidxOf {cmeta_t(t)} {cz(s)} {r}", (t, s))
        for ts in PYRAMIDS:
            m = mk_metas(ts)
            add("cog_tidx", f"CCogTidx {cmetas(ts)} [{'; '.join(c4(i) for i in m.cog_tidx())}]", str(ts))

    sections.append(("cogmeta_indices", sec_cogmeta_indices))

    def sec_extract_tile_info():
        # _extract_tile_info: complete streams in random order with random sizes (zeros included),
        # plus the malformed stream: duplicates, out-of-range indices, bad / negative level indices
        n_streams = 60 if not thorough else 600
        for k in range(n_streams):
            ts = rng.choice(PYRAMIDS)
            m = mk_metas(ts)
            tiles = list(m.cog_tidx())
            mode = rng.choice(["perm", "perm", "perm", "writer", "dup", "partial", "badidx", "badlevel", "neglevel"])
            if mode in ("perm", "dup", "partial", "badidx", "badlevel", "neglevel"):
                rng.shuffle(tiles)
            if mode == "dup":
                tiles = tiles + rng.sample(tiles, min(3, len(tiles)))
            if mode == "partial":
                tiles = tiles[: rng.randint(0, len(tiles))]
            stream = [(*t, rng.choice([0, 0, 1, 2, 5, 17, 100, 4096])) for t in tiles]
            if mode == "badidx":
                i = rng.randrange(len(stream))
                s = list(stream[i])
                s[rng.choice([1, 2, 3])] = rng.choice([-1, 99])
                stream[i] = tuple(s)
            if mode == "badlevel":
                i = rng.randrange(len(stream))
                stream[i] = (len(ts) + rng.choice([0, 3]), *stream[i][1:])
            if mode == "neglevel":
                i = rng.randrange(len(stream))
                stream[i] = (rng.choice([-1, -len(ts), -len(ts) - 1]), 0, 0, 0, 7)
            start = rng.choice([0, 0, 8, 1000])
            r, kind = cres(cinfo, lambda: T._extract_tile_info(m, stream, start))
            add(f"extract_tile_info:{mode}:{kind}",
                f"CExtract {cmetas(ts)} [{'; '.join(cobs(o) for o in stream)}] {cz(start)} {r}",
                (str(ts), tuple(stream), start), True,
                {"op": "_extract_tile_info", "levels": [list(t[1]) for t in ts], "stream": stream[:6], "start": start, "result": r[:200]}
                if k == 0 else None)

    sections.append(("extract_tile_info", sec_extract_tile_info))

    problems = []
    for name, fn in sections:
        try:
            with limited(300, name):
                fn()
        except Exception as e:      # a crash or hang inside the implementation: reported, the search still runs
            problems.append(f"{name}: {type(e).__name__}: {str(e)[:300]}")
    return cases, problems


def ifds_of_bytes(hdr: bytes):
    import io

    import tifffile

    out = []
    with tifffile.TiffFile(io.BytesIO(hdr)) as tf:
        for p in tf.pages:
            t = p.tags
            seq = lambda v: [int(x) for x in v] if isinstance(v, (tuple, list)) else [int(v)]
            out.append({"width": int(t[256].value), "length": int(t[257].value), "tile_w": int(t[322].value),
                        "tile_l": int(t[323].value), "offsets": seq(t[324].value), "bytecounts": seq(t[325].value)})
    return out


# ---------------------------------------------------------------- end-to-end configurations
def e2e_configs(tier):
    rng = core.rng("c05-e2e")
    base = dict(S=1, axis="YX", dtype="uint16", chunks=(32, 32), blocksize=[32, 16], compression="deflate", stats=False)
    cfgs = [
        dict(base, H=50, W=70),
        dict(base, H=50, W=70, axis="YXS", S=3, dtype="uint8"),
        dict(base, H=50, W=70, axis="SYX", S=2, dtype="int16"),
        dict(base, H=50, W=70, axis="SYX", S=3, dtype="float32", chunks=(20, 50), band_chunk=1),
        dict(base, H=1, W=70),                                   # single row
        dict(base, H=50, W=1),                                   # single column
        dict(base, H=1, W=1, chunks=(1, 1), blocksize=None),     # single pixel, default block sizes
        dict(base, H=5, W=7, blocksize=None),                    # narrower than a tile, default block sizes
        dict(base, H=8, W=70),                                   # smallest overview is one pixel high
        dict(base, H=50, W=70, stats=True, nodata=7),
        dict(base, H=50, W=70, dtype="float64", scheduler="threads:4", nodata=-1.5),
        dict(base, H=50, W=70, dtype="int8", scheduler="shuffle:3"),
        dict(base, H=50, W=70, compression="zstd", predictor=False),
        dict(base, H=50, W=70, compression="none", min_write_sz=64, spill_sz=100, scheduler="shuffle:5"),
        dict(base, H=50, W=70, axis="YXS", S=2, dtype="uint8", chunks=(50, 70)),
        dict(base, H=50, W=3, axis="SYX", S=2, dtype="uint8"),  # band-first, 3 pixels wide
        dict(base, H=4, W=4, axis="SYX", S=4, dtype="uint8", chunks=(4, 4)),   # cube
        dict(base, H=50, W=70, bigtiff=False),
        dict(base, H=16, W=300, chunks=(16, 16), blocksize=[16], dtype="uint8"),    # padding adds a tile row
        dict(base, H=40, W=300, chunks=(40, 100), blocksize=[(16, 32), 16], dtype="uint8", compression="none",
             scheduler="threads:3"),
        dict(base, H=40, W=100, chunks=(40, 100), blocksize=[(16, 32), 16], dtype="uint8", compression="none",
             min_write_sz=256, spill_sz=256, scheduler="threads:3"),
        dict(base, H=63, W=64, axis="YXS", S=4, dtype="int16", chunks=(32, 9), blocksize=[(32, 16), 32, 16],
             compression="none", nodata=-3),                     # uncompressed level that is exactly one tile
        dict(base, H=40, W=33, axis="SYX", S=1, dtype="float32", chunks=(48, 1), blocksize=[(16, 32), 16], band_chunk=1),
        dict(base, H=16, W=3, axis="YXS", S=1, dtype="float64", chunks=(16, 32), blocksize=[(32, 16), 32, 16]),
        # several writes per chunk with parts small enough that non-final chunks spill, several sub-streams (levels)
        dict(base, H=50, W=70, compression="none", writes_per_chunk=2, min_write_sz=64, spill_sz=64),
        dict(base, H=50, W=70, compression="none", writes_per_chunk=3, min_write_sz=1, spill_sz=1, scheduler="shuffle:2"),
        dict(base, H=40, W=40, axis="SYX", S=2, dtype="float32", chunks=(16, 16), blocksize=[16], compression="none",
             writes_per_chunk=2, min_write_sz=500, spill_sz=500, band_chunk=1, scheduler="threads:3"),
        dict(base, H=15, W=17, dtype="float32", chunks=(20, 9), blocksize=[(32, 16), 32, 16], compression="none",
             writes_per_chunk=2, min_write_sz=64, spill_sz=256),
        # source memory layouts: Fortran order, lazily transposed (F-contiguous blocks), non-contiguous views; tile == chunk,
        # image a multiple of the tile (no padding copy), uncompressed and compressed
        dict(base, H=64, W=96, chunks=(32, 32), blocksize=[32], compression="none", memory="transposed"),
        dict(base, H=64, W=96, chunks=(32, 32), blocksize=[32], compression="none", memory="F", dtype="float32"),
        dict(base, H=32, W=32, chunks=(32, 32), blocksize=[32], compression="none", memory="F", dtype="uint8"),
        dict(base, H=64, W=64, chunks=(32, 32), blocksize=[32], compression="none", memory="view"),
        dict(base, H=64, W=96, chunks=(32, 32), blocksize=[32], compression="none", memory="transposed", axis="YXS", S=3, dtype="uint8"),
        dict(base, H=64, W=64, chunks=(32, 32), blocksize=[32], compression="none", memory="transposed", axis="SYX", S=2, band_chunk=1),
        dict(base, H=64, W=96, chunks=(32, 32), blocksize=[32], compression="deflate", memory="transposed"),
        dict(base, H=50, W=70, compression="none", memory="transposed", dtype="int16"),
        dict(base, H=50, W=70, compression="zstd", memory="F", axis="YXS", S=2, dtype="uint8"),
        dict(base, H=48, W=48, chunks=(16, 16), blocksize=[16], compression="lerc", memory="transposed", dtype="uint8"),
        # pixel-interleaved sources chunked along the sample axis (da.stack(bands, axis=-1) style)
        dict(base, H=50, W=70, axis="YXS", S=3, dtype="uint8", band_chunk=1),
        dict(base, H=40, W=40, axis="YXS", S=4, dtype="int16", band_chunk=2, chunks=(16, 40), blocksize=[16], compression="none"),
        dict(base, H=33, W=20, axis="YXS", S=2, dtype="float32", band_chunk=1, chunks=((16, 17), (20,)), blocksize=None, scheduler="shuffle:4"),
        dict(base, H=64, W=64, axis="SYX", S=3, dtype="uint8", band_chunk=2, chunks=(32, 32)),
        # bool images (stored as 8-bit 0/1)
        dict(base, H=50, W=70, dtype="bool"),
        dict(base, H=33, W=40, dtype="bool", compression="none", nodata=0),
        dict(base, H=40, W=40, dtype="bool", axis="SYX", S=2, band_chunk=1, compression="zstd", stats=True),
        dict(base, H=40, W=50, dtype="bool", axis="YXS", S=3, compression="lzw", scheduler="threads:3"),
        # an explicit predictor with codecs whose readers do not undo it (ignored like GDAL's PREDICTOR option)
        dict(base, H=40, W=50, dtype="int16", compression="packbits", predictor=True),
        dict(base, H=40, W=50, dtype="uint16", compression="lerc", predictor=2),
        dict(base, H=40, W=50, dtype="float32", compression="lerc_zstd", predictor=True, kw=dict(zstd_level=3)),
        dict(base, H=40, W=50, dtype="uint8", compression="none", predictor=True),
        # every lossless codec the writer accepts, with its tuning options (writer spelling and GDAL spelling)
        *codec_configs(base),
        # irregular source chunking whose largest chunk equals the tile size (chunksize == tile, no rechunk before dec5ed6)
        dict(base, H=100, W=72, chunks=((32, 18, 32, 18), (32, 32, 8)), blocksize=[32, 16]),
        dict(base, H=64, W=64, axis="SYX", S=2, dtype="uint8", chunks=((32, 16, 16), (16, 32, 16)), blocksize=[32], band_chunk=1),
        dict(base, H=48, W=80, axis="YXS", S=3, dtype="uint8", chunks=((16, 32), (32, 16, 32)), blocksize=[(32, 32), 16],
             scheduler="shuffle:7"),
        dict(base, H=70, W=50, chunks=((10, 32, 28), (32, 5, 13)), blocksize=None),
        dict(base, H=33, W=47, blocksize=[(16, 32), 16], chunks=(10, 47), transform=[3.0, 4.0, 10.0, 4.0, -3.0, 50.0]),
        dict(base, H=70, W=50, axis="SYX", S=2, chunks=(32, 32), band_chunk=2, dtype="uint8", scheduler="shuffle:11",
             stats=True),
        # nodata 0 (a falsy value), given as `nodata` or as `_FillValue` attribute
        dict(base, H=50, W=70, dtype="uint8", nodata=0),
        dict(base, H=33, W=40, dtype="int16", nodata=0, nodata_attr="_FillValue", compression="none"),
        dict(base, H=33, W=40, dtype="float32", nodata=0.0),
        dict(base, H=33, W=40, dtype="float32", nodata=float("nan")),
        dict(base, H=33, W=40, dtype="float64", nodata=float("nan"), nodata_attr="_FillValue", stats=True),
        dict(base, H=33, W=40, dtype="uint8", nodata=0, fill_value_attr=255),      # both attributes, `nodata` wins
        dict(base, H=33, W=40, dtype="uint8", nodata=255, fill_value_attr=0, axis="YXS", S=2),
        # source arrays in non-native byte order
        dict(base, H=50, W=70, dtype=">u2"),
        dict(base, H=33, W=40, axis="SYX", S=2, dtype=">i4", compression="none", band_chunk=1),
        dict(base, H=20, W=40, axis="YXS", S=3, dtype=">f8", predictor=False),
        # the same task graph computed twice: the second file is the one examined
        dict(base, H=50, W=70, twice=True),
        dict(base, H=40, W=100, chunks=(40, 100), blocksize=[(16, 32), 16], dtype="uint8", compression="none",
             min_write_sz=256, spill_sz=256, scheduler="threads:3", twice=True),
    ]
    extra = 14 if tier == "quick" else 300
    for i in range(extra):
        ax = rng.choice(["YX", "YX", "YXS", "SYX"])
        H = rng.choice([1, 2, 3, 15, 16, 17, 31, 32, 33, 40, 47, 48, 49, 63, 64, 65, 90])
        W = rng.choice([1, 2, 3, 4, 16, 17, 33, 50, 64, 70, 100, 129, 260])
        if rng.random() < 0.4:
            H, W = W, H
        c = dict(S=1 if ax == "YX" else rng.choice([1, 2, 3, 4, 5]), axis=ax,
                 dtype=rng.choice(["uint8", "int8", "uint16", "int16", "int32", "float32", "float64"]),
                 H=H, W=W, stats=rng.random() < 0.25)
        c["chunks"] = (rng.choice([1, 7, 16, 20, 32, 48, H]), rng.choice([1, 9, 16, 32, 33, 64, W]))
        if c["chunks"][0] * c["chunks"][1] < 40 and H * W > 2000:
            c["chunks"] = (16, 32)
        if rng.random() < 0.3:
            # irregular chunking along one or both axes, often with the largest chunk equal to a likely tile size
            c["chunks"] = tuple(irregular_chunks(rng, d) if rng.random() < 0.7 else ch for d, ch in zip((H, W), c["chunks"]))
        c["blocksize"] = rng.choice([None, [16], [32, 16], [(16, 32), 16], [48, 16], [(32, 16), 32, 16], [64], 32])
        c["compression"] = rng.choice(["deflate", "deflate", "zstd", "none", "lzw"])
        if rng.random() < 0.3 and c["compression"] != "none":    # tifffile rejects a predictor without compression
            c["predictor"] = rng.choice([False, True])
        if rng.random() < 0.35:
            c.pop("predictor", None)
            random_codec(rng, c)
        if rng.random() < 0.3:
            c["nodata"] = rng.choice([0, 1, 255 if np.dtype(c["dtype"]).kind == "u" else -3])
            if np.dtype(c["dtype"]).kind == "f" and rng.random() < 0.4:
                c["nodata"] = rng.choice([float("nan"), 0.0])
            elif rng.random() < 0.25:
                c["fill_value_attr"] = 7 if c["nodata"] != 7 else 9
            if rng.random() < 0.3:
                c["nodata_attr"] = "_FillValue"
        if rng.random() < 0.12 and np.dtype(c["dtype"]).itemsize > 1:
            c["dtype"] = np.dtype(c["dtype"]).newbyteorder(">").str       # e.g. '>u2'
        if rng.random() < 0.1:
            c["twice"] = True
        if ax == "SYX":
            c["band_chunk"] = rng.choice([1, -1])
        elif ax == "YXS" and rng.random() < 0.4:
            c["band_chunk"] = rng.choice([1, 1, 2])
        if rng.random() < 0.3 and all(isinstance(ch, int) for ch in c["chunks"]):
            c["memory"] = rng.choice(["F", "transposed", "transposed", "view"])
            if rng.random() < 0.5:
                # tile == chunk and the image a multiple of it: blocks reach the compressor without a padding copy
                t = rng.choice([16, 32])
                c.update(H=t * rng.choice([1, 2, 3]), W=t * rng.choice([1, 2]), chunks=(t, t), blocksize=[t], compression="none")
                c.pop("predictor", None)
                for k in ("level", "kw", "compressionargs"):
                    c.pop(k, None)
        if rng.random() < 0.06 and not str(c["compression"]).startswith("lerc"):    # LERC refuses bool blocks (loudly)
            c["dtype"] = "bool"
            if c.get("nodata") is not None and not (c["nodata"] == 0 or c["nodata"] == 1):
                c["nodata"] = 1                     # a nodata value the 8-bit file can hold
            c.pop("predictor", None)
        c["scheduler"] = rng.choice(["sync", f"shuffle:{i}", f"shuffle:{i + 100}", "threads:2", "threads:4"])
        if rng.random() < 0.5 and level0_tiles(c) <= 20:
            # small parts / spilling only where every bag partition holds one tile and spill_sz >= min_write_sz:
            # the other combinations run into the multi-part defects tracked under property C06 (F2/F3)
            c["min_write_sz"] = rng.choice([1, 64, 500])
            c["spill_sz"] = c["min_write_sz"] * rng.choice([1, 4, 40])
        if rng.random() < (0.5 if "min_write_sz" in c else 0.1):
            c["writes_per_chunk"] = rng.choice([2, 2, 3])
        if rng.random() < 0.2:
            c["bigtiff"] = False
        cfgs.append(c)
    for i, c in enumerate(cfgs):
        c["name"] = f"e{i:03d}"
    return cfgs


# (compression, dtypes, options) - all lossless: independent readers must return the exact pixels.  Left out because
# the UNCHANGED tree or a reader cannot do them: PACKBITS with a predictor (GDAL ignores the predictor), JPEG (lossy),
# WEBP for anything but 3/4-sample uint8, JPEGXL/PNG/JPEG2000/JPEGXR (no GDAL codec here), LERC with max_z_error > 0 (lossy).
CODECS = [
    ("deflate", ["uint8", "uint16", "int32", "float32"], [dict(level=9), dict(kw=dict(zlevel=1)), dict(kw=dict(zlevel=9), predictor=True),
                                                          dict(compressionargs=dict(level=4)), dict(predictor=False)]),
    ("adobe_deflate", ["int16", "float64"], [dict(level=6), dict(predictor=True)]),
    ("zstd", ["uint8", "int16", "float32"], [dict(level=19), dict(kw=dict(zstd_level=3)), dict(kw=dict(zstd_level=15), predictor=True)]),
    ("lzma", ["uint16", "float32"], [dict(level=3), dict(predictor=True), dict(predictor=False)]),
    ("lzw", ["uint8", "uint16", "float32"], [dict(), dict(predictor=True)]),
    ("packbits", ["uint8", "int16"], [dict()]),
    ("none", ["uint16", "float64"], [dict(), dict(level=5)]),
    ("lerc", ["uint8", "uint16", "int16", "float32"], [dict(), dict(kw=dict(max_z_error=0)), dict(level=0)]),
    ("lerc_deflate", ["uint8", "uint16", "int16", "float32"], [dict(), dict(kw=dict(zlevel=9)), dict(kw=dict(zlevel=1, max_z_error=0)),
                                                             dict(level=0, kw=dict(zlevel=6))]),
    ("lerc_zstd", ["uint16", "int16", "float64"], [dict(), dict(kw=dict(zstd_level=9)), dict(kw=dict(zstd_level=19, max_z_error=0))]),
    ("webp", ["uint8"], [dict(axis="YXS", S=3, compressionargs=dict(lossless=True)), dict(axis="YXS", S=4, compressionargs=dict(lossless=True)),
                         dict(axis="YXS", S=3, kw=dict(webp_level=100))]),
]


def codec_configs(base, rng=None, n=None):
    """one configuration per (codec, option set), dtypes cycled; a random sample of n when rng is given"""
    out = []
    for comp, dtypes, opts in CODECS:
        for i, o in enumerate(opts):
            c = dict(base, H=40, W=50, compression=comp, dtype=dtypes[i % len(dtypes)])
            c.update({k: (dict(v) if isinstance(v, dict) else v) for k, v in o.items()})
            out.append(c)
    if rng is not None:
        out = rng.sample(out, n)
    return out


def random_codec(rng, c):
    """codec + options for a random configuration (respecting the axis / dtype it already has)"""
    comp, dtypes, opts = rng.choice([x for x in CODECS if x[0] != "webp"])
    o = rng.choice(opts)
    c["compression"] = comp
    if c["dtype"] not in dtypes and comp.startswith("lerc") and c["dtype"] in ("int8", "int32"):
        c["dtype"] = rng.choice(dtypes)
    for k, v in o.items():
        c[k] = dict(v) if isinstance(v, dict) else v


def irregular_chunks(rng, dim):
    """explicit chunk sizes summing to dim, not a regular grid (when dim allows)"""
    out, left = [], dim
    while left > 0:
        n = min(left, rng.choice([16, 32, 32, 48, 64, 5, 18, 1]))
        out.append(n)
        left -= n
    if len(out) > 2:
        rng.shuffle(out)
    return tuple(out)


def level0_tiles(c):
    """tiles per plane of the full-resolution level (decides whether dask repartitions the bag)"""
    from odc.geo.cog._shared import compute_cog_spec, norm_blocksize

    bs = c["blocksize"]
    if bs is None:
        cy, cx = (max(ch) if isinstance(ch, (tuple, list)) else min(ch, d) for ch, d in zip(c["chunks"], (c["H"], c["W"])))
        bs = [(cy, cx), max(1, max(cy, cx) // 2)]
    if not isinstance(bs, list):
        bs = [bs]
    shape, _, _ = compute_cog_spec((c["H"], c["W"]), norm_blocksize(bs[-1]))
    th, tw = norm_blocksize(bs[0])
    return -(-shape.y // th) * -(-shape.x // tw)


def cfg_blocksizes(cfg):
    """Block-size list the writer uses, and the array/geobox shapes (inputs of the model)."""
    H, W, S, ax = cfg["H"], cfg["W"], cfg.get("S", 1), cfg["axis"]
    full = (H, W) if ax == "YX" else ((H, W, S) if ax == "YXS" else (S, H, W))
    ya = None if ax == "YX" else (0 if ax == "YXS" else 1)
    return full, ya


def e2e_model_cases(cfg, rec, ifds):
    """Cases tying the produced file to the model: levels (tags 256/257/322/323 + tile
    counts), write order, offsets/bytecounts (tags 324/325)."""
    full, ya = cfg_blocksizes(cfg)
    ax = cfg["axis"]
    S = cfg.get("S", 1)
    cases = []
    # levels as read from the file
    obs = []
    for i in ifds:
        th, tw = i["tile_l"], i["tile_w"]
        ch = (-(-i["length"] // th), -(-i["width"] // tw))
        planes = S if ax == "SYX" else 1
        spp = i["spp"]
        obs.append((ax, (i["length"], i["width"]), (th, tw), spp, ch, len(i["offsets"]), planes))
    g_txt = f"(Some {cpair((cfg['H'], cfg['W']))})"
    exp = f"(Ok [{'; '.join(cmeta_obs(m) for m in obs)}])"
    ya_txt = copt(0 if ya is None else ya)          # save_cog_with_dask always passes ydim
    if cfg.get("blocksize") is None:
        cy, cx = rec["xx"].data.chunksize[(0 if ax != "SYX" else 1):][:2]
        cases.append(("e2e:levels", f"CMetasDefault {clist(full)} {g_txt} {ya_txt} {cpair((cy, cx))} {exp}"))
    else:
        bs = cfg["blocksize"] if isinstance(cfg["blocksize"], list) else [cfg["blocksize"]]
        cases.append(("e2e:levels", f"CMetas {clist(full)} {g_txt} {ya_txt} {cblks(bs)} {exp}"))
    ts = [(ax, m[1], m[2], m[3]) for m in obs]
    observed = rec["observed"]
    cases.append(("e2e:write_order", f"CWriteOrder {cmetas(ts)} [{'; '.join(c4(idx) for _, idx in observed)}]"))
    stream = [(*idx, sz) for sz, idx in observed]
    info = [(i["offsets"], i["bytecounts"]) for i in ifds]
    cases.append(("e2e:offsets", f"CPatch {cmetas(ts)} [{'; '.join(cobs(o) for o in stream)}] {cz(rec['hdr_len'])} (Ok {cinfo(info)})"))
    return cases


# ---------------------------------------------------------------- property predicates on the implementation
def p_layout(shape, bs):
    """layout rule, stated independently of the model, on _make_empty_cog"""
    from odc.geo.cog._tifffile import _make_empty_cog

    bs = [tuple(b) if isinstance(b, (list, tuple)) else b for b in bs]
    meta, _ = _make_empty_cog(tuple(shape), "uint8", None, blocksize=list(bs), compression="deflate")
    lv = meta.flatten()
    H, W = shape
    n = len(lv) - 1
    last = bs[-1] if isinstance(bs[-1], tuple) else (bs[-1], bs[-1])
    T = (ceil16(last[0]), ceil16(last[1]))
    count = lambda dim, t: next(k for k in range(200) if (dim >> k) <= t)
    n_want = max(count(H, T[0]), count(W, T[1]))
    pad = 2 ** n_want
    Hp, Wp = -(-H // pad) * pad, -(-W // pad) * pad
    msgs = []
    if n != n_want:
        msgs.append(f"levels-1={n}, max overview count={n_want}")
    if tuple(lv[0].shape.yx) != (Hp, Wp):
        msgs.append(f"padded shape {tuple(lv[0].shape.yx)} != align_up(shape, 2^n)={(Hp, Wp)}")
    for k, m in enumerate(lv):
        b = bs[min(k, len(bs) - 1)]
        b = b if isinstance(b, tuple) else (b, b)
        th, tw = m.tile.yx
        if th <= 0 or tw <= 0 or th % 16 or tw % 16 or (th, tw) != (ceil16(b[0]), ceil16(b[1])):
            msgs.append(f"level {k}: tile {(th, tw)} for blocksize {b}")
        if k > 0 and (m.shape.yx[0] * 2, m.shape.yx[1] * 2) != tuple(lv[k - 1].shape.yx):
            msgs.append(f"level {k}: shape {tuple(m.shape.yx)} is not half of {tuple(lv[k - 1].shape.yx)}")
        if min(m.shape.yx) < 1:
            msgs.append(f"level {k}: empty shape {tuple(m.shape.yx)}")
    return not msgs, "; ".join(msgs) or f"levels={[(tuple(m.shape.yx), tuple(m.tile.yx)) for m in lv]}"


def p_flat(t):
    """flat_tile_idx is a bijection planes x ny x nx -> [0, num_tiles); IndexError outside"""
    m = mk_meta(tuple(t[:1]) + (tuple(t[1]), tuple(t[2]), t[3]))
    H, W = m.shape.yx
    th, tw = m.tile.yx
    ny, nx = -(-H // th), -(-W // tw)
    planes = t[3] if t[0] == "SYX" else 1
    if tuple(m.chunked.yx) != (ny, nx) or m.num_tiles != planes * ny * nx:
        return False, f"chunked={tuple(m.chunked.yx)} num_tiles={m.num_tiles}, want {(ny, nx)} {planes * ny * nx}"
    seen = [m.flat_tile_idx(i) for i in itertools.product(range(planes), range(ny), range(nx))]
    if sorted(seen) != list(range(planes * ny * nx)):
        return False, f"flat indices are not a bijection onto range({planes * ny * nx}): {seen[:12]}"
    if [m.flat_tile_idx(i) for i in m.tidx()] != sorted(seen) or len(list(m.tidx())) != len(seen):
        return False, "tidx() does not enumerate every tile exactly once"
    for bad in [(-1, 0, 0), (planes, 0, 0), (0, ny, 0), (0, 0, nx), (0, -1, 0), (0, 0, -1)]:
        try:
            m.flat_tile_idx(bad)
            return False, f"flat_tile_idx{bad} did not raise"
        except IndexError:
            pass
    return True, f"{len(seen)} tiles"


def p_offsets(ts, stream, start):
    """offsets of a complete stream: disjoint, gap-free, in stream order, sparse entries for empty tiles"""
    from odc.geo.cog._tifffile import _extract_tile_info

    ts = [(t[0], tuple(t[1]), tuple(t[2]), t[3]) for t in ts]
    m = mk_metas(ts)
    info = _extract_tile_info(m, [tuple(o) for o in stream], start)
    pos = start
    for (lv, p, y, x, sz) in stream:
        t = ts[lv]
        ny, nx = -(-t[1][0] // t[2][0]), -(-t[1][1] // t[2][1])
        k = p * ny * nx + y * nx + x
        off, cnt = info[lv][0][k], info[lv][1][k]
        if sz == 0:
            if (off, cnt) != (0, 0):
                return False, f"empty tile {(lv, p, y, x)} has entry {(off, cnt)}"
        else:
            if (off, cnt) != (pos, sz):
                return False, f"tile {(lv, p, y, x)}: entry {(off, cnt)}, stream position {(pos, sz)}"
            pos += sz
    total = sum(len(o) for o, _ in info)
    if total != len(stream):
        return False, f"{total} table slots for {len(stream)} tiles"
    return True, f"{len(stream)} tiles, {pos - start} bytes"


class WriterTimeout(Exception):
    pass


def run_limited(cfg, work, seconds=300):
    """run_writer under a wall-clock limit (a writer that never returns is a failure, not a hung check)"""
    import signal

    from vlib import cogio

    def on_alarm(*_):
        raise WriterTimeout(f"save_cog_with_dask did not finish within {seconds}s")

    old = signal.signal(signal.SIGALRM, on_alarm)
    signal.alarm(seconds)
    try:
        return cogio.run_writer(cfg, work)
    finally:
        signal.alarm(0)
        signal.signal(signal.SIGALRM, old)


def p_e2e(cfg):
    """the property's statement about the produced file, checked on the file itself"""
    cfg = dict(cfg)
    cfg["chunks"] = tuple(tuple(c) if isinstance(c, (list, tuple)) else c for c in cfg["chunks"])
    work = tempfile.mkdtemp(prefix="verif-c05-")
    try:
        rec = run_limited(cfg, work)
        ok, detail, _ = check_file(cfg, rec)
        return ok, detail
    finally:
        import shutil
        shutil.rmtree(work, ignore_errors=True)


def check_file(cfg, rec):
    from vlib import cogio

    path = rec["path"]
    data = Path(path).read_bytes()
    ifds = cogio.read_ifds(path)
    H, W, S, ax = cfg["H"], cfg["W"], cfg.get("S", 1), cfg["axis"]
    pix = rec["pix"]
    msgs = []
    planes = S if ax == "SYX" else 1
    # -- layout
    n = len(ifds) - 1
    Hp, Wp = ifds[0]["length"], ifds[0]["width"]
    if not (H <= Hp < H + 2 ** n and W <= Wp < W + 2 ** n and Hp % 2 ** n == 0 and Wp % 2 ** n == 0):
        msgs.append(f"padded size {(Hp, Wp)} of {(H, W)} with {n} overviews")
    for k, i in enumerate(ifds):
        if i["tile_l"] % 16 or i["tile_w"] % 16 or i["tile_l"] <= 0 or i["tile_w"] <= 0:
            msgs.append(f"IFD {k}: tile {(i['tile_l'], i['tile_w'])} not a positive multiple of 16")
        if k and (i["length"] * 2, i["width"] * 2) != (ifds[k - 1]["length"], ifds[k - 1]["width"]):
            msgs.append(f"IFD {k}: {(i['length'], i['width'])} is not half of the previous level")
        ny, nx = -(-i["length"] // i["tile_l"]), -(-i["width"] // i["tile_w"])
        if len(i["offsets"]) != planes * ny * nx or len(i["bytecounts"]) != planes * ny * nx:
            msgs.append(f"IFD {k}: {len(i['offsets'])} offsets for {planes}x{ny}x{nx} tiles")
    # -- every tile exactly once in the observed stream
    observed = rec["observed"]
    want_tiles = set()
    for k, i in enumerate(ifds):
        ny, nx = -(-i["length"] // i["tile_l"]), -(-i["width"] // i["tile_w"])
        want_tiles |= {(k, p, y, x) for p in range(planes) for y in range(ny) for x in range(nx)}
    got_tiles = [idx for _, idx in observed]
    if rec["hdr_calls"] != 1 or sorted(got_tiles) != sorted(want_tiles):
        msgs.append(f"observed stream has {len(got_tiles)} tiles ({len(set(got_tiles))} distinct), image has {len(want_tiles)}")
    # -- entries address exactly the tile's bytes, no gaps, no overlaps
    spans = []
    if not msgs:
        for k, i in enumerate(ifds):
            ny, nx = -(-i["length"] // i["tile_l"]), -(-i["width"] // i["tile_w"])
            for p in range(planes):
                for y in range(ny):
                    for x in range(nx):
                        t = p * ny * nx + y * nx + x
                        off, cnt = i["offsets"][t], i["bytecounts"][t]
                        enc = rec["tile_bytes"].get((k, p, y, x))
                        if enc is None:
                            msgs.append(f"tile {(k, p, y, x)} was never compressed")
                            continue
                        if cnt != len(enc) or data[off:off + cnt] != enc:
                            msgs.append(f"tile {(k, p, y, x)}: entry {(off, cnt)} does not address its {len(enc)} bytes")
                        if cnt:
                            spans.append((off, off + cnt, k))
        spans.sort()
        pos = rec["hdr_len"]
        for a, b, k in spans:
            if a != pos:
                msgs.append(f"gap or overlap at byte {pos}: next tile starts at {a}")
                break
            pos = b
        if not msgs and pos != len(data):
            msgs.append(f"tile data ends at {pos}, file has {len(data)} bytes")
        ovr_end = max([b for a, b, k in spans if k > 0], default=0)
        full_start = min([a for a, b, k in spans if k == 0], default=len(data))
        if ovr_end > full_start:
            msgs.append(f"overview tile data ends at {ovr_end}, after full-resolution data starts at {full_start}")
    # -- independent readers decode the original pixels (oracle validation: testing)
    fill = cfg.get("nodata") if cfg.get("nodata") is not None else 0
    try:
        a = cogio.decode_tifffile(path)
        b, info = cogio.decode_rasterio(path)
    except Exception as e:  # pragma: no cover
        msgs.append(f"reader failed: {type(e).__name__}: {e}")
        return False, "; ".join(msgs[:4]), ifds
    # tifffile squeezes singleton sample / plane axes
    if ax == "YX":
        a3, p3 = a.reshape(1, Hp, Wp), pix[np.newaxis]
    elif ax == "YXS":
        a3, p3 = a.reshape(Hp, Wp, S).transpose(2, 0, 1), pix.transpose(2, 0, 1)
    else:
        a3, p3 = a.reshape(S, Hp, Wp), pix
    for name, arr in (("tifffile", a3), ("rasterio", b)):
        if arr.shape != (p3.shape[0], Hp, Wp) or arr.dtype.newbyteorder("=") != stored_dtype(pix.dtype):
            msgs.append(f"{name}: decoded {arr.shape} {arr.dtype}, want {(p3.shape[0], Hp, Wp)} {stored_dtype(pix.dtype)}")
        elif not np.array_equal(arr[:, :H, :W], p3):
            bad = np.argwhere(arr[:, :H, :W] != p3)[0].tolist()
            msgs.append(f"{name}: pixel {bad} decodes to {arr[tuple(bad)]!r}, input {p3[tuple(bad)]!r}")
        else:
            padv = np.concatenate([arr[:, H:, :].ravel(), arr[:, :H, W:].ravel()])
            fillv = np.asarray(fill).astype(pix.dtype)
            nan_fill = pix.dtype.kind == "f" and np.isnan(fillv)
            if nan_fill and name == "tifffile" and str(cfg.get("compression", "")).lower().startswith("lerc"):
                padv = np.where(padv == 0, np.nan, padv)        # LERC: NaN is an invalid-pixel mask, tifffile returns the masked 0
            if padv.size and not (np.all(np.isnan(padv)) if nan_fill else np.all(padv == fillv)):
                msgs.append(f"{name}: padding is not the fill value {fill}")
    gb = rec["gbox"]
    want_tr = tuple(gb.transform)[:6]
    if tuple(info["transform"]) != want_tr:
        msgs.append(f"transform {info['transform']} != {want_tr}")
    if str(info["crs"]).upper() != str(gb.crs).upper():
        msgs.append(f"crs {info['crs']} != {gb.crs}")
    same_nd = (cfg.get("nodata") is None and info["nodata"] is None) or (
        cfg.get("nodata") is not None and info["nodata"] is not None and
        (float(info["nodata"]) == float(cfg["nodata"]) or (np.isnan(float(info["nodata"])) and np.isnan(float(cfg["nodata"])))))
    if not same_nd:
        msgs.append(f"nodata {info['nodata']} != {cfg.get('nodata')}")
    if info["overviews"] != [2 ** k for k in range(1, n + 1)]:
        msgs.append(f"GDAL sees overviews {info['overviews']}, file has {n}")
    for k in range(1, n + 1):
        ok_t = cogio.decode_tifffile(path, k)
        ok_r, _ = cogio.decode_rasterio(path, k)
        hk, wk = ifds[k]["length"], ifds[k]["width"]
        if ax == "YXS":
            ok_t = ok_t.reshape(hk, wk, S).transpose(2, 0, 1)
        else:
            ok_t = ok_t.reshape(-1, hk, wk)
        if ok_t.shape == ok_r.shape and str(cfg.get("compression", "")).lower().startswith("lerc") and pix.dtype.kind == "f":
            # LERC stores NaN as an invalid-pixel mask: GDAL returns NaN there, tifffile the masked value 0
            keep = ~np.isnan(ok_r)
            ok_t, ok_r = ok_t[keep], ok_r[keep]
        if ok_t.shape != ok_r.shape or not np.array_equal(ok_t, ok_r, equal_nan=True):
            msgs.append(f"overview {k}: tifffile and rasterio decode differently")
    return not msgs, "; ".join(msgs[:4]) or f"{len(observed)} tiles, {len(ifds)} IFDs, {len(data)} bytes", ifds


def stored_dtype(dt):
    """a bool image is stored as 8-bit 0/1 (neither GeoTIFF as read by GDAL nor the writer has a 1-byte boolean)"""
    dt = np.dtype(dt)
    return np.dtype("uint8") if dt.kind == "b" else dt.newbyteorder("=")


def check_decode(cfg, path, pix):
    """both independent readers return the saved pixels (top-left H x W of the padded image)"""
    from vlib import cogio

    H, W, S, ax = cfg["H"], cfg["W"], cfg.get("S", 1), cfg["axis"]
    if not os.path.exists(path):
        return [f"{os.path.basename(os.path.dirname(path))}/{os.path.basename(path)} was not written"]
    msgs = []
    try:
        a = cogio.decode_tifffile(path)
        b, _ = cogio.decode_rasterio(path)
    except Exception as e:
        return [f"reader failed: {type(e).__name__}: {e}"]
    Hp, Wp = b.shape[-2:]
    if ax == "YX":
        a3, p3 = a.reshape(1, Hp, Wp), pix[np.newaxis]
    elif ax == "YXS":
        a3, p3 = a.reshape(Hp, Wp, S).transpose(2, 0, 1), pix.transpose(2, 0, 1)
    else:
        a3, p3 = a.reshape(S, Hp, Wp), pix
    for name, arr in (("tifffile", a3), ("rasterio", b)):
        if arr.shape[0] != p3.shape[0] or arr.dtype != stored_dtype(pix.dtype):
            msgs.append(f"{name}: decoded {arr.shape} {arr.dtype}, want {p3.shape[0]} bands of {stored_dtype(pix.dtype)}")
        elif not np.array_equal(arr[:, :H, :W], p3):
            bad = np.argwhere(arr[:, :H, :W] != p3)[0].tolist()
            msgs.append(f"{name}: pixel {bad} decodes to {arr[tuple(bad)]!r}, input {p3[tuple(bad)]!r} "
                        f"({int((arr[:, :H, :W] != p3).sum())} of {p3.size} differ)")
        elif cfg.get("nodata") is not None and not (isinstance(cfg["nodata"], float) and cfg["nodata"] != cfg["nodata"]):
            padv = np.concatenate([arr[:, H:, :].ravel(), arr[:, :H, W:].ravel()])
            if padv.size and not np.all(padv == np.asarray(cfg["nodata"]).astype(arr.dtype)):
                msgs.append(f"{name}: padding holds {sorted(set(padv.tolist()))[:4]}, not this file's fill value {cfg['nodata']}")
    return msgs


def p_pair(cfg):
    """two saves computed in ONE dask.compute (same array to two destinations, or two arrays with identical header
    options): both files exist and each decodes to ITS input"""
    from vlib import cogio

    def fix(c):
        c = dict(c)
        c["chunks"] = tuple(tuple(x) if isinstance(x, (list, tuple)) else x for x in c["chunks"])
        return c
    cfg = dict(cfg, a=fix(cfg["a"]), b=None if cfg.get("b") is None else fix(cfg["b"]))
    work = tempfile.mkdtemp(prefix="verif-c05-")
    try:
        with limited(120, "two saves in one compute"):
            out = cogio.run_pair(cfg, work)
        msgs = []
        for which, (path, pix, c) in zip("AB", out):
            msgs += [f"destination {which}: {m}" for m in check_decode(c, path, pix)]
        return not msgs, "; ".join(msgs[:3]) or "both files decode to their inputs"
    finally:
        import shutil
        shutil.rmtree(work, ignore_errors=True)


LOSSLESS = {"deflate", "adobe_deflate", "zstd", "lzma", "lzw", "packbits", "none", "lerc", "lerc_deflate", "lerc_zstd"}


def p_noloss(cfg):
    """no silent loss: with a lossless codec the writer either fails loudly or the file decodes to the exact pixels -
    whatever options / dtype it is given; a compressionargs dict handed in is not modified and can be reused"""
    from vlib import cogio
    import copy

    cfg = copy.deepcopy(dict(cfg))           # the dict handed to the writer must not leak into the recorded replay
    cfg["chunks"] = tuple(cfg["chunks"])
    assert str(cfg["compression"]).lower() in LOSSLESS
    work = tempfile.mkdtemp(prefix="verif-c05-")
    try:
        shared = cfg.get("compressionargs")
        before = copy.deepcopy(shared)
        c1 = dict(cfg, share_compressionargs=True, name="first")
        try:
            with limited(90, "save"):
                rec = cogio.run_writer(c1, work)
        except ImplTimeout:
            raise
        except Exception as e:
            if shared != before:
                return False, f"compressionargs modified in place: {before} -> {shared}"
            return True, f"refused loudly: {type(e).__name__}"
        msgs = check_decode(c1, rec["path"], rec["pix"])
        if shared != before:
            msgs.append(f"the caller's compressionargs were modified in place: {before} -> {shared}")
        if cfg.get("then") and not msgs:
            # the same dict reused for another file with another codec
            c2 = dict(cfg, **cfg["then"], compressionargs=shared, share_compressionargs=True, name="second")
            c2.pop("then")
            try:
                with limited(90, "second save"):
                    rec2 = cogio.run_writer(c2, work)
                msgs += [f"second file ({c2['compression']}): {m}" for m in check_decode(c2, rec2["path"], rec2["pix"])]
            except ImplTimeout:
                raise
            except Exception as e:
                msgs.append(f"second save with the same compressionargs dict failed: {type(e).__name__}: {e}")
        return not msgs, "; ".join(msgs[:3]) or "exact"
    finally:
        import shutil
        shutil.rmtree(work, ignore_errors=True)


PREDICATES = {"layout": p_layout, "flat": p_flat, "offsets": p_offsets, "e2e": p_e2e, "pair": p_pair, "noloss": p_noloss}


def canon(x):
    if isinstance(x, (tuple, list)):
        return [canon(v) for v in x]
    if isinstance(x, dict):
        return {k: canon(v) for k, v in x.items()}
    if isinstance(x, (np.integer,)):
        return int(x)
    return x


def pair_configs(tier):
    """two saves in one dask.compute: the same array to two destinations, two arrays with identical header options
    (stats=False: header, meta and stats agree), equally named files, a shared parts directory, spilling, schedulers"""
    rng = core.rng("c05-pair")
    base = dict(S=1, axis="YX", dtype="uint16", chunks=(32, 32), blocksize=[32, 16], compression="deflate", stats=False, H=50, W=70)
    raw = dict(base, compression="none", spill_sz=4096, min_write_sz=1024)
    cfgs = [
        dict(a=base, b=None),
        dict(a=base, b=dict(base, salt=1)),
        dict(a=base, b=None, same_name=True, scheduler="threads:4"),
        dict(a=dict(base, stats=True), b=dict(base, stats=True, salt=3), scheduler="shuffle:2"),
        dict(a=dict(base, axis="SYX", S=2, dtype="uint8"), b=dict(base, axis="SYX", S=2, dtype="uint8", salt=2), same_name=True),
        dict(a=raw, b=dict(raw, salt=1), same_name=True, parts_base=True, min_write_sz=1024, scheduler="shuffle:2"),
        dict(a=raw, b=dict(raw, salt=1), same_name=True, parts_base=True, min_write_sz=1024, scheduler="shuffle:3"),
        dict(a=raw, b=None, same_name=True, parts_base=True, min_write_sz=1024, scheduler="threads:4"),
        dict(a=raw, b=dict(raw, salt=5), parts_base=True, min_write_sz=1024, scheduler="shuffle:7"),
        # the same dask array saved with two different nodata values (= padding fill) in one compute
        dict(a=dict(base, nodata=1), b=None, b_nodata=2),
        dict(a=dict(base, nodata=7, axis="SYX", S=2, dtype="uint8", H=33, W=40), b=None, b_nodata=200, scheduler="threads:3"),
    ]
    for i in range(4 if tier == "quick" else 60):
        a = dict(base, H=rng.choice([20, 50, 64]), W=rng.choice([33, 70]), dtype=rng.choice(["uint8", "int16", "float32"]),
                 compression=rng.choice(["deflate", "none", "zstd"]), axis=rng.choice(["YX", "YX", "YXS", "SYX"]))
        a["S"] = 1 if a["axis"] == "YX" else rng.choice([2, 3])
        c = dict(a=a, b=rng.choice([None, dict(a, salt=i + 1)]), same_name=rng.random() < 0.5, parts_base=rng.random() < 0.5,
                 scheduler=rng.choice(["sync", f"shuffle:{i}", "threads:3"]))
        if rng.random() < 0.5:
            c["min_write_sz"] = 1024
            for k in ("a", "b"):
                if c[k] is not None:
                    c[k] = dict(c[k], spill_sz=rng.choice([1024, 4096]), min_write_sz=1024)
        cfgs.append(c)
    return cfgs


def noloss_configs(tier):
    """lossless codecs with options / dtypes the codec may not accept, and compressionargs dicts that are reused"""
    base = dict(S=1, axis="YX", dtype="int16", chunks=(32, 32), blocksize=[32, 16], stats=False, H=40, W=50)
    return [
        dict(base, compression="lzw", level=3),
        dict(base, compression="packbits", level=1),
        dict(base, compression="lerc", dtype="int64"),
        dict(base, compression="lerc_deflate", dtype="uint64", kw=dict(zlevel=5)),
        dict(base, compression="zstd", compressionargs={"compression": "deflate"}),
        dict(base, compression="deflate", compressionargs={"bogus": 1}),
        dict(base, compression="lzma", compressionargs={"level": 2}),
        dict(base, compression="lerc_deflate", compressionargs={}, then={"compression": "zstd"}),
        dict(base, compression="lerc_zstd", compressionargs={"level": 0}, kw=dict(zstd_level=3), then={"compression": "deflate", "kw": {}}),
        dict(base, compression="deflate", compressionargs={}, level=9, then={"compression": "lzw", "level": None}),
        dict(base, compression="zstd", compressionargs={"level": 3}, kw=dict(zstd_level=7), then={"compression": "zstd", "kw": {}}),
    ]


def search(out, tier, e2e_done):
    rng = core.rng("c05-search")
    found = {}

    def run(name, *args):
        try:
            ok, detail = PREDICATES[name](*args)
        except Exception as e:  # inside the property's domain the writer must not fail
            ok, detail = False, f"raised {type(e).__name__}: {e}"
        out.count("predicate:" + name)
        out.case(("pred", name, canon(args)), True)
        report(name, args, ok, detail)

    def report(name, args, ok, detail):
        if not ok and name not in found:
            found[name] = True
            out.violation(f"c05:{name}", f"{name}{canon(args)}: {detail}",
                          {"predicate": name, "args": canon(list(args)), "observed": detail})

    for rp in core.corpus(ID):
        run(rp["predicate"], *rp["args"])
    # e2e results computed once in run() (shared with the correspondence)
    for cfg, ok, detail in e2e_done:
        out.count("predicate:e2e")
        out.case(("pred", "e2e", canon(cfg)), True)
        report("e2e", (cfg,), ok, detail)
    for cfg in pair_configs(tier):
        run("pair", cfg)
    for cfg in noloss_configs(tier):
        run("noloss", cfg)
    dims = [1, 2, 3, 7, 8, 9, 15, 16, 17, 31, 32, 33, 47, 48, 49, 63, 64, 65, 100, 127, 128, 129, 255, 256, 257, 300, 511,
            512, 513, 520, 1000, 1025, 4097]
    bss = [[16], [32, 16], [(16, 32)], [48, 16], [(32, 16), 16, 32], [100], [1], [17], [(5, 200), 40], [256], [512, 256, 128]]
    pairs = list(itertools.product(dims, dims))
    if tier == "quick":
        pairs = rng.sample(pairs, 250)
    for (h, w) in pairs:
        run("layout", (h, w), rng.choice(bss))
    for ax, ns in (("YX", 1), ("YXS", 3), ("SYX", 1), ("SYX", 3)):
        for (h, w) in rng.sample(list(itertools.product(dims[:20], dims[:20])), 40 if tier == "quick" else 400):
            run("flat", (ax, (h, w), rng.choice([(16, 16), (16, 32), (48, 16), (64, 64)]), ns))
    pyr = [[("YX", (56, 72), (32, 32), 1), ("YX", (28, 36), (16, 16), 1), ("YX", (14, 18), (16, 16), 1), ("YX", (7, 9), (16, 16), 1)],
           [("SYX", (32, 40), (16, 16), 2), ("SYX", (16, 20), (16, 16), 2)],
           [("YXS", (64, 40), (16, 32), 3), ("YXS", (32, 20), (16, 16), 3)]]
    for _ in range(60 if tier == "quick" else 1000):
        ts = rng.choice(pyr)
        tiles = list(mk_metas(ts).cog_tidx())
        rng.shuffle(tiles)
        stream = [(*t, rng.choice([0, 1, 3, 10, 4096])) for t in tiles]
        run("offsets", ts, stream, rng.choice([0, 5, 1000]))


# ---------------------------------------------------------------- entry points
def run(out, tier, scratch):
    from vlib import cogio

    out.rule = ("correspondence (a): adjust/norm_blocksize, num_overviews, align pow2, compute_cog_spec, yaxis_from_shape, "
                "_make_empty_cog levels, flat_tile_idx/tidx/cog_tidx exhaustively over small metas (indices -1..n), "
                "_extract_tile_info on shuffled complete streams with zero sizes plus malformed streams (duplicates, partial, "
                "bad tile / level indices, negative level); (b) end-to-end save_cog_with_dask runs (axis orders, dtypes, 1-row/"
                "1-column/1-pixel, narrower than a tile, padding that adds tile rows, chunkings, compressions, spill sizes, "
                "synchronous/shuffled/threaded schedulers): IFD tags 256/257/322/323 and tile counts, observed write order and "
                "tags 324/325 against the model.  A case is non-trivial when it reaches a non-default branch; distinct = "
                "distinct canonical (operation, arguments).  search: layout/bijection/offset predicates on the implementation "
                "and the file-level statement (entries address the recorded tile bytes, no gaps/overlaps, overview first, "
                "decoders return the input) on every end-to-end run")
    out.assumptions += [
        "C06 (byte stream = header ++ tiles in observed order) is a Section hypothesis of C05_entry_addresses_tile_bytes; "
        "the end-to-end runs check the composed statement on real files",
        "oracles (testing, not proved): tifffile's empty-IFD writer and tag overwrite (header length unchanged by patching), "
        "the tile codecs (deflate/zstd/lzw/none, predictors), GDAL/rasterio and tifffile decoders, GeoTIFF tag rendering, "
        "dask rechunk (ceil(dim/tile) source blocks per axis)",
    ]
    cases, problems = gen_cases(out, tier)
    out.oblige("harness:every implementation call of the case generator returned", "correspondence", not problems,
               " | ".join(problems))
    kinds = ["a"] * len(cases)
    # ---- end-to-end runs
    e2e_done = []
    e2e_fail = []
    work = Path(tempfile.mkdtemp(prefix="verif-c05-", dir=str(scratch)))
    for cfg in e2e_configs(tier):
        pub = {k: v for k, v in cfg.items()}
        try:
            rec = run_limited(cfg, work)
            ok, detail, ifds = check_file(cfg, rec)
            e2e_done.append((pub, ok, detail))
            for kind, text in e2e_model_cases(cfg, rec, ifds):
                cases.append(text)
                kinds.append(kind)
                out.count(kind)
                out.case((kind, canon(pub)), True,
                         {"op": "save_cog_with_dask", "cfg": canon(pub), "ifds": [[i["length"], i["width"], i["tile_l"], i["tile_w"]] for i in ifds],
                          "hdr_len": rec["hdr_len"], "tiles": len(rec["observed"])} if (kind == "e2e:offsets" and len(out.samples) < 6) else None)
            out.count(f"e2e:axis:{cfg['axis']}")
            out.count(f"e2e:dtype:{cfg['dtype']}")
            out.count(f"e2e:sched:{cfg.get('scheduler', 'sync').split(':')[0]}")
            out.count(f"e2e:compression:{cfg.get('compression')}")
            os.unlink(rec["path"])
        except Exception as e:
            e2e_done.append((pub, False, f"raised {type(e).__name__}: {e}"))
            e2e_fail.append((pub, f"{type(e).__name__}: {e}"))
    fails, log = core.coq_eval_failures(["Base.Result", "Model.CogLayout", "Model.CogLayoutCases"], "case", "check", cases,
                                        scratch, shard=250)
    fa = [i for i in fails if kinds[i] == "a"]
    fb = [i for i in fails if kinds[i] != "a"]
    out.oblige("correspondence:Model.CogLayout vs odc.geo.cog._shared/_tifffile (functions)", "correspondence", not fa,
               "model and implementation differ on: " + " | ".join(cases[i][:400] for i in fa[:4]) if fa else "")
    out.oblige("correspondence:Model.CogLayout vs files written by save_cog_with_dask (tags 256/257/322/323/324/325, write order)",
               "correspondence", not fb and not e2e_fail,
               ("model and file differ on: " + " | ".join(f"{kinds[i]} {cases[i][:300]}" for i in fb[:3]) if fb else "") +
               (" writer failed: " + str(e2e_fail[:2]) if e2e_fail else ""))
    search(out, tier, e2e_done)


def replay(rp) -> int:
    name = rp["predicate"]
    args = rp["args"]
    try:
        ok, detail = PREDICATES[name](*args)
    except Exception as e:
        ok, detail = False, f"raised {type(e).__name__}: {e}"
    print(f"replay {name}{json.dumps(args)[:300]}: {'holds' if ok else 'FAILS'}: {detail}")
    return 0 if ok else 1


META = {
    "text": ("Coq theorems (coq/Props/C05.v, all closed under the global context) over a Gallina model of the COG writer's "
             "layout and offset bookkeeping: for all image shapes >= 1 and all non-empty positive block-size lists the tile sizes "
             "are positive multiples of 16, the overview count is the larger per-axis halving count (least c with dim//2^c <= "
             "block), the image is padded to align_up(dim, 2^n) (padding < 2^n, far side only), there are n+1 levels and level "
             "k is exactly padded/2^k with no rounding; flat_tile_idx is a bijection planes x ny x nx -> [0,num_tiles) and "
             "tidx/cog_tidx/the writer's order enumerate every tile once, tidx in flat-index order (list equation); for every observed stream enumerating each tile "
             "once, in any order with any sizes, the 324/325 entries equal (header length + sum of earlier sizes, size), are "
             "in stream order, pairwise disjoint, gap-free, empty tiles get an empty range; composed with the C06 byte-stream "
             "statement (Section hypothesis) every entry addresses exactly its tile's bytes; in the writer's own order every "
             "overview tile ends before any full-resolution tile starts.  Tied to odc/geo/cog/_shared.py and _tifffile.py by "
             "exhaustive small-domain correspondence and by end-to-end runs of save_cog_with_dask whose files are compared tag "
             "by tag with the model and decoded with rasterio and tifffile."),
    "note": ("Trusted: Coq kernel; the hand-written model coq/Model/CogLayout.v (validated by the correspondence run); the "
             "harness.  Modelled, not verified: Python control flow of _make_empty_cog/_extract_tile_info/_patch_hdr and the "
             "bag order of save_cog_with_dask.  Oracles, validated by testing only: tifffile's IFD writer and in-place tag "
             "overwrite (header length unchanged), tile codecs and predictors, GDAL/rasterio and tifffile decoders, GeoTIFF "
             "georeferencing tags, dask rechunk/scheduling; lossless codecs only (an encoder exception is swallowed by the "
             "writer and yields an empty tile - lossy/unsupported codec+dtype pairs are outside the checked domain).  The "
             "statement 'file[off, off+len) = tile bytes' is conditional on property C06 (named Section hypothesis "
             "C06_stream_preserved); the end-to-end runs check the composed statement on real files.  Domain of the "
             "theorems: shapes >= 1, block sizes >= 1 (a negative block size makes num_overviews loop forever: Err EOther in "
             "the model), sizes >= 0, metas with uniform plane count (as built by _make_empty_cog).  Pixel placement / padding "
             "fill / decoding are tested, not proved.  No axioms."),
    "technique": "Coq proof over hand-written Gallina model + exhaustive small-domain and end-to-end differential correspondence (vm_compute) + leaf functions regenerated from source by py2v on every run and proved equal to the model (source_is_model theorem)",
    "design_ref": "DESIGN.md section 5, C05",
}
