"""C19 — value objects: equality, hashing, pickling, dask tokens and the CRS /
transformer caches are coherent.

Correspondence (a): whole histories of odc.geo.crs run in lock-step against
Model/CrsCache.v (result of every operation + digest of `_crs_cache`, of the
transformer-cache keys and of the set of live pyproj objects, the model being
fed the observed object ids).  Correspondence (b): families of near-identical
values of every value type; observed `==`, `hash ==`, `tokenize ==` of every
pair and the unpickled clone of every value against Model/ValueObjs.v.
Search: the property's clauses evaluated directly on the implementation.
"""
from __future__ import annotations

import itertools
import json
import os
import sys

from vlib import c19eval, core
from vlib.core import cbool

ID = "C19"
ALLOWED_AXIOMS: list[str] = []

K_HISTORY = "crs-history:pyproj-vs-wkt-key"
K_EQHASH = "crs-eq-hash:epsg-vs-wkt"
REQ_A = ["Base.Result", "Model.CrsCache", "Model.CrsCacheCases"]
REQ_B = REQ_A + ["Model.ValueObjs", "Model.ValueObjsCases"]
OBJ_KINDS = ("dict", "pynew", "py")


# ---------------------------------------------------------------------------
# portable form of operations (strings instead of interned ids) for replays
# ---------------------------------------------------------------------------
def port_spec(w, s):
    if s[0] in ("str", "pynew", "dict"):
        return [s[0], w.texts[s[1]]]
    return [s[0], s[1]]


def port_op(w, op):
    if op[0] == "crs":
        return ["crs", port_spec(w, op[1])]
    if op[0] == "newpy":
        return ["newpy", w.texts[op[1]]]
    return list(op)


def exec_ports(ops, on_tr=None):
    """Run portable operations on the real module from a cleared cache; returns the list of CRS variables
    (None for dropped / failed ones) and, per op, the result (for constructions: the instance for the last
    operation only, so that dropped instances really die).  `on_tr(k, f, a, b, xy)` is called for every transformer."""
    import gc
    import pickle
    from odc.geo import crs as M
    from pyproj.crs import CRS as P
    from pyproj.exceptions import CRSError
    M._crs_cache.clear()
    M._make_crs_transform.cache.clear()
    vars_, pys, res = [], [], []
    for pos, op in enumerate(ops):
        k = op[0]
        r = None
        try:
            if k == "newpy":
                pys.append(P.from_user_input(op[1]))
            elif k == "crs":
                kind, arg = op[1]
                if kind == "int":
                    v = M.CRS(int(arg))
                elif kind == "str":
                    v = M.CRS(arg)
                elif kind == "dict":
                    v = M.CRS(json.loads(arg))
                elif kind == "pynew":
                    v = M.CRS(P.from_user_input(arg))
                elif kind == "py":
                    v = M.CRS(pys[arg])
                elif kind == "crs":
                    v = M.CRS(vars_[arg])
                else:
                    v = pickle.loads(pickle.dumps(vars_[arg]))
                vars_.append(v)
                r = v if pos == len(ops) - 1 else str(v)
                del v
            elif k == "toepsg":
                r = vars_[op[1]].to_epsg()
            elif k == "eq":
                r = vars_[op[1]] == vars_[op[2]]
            elif k == "dropcrs":
                vars_[op[1]] = None
            elif k == "droppy":
                pys[op[1]] = None
            elif k == "gc":
                gc.collect()
            elif k == "tr":
                r = vars_[op[1]].transformer_to_crs(vars_[op[2]], always_xy=op[3])
                if on_tr is not None:
                    on_tr(pos, r, vars_[op[1]], vars_[op[2]], op[3])
        except (CRSError, IndexError, AttributeError, TypeError):
            r = "error"
        res.append(r)
    return vars_, res


# ---------------------------------------------------------------------------
# predicates stated directly on the implementation
# ---------------------------------------------------------------------------
def p_history(ops, spec):
    """str/hash/token of CRS(spec) after `ops` equal those in a fresh interpreter state."""
    from dask.base import tokenize
    _, r0 = exec_ports([["crs", spec]])
    _, r1 = exec_ports(list(ops) + [["crs", spec]])
    a, b = r0[-1], r1[-1]
    if a == "error" or b == "error":
        return (a == "error") == (b == "error"), f"fresh: {a!r}; after history: {b!r}"
    ok = str(a) == str(b) and hash(a) == hash(b) and tokenize(a) == tokenize(b)
    return ok, f"fresh str={str(a)[:50]!r}; after history str={str(b)[:50]!r}"


def p_transformer(ops, i, j, xy):
    """the transformer handed out for (vars[i], vars[j]) converts between exactly those two systems"""
    from pyproj import Transformer
    from pyproj.crs import CRS as P
    from vlib.c19crs import PTS
    vars_, res = exec_ports(list(ops) + [["tr", i, j, xy]])
    f = res[-1]
    if f == "error" or f is None:
        return True, "no transformer (outside the domain)"
    a, b = vars_[i], vars_[j]
    ref = Transformer.from_crs(P.from_user_input(a._crs.srs), P.from_user_input(b._crs.srs), always_xy=xy)
    for (x, y) in PTS:
        got, want = tuple(f(x, y)), tuple(ref.transform(x, y))
        if repr(got) != repr(want):
            return False, f"({x},{y}) -> {got}, a fresh {str(a)[:30]}->{str(b)[:30]} transformer gives {want}"
    return True, "same output as a fresh transformer"


def p_transformers_all(ops):
    """every transformer handed out while running `ops` converts between exactly the two systems it was asked for"""
    from pyproj import Transformer
    from pyproj.crs import CRS as P
    from vlib.c19crs import PTS
    bad = []

    def on_tr(k, f, a, b, xy):
        if bad:
            return
        ref = Transformer.from_crs(P.from_user_input(a._crs.srs), P.from_user_input(b._crs.srs), always_xy=xy)
        for (x, y) in PTS:
            got, want = tuple(f(x, y)), tuple(ref.transform(x, y))
            if repr(got) != repr(want):
                bad.append(f"operation {k}: transformer {str(a)[:30]} -> {str(b)[:30]} (always_xy={xy}) maps ({x},{y}) to {got}, "
                           f"a fresh transformer to {want}")
                return

    exec_ports(ops, on_tr)
    return not bad, bad[0] if bad else "all transformers agree with fresh ones"


def tmerc_spec(i: int) -> str:
    lon0 = -170 + (i % 340)
    lat0 = (i // 340) * 7 - 40
    return f"+proj=tmerc +lat_0={lat0} +lon_0={lon0} +k=0.9996 +x_0=500000 +y_0=0 +datum=WGS84 +units=m +no_defs"


def unpinned_transformer_keys():
    """transformer-cache keys naming an id that no pyproj object held by _crs_cache has (the object can be
    freed and its id reused): the invariant of Props/C19.v C19_transformer_keys_pinned on the real module state"""
    from odc.geo import crs as M
    held = {id(v[0]) for v in M._crs_cache.values()}
    return [k for k in M._make_crs_transform.cache.keys() if not (k[0] in held and k[1] in held)]


def p_many_crs(n, behaviour_only=False):
    """n distinct (cheap, custom transverse-mercator) CRSs are built, asked for a transformer to and from EPSG:4326 and
    dropped: every transformer must agree with a freshly built pyproj one, and (structural form of the same clause) every
    id in a transformer-cache key must stay pinned by _crs_cache -- whatever n is"""
    from odc.geo import crs as M
    from pyproj import Transformer
    from pyproj.crs import CRS as P
    M._crs_cache.clear()
    M._make_crs_transform.cache.clear()
    wgs = M.CRS("EPSG:4326")
    pw = P.from_epsg(4326)
    x, y = 512345.0, 123456.0
    structural = ""
    for i in range(n):
        s = tmerc_spec(i)
        c = M.CRS(s)
        f = c.transformer_to_crs(wgs)
        got = tuple(f(x, y))
        want = tuple(Transformer.from_crs(P.from_user_input(c._crs.srs), pw, always_xy=True).transform(x, y))
        if repr(got) != repr(want):
            return False, (f"construction {i}: CRS({s!r}).transformer_to_crs(EPSG:4326) maps ({x},{y}) to {got}, a fresh transformer to {want}"
                           + (f"; earlier: {structural}" if structural else ""))
        if i % 7 == 0:
            g = wgs.transformer_to_crs(c)
            got = tuple(g(10.5, 20.25))
            want = tuple(Transformer.from_crs(pw, P.from_user_input(c._crs.srs), always_xy=True).transform(10.5, 20.25))
            if repr(got) != repr(want):
                return False, f"construction {i}: EPSG:4326 -> CRS({s!r}) maps (10.5,20.25) to {got}, a fresh transformer to {want}"
            del g
        del c, f
        if not structural and not behaviour_only and i % 50 == 49:
            bad = unpinned_transformer_keys()
            if bad:
                structural = (f"after {i + 1} distinct CRS constructions {len(bad)} transformer-cache keys name ids of pyproj objects "
                              f"that _crs_cache no longer holds (len(_crs_cache)={len(M._crs_cache)})")
    if structural:
        return False, structural
    return True, f"{n} transformers agree with fresh ones; all transformer-cache ids pinned"


def attack_histories(rng, n):
    """histories aimed at id reuse: build a pair, request its transformer, drop everything, build other systems
    (several spellings, so that a bounded cache would evict) and request transformers among them"""
    from pyproj.crs import CRS as P
    codes = [4326, 3857, 32633, 3577]
    wkt = {c: P.from_epsg(c).to_wkt() for c in codes}
    spell = lambda c, k: [["int", c], ["str", f"EPSG:{c}"], ["str", wkt[c]], ["pynew", f"EPSG:{c}"]][k]
    out = []
    for _ in range(n):
        c = rng.sample(codes, 4)
        ops = [["crs", spell(c[0], rng.randrange(2))], ["crs", spell(c[1], rng.randrange(2))],
               ["tr", 0, 1, True], ["tr", 1, 0, True], ["dropcrs", 0], ["dropcrs", 1], ["gc"]]
        m = rng.randint(3, 5)
        for k in range(m):
            ops.append(["crs", spell(rng.choice(c), rng.randrange(4))])
        idx = list(range(2, 2 + m))
        for _ in range(6):
            ops.append(["tr", rng.choice(idx), rng.choice(idx), True])
        out.append(ops)
    return out


def p_crs_relation(ops, vars_=None):
    """== on the CRS instances alive after `ops` is reflexive, symmetric, transitive, implies equal hashes,
    and is not changed by calling to_epsg(); unequal instances have different tokens"""
    from dask.base import tokenize
    vars_ = exec_ports(ops)[0] if vars_ is None else vars_
    vs = [v for v in vars_ if v is not None]
    n = len(vs)
    eq = [[bool(a == b) for b in vs] for a in vs]
    for v in vs:
        v.to_epsg()
    eq2 = [[bool(a == b) for b in vs] for a in vs]
    if eq != eq2:
        k = [(i, j) for i in range(n) for j in range(n) if eq[i][j] != eq2[i][j]][0]
        return False, "lazy", f"{str(vs[k[0]])[:40]!r} == {str(vs[k[1]])[:40]!r} was {eq[k[0]][k[1]]} before and {eq2[k[0]][k[1]]} after to_epsg()"
    for i in range(n):
        if not eq[i][i]:
            return False, "refl", f"{vs[i]!r} != itself"
        for j in range(n):
            if eq[i][j] != eq[j][i]:
                return False, "sym", f"{str(vs[i])[:40]!r} vs {str(vs[j])[:40]!r}"
            if not eq[i][j] and tokenize(vs[i]) == tokenize(vs[j]):
                return False, "token", f"unequal {str(vs[i])[:40]!r} / {str(vs[j])[:40]!r} share a token"
            for k in range(n):
                if eq[i][j] and eq[j][k] and not eq[i][k]:
                    return False, "trans", f"{str(vs[i])[:30]!r} == {str(vs[j])[:30]!r} == {str(vs[k])[:30]!r} but first != last"
    for i in range(n):
        for j in range(n):
            if eq[i][j] and hash(vs[i]) != hash(vs[j]):
                return False, "hash", f"{str(vs[i])[:40]!r} == {str(vs[j])[:40]!r} but their hashes differ"
    return True, "", "ok"


def p_lossless(ops, code):
    """after `ops`, every lossless spelling of EPSG:<code> gives instances == to each other"""
    import pickle
    from odc.geo.crs import CRS
    from pyproj.crs import CRS as P
    exec_ports(ops)
    a = P.from_epsg(code)
    vs = [("int", CRS(code)), ("EPSG", CRS(f"EPSG:{code}")), ("epsg", CRS(f"epsg:{code}")), ("ePsG", CRS(f"ePsG:{code}")),
          ("wkt2", CRS(a.to_wkt())), ("projjson", CRS(a.to_json_dict())), ("pyproj", CRS(P.from_epsg(code))),
          ("pyproj-from-wkt", CRS(P.from_user_input(a.to_wkt())))]
    vs.append(("copy", CRS(vs[4][1])))
    vs.append(("pickled", pickle.loads(pickle.dumps(vs[4][1]))))
    for (na, x), (nb, y) in itertools.product(vs, vs):
        if not (x == y) or (x != y):
            return False, f"CRS from {na} != CRS from {nb} for EPSG:{code}"
    return True, "all spellings equal"


def p_tiles_token(a, b):
    from dask.base import tokenize
    from odc.geo.roi import Tiles
    x, y = Tiles(tuple(a[0]), tuple(a[1])), Tiles(tuple(b[0]), tuple(b[1]))
    ok = (x == y) or tokenize(x) != tokenize(y)
    return ok, f"Tiles{tuple(map(tuple, a))} == Tiles{tuple(map(tuple, b))}: {x == y}; same token: {tokenize(x) == tokenize(y)}"


def p_gcp_pickle():
    import copy
    import pickle
    import numpy as np
    from dask.base import tokenize
    from odc.geo.gcp import GCPGeoBox, GCPMapping
    pix = np.array([(0, 0), (10, 0), (0, 10), (10, 10), (5, 5), (3, 7)], dtype=float)
    wld = np.array([(100, 50), (110, 50), (100, 40), (110, 40), (105, 45), (103, 43)], dtype=float)
    g = GCPGeoBox((10, 10), GCPMapping(pix, wld, "EPSG:4326"))
    bad = []

    def clones(tag):
        try:
            cc = (("pickle", pickle.loads(pickle.dumps(g))), ("deepcopy", copy.deepcopy(g)),
                  ("rebuilt", GCPGeoBox((10, 10), GCPMapping(pix.copy(), wld.copy(), "EPSG:4326"))))
        except Exception as e:  # noqa: BLE001
            bad.append(f"{tag}: {type(e).__name__}: {e}")
            return
        for how, c in cc:
            if not (c == g and g == c and hash(c) == hash(g) and tokenize(c) == tokenize(g)):
                bad.append(f"{tag} {how}: ==:{c == g} hash:{hash(c) == hash(g)} token:{tokenize(c) == tokenize(g)}")
            elif how != "rebuilt" and c.pix2wld(2.0, 3.0) != g.pix2wld(2.0, 3.0):
                bad.append(f"{tag} {how}: clone maps pixel (2,3) to {c.pix2wld(2.0, 3.0)}, original to {g.pix2wld(2.0, 3.0)}")

    clones("fresh")
    # the same after the value was USED (pixel<->world conversions build and cache the polynomial fits)
    g.wld2pix(*g.pix2wld(1.0, 2.0))
    _ = (g.extent, g.approx, g.resolution)
    clones("after pix2wld/wld2pix")
    # crops and zooms of a used box
    g = g[2:8, 1:9].zoom_out(2)
    g.pix2wld(0.5, 0.5)
    pix, wld = None, None
    try:
        c = pickle.loads(pickle.dumps(g))
        if not (c == g and hash(c) == hash(g) and tokenize(c) == tokenize(g) and c.pix2wld(1.0, 1.0) == g.pix2wld(1.0, 1.0)):
            bad.append("cropped+zoomed used box: clone differs")
    except Exception as e:  # noqa: BLE001
        bad.append(f"cropped+zoomed used box: {type(e).__name__}: {e}")
    return not bad, "; ".join(bad) or "clones equal, same hash and token"


def p_cross_process(seed_a=11, seed_b=12):
    """a value pickled in one interpreter (plain, or after it was hashed / tokenized / queried) and unpickled in another
    one (same and different PYTHONHASHSEED, the latter after perturbing the CRS caches) is == the same value built
    there, with the same hash, set/dict membership, dask token, and - for CRSs - str / EPSG code / units / WKT"""
    from vlib import c19xproc
    bad = c19xproc.run(seed_a, seed_b)
    if not bad:
        return True, [], "all classes consistent across interpreters"
    b = bad[0]
    return False, bad, (f"{b['name']} ({'hashed/tokenized/queried' if b['mode'] == 'touched' else 'untouched'} before pickling; consumer: "
                   f"{b['consumer']}): {b['what']}; {len(bad)} failures in classes {sorted({x['class'] for x in bad})}")


def p_crs_pairs(specs):
    """for the CRSs of `specs` in the current process state: to_epsg agrees with pyproj, and the transformer of every
    ordered pair and axis order agrees with a freshly built pyproj transformer"""
    from odc.geo.crs import CRS
    from pyproj import Transformer
    from pyproj.crs import CRS as P
    cc = [(s, CRS(s), P.from_user_input(s)) for s in specs]
    for s, c, p in cc:
        if c.to_epsg() != p.to_epsg():
            return False, f"CRS({s!r}).to_epsg() = {c.to_epsg()}, pyproj says {p.to_epsg()}"
        if str(c).upper() != p.srs.upper() and str(c) != p.srs:
            return False, f"str(CRS({s!r})) = {str(c)[:50]!r}, the pyproj srs is {p.srs[:50]!r}"
    for (sa, a, pa), (sb, b, pb) in itertools.product(cc, cc):
        if sa == sb:
            continue
        for xy in (True, False):
            got = tuple(a.transformer_to_crs(b, always_xy=xy)(3.5, 2.25))
            want = tuple(Transformer.from_crs(pa, pb, always_xy=xy).transform(3.5, 2.25))
            if repr(got) != repr(want):
                return False, f"{sa} -> {sb} always_xy={xy}: (3.5, 2.25) maps to {got}, a fresh pyproj transformer gives {want}"
    return True, "epsg codes and all pair transformers agree with pyproj"


def p_array_tokens():
    """unequal GCP geoboxes / tilings whose arrays have the same numpy repr must not share a dask token"""
    import math
    import numpy as np
    from dask.base import tokenize
    from odc.geo.gcp import GCPGeoBox, GCPMapping
    from odc.geo.roi import VariableSizedTiles
    pix = np.array([(0, 0), (10, 0), (0, 10), (10, 10), (5, 5), (3, 7)], dtype=float)
    wld = np.array([(100, 50), (110, 50), (100, 40), (110, 40), (105, 45), (103, 43)], dtype=float)
    wld2 = wld.copy()
    wld2[0, 0] = math.nextafter(100.0, math.inf)
    a, b = GCPGeoBox((10, 10), GCPMapping(pix, wld, "EPSG:4326")), GCPGeoBox((10, 10), GCPMapping(pix, wld2, "EPSG:4326"))
    many = [1] * 1200
    many2 = list(many)
    many2[600], many2[601] = 2, 0
    x, y = VariableSizedTiles((tuple(many), (5,))), VariableSizedTiles((tuple(many2), (5,)))
    bad = []
    if a != b and tokenize(a) == tokenize(b):
        bad.append("GCPGeoBoxes whose world points differ by one ulp are != but share a token")
    if x != y and tokenize(x) == tokenize(y):
        bad.append("VariableSizedTiles with 1200 chunks differing in the middle are != but share a token")
    return not bad, "; ".join(bad) or "distinct tokens"


def family_pair(family, i, j, clause, tier="quick", via=None):
    """replay of a part (b) finding: rebuild the (deterministic) family and evaluate the clause"""
    from odc.geo import crs as M
    from vlib import c19crs, c19vals
    w = c19crs.World(codes=c19crs.CODES if tier == "quick" else (4326, 3857, 32633))
    M._crs_cache.clear()
    M._make_crs_transform.cache.clear()
    fam = c19vals.families(w, tier)[family]
    if clause == "trans":
        a, b, c = fam[i][1], fam[via][1], fam[j][1]
        ok = not (a == b and b == c) or a == c
        return ok, f"{fam[i][0]} == {fam[via][0]}: {a == b}; {fam[via][0]} == {fam[j][0]}: {b == c}; {fam[i][0]} == {fam[j][0]}: {a == c}"
    return pair_clause(fam[i][1], fam[j][1], clause)


def pair_clause(a, b, clause):
    from dask.base import tokenize
    from vlib.c19vals import clones, hash_or_none
    if clause == "sym":
        return (a == b) == (b == a), f"a==b:{a == b} b==a:{b == a}"
    if clause == "hash":
        ha, hb = hash_or_none(a), hash_or_none(b)
        return not (a == b) or ha is None or hb is None or ha == hb, f"a==b:{a == b} hash equal:{ha == hb}"
    if clause == "token":
        return (a == b) or tokenize(a) != tokenize(b), f"a==b:{a == b} same token:{tokenize(a) == tokenize(b)}"
    if clause == "clone":
        bad = []
        from odc.geo.geom import Geometry
        from vlib.c19vals import type_tree
        for how, c in clones(a).items():
            ha, hc = hash_or_none(a), hash_or_none(c)
            same = not isinstance(a, Geometry) or (type_tree(a.geom) == type_tree(c.geom) and a.crs == c.crs)
            if not (a == c and c == a and tokenize(a) == tokenize(c) and ha == hc and same):
                bad.append(f"{how}: ==:{a == c} token:{tokenize(a) == tokenize(c)} hash:{ha == hc}"
                           + ("" if same else f" type/coordinates differ: {type_tree(a.geom)[:2]} -> {type_tree(c.geom)[:2]}"))
        return not bad, "; ".join(bad) or "clones ok"
    raise ValueError(clause)


def p_geometry_copies(name, crs="EPSG:3857"):
    """every copy route of a Geometry holding the named member of the geometry zoo (collections, rings, 3D, empties) gives an
    equal object (both ways) of the same type tree / has_z / coordinates / CRS with the same dask token.  A route is judged
    only where shapely itself carries the geometry faithfully through the primitive the route relies on (pickle for
    pickle/deepcopy, shapely.geometry.shape for clone()/Geometry(g)) -- judged on shapely directly, not through odc-geo"""
    import copy
    import pickle
    from dask.base import tokenize
    from odc.geo.geom import Geometry
    from vlib.c19vals import geometry_zoo, shapely_faithful, type_tree
    sg = geometry_zoo()[name]
    g = Geometry(sg, crs)
    routes = {"pickle": ("pickle", lambda: pickle.loads(pickle.dumps(g))), "deepcopy": ("pickle", lambda: copy.deepcopy(g)),
              "copy": (None, lambda: copy.copy(g)), "clone()": ("shape", lambda: g.clone()), "Geometry(g)": ("shape", lambda: Geometry(g))}
    bad, skipped = [], []
    for how, (prim, f) in routes.items():
        if prim is not None and not shapely_faithful(sg, prim):
            skipped.append(how)
            continue
        try:
            c = f()
        except Exception as e:  # noqa: BLE001
            bad.append(f"{how} raised {type(e).__name__}: {str(e)[:60]}")
            continue
        probs = []
        if not (c == g and g == c) or (c != g):
            probs.append("!= original")
        if type_tree(c.geom) != type_tree(sg):
            probs.append(f"type/coordinates {type_tree(sg)[:2]} -> {type_tree(c.geom)[:2]}")
        if c.crs != g.crs:
            probs.append("crs differs")
        if tokenize(c) != tokenize(g):
            probs.append("different dask token")
        if probs:
            bad.append(f"{how}: " + ", ".join(probs))
    return not bad, skipped, (f"Geometry({name}): " + "; ".join(bad)) if bad else f"all routes faithful (outside the shapely contract: {skipped})"


def p_spelling_order(spellings):
    """str / hash / token / epsg of CRS(spec) do not depend on which spelling of the same definition the process
    constructed first (each order runs in a fresh interpreter); the spellings are equal and share hash and token"""
    import itertools
    import subprocess
    prog = ("import sys, json\nfrom dask.base import tokenize\nfrom odc.geo.crs import CRS\n"
            "sp = json.loads(sys.argv[1])\ncc = [CRS(s) for s in sp]\n"
            "print(json.dumps({s: [str(c), c.epsg, tokenize(c), all(c == d and hash(c) == hash(d) for d in cc)] for s, c in zip(sp, cc)}))")
    seen = {}
    env = dict(os.environ, PYTHONHASHSEED="0", PYTHONPATH=os.environ.get("VERIF_REPO", "/repo"))
    for order in itertools.permutations(spellings):
        r = subprocess.run([sys.executable, "-c", prog, json.dumps(list(order))], capture_output=True, text=True, env=env, timeout=120)
        if r.returncode != 0:
            return False, f"order {list(order)}: {r.stderr.strip().splitlines()[-1] if r.stderr.strip() else 'failed'}"
        got = json.loads(r.stdout)
        for s_, v in got.items():
            if not v[3]:
                return False, f"order {list(order)}: CRS({s_!r}) is not ==/hash-equal to the other spellings"
            if s_ in seen and seen[s_][0] != v[:3]:
                return False, (f"CRS({s_!r}) has (str, epsg, token) {v[:3]} when constructed in order {list(order)} "
                               f"but {seen[s_][0]} in order {seen[s_][1]}")
            seen.setdefault(s_, (v[:3], list(order)))
    return True, f"{len(seen)} spellings, every construction order"


PREDICATES = {"geometry-copies": p_geometry_copies, "spelling-order": p_spelling_order, "cross-process": p_cross_process, "crs-pairs": p_crs_pairs, "array-tokens": p_array_tokens, "many-crs": p_many_crs, "transformers-all": p_transformers_all, "crs-relation": p_crs_relation, "history": p_history, "transformer": p_transformer, "tiles-token": p_tiles_token, "gcp-pickle": p_gcp_pickle,
              "lossless": p_lossless, "family-pair": family_pair}
from vlib import crshist  # noqa: E402
PREDICATES["after_history"] = crshist.after_history(PREDICATES)


# ---------------------------------------------------------------------------
# history generation
# ---------------------------------------------------------------------------
def closed_specs(w, codes):
    out = []
    for n in codes:
        B = w.by_code[n]
        out += [("int", n), ("str", B["upper"]), ("str", B["lower"]), ("str", B["mixed"]), ("str", B["wkt"]),
                ("dict", B["json"]), ("pynew", B["upper"]), ("pynew", B["wkt"]), ("pynew", B["json"])]
    return out


def gen_histories(w, tier, rng):
    codes = w.codes
    closed = closed_specs(w, codes)
    lossy = [("str", t) for t in w.lossy] + [("pynew", w.lossy[0])]
    invalid = [("str", t) for t in w.invalid] + [("int", 999999), ("pynew", w.invalid[1])]
    hists = []
    # structured: every ordered pair of closed specs of the first code (+ a few cross-code), then eq / to_epsg / transformer
    first = [s for s in closed if (s[1] == codes[0] if s[0] == "int" else True)][:9]
    pairs = list(itertools.product(first, first))
    other = closed[9:12]
    pairs += [(a, b) for a in first[:4] for b in other] + [(b, a) for a in first[:4] for b in other]
    for a, b in pairs:
        hists.append([("crs", a), ("crs", b), ("eq", 0, 1), ("tr", 0, 1, True), ("toepsg", 1), ("eq", 0, 1), ("eq", 1, 0),
                      ("crs", ("pickle", 1)), ("eq", 1, 2), ("tr", 1, 0, True), ("tr", 0, 1, False), ("tr", 0, 1, True)])
    # random histories: <= 4 (quick) / 6 (thorough) constructions with interleaved del / gc / transformer requests
    nrand, maxc = (170, 4) if tier == "quick" else (2500, 6)
    for _ in range(nrand):
        h = []
        nv = npy = 0
        ncon = rng.randint(1, maxc)
        made = 0
        while made < ncon or rng.random() < 0.5:
            r = rng.random()
            if made < ncon and r < 0.45:
                q = rng.random()
                if q < 0.62:
                    s = rng.choice(closed)
                elif q < 0.72:
                    s = rng.choice(lossy)
                elif q < 0.78:
                    s = rng.choice(invalid)
                elif q < 0.86 and npy:
                    s = ("py", rng.randrange(npy))
                elif q < 0.93 and nv:
                    s = ("crs", rng.randrange(nv))
                elif nv:
                    s = ("pickle", rng.randrange(nv))
                else:
                    s = rng.choice(closed)
                h.append(("crs", s))
                made += 1
                if s not in invalid:
                    nv += 1
            elif r < 0.52:
                t = rng.choice([w.by_code[rng.choice(codes)][k] for k in ("upper", "wkt", "lower")] + [w.lossy[0], w.invalid[1]])
                h.append(("newpy", t))
                if t != w.invalid[1]:
                    npy += 1
            elif r < 0.62 and nv:
                h.append(("toepsg", rng.randrange(nv)))
            elif r < 0.70 and nv:
                h.append(("eq", rng.randrange(nv), rng.randrange(nv)))
            elif r < 0.78 and nv:
                h.append(("dropcrs", rng.randrange(nv + 1)))
            elif r < 0.82 and npy:
                h.append(("droppy", rng.randrange(npy)))
            elif r < 0.87:
                h.append(("gc",))
            elif nv:
                h.append(("tr", rng.randrange(nv), rng.randrange(nv), rng.random() < 0.7))
            if len(h) > 16:
                break
        hists.append(h)
    return hists


def involves_obj_key(ops):
    return any(op[0] == "crs" and op[1][0] in OBJ_KINDS for op in ops)


# ---------------------------------------------------------------------------
# part (a)
# ---------------------------------------------------------------------------
def part_a(out, tier, scratch, w):
    from vlib import c19crs
    rng = core.rng("c19-hist")
    runner = c19crs.Runner(w)
    hists = gen_histories(w, tier, rng)
    found = out.__dict__.setdefault("_c19_found", set())

    def viol(key, what, rp):
        if key not in found:
            found.add(key)
            out.violation(key, what, rp)

    # string form of every closed / lossy spec in a fresh state
    fresh = {}
    for s in closed_specs(w, w.codes) + [("str", t) for t in w.lossy] + [("pynew", w.lossy[0])]:
        vars_, _ = exec_ports([port_op(w, ("crs", s))])
        fresh[s] = str(vars_[0]) if vars_ and vars_[0] is not None else None
    cases = []
    for hi, h in enumerate(hists):
        txt, vars_, problems = runner.run(h)
        cases.append(txt)
        ports = [port_op(w, op) for op in h]
        out.count("history-ops", len(h))
        for op in h:
            out.count("op:" + op[0] + (":" + op[1][0] if op[0] == "crs" else ""))
        out.case(("hist", ports), True, {"history": [str(p)[:80] for p in ports]} if hi in (3, 200) else None)
        for pb in problems:
            viol("c19:transformer-pair", f"transformer_to_crs after {len(h)} operations: {pb['detail']}",
                 {"predicate": "transformer", "args": [ports, pb["i"], pb["j"], pb["always_xy"]], "observed": pb["detail"]})
        # history independence of every construction from a closed spec
        for pos, op in enumerate(h):
            if op[0] != "crs" or op[1] not in fresh or fresh[op[1]] is None:
                continue
            s = op[1]
            got = runner.strs[pos]
            out.count("predicate:history-independence")
            key = K_HISTORY if involves_obj_key(h[:pos + 1]) else "c19:crs-history"
            if got is not None and got != fresh[s] and key not in found:
                ok, detail = p_history(ports[:pos], port_spec(w, s))
                if not ok:
                    viol(key, f"CRS({port_spec(w, s)[0]}:{str(port_spec(w, s)[1])[:30]}) after {pos} operations: {detail}",
                         {"predicate": "history", "args": [ports[:pos], port_spec(w, s)], "observed": detail})
        ok, clause, detail = p_crs_relation(ports, vars_)
        out.count("predicate:crs-relation")
        if not ok:
            key = K_EQHASH if clause == "hash" else f"c19:crs-eq:{clause}"
            viol(key, f"CRS instances after a history: {detail}", {"predicate": "crs-relation", "args": [ports], "observed": detail})
    for ops in attack_histories(core.rng("c19-attack"), 16 if tier == "quick" else 300):
        ok, detail = p_transformers_all(ops)
        out.count("predicate:transformers-after-drops")
        out.case(("attack", ops), True)
        if not ok:
            viol("c19:transformer-pair", detail, {"predicate": "transformers-all", "args": [ops], "observed": detail})
    # authority strings in either letter case, including compound "EPSG:<horizontal>+<vertical>" definitions (outside the
    # alphabet of the cache model: its contract k_toepsg_code covers single codes only)
    for sp in (["epsg:4326+5773", "EPSG:4326+5773"], ["Epsg:3857", "EPSG:3857", "epsg:3857"], ["epsg:7415", "EPSG:7415"],
               ["EPSG:4326+3855", "epsg:4326+3855"]):
        ok, detail = p_spelling_order(sp)
        out.count("predicate:spelling-order")
        out.case(("spelling-order", tuple(sp)), True)
        if not ok:
            viol("c19:crs-history:spelling-order", detail, {"predicate": "spelling-order", "args": [sp], "observed": detail})
    for n in ((1100,) if tier == "quick" else (300, 1100, 5000)):
        ok, detail = p_many_crs(n)
        out.count("predicate:many-crs", n)
        out.case(("many-crs", n), True)
        if not ok:
            viol("c19:transformer-pair", detail, {"predicate": "many-crs", "args": [n], "observed": detail})
    for n in w.codes:
        for h in ([], [port_op(w, ("crs", ("pynew", w.by_code[n]["upper"])))], [port_op(w, ("crs", ("str", w.by_code[n]["wkt"])))]):
            ok, detail = p_lossless(h, n)
            out.count("predicate:lossless")
            if not ok:
                viol("c19:lossless-specs", detail, {"predicate": "lossless", "args": [h, n], "observed": detail})
    fails, log = c19eval.eval_failures(REQ_A, f"(check {w.coq_oracle()})", cases, scratch, "hist", nshards=4)
    detail = ""
    if fails:
        i = fails[0]
        detail = (f"{len(fails)} histories differ between model and odc.geo.crs; first: "
                  + " ; ".join(str(port_op(w, op))[:70] for op in hists[i]))
        # look for a concrete failing input of the property on that history
        ports = [port_op(w, op) for op in hists[i]]
        vars_, _ = exec_ports(ports)
        live = [k for k, v in enumerate(vars_) if v is not None]
        for a, b in itertools.product(live, live):
            for xy in (True, False):
                ok, d = p_transformer(ports, a, b, xy)
                if not ok:
                    viol("c19:transformer-pair", d, {"predicate": "transformer", "args": [ports, a, b, xy], "observed": d})
    out.oblige("correspondence:Model.CrsCache vs odc.geo.crs (lock-step histories)", "correspondence", not fails, detail)
    return len(cases)


# ---------------------------------------------------------------------------
# part (b)
# ---------------------------------------------------------------------------
def value_crs(v):
    from odc.geo.crs import CRS
    if isinstance(v, CRS):
        return v
    for attr in ("crs", "_crs"):
        c = getattr(v, attr, None)
        if isinstance(c, CRS):
            return c
    g = getattr(v, "_gbox", None)
    return value_crs(g) if g is not None else None


def spelling_difference(a, b):
    """the class of the open finding crs-eq-hash:epsg-vs-wkt: the CRS components are == but spelled differently"""
    ca, cb = value_crs(a), value_crs(b)
    return ca is not None and cb is not None and ca == cb and str(ca) != str(cb)


def part_b(out, tier, scratch, w):
    from odc.geo import crs as M
    from vlib import c19vals
    M._crs_cache.clear()               # the families are built from a fresh cache state, whatever part (a) left
    M._make_crs_transform.cache.clear()
    enc = c19vals.Enc(w)
    fams = c19vals.families(w, tier)
    cases, meta = [], []
    found = out.__dict__.setdefault("_c19_found", set())

    def viol(key, what, rp):
        if key not in found:
            found.add(key)
            out.violation(key, what, rp)

    for fname, fam in fams.items():
        name = fname.split("~")[0]
        n = len(fam)
        eq = [[None] * n for _ in range(n)]
        for i, j in itertools.product(range(n), range(n)):
            (da, a), (db, b) = fam[i], fam[j]
            e, h, t = c19vals.observe_pair(a, b)
            eq[i][j] = e
            hs = "None" if h is None else f"(Some {cbool(h)})"
            cases.append(f"CPairI {enc.ref(a)}%nat {enc.ref(b)}%nat {cbool(e)} {hs} {cbool(t)}")
            meta.append((fname, i, j))
            out.count(f"pair:{name}:{'eq' if e else 'ne'}")
            out.case(("pair", name, i, j), True, {"type": name, "a": str(da), "b": str(db), "eq": e, "hash_eq": h, "token_eq": t}
                     if (i, j) == (0, 1) else None)
            rp = {"predicate": "family-pair"}
            if e and h is False:
                key = K_EQHASH if spelling_difference(a, b) else f"c19:{name}:eq-hash"
                viol(key, f"{name} {da} == {db} but hashes differ", {**rp, "args": [fname, i, j, "hash", tier]})
            if not e and t:
                viol(f"c19:{name}:token-collision", f"unequal {name} {da} / {db} share a dask token", {**rp, "args": [fname, i, j, "token", tier]})
        for i in range(n):
            if not eq[i][i]:
                viol(f"c19:{name}:refl", f"{name} {fam[i][0]} != itself", {"predicate": "family-pair", "args": [fname, i, i, "sym", tier]})
            for j in range(n):
                if eq[i][j] != eq[j][i]:
                    viol(f"c19:{name}:sym", f"{name} {fam[i][0]} vs {fam[j][0]}: == is not symmetric",
                         {"predicate": "family-pair", "args": [fname, i, j, "sym", tier]})
                if eq[i][j]:
                    for k in range(n):
                        if eq[j][k] and not eq[i][k]:
                            viol(f"c19:{name}:trans", f"{name}: {fam[i][0]} == {fam[j][0]} == {fam[k][0]} but first != last",
                                 {"predicate": "family-pair", "args": [fname, i, k, "trans", tier, j]})
        for i, (d, a) in enumerate(fam):
            ok, detail = pair_clause(a, a, "clone")
            out.count(f"clone:{name}")
            if not ok:
                viol(f"c19:{name}:pickle", f"{name} {d}: {detail}", {"predicate": "family-pair", "args": [fname, i, i, "clone", tier], "observed": detail})
            for how, c in c19vals.clones(a).items():
                if how == "pickle":
                    cases.append(f"CPickleI {enc.ref(a)}%nat {enc.ref(c)}%nat")
                    meta.append((fname, i, how))
                out.case(("clone", fname, i, how), True)
                if how != "pickle":
                    continue        # copy / deepcopy clones are checked by the predicate above only (keeps the value table small)
                e, h, t = c19vals.observe_pair(a, c)
                hs = "None" if h is None else f"(Some {cbool(h)})"
                cases.append(f"CPairI {enc.ref(a)}%nat {enc.ref(c)}%nat {cbool(e)} {hs} {cbool(t)}")
                meta.append((fname, i, how))
    gbad = enc.geom_contract_failures()
    out.oblige("oracle-contract:shapely == is an equivalence and GeoJSON round trips exactly on the geometries used", "oracle-contract",
               not gbad, "; ".join(gbad[:5]))
    fn = f"(vcheck {w.coq_oracle()} {enc.coq_vtab()} {enc.coq_vals()})"
    fails, log = c19eval.eval_failures(REQ_B, fn, cases, scratch, "vals", nshards=6)
    detail = ""
    if fails:
        detail = f"{len(fails)} value cases differ; first: {meta[fails[0]]}: {cases[fails[0]][:600]}"
        for i in fails[:3]:
            fname, a, b = meta[i]
            name = fname.split("~")[0]
            if isinstance(b, int):
                for clause in ("sym", "hash", "token"):
                    ok, d = pair_clause(fams[fname][a][1], fams[fname][b][1], clause)
                    if not ok:
                        viol(f"c19:{name}:{clause}", f"{name} {fams[fname][a][0]} / {fams[fname][b][0]}: {d}",
                             {"predicate": "family-pair", "args": [fname, a, b, clause, tier], "observed": d})
    out.oblige("correspondence:Model.ValueObjs vs ==/hash/tokenize/pickle of the value types", "correspondence", not fails, detail)
    return len(cases)


# ---------------------------------------------------------------------------
# entry points
# ---------------------------------------------------------------------------
def run_corpus(out):
    for rp in core.corpus(ID):
        name = rp["predicate"]
        try:
            r = PREDICATES[name](*rp.get("args", []))
            ok, detail = r[0], r[-1]
        except Exception as e:  # a witness must stay executable
            ok, detail = False, f"raised {type(e).__name__}: {e}"
        out.count("corpus:" + name)
        out.case(("corpus", rp["_file"]), True)
        if not ok:
            out.violation(rp.get("key", f"c19:corpus:{name}"), f"corpus witness {rp['_file']}: {detail}",
                          {"predicate": name, "args": rp.get("args", []), "observed": detail})


def part_x(out, tier):
    """cross-process round trips and CRS pairs after process-history perturbations"""
    from vlib.c19vals import geometry_zoo
    found = out.__dict__.setdefault("_c19_found", set())
    for name in geometry_zoo():
        for crs in ("EPSG:3857", None):
            ok, skipped, detail = p_geometry_copies(name, crs)
            out.count("predicate:geometry-copies")
            out.count("geometry-copies:routes outside the shapely contract", len(skipped))
            out.case(("geometry-copies", name, crs), True)
            if not ok and "c19:Geometry:copy" not in found:
                found.add("c19:Geometry:copy")
                out.violation("c19:Geometry:copy", detail, {"predicate": "geometry-copies", "args": [name, crs], "observed": detail})
    for sa, sb in (((11, 12),) if tier == "quick" else ((11, 12), (0, 1), (5, 5))):
        r = p_cross_process(sa, sb)
        out.count("predicate:cross-process")
        out.case(("cross-process", sa, sb), True)
        if not r[0]:
            for cls in sorted({b["class"] + ":" + b["clause"] for b in r[1]})[:4]:
                key = f"c19:xproc:{cls}"
                if key not in found:
                    found.add(key)
                    out.violation(key, r[2], {"predicate": "cross-process", "args": [sa, sb], "observed": r[2]})
    specs = ["epsg:4326", "epsg:3857", "epsg:32633", "epsg:3577", "EPSG:6933"]
    for hist in (["authority-order-first"], ["queries-first", "churn"], ["churn", "authority-order-first", "queries-first"]):
        ok, detail = PREDICATES["after_history"](hist, specs, "crs-pairs", [specs])
        out.count("predicate:crs-pairs-after-history")
        out.case(("crs-pairs", tuple(hist)), True)
        if not ok and "c19:transformer-pair:after-history" not in found:
            found.add("c19:transformer-pair:after-history")
            out.violation("c19:transformer-pair:after-history", f"after {hist}: {detail}",
                          {"predicate": "after_history", "args": [hist, specs, "crs-pairs", [specs]], "observed": detail})


def run(out, tier, scratch):
    from vlib import c19crs
    out.rule = ("(a) histories: every ordered pair of 9 closed spellings of one EPSG code (+ cross-code pairs) followed by ==, "
                "to_epsg, pickling and transformer requests, plus random histories with <= 4 (quick) / 6 (thorough) constructions "
                "from {int, 'EPSG:n' in three letter cases, WKT2, PROJJSON dict, pyproj objects (temporary and user-held), CRS copy, "
                "pickled copy, PROJ strings, invalid input} interleaved with to_epsg/==/del/gc.collect()/transformer requests; every "
                "operation's result and the whole cache state are compared. (b) all ordered pairs inside families of near-identical "
                "values (one field changed; int/float and CRS-spelling variants) of the ten value types, and pickle/copy/deepcopy "
                "clones of every member. non-trivial = every case (each compares a distinct operation sequence or value pair)")
    out.assumptions += [
        "CPython dict lookup = equal hash and (identity or ==); hash(str) treated as injective; a pyproj CRS hashes as its default WKT and "
        "is determined by its srs (read from pyproj/crs/crs.py, re-validated by the lock-step histories)",
        "oracle contracts of Model.CrsCache.contracts (pyproj == an equivalence, case-insensitive EPSG strings, srs idempotent under "
        "from_user_input, to_epsg consistent with == and with the code in the string) validated on every text of the run",
        "Python hash()/dask tokenize are functions of the modelled hash keys / tokens (numbers by value for hash, by type+value for pickles)",
        "shapely == is an equivalence and GeoJSON round-trips exactly (validated on the geometries used)",
        "finite floats only (no NaN, no -0.0): floats modelled as exact rationals",
    ]
    run_corpus(out)
    w = c19crs.World(codes=c19crs.CODES if tier == "quick" else (4326, 3857, 32633))
    bad = w.check_contracts()
    out.oblige("oracle-contract:Model.CrsCache.contracts hold for CPython str / pyproj on the texts of the run", "oracle-contract",
               not bad, "; ".join(bad[:6]))
    # each part runs even if another one breaks (a changed cache layout must not hide the searches of the other parts)
    import traceback
    na = nb = 0
    for label, part in (("cross-process / after-history search", lambda: part_x(out, tier)),
                        ("part (a)", lambda: part_a(out, tier, scratch, w)), ("part (b)", lambda: part_b(out, tier, scratch, w))):
        try:
            r = part()
            if label == "part (a)":
                na = r
            elif label == "part (b)":
                nb = r
        except core.ModelEvalError as e:
            out.oblige(f"model-evaluation:{label}", "correspondence", False, e.log)
        except Exception:  # noqa: BLE001
            out.oblige(f"harness:{label}", "correspondence", False, traceback.format_exc())
    out.notes.append(f"{na} lock-step histories, {nb} value cases evaluated by vm_compute; {len(w.texts)} interned texts, {len(w.srs)} distinct srs")


def replay(rp) -> int:
    name = rp["predicate"]
    r = PREDICATES[name](*rp["args"])
    ok, detail = r[0], r[-1]
    print(f"replay {name}: {'holds' if ok else 'FAILS'}: {detail}")
    return 0 if ok else 1


META = {
    "text": ("Coq theorems (coq/Props/C19.v, closed under the global context) over two hand-written Gallina models. "
             "(a) Model/CrsCache.v: a heap of pyproj objects whose ids may be reused after free, _crs_cache with the code's key function "
             "and CPython's dict key equivalence, the identity-keyed transformer cache; operations CRS(int|str|dict|pyproj|CRS|pickle), "
             "to_epsg, ==, del, gc, transformer_to_crs.  Proved for every history: every id in a transformer-cache key belongs to an object "
             "pinned by _crs_cache, pinned objects are never freed nor their ids reused, the transformer returned for (a,b,always_xy) was "
             "built for exactly those two objects; str/hash/token of CRS(spec) equal the fresh-interpreter value for EPSG codes and strings "
             "in any spelling after any history of string-keyed operations (full statement refuted for pyproj-object keys: open finding "
             "crs-history:pyproj-vs-wkt-key, conditional theorem given); lossless-equivalent specifications give == instances whatever "
             "happened before; copies and pickled copies are ==.  (b) Model/ValueObjs.v: for CRS, BoundingBox, Geometry, GeoBox, "
             "GCPGeoBox, Tiles, VariableSizedTiles, GeoboxTiles, XY family, GridSpec: == is an equivalence, equal tokens imply ==, "
             "unpickled clones are == with the same token; == implies equal hash keys for XY and, for CRS-bearing types, on instances "
             "with a unique spelling (full statement refuted: open finding crs-eq-hash:epsg-vs-wkt).  Models are tied to odc.geo by "
             "lock-step history correspondence and by pairwise ==/hash/tokenize/pickle correspondence over families of near-identical values."),
    "note": ("Trusted: Coq kernel; the hand-written models (validated by correspondence); CPython dict/str semantics as modelled (hash(str) "
             "injective, lookup = hash and (is or ==)); pyproj as an oracle under the contracts of Model.CrsCache.contracts (== is an "
             "equivalence; srs determines the object; EPSG strings case-insensitive; to_epsg consistent with == and with the code in "
             "the string) — validated on the texts of each run, known to fail for lossy PROJ strings only where stated; shapely == and "
             "GeoJSON round trip as oracle (geom_laws); hash()/tokenize as functions of the modelled keys; floats as exact rationals "
             "(finite, no -0.0).  Not proved: history independence when pyproj objects/PROJJSON dicts are used as cache keys "
             "(refuted, open), == implies equal hash across spellings (refuted, open), transformer numerics (PROJ), thread safety of "
             "the caches, CRS-like objects with to_wkt() other than pyproj/CRS, hashable CRS-like objects as keys."),
    "technique": "Coq proof over hand-written Gallina state-machine and value models + lock-step / pairwise differential correspondence (vm_compute)",
    "design_ref": "DESIGN.md section 5, C19",
}
