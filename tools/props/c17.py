"""C17 — ROI (slice) helpers agree with array slicing semantics.

Correspondence: the model of coq/Model/Roi.v against odc.geo.roi on an
exhaustive small domain plus boundary/random cases.  Search: the property's
own predicates evaluated directly on the implementation with numpy as the
reference for array slicing.
"""
from __future__ import annotations

import itertools
from fractions import Fraction

import numpy as np

from vlib import core
from vlib.core import cbool, clist, copt, cq, ctuple, cz

ID = "C17"
ALLOWED_AXIOMS: list[str] = []


# ---------------------------------------------------------------- encoding
def enc(s):
    if isinstance(s, slice):
        return {"slice": [s.start, s.stop, s.step]}
    if isinstance(s, (tuple, list)):
        return [enc(x) for x in s]
    return s


def dec(s):
    if isinstance(s, dict) and "slice" in s:
        return slice(*s["slice"])
    if isinstance(s, list):
        return tuple(dec(x) for x in s)
    return s


def csl(s) -> str:
    if isinstance(s, slice):
        return f"(SSl {copt(s.start)} {copt(s.stop)} {copt(s.step)})"
    return f"(SInt {cz(s)})"


def cpair(p) -> str:
    return ctuple(cz(p[0]), cz(p[1]))


def cres(f, call):
    """Run call(); render Ok/Err as Coq text using f for the value."""
    try:
        v = call()
    except ValueError:
        return "(Err EValue)", "ValueError"
    except IndexError:
        return "(Err EIndex)", "IndexError"
    except AssertionError:
        return "(Err (EAssert 0))", "AssertionError"
    return f"(Ok {f(v)})", "ok"


# ---------------------------------------------------------------- domains
def slice_fields(n, ext=2):
    return [None] + list(range(-(n + ext), n + ext + 1))


def all_slices(n, steps=(None,), ext=2):
    ff = slice_fields(n, ext)
    for a, b in itertools.product(ff, ff):
        for st in steps:
            yield slice(a, b, st)


# ---------------------------------------------------------------- cases
def gen_cases(out, tier):
    from odc.geo import roi as R
    from odc.geo.math import align_down, align_up

    rng = core.rng("c17")
    cases = []
    samples = []

    def add(kind, text, canon, nontrivial=True, sample=None):
        cases.append(text)
        out.count(kind)
        out.case((kind, canon), nontrivial, sample)

    nmax = 4 if tier == "quick" else 6
    # numpy reference semantics + _norm_slice, exhaustive
    for n in range(0, nmax + 1):
        X = np.arange(n)
        for s in all_slices(n, steps=(None, 1, 2, 3) if n <= 3 else (None, 2)):
            got = X[s].tolist()
            add("np_get", f"CNpGet {cz(n)} {csl(s)} (Some {clist(got)})", (n, enc(s)), bool(got))
            e = R.roi_normalise(s, n)
            add("norm", f"CNorm {csl(s)} {cz(n)} {csl(e)}", (n, enc(s)), True,
                {"op": "roi_normalise", "s": enc(s), "n": n, "result": enc(e)})
        for i in range(-(n + 2), n + 3):
            try:
                got = f"(Some {clist([int(X[i])])})"
            except IndexError:
                got = "None"
            add("np_get_int", f"CNpGet {cz(n)} {csl(i)} {got}", (n, i), got != "None")
            e = R.roi_normalise(i, n)
            add("norm_int", f"CNorm {csl(i)} {cz(n)} {csl(e)}", (n, i))

    # _norm_slice_or_error, slice_intersect3, roi_intersect: all pairs over a small field set
    m = 4 if tier == "quick" else 6
    ff = [None] + list(range(-2, m + 1))
    singles = [slice(a, b, st) for a, b in itertools.product(ff, ff) for st in (None,)] + list(range(-2, m))
    singles += [slice(1, 3, 2), slice(None, 4, 1)]
    f3 = lambda v: ctuple(ctuple(cz(v[0]), cz(v[1])), copt(v[2]))
    for s in singles:
        t, kind = cres(lambda v: f3((v.start, v.stop, v.step)), lambda: R._norm_slice_or_error(s))
        add("norm_or_error:" + kind, f"CNormErr {csl(s)} {t}", enc(s))
        t, kind = cres(cz, lambda: R.roi_shape(s)[0])
        add("shape:" + kind, f"CDim {csl(s)} {t}", enc(s))
        t, kind = cres(lambda v: cz(int(round(v * 2))), lambda: R.roi_center(s))
        add("center:" + kind, f"CCenter2 {csl(s)} {t}", enc(s))
    pairs = list(itertools.product(singles, singles))
    if tier == "quick":
        pairs = rng.sample(pairs, 3000)
    sl3 = lambda v: ctuple(ctuple(cpair((v[0].start, v[0].stop)), cpair((v[1].start, v[1].stop))),
                           cpair((v[2].start, v[2].stop)))
    for a, b in pairs:
        t, kind = cres(sl3, lambda: R.slice_intersect3(a, b))
        add("intersect3:" + kind, f"CInter3 {csl(a)} {csl(b)} {t}", (enc(a), enc(b)), True,
            {"op": "slice_intersect3", "a": enc(a), "b": enc(b), "result": t})
        t, kind = cres(lambda v: cpair((v.start, v.stop)), lambda: R.roi_intersect(a, b))
        add("intersect:" + kind, f"CInter {csl(a)} {csl(b)} {t}", (enc(a), enc(b)))

    # is_empty / is_full on 1-d and 2-d rois
    for n in range(0, 4):
        for s in list(all_slices(n, ext=1)) + list(range(-1, n + 1)):
            add("full", f"CFull [{csl(s)}] [{cz(n)}] {cbool(R.roi_is_full(s, n))}", (enc(s), n))
    for _ in range(300 if tier == "quick" else 2000):
        roi = tuple(rng.choice(singles) for _ in range(rng.choice([1, 2, 2, 3])))
        shape = tuple(rng.randint(0, m) for _ in roi)
        t, kind = cres(cbool, lambda: R.roi_is_empty(roi))
        add("empty:" + kind, f"CEmpty [{'; '.join(csl(s) for s in roi)}] {t}", enc(roi))
        add("full_nd", f"CFull [{'; '.join(csl(s) for s in roi)}] {clist(shape)} {cbool(R.roi_is_full(roi, shape))}",
            (enc(roi), shape))

    # padding
    for n in range(0, nmax + 1):
        for s in list(all_slices(n, ext=1)) + list(range(-n, n)):
            for pad in (0, 1, 2, n + 1):
                e = R.roi_pad(s, pad, n)
                add("pad", f"CPad {cz(pad)} {csl(s)} {cz(n)} {csl(e)}", (enc(s), pad, n))

    # scaling and alignment
    for a in range(0, 14):
        for b in range(a, 16):
            for k in (1, 2, 3, 4, 7):
                (d, _) = R.scaled_down_roi((slice(a, b), slice(a, b)), k)
                add("down", f"CDown {cz(a)} {cz(b)} {cz(k)} {cpair((d.start, d.stop))}", (a, b, k))
                for dim in (None, 5, 40):
                    shape = None if dim is None else (dim, dim)
                    (u, _) = R.scaled_up_roi((slice(a, b), slice(a, b)), k, shape)
                    add("up", f"CUp {cz(a)} {cz(b)} {cz(k)} {copt(dim)} {cpair((u.start, u.stop))}", (a, b, k, dim))
    for n in range(0, 40):
        for k in (1, 2, 3, 5, 16):
            add("down_dim", f"CDownDim {cz(n)} {cz(k)} {cz(R.scaled_down_shape((n,), k)[0])}", (n, k))
    for x in list(range(-20, 40)) + [2 ** 40 + 3, -(2 ** 40) - 3]:
        for a in (1, 2, 3, 8, 16):
            add("align", f"CAlign {cz(x)} {cz(a)} {cz(align_down(x, a))} {cz(align_up(x, a))}", (x, a))

    # point envelopes: exactly representable coordinates (multiples of 1/8), far points, non finite
    def cpt(p):
        if p is None:
            return "None"
        return f"(Some {ctuple(cq(p[0]), cq(p[1]))})"

    for i in range(400 if tier == "quick" else 4000):
        ny, nx = rng.randint(0, 40), rng.randint(0, 40)
        k = rng.choice([0, 1, 1, 2, 3, 5, 9])
        pts = []
        for _ in range(k):
            mode = rng.random()
            if mode < 0.12:
                pts.append(None)
            elif mode < 0.3:
                mag = rng.choice([2 ** 31, 2 ** 32 + 5, 3 * 10 ** 9, 2 ** 62, 2 ** 70, 10 ** 30])
                far = Fraction(float(rng.choice([-1, 1]) * mag))
                if rng.random() < 0.5:
                    pts.append((far, Fraction(rng.randint(-8, 8 * ny + 8), 8)))
                else:
                    pts.append((Fraction(rng.randint(-8, 8 * nx + 8), 8), far))
            else:
                pts.append((Fraction(rng.randint(-16, 8 * nx + 16), 8), Fraction(rng.randint(-16, 8 * ny + 16), 8)))
        padding = rng.choice([0, 0, 1, 2, 5])
        align = rng.choice([None, None, 1, 2, 4, 16, 3])
        nonfin = [float("nan"), float("inf"), float("-inf")]
        arr = np.array([(float(p[0]), float(p[1])) if p is not None else
                        rng.choice([(rng.choice(nonfin), 1.0), (2.0, rng.choice(nonfin)), (nonfin[0], nonfin[1])])
                        for p in pts], dtype="float64").reshape(-1, 2)
        assert all(p is None or (Fraction(float(p[0])) == p[0] and Fraction(float(p[1])) == p[1]) for p in pts)
        ry, rx = R.roi_from_points(arr, (ny, nx), padding=padding, align=align)
        exp = ctuple(cpair((ry.start, ry.stop)), cpair((rx.start, rx.stop)))
        add("points", f"CPoints [{'; '.join(cpt(p) for p in pts)}] {cz(ny)} {cz(nx)} {cz(padding)} {copt(align)} {exp}",
            (str(pts), ny, nx, padding, align), k > 0,
            {"op": "roi_from_points", "pts": [None if p is None else [str(p[0]), str(p[1])] for p in pts],
             "shape": [ny, nx], "padding": padding, "align": align,
             "result": [[ry.start, ry.stop], [rx.start, rx.stop]]} if i < 2 else None)
    return cases


# ---------------------------------------------------------------- property predicates on the implementation
def p_norm(s, n):
    from odc.geo.roi import roi_normalise
    X = np.arange(n)
    if isinstance(s, int):
        try:
            want = [int(X[s])]
        except IndexError:
            return True, "index out of range: outside the property's domain"
    else:
        want = X[s].tolist()
    ns = roi_normalise(s, n)
    got = X[ns].tolist()
    return got == want, f"X[s]={want} X[normalise(s)]={got} normalised={ns}"


def p_intersect3(a, b, n):
    from odc.geo.roi import roi_intersect, slice_intersect3
    X = np.arange(n)
    a_, b_, ab = slice_intersect3(a, b)
    xa, xb, xab = X[a][a_].tolist(), X[b][b_].tolist(), X[ab].tolist()
    common = sorted(set(X[a].tolist()) & set(X[b].tolist()))
    ri = roi_intersect(a, b)
    ok = xa == xb == xab == common and X[ri].tolist() == common
    return ok, f"X[a][a']={xa} X[b][b']={xb} X[ab']={xab} common={common} roi_intersect={ri}"


def p_queries(s, n):
    from odc.geo.roi import roi_center, roi_is_empty, roi_is_full, roi_shape
    X = np.arange(n)
    sel = X[s]
    ok = roi_shape(s) == sel.shape and roi_is_empty(s) == (sel.size == 0)
    if n > 0:
        ok = ok and roi_is_full(s, n) == (sel.size == n)
    if sel.size:
        ok = ok and roi_center(s) == (sel[0] + sel[-1] + 1) / 2
    return ok, f"shape={roi_shape(s)} empty={roi_is_empty(s)} full={roi_is_full(s, n)} center={roi_center(s)} X[s]={sel.tolist()}"


def p_full_nd(roi, shape):
    """fullness of an N-D roi of in-range slices (None or 0<=a<=b<=n) and in-range integer indices (-n<=i<n)
    against the size of the numpy selection"""
    from odc.geo.roi import roi_is_full
    roi = tuple(roi) if isinstance(roi, (tuple, list)) else roi
    shape = tuple(shape) if isinstance(shape, (tuple, list)) else shape
    X = np.zeros(shape if isinstance(shape, tuple) else (shape,), dtype="uint8")
    sel = X[roi]
    want = bool(np.size(sel) == X.size)
    got = roi_is_full(roi, shape)
    if got is not want:
        return False, f"roi_is_full={got!r}, numpy selects {np.size(sel)} of {X.size} elements"
    # the shape in every representation the library itself hands around: tuple, list, Shape2d (GeoBox.shape), numpy ints
    reprs = []
    if isinstance(shape, tuple):
        reprs += [("list", list(shape)), ("numpy ints", tuple(np.int64(n) for n in shape))]
        if len(shape) == 2:
            from odc.geo.types import shape_
            reprs.append(("Shape2d", shape_(shape)))
    for name, sh in reprs:
        g2 = roi_is_full(roi, sh)
        if g2 is not want:
            return False, f"roi_is_full={g2!r} with the shape given as {name} ({sh!r}), {want!r} with the tuple"
    return True, f"roi_is_full={got!r}, numpy selects {np.size(sel)} of {X.size} elements"


def p_empty_nd(roi, shape):
    """emptiness of an N-D roi of slices with bounds in [0, n] in ANY order (a reversed slice selects nothing)
    against the size of the numpy selection"""
    from odc.geo.roi import roi_is_empty
    roi = tuple(roi) if isinstance(roi, (tuple, list)) else roi
    shape = tuple(shape) if isinstance(shape, (tuple, list)) else (shape,)
    X = np.zeros(shape, dtype="uint8")
    sel = X[roi]
    want = bool(np.size(sel) == 0)
    got = roi_is_empty(roi)
    return got is want, f"roi_is_empty={got!r}, numpy selects {np.size(sel)} elements"


def p_center(s):
    """roi_center of a slice / index / N-D tuple: the middle of the selected index set of np.arange(n)[s] - for EVERY
    length n for which the selection is not empty.  A roi whose selection depends on n in a way no single number can
    describe (from-the-end offsets, open stop) must be refused with ValueError, never answered with a number."""
    from odc.geo.roi import roi_center
    ss = s if isinstance(s, tuple) else (s,)
    try:
        got = roi_center(s)
    except ValueError:
        return True, "refused (ValueError)"
    gg = got if isinstance(got, tuple) else (got,)
    for one, g in zip(ss, gg):
        for n in (4, 7, 12, 33):
            sel = np.arange(n)[one]
            if np.size(sel) == 0:
                continue
            sel = np.atleast_1d(sel)
            want = (int(sel[0]) + int(sel[-1]) + 1) / 2
            if g != want:
                return False, f"roi_center({s!r}) = {got!r}, but for an axis of length {n} the selection {sel.tolist()} is centred at {want}"
    return True, f"center={got!r}"


def p_np_index(i, n):
    """an integer index given as a numpy integer (what np.argwhere / clip_tiles hand around) means the same as the
    Python int: normalisation, shape, fullness, centre, tile lookup"""
    from odc.geo import roi as R
    bad = []
    for T in (np.int64, np.int32, np.uint8 if i >= 0 else np.int16):
        k = T(i)
        try:
            if (R.roi_normalise(k, n) != R.roi_normalise(i, n) or R.roi_shape((k, slice(0, n))) != R.roi_shape((i, slice(0, n)))
                    or R.roi_is_full(k, n) != R.roi_is_full(i, n) or R.roi_is_empty((k,)) != R.roi_is_empty((i,))):
                bad.append(f"{T.__name__}: differs from the Python int")
            if i >= 0:
                if R.roi_center(k) != R.roi_center(i):
                    bad.append(f"{T.__name__}: centre differs")
                t = R.Tiles((3 * n, 2 * n), (3, 2))
                if t[k, k] != t[i, i] or R.VariableSizedTiles(t.chunks)[k, k] != t[i, i]:
                    bad.append(f"{T.__name__}: tile lookup differs")
        except Exception as e:  # noqa: BLE001
            bad.append(f"{T.__name__}: raised {type(e).__name__}: {e}")
    return not bad, "; ".join(bad) or "same as the Python int"


def p_pad(s, pad, n):
    """any int / slice index (negative, open-ended): the padded region is the selection grown by pad, clamped"""
    from odc.geo.roi import roi_pad
    X = np.arange(n)
    if isinstance(s, int):
        if not -n <= s < n:
            return True, "index out of range: outside the property's domain"
        sel = [int(X[s])]
    else:
        sel = X[s].tolist()
    got = X[roi_pad(s, pad, n)].tolist()
    want = list(range(max(0, sel[0] - pad), min(n, sel[-1] + 1 + pad))) if sel else None
    return (want is None or got == want), f"X[s]={sel} pad={pad} padded={got} want={want}"


def p_scale(a, b, k):
    from odc.geo.roi import scaled_down_roi, scaled_up_roi
    d = scaled_down_roi((slice(a, b), slice(a, b)), k)
    u = scaled_up_roi(d, k)[0]
    ok = u.start <= a and b <= u.stop and a - u.start < k and u.stop - b < k
    return ok, f"down={d[0]} up={u}"


def p_points(pts, ny, nx, padding, align):
    from odc.geo.roi import roi_from_points
    arr = np.array(pts, dtype="float64").reshape(-1, 2)
    ry, rx = roi_from_points(arr, (ny, nx), padding=padding, align=align)
    ok = 0 <= ry.start <= ny and 0 <= ry.stop <= ny and 0 <= rx.start <= nx and 0 <= rx.stop <= nx
    for x, y in arr.tolist():
        if np.isfinite(x) and np.isfinite(y) and 0 <= x <= nx and 0 <= y <= ny:
            ok = ok and rx.start <= x <= rx.stop and ry.start <= y <= ry.stop
            ok = ok and rx.start <= max(0, np.floor(x) - padding) and rx.stop >= min(nx, np.ceil(x) + padding)
            ok = ok and ry.start <= max(0, np.floor(y) - padding) and ry.stop >= min(ny, np.ceil(y) + padding)
    if align:
        ok = ok and all(v % align == 0 or v == lim for v, lim in
                        [(rx.start, nx), (rx.stop, nx), (ry.start, ny), (ry.stop, ny)])
    # exact reference ("honours padding and alignment ... however large the coordinates"): the envelope of the
    # finite points, floor/ceil, grown by padding, aligned outwards, clipped to the image - in Python integers
    import math
    from fractions import Fraction
    fin = [(Fraction(x), Fraction(y)) for x, y in arr.tolist() if np.isfinite(x) and np.isfinite(y)]
    want = None
    if fin:
        def axis(vals, n):
            lo = math.floor(min(vals)) - padding
            hi = math.ceil(max(vals)) + padding
            if align:
                lo = lo - lo % align
                hi = hi + (-hi) % align
            return (min(max(lo, 0), n), min(max(hi, 0), n))
        want = (axis([p[1] for p in fin], ny), axis([p[0] for p in fin], nx))
        got = ((ry.start, ry.stop), (rx.start, rx.stop))
        # an empty region may be reported at either end of the axis
        same = all(g == w or (g[0] >= g[1] and w[0] >= w[1]) for g, w in zip(got, want))
        ok = ok and same
    else:
        # no finite point at all (none given, or every one NaN/inf): an empty region inside the image
        ok = ok and (ry.stop <= ry.start or rx.stop <= rx.start)
    return ok, f"roi=({ry},{rx}) exact padded/aligned/clipped envelope={want}"


PREDICATES = {"norm": p_norm, "intersect3": p_intersect3, "queries": p_queries, "pad": p_pad,
              "scale": p_scale, "points": p_points, "full_nd": p_full_nd,
              "empty_nd": p_empty_nd, "center": p_center, "np_index": p_np_index}


def search(out, tier):
    """Evaluate the property's predicates directly on the implementation."""
    rng = core.rng("c17-search")
    nmax = 5 if tier == "quick" else 7
    found = {}

    def run(name, *args):
        try:
            ok, detail = PREDICATES[name](*args)
        except Exception as e:  # the helpers must not fail inside the property's domain
            ok, detail = False, f"raised {type(e).__name__}: {e}"
        out.count("predicate:" + name)
        out.case(("pred", name, enc(args)), True)
        if not ok and name not in found:
            found[name] = True
            out.violation(f"c17:{name}", f"{name}{enc(args)}: {detail}",
                          {"predicate": name, "args": enc(list(args)), "observed": detail})

    for rp in core.corpus(ID):
        run(rp["predicate"], *[dec(a) for a in rp["args"]])
    for n in range(0, nmax + 1):
        for s in all_slices(n, steps=(None, 1, 2, 3) if n <= 4 else (None,)):
            run("norm", s, n)
        for i in range(-n, n):
            run("norm", i, n)
        inr = [slice(a, b) for a in range(0, n + 1) for b in range(a, n + 1)]
        for s in inr:
            run("queries", s, n)
        if n > 0:
            # reversed / zero-width / ordinary slices in 1-D .. 3-D tuples: any number of reversed axes
            sl = [slice(a, b) for a in range(0, n + 1) for b in range(0, n + 1)]
            for s1 in sl:
                run("empty_nd", s1, n)
            for nd in (2, 3):
                combos = list(itertools.product(sl, repeat=nd))
                for roi in (combos if len(combos) <= 200 else rng.sample(combos, 200)):
                    run("empty_nd", roi, (n,) * nd)
            # integer indices (negative too) alone and inside N-D tuples
            for i in range(-n, n):
                run("full_nd", i, n)
                run("full_nd", (i,), (n,))
            items = [slice(None), slice(0, n), slice(0, None), slice(None, n), slice(0, max(n - 1, 0)), slice(1, n)] + list(range(-n, n))
            for nd in (2, 3):
                combos = list(itertools.product(items, repeat=nd))
                for roi in (combos if len(combos) <= 150 else rng.sample(combos, 150)):
                    for shape in ((n,) * nd, tuple(rng.choice([n, n + 1, 1]) if isinstance(r, slice) and r.stop is None or r == slice(None)
                                                   else n for r in roi)):
                        run("full_nd", roi, shape)
        for s in list(all_slices(n, ext=1)) + list(range(-n, n)):
            for pad in (0, 1, 3):
                run("pad", s, pad, n)
        wide = [slice(a, b) for a in [None] + list(range(0, n + 3)) for b in range(0 if a is None else a, n + 3)]
        pairs = list(itertools.product(wide, wide))
        if len(pairs) > 4000 and tier == "quick":
            pairs = rng.sample(pairs, 4000)
        for a, b in pairs:
            run("intersect3", a, b, n)
    for n_ in (1, 3, 6):
        for i_ in range(-n_, n_):
            run("np_index", i_, n_)
    # centre queries: absolute, from-the-end and open bounds, integer indices, N-D tuples
    cvals = [None, 0, 1, 2, 3, -1, -2, -4]
    csl = [slice(a, b) for a in cvals for b in cvals] + [0, 1, 2, -1, -3]
    for s1 in csl:
        run("center", s1)
    for _ in range(60 if tier == "quick" else 600):
        run("center", tuple(rng.choice(csl) for _ in range(rng.choice([2, 2, 3]))))
    # no points / no finite points
    for pts in ([], [(float("nan"), 1.0)], [(float("inf"), float("-inf")), (float("nan"), float("nan"))]):
        for pad_, al_ in ((0, None), (2, 4), (1, 16)):
            run("points", pts, rng.randint(1, 40), rng.randint(1, 40), pad_, al_)
    for a in range(0, 20):
        for b in range(a, 24):
            for k in (1, 2, 3, 4, 5, 8):
                run("scale", a, b, k)
    for _ in range(500 if tier == "quick" else 5000):
        ny, nx = rng.randint(1, 50), rng.randint(1, 50)
        pts = []
        for _ in range(rng.randint(1, 6)):
            r = rng.random()
            if r < 0.15:
                pts.append((float("nan"), 1.0) if rng.random() < 0.5 else (3.0, float("inf")))
            elif r < 0.4:
                pts.append((rng.choice([-1, 1]) * rng.choice([2.0 ** 31, 3e9, 1e19, 1e300]), rng.uniform(-2, ny + 2)))
            elif r < 0.5:
                pts.append((rng.uniform(-2, nx + 2), rng.choice([-1, 1]) * rng.choice([2.0 ** 31 + 7, 5e9, 1e25])))
            else:
                pts.append((rng.uniform(-3, nx + 3), rng.uniform(-3, ny + 3)))
        run("points", pts, ny, nx, rng.choice([0, 1, 3, 10, 17]), rng.choice([None, 2, 8, 5, 16]))
    for _ in range(300 if tier == "quick" else 3000):
        # point sets entirely on one side of the image (beyond it by little or by far) and paddings of any size
        ny, nx = rng.randint(1, 120), rng.randint(1, 120)
        side = rng.choice(["hi-x", "hi-y", "lo-x", "lo-y", "inside"])
        off = rng.choice([1, 5, 50, 1e6, 2.0 ** 33, 1e18])
        pts = []
        for _ in range(rng.randint(1, 4)):
            x, y = rng.uniform(0, nx), rng.uniform(0, ny)
            if side == "hi-x":
                x = nx + off + rng.uniform(0, 5)
            elif side == "hi-y":
                y = ny + off + rng.uniform(0, 5)
            elif side == "lo-x":
                x = -off - rng.uniform(0, 5)
            elif side == "lo-y":
                y = -off - rng.uniform(0, 5)
            pts.append((x, y))
        run("points", pts, ny, nx, rng.choice([0, 1, 3, 10, 17, 40]), rng.choice([None, None, 2, 16, 5]))


# ---------------------------------------------------------------- entry points
def run(out, tier, scratch):
    out.rule = ("correspondence: exhaustive over slices with fields in {None,-(n+2)..n+2} for n<=4 (quick) / 6 (thorough), "
                "all/ sampled pairs for the intersections, random point sets with exactly representable coordinates, "
                "far (>2^31..1e30) and non-finite points; a case is non-trivial when it selects at least one element "
                "or exercises an error/clamp branch; distinct = distinct canonical (operation, arguments). "
                "search: the property's predicates evaluated on the implementation with numpy as reference")
    out.assumptions += ["numpy indexing semantics as formalised by Model.Roi.np_get (validated against numpy on every CNpGet case)",
                        "exact rational model of float coordinates in roi_from_points (inputs restricted to exactly representable values)"]
    # a harness failure while recording the implementation (an exception type the recorder does not expect)
    # is a broken obligation; the property search below runs regardless
    try:
        cases = gen_cases(out, tier)
        fails, log = core.coq_eval_failures(["Base.Result", "Model.Roi", "Model.RoiCases"], "case", "check", cases, scratch, shard=300)
        detail = ""
        if fails:
            detail = "model and implementation differ on: " + " | ".join(cases[i] for i in fails[:5])
        out.oblige("correspondence:Model.Roi vs odc.geo.roi", "correspondence", not fails, detail)
    except Exception as e:  # noqa: BLE001
        import traceback
        out.oblige("correspondence:Model.Roi vs odc.geo.roi", "correspondence", False,
                   "case generation on the implementation failed: " + traceback.format_exc()[-400:])
    search(out, tier)


def replay(rp) -> int:
    name = rp["predicate"]
    args = [dec(a) for a in rp["args"]]
    ok, detail = PREDICATES[name](*args)
    print(f"replay {name}{rp['args']}: {'holds' if ok else 'FAILS'}: {detail}")
    return 0 if ok else 1


META = {
    "text": ("Coq theorems (coq/Props/C17.v, all closed under the global context) over a Gallina model of the slice helpers: "
             "normalisation preserves the numpy selection for every list, slice and length; the 3-way intersection identity "
             "X[a][a']=X[b][b']=X[ab'] with ab' the common index set for all lists and all well-formed slices, error exactly on "
             "open/negative inputs; shape/empty/full/centre/pad/scale laws; the point envelope contains every in-image finite "
             "point for rationals of any magnitude.  The model is tied to odc/geo/roi.py by an exhaustive small-domain "
             "correspondence run (vm_compute inside Coq) plus direct property predicates on the implementation."),
    "note": ("Trusted: Coq kernel, the hand-written model coq/Model/Roi.v (validated by correspondence, exhaustive for n<=4/6), "
             "the formalisation of numpy/CPython slice semantics np_get (validated against numpy on every run), exact-rational "
             "abstraction of float coordinates in roi_from_points.  Domain restrictions stated in the theorems: step None or "
             "positive; intersection inputs with start<=stop; pad/shape/full for in-range slices."),
    "technique": "Coq proof over hand-written Gallina model + exhaustive small-domain differential correspondence (vm_compute) + leaf functions regenerated from source by py2v on every run and proved equal to the model (source_is_model theorem)",
    "design_ref": "DESIGN.md section 5, C17",
}
