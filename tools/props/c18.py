"""C18 — part writers: the S3 multi-part upload is initiated exactly once under
every interleaving; the file sink honours its contract; limits.

Correspondence: real `DelayedS3Writer` objects run on real threads under the
deterministic scheduler of vlib/sched.py, parked at every access to shared
state (the step boundaries of coq/Model/S3Init.v).  For each schedule the
events performed, the calls received by a fake S3 client, the outcome of every
thread and the final shared state are compared with the model's run of the
same schedule (vm_compute inside Coq).  `MPUFileSink` is run in a scratch
directory and compared with coq/Model/FileSink.v, the limit accessors for all
combinations of keyword arguments.

Search: the property's predicates evaluated directly on the observed runs.
"""
from __future__ import annotations

import copy
import itertools
import os
import shutil
import sys
import threading
import types
from pathlib import Path

from vlib import core
from vlib.core import cbool, ctuple
from vlib.sched import Explorer, HarnessTimeout, Scheduler, SchedLock, Trace

ID = "C18"
ALLOWED_AXIOMS: list[str] = []

LABELS = {"get:uploadId": "LGet", "set:uploadId": "LSet", "acquire:local": "LAcq", "release:local": "LRel",
          "acquire:dlock": "LAcq", "release:dlock": "LRel", "call:create": "LCreate", "call:upload": "LUpload",
          "call:complete": "LComplete", "var:get": "LVarGet", "var:set": "LVarSet", "var:delete": "LVarDel",
          "reg:get": "LRegGet", "reg:set": "LRegSet", "lock:new": "LNewLock"}
ERR_CODE = {"ValueError": 1, "IndexError": 3, "AssertionError": 4, "RuntimeError": 5, "OSError": 6,
            "FileNotFoundError": 6, "FileExistsError": 6, "NotADirectoryError": 6, "IsADirectoryError": 6,
            "PermissionError": 6}
READS = ("get:uploadId", "var:get", "reg:get")


# ======================================================================== harness: S3 writers under the scheduler
class Run:
    """Everything observed in one scheduled execution of the real writers."""

    def __init__(self, mode, threads):
        self.fresh = mode == "local-fresh"   # the process-wide lock registry starts empty
        self.full_mode = mode
        # "cluster-late": the writer is created while no dask client exists (no prep_client, shared variable never
        # set), the client becomes active afterwards and the worker copies do their writes then
        self.late = mode == "cluster-late"
        # "cluster-reuse": an earlier upload to the same (bucket, key) on the same cluster started writing and was
        # abandoned before finalise (cleanup_client never ran); the upload under test comes after it
        self.reuse = mode == "cluster-reuse"
        self.stale = None                    # what the earlier upload left in the shared variable
        self.prior_calls: list = []
        mode = "local" if mode.startswith("local") else ("cluster" if mode.startswith("cluster") else mode)
        self.registered = False              # the registry holds a lock at the end
        self.mode = mode
        self.threads = threads
        self.trace: Trace | None = None
        self.calls: list[tuple] = []       # (step, thread, name, ...)
        self.uids: list[str] = []          # final uploadId of every worker's mpu copy
        self.locked = False
        self.deleted_at: int | None = None  # step index of Variable.delete()
        self.unknown: list[str] = []
        self.bodies_ok = True

    # canonical views ----------------------------------------------------
    def outcome_codes(self):
        tr = self.trace
        out = []
        for t in range(len(self.threads)):
            o = tr.outcome.get(t)
            if o is None or o[0] == "aborted":
                out.append(-1)
            elif o[0] == "ok":
                out.append(0)
            else:
                out.append(ERR_CODE.get(o[1], 7))
        return out

    def canon_calls(self):
        out = []
        for c in self.calls:
            name = c[2]
            if name == "create":
                out.append(("create", uid_num(c[3])))
            elif name == "upload":
                out.append(("upload", c[3], uid_num(c[4])))
            else:
                out.append(("complete", uid_num(c[3]), c[4]))
        return out


def uid_num(s) -> int:
    if s == "":
        return 0
    if isinstance(s, str) and s.startswith("upload-") and s[7:].isdigit():
        return int(s[7:])
    return -1


def part_data(part: int) -> bytes:
    return (f"part {part};" * 3).encode()


def execute(mode: str, threads, schedule=(), complete=True, chooser=None, glue=None, script=None,
            watchdog: float = 30.0) -> Run:
    """Build fresh writers, fakes and threads; run them under `schedule`.
    threads: list of (worker, [("w", part) | ("f", nparts), ...]).  In local mode all
    threads share ONE writer (the worker index is ignored); in cluster mode every
    worker has its own copy of the writer and of its MultiPartUpload."""
    import odc.geo.cog._s3 as S3

    run = Run(mode, threads)
    mode = run.mode
    for _cls in ("Variable", "Lock"):      # resolve the installed signatures before the fake module goes in
        if _cls not in _INSTALLED_SIG:
            try:
                bind_like_installed(_cls, (), {})
            except TypeError:
                pass
    sched = Scheduler(watchdog=watchdog)

    class FakeS3:
        def __init__(self):
            self.n = 0
            self.n_old = 0
            self.old_phase = False      # calls of the earlier, abandoned upload

        def create_multipart_upload(self, **kw):
            sched.event("call:create")
            if self.old_phase:
                self.n_old += 1
                uid = f"old-upload-{self.n_old}"
                run.calls.append((sched.step_index(), sched.current(), "create", uid, kw))
                return {"UploadId": uid}
            self.n += 1
            uid = f"upload-{self.n}"
            run.calls.append((sched.step_index(), sched.current(), "create", uid, kw))
            return {"UploadId": uid}

        def upload_part(self, **kw):
            sched.event("call:upload")
            run.calls.append((sched.step_index(), sched.current(), "upload", kw["PartNumber"], kw["UploadId"],
                              bytes(kw["Body"]), kw["Bucket"], kw["Key"]))
            return {"ETag": f"etag-{kw['PartNumber']}"}

        def complete_multipart_upload(self, **kw):
            sched.event("call:complete")
            run.calls.append((sched.step_index(), sched.current(), "complete", kw["UploadId"],
                              len(kw["MultipartUpload"]["Parts"]), kw["Bucket"], kw["Key"]))
            return {"ETag": "etag-final"}

        def __getattr__(self, name):   # any other client call is outside the model
            def other(**kw):
                sched.event("call:" + name)
                run.unknown.append("call:" + name)
                return {}
            return other

    s3 = FakeS3()

    class HookedMPU(S3.MultiPartUpload):
        """uploadId as a property: every read / write is a scheduler event."""

        @property
        def uploadId(self):
            sched.event("get:uploadId")
            return self.__dict__["_uid"]

        @uploadId.setter
        def uploadId(self, v):
            sched.event("set:uploadId")
            self.__dict__["_uid"] = v

        def s3_client(self):
            return s3

    class Client:
        def __init__(self):
            self.vars: dict = {}
            self.locks: dict = {}

    client = Client() if mode == "cluster" else None
    active = {"on": not run.late}      # whether get_client() finds the client

    class Var:
        def __init__(self, *args, **kwargs):
            b = bind_like_installed("Variable", args, kwargs)   # TypeError exactly when the installed class would
            self.name, self.client = b.get("name"), (b.get("client") or client)

        def set(self, value, timeout=None):
            sched.event("var:set")
            self.client.vars[self.name] = value

        def get(self, timeout=None):
            sched.event("var:get")
            if self.name not in self.client.vars:
                raise TimeoutError("variable not set")   # what a real get does after `timeout`
            return self.client.vars[self.name]

        def delete(self):
            sched.event("var:delete")
            self.client.vars.pop(self.name, None)
            if run.deleted_at is None:
                run.deleted_at = sched.step_index() if sched.current() is not None else -1

    class DLock:
        def __init__(self, *args, **kwargs):
            b = bind_like_installed("Lock", args, kwargs)
            owner = b.get("client") or client
            self._l = owner.locks.setdefault(b.get("name"), SchedLock(sched, "dlock"))
            rpc = b.get("scheduler_rpc")
            # the installed Lock talks to whatever it is given as scheduler_rpc; a Client is not one
            self._broken = None if rpc is None else f"'{type(rpc).__name__}' object has no attribute 'semaphore_register'"

        def acquire(self, blocking=True, timeout=None):     # signature of distributed.Lock.acquire
            if self._broken:
                raise AttributeError(self._broken)
            return self._l.acquire(blocking, -1 if timeout is None else timeout)

        def release(self):
            self._l.release()

        def __enter__(self):
            self.acquire()
            return self

        def __exit__(self, *exc):
            self._l.release()
            return False

    def get_client(*a, **kw):
        if client is None or not active["on"]:
            raise ValueError("No global client found and no address provided")
        return client

    fake = types.ModuleType("distributed")
    fake.Variable, fake.Lock, fake.get_client = Var, DLock, get_client

    local_locks: list[SchedLock] = []

    def new_lock():
        """stands in for threading.Lock inside _s3.py: creating a lock is a scheduling point"""
        sched.event("lock:new")
        lk = SchedLock(sched, "local")
        local_locks.append(lk)
        return lk

    class HookedState(dict):
        """the process-wide registry `_state`: every access is a scheduling point; the operation itself
        (dict.get / dict.setdefault / item assignment) is performed atomically when the thread is resumed"""

        def get(self, *a):
            sched.event("reg:get")
            return dict.get(self, *a)

        def __getitem__(self, k):
            sched.event("reg:get")
            return dict.__getitem__(self, k)

        def __contains__(self, k):
            sched.event("reg:get")
            return dict.__contains__(self, k)

        def setdefault(self, *a):
            sched.event("reg:set")
            return dict.setdefault(self, *a)

        def __setitem__(self, k, v):
            sched.event("reg:set")
            dict.__setitem__(self, k, v)

        def pop(self, *a):
            sched.event("reg:set")
            return dict.pop(self, *a)

    old_mod = sys.modules.get("distributed")
    old_state, old_lock_cls = S3._state, S3.Lock     # pylint: disable=protected-access
    sys.modules["distributed"] = fake
    # the real _mpu_local_lock() runs against an instrumented registry: empty (first use in the process)
    # or already holding an (instrumented) lock
    S3._state = HookedState() if run.fresh else HookedState({"mpu_lock": new_lock()})   # pylint: disable=protected-access
    S3.Lock = new_lock
    try:
        kw = {"ContentType": "image/tiff"}
        if run.reuse:
            # the earlier upload: its own MultiPartUpload + writer, one worker copy writes one part, nobody finalises
            s3.old_phase = True
            mpu0 = HookedMPU("bucket", "some/key.tif")
            w0 = copy.copy(mpu0.writer(kw))
            w0.mpu = copy.copy(mpu0)
            w0(1, part_data(1))
            s3.old_phase = False
            run.prior_calls = list(run.calls)
            run.calls.clear()
            run.stale = next(iter(client.vars.values()), None)
        mpu = HookedMPU("bucket", "some/key.tif")
        writer = mpu.writer(kw)          # the real factory: prep_client() when a client exists
        active["on"] = True              # (late mode: the client appears only now)
        writers = {}

        def writer_of(w):
            if mode == "local":
                return writer
            if w not in writers:
                ww = copy.copy(writer)
                ww.mpu = copy.copy(mpu)
                writers[w] = ww
            return writers[w]

        for (w, _) in threads:
            writer_of(w)

        def mk_body(w, ops):
            def body():
                W = writer_of(w)
                res = []
                for op in ops:
                    if op[0] == "w":
                        r = W(op[1], part_data(op[1]))
                        if r != {"PartNumber": op[1], "ETag": f"etag-{op[1]}"}:
                            run.bodies_ok = False
                    else:
                        r = W.finalise([{"PartNumber": i + 1, "ETag": f"etag-{i + 1}"} for i in range(op[1])])
                        if r != {"Bucket": "bucket", "Key": "some/key.tif", "ETag": "etag-final"}:
                            run.bodies_ok = False
                    res.append(r)
                return len(res)
            return body

        for (w, ops) in threads:
            sched.spawn(mk_body(w, ops))
        run.trace = sched.run(schedule, complete=complete, chooser=chooser, glue=glue, script=script)
        nw = (max(w for w, _ in threads) + 1) if threads else 0
        if mode == "local":
            run.uids = [mpu.__dict__["_uid"]]
            run.locked = any(lk.locked() for lk in local_locks)
            run.registered = dict.get(S3._state, "mpu_lock") is not None   # pylint: disable=protected-access
        else:
            run.uids = [writers[w].mpu.__dict__["_uid"] if w in writers else "" for w in range(nw)]
            run.locked = any(l.locked() for l in client.locks.values())
        for k in run.trace.kinds:
            if k not in LABELS:
                run.unknown.append(k)
    finally:
        S3._state, S3.Lock = old_state, old_lock_cls   # pylint: disable=protected-access
        if old_mod is not None:
            sys.modules["distributed"] = old_mod
        else:
            sys.modules.pop("distributed", None)
    return run


_INSTALLED_SIG: dict = {}


def bind_like_installed(cls_name: str, args, kwargs) -> dict:
    """Bind constructor arguments the way the INSTALLED distributed.<cls_name> would (so the fakes
    reject / misroute exactly the calls the real classes would); (name=None, client=None) if
    distributed cannot be imported."""
    import inspect

    if cls_name not in _INSTALLED_SIG:
        sig = None
        try:
            saved = sys.modules.get("distributed")
            if isinstance(saved, types.ModuleType) and not hasattr(saved, "__file__"):
                sys.modules.pop("distributed")      # one of our fakes is installed right now
            try:
                import distributed as real
                sig = inspect.signature(getattr(real, cls_name))
            finally:
                if saved is not None:
                    sys.modules["distributed"] = saved
        except Exception:  # pylint: disable=broad-except
            sig = None
        if sig is None:
            sig = inspect.signature(lambda name=None, client=None: None)
        _INSTALLED_SIG[cls_name] = sig
    return dict(_INSTALLED_SIG[cls_name].bind(*args, **kwargs).arguments)


def glue_reads(kind: str) -> bool:
    return kind in READS


# ------------------------------------------------------------------------ Coq text
# (the generated case files open Z_scope: plain integer literals keep them small and fast to check)
def cz(n) -> str:
    n = int(n)
    return str(n) if n >= 0 else f"({n})"


cnat = cz


def clist(xs, f=cz) -> str:
    return "[" + "; ".join(f(x) for x in xs) + "]"


def cop(op) -> str:
    return f"(OWrite {cz(op[1])})" if op[0] == "w" else f"(OFinal {cz(op[1])})"


def cprogs(mode, threads) -> str:
    if mode == "local":
        return "[" + "; ".join("[" + "; ".join(cop(o) for o in ops) + "]" for _, ops in threads) + "]"
    return "[" + "; ".join(f"({cnat(w)}, [" + "; ".join(cop(o) for o in ops) + "])" for w, ops in threads) + "]"


def ccall(c) -> str:
    if c[0] == "create":
        return f"(KCreate {cz(c[1])})"
    if c[0] == "upload":
        return f"(KUpload {cz(c[1])} {cz(c[2])})"
    return f"(KComplete {cz(c[1])} {cz(c[2])})"


LABEL_CODE = {"LGet": 0, "LSet": 1, "LAcq": 2, "LRel": 3, "LCreate": 4, "LUpload": 5, "LComplete": 6,
              "LVarGet": 7, "LVarSet": 8, "LVarDel": 9, "LRegGet": 10, "LNewLock": 11, "LRegSet": 12}


def call_code(c) -> int:
    kind = {"create": 0, "upload": 1, "complete": 2}[c[0]]
    uid, arg = (c[1], 0) if kind == 0 else ((c[2], c[1]) if kind == 1 else (c[1], c[2]))
    return kind + 4 * (uid + 16 * arg) if 0 <= uid < 16 and arg >= 0 else -1


def case_text(run: Run, packed=True) -> str:
    tr = run.trace
    calls = run.canon_calls()
    outs = clist(run.outcome_codes())
    codes = [call_code(c) for c in calls]
    packed = packed and all(c >= 0 for c in codes) and len(run.threads) <= 16
    if packed:
        steps = clist([t * 16 + LABEL_CODE[LABELS.get(k, "LGet")] for t, k in zip(tr.schedule, tr.kinds)])
        ccalls = clist(codes)
    else:
        steps = clist(tr.schedule) + " [" + "; ".join(LABELS.get(k, "LGet") for k in tr.kinds) + "]"
        ccalls = "[" + "; ".join(ccall(c) for c in calls) + "]"
    if run.mode == "local":
        ncreate = sum(1 for c in run.calls if c[2] == "create")
        head = "CLocalP" if packed else "CLocal true"
        return (f"{head} {cbool(not run.fresh)} {cprogs('local', run.threads)} {steps} {ccalls} {outs} {cz(ncreate)} "
                f"{cbool(run.locked)} {cbool(run.registered)}")
    uids = clist([uid_num(u) for u in run.uids])
    stale = "None" if run.stale is None else f"(Some {cz(uid_num(run.stale))})"
    return (f"{'CClusterP' if packed else 'CCluster'} {stale} {cprogs('cluster', run.threads)} {steps} {ccalls} {outs} "
            f"{uids} {cbool(run.deleted_at is not None)}")


# ------------------------------------------------------------------------ the property, on an observed run
def judge(run: Run):
    """The property's claims on what the real code did.  For the cluster path the
    claims are made up to the moment a finalise deletes the shared variable
    (finalise depends on every write in a dask graph; see C18_cluster_late_first_write)."""
    tr = run.trace
    cut = run.deleted_at if (run.mode == "cluster" and run.deleted_at is not None) else None
    calls = [c for c in run.calls if cut is None or c[0] <= cut]
    problems = []
    creates = [c for c in calls if c[2] == "create"]
    others = [c for c in calls if c[2] != "create"]
    if len(creates) > 1:
        problems.append(f"{len(creates)} create_multipart_upload calls (threads {[c[1] for c in creates]})")
    if others and len(creates) != 1:
        problems.append(f"{len(others)} part/complete calls but {len(creates)} initiations")
    ids = {c[3] for c in creates}
    for c in others:
        uid = c[4] if c[2] == "upload" else c[3]
        if uid not in ids or uid == "":
            problems.append(f"{c[2]} by thread {c[1]} under upload id {uid!r}, initiated: {sorted(ids)}")
            break
    for c in calls:
        if c[2] == "create" and c[4] != {"Bucket": "bucket", "Key": "some/key.tif", "ContentType": "image/tiff"}:
            problems.append(f"create_multipart_upload arguments {c[4]}")
        if c[2] == "upload" and (c[5] != part_data(c[3]) or c[6:] != ("bucket", "some/key.tif")):
            problems.append(f"upload_part {c[3]}: body or bucket/key altered")
    for t, o in sorted(tr.outcome.items()):
        if o[0] == "exc" and (cut is None or tr.finish_step.get(t, 0) <= cut + 1):
            ops = run.threads[t][1]
            if any(op[0] == "f" and op[1] <= 0 for op in ops):
                continue    # finalise([]) is required to fail
            problems.append(f"thread {t} failed: {o[1]}: {o[2]}")
    if tr.deadlock:
        problems.append(f"deadlock: threads {tr.unfinished} parked, none enabled")
    if not tr.unfinished and tr.mismatch is None and cut is None:
        want_w = sum(1 for _, ops in run.threads for op in ops if op[0] == "w")
        got_w = sum(1 for c in calls if c[2] == "upload")
        bad_fin = any(op[0] == "f" and op[1] <= 0 for _, ops in run.threads for op in ops)
        if want_w != got_w and not bad_fin and not problems:
            problems.append(f"{want_w} writes requested, {got_w} upload_part calls")
        if not run.bodies_ok:
            problems.append("a writer call returned an unexpected value")
    if run.unknown:
        problems.append(f"shared accesses outside the model: {sorted(set(run.unknown))}")
    return problems


def run_to_replay(run: Run, what: str) -> dict:
    return {"predicate": "schedule", "mode": run.full_mode, "threads": [[w, [list(o) for o in ops]] for w, ops in run.threads],
            "schedule": run.trace.schedule, "events": run.trace.kinds,
            "client_calls": [list(map(str, c[1:5])) for c in run.calls],
            "outcomes": {str(k): list(map(str, v[:3])) for k, v in run.trace.outcome.items()}, "observed": what,
            "expected": "exactly one create_multipart_upload, every part under that id, no thread fails"}


# ------------------------------------------------------------------------ configurations
W = lambda p: ("w", p)
F = lambda n: ("f", n)

LOCAL_2W = [(0, [W(1)]), (0, [W(2)])]
LOCAL_2WF = [(0, [W(1)]), (0, [W(2)]), (0, [F(2)])]
LOCAL_3W = [(0, [W(1)]), (0, [W(2)]), (0, [W(3)])]
LOCAL_SEQ = [(0, [W(1), W(3)]), (0, [W(2), F(3)])]
CL_2W_DIFF = [(0, [W(1)]), (1, [W(2)])]
CL_2W_SAME = [(0, [W(1)]), (0, [W(2)])]
CL_2WF = [(0, [W(1)]), (1, [W(2)]), (2, [F(2)])]
CL_3W = [(0, [W(1)]), (1, [W(2)]), (0, [W(3)])]
CL_SEQ = [(0, [W(1), W(3)]), (1, [W(2), F(3)])]


GLUE = {"all": None, "glued": glue_reads, "glued-uid": lambda k: k == "get:uploadId"}
CONFIGS = {"local-2w": ("local", LOCAL_2W), "local-2w+f": ("local", LOCAL_2WF), "local-3w": ("local", LOCAL_3W),
           "local-seq": ("local", LOCAL_SEQ), "cluster-2w-2workers": ("cluster", CL_2W_DIFF),
           "cluster-2w-1worker": ("cluster", CL_2W_SAME), "cluster-2w+f": ("cluster", CL_2WF),
           "cluster-3w": ("cluster", CL_3W), "cluster-seq": ("cluster", CL_SEQ),
           "reuse-2w": ("cluster-reuse", CL_2W_DIFF), "reuse-2w+f": ("cluster-reuse", CL_2WF),
           "reuse-seq": ("cluster-reuse", CL_SEQ),
           "late-2w": ("cluster-late", CL_2W_DIFF), "late-2w+f": ("cluster-late", CL_2WF),
           "late-seq": ("cluster-late", CL_SEQ),
           "fresh-2w": ("local-fresh", LOCAL_2W), "fresh-3w": ("local-fresh", LOCAL_3W),
           "fresh-2w+f": ("local-fresh", LOCAL_2WF),
           "local-finalise-empty": ("local", [(0, [W(1)]), (1, [F(0), W(5)]), (0, [W(2)])]),
           "cluster-finalise-empty": ("cluster", [(0, [W(1)]), (1, [F(0), W(5)]), (0, [W(2)])])}


def plan(tier):
    """(configuration, how, amount): how = all (every interleaving) | glued (every interleaving
    without preemption before a read of shared state) | glued-uid (... before a read of
    the thread's own mpu.uploadId) | random; amount None = complete enumeration"""
    q = tier == "quick"
    return [
        ("local-2w", "glued", None),
        ("local-2w", "all", 1500 if q else None),
        ("fresh-2w", "glued", None),
        ("fresh-2w", "all", 800 if q else 20000),
        ("fresh-2w", "random", 200 if q else 1500),
        ("fresh-3w", "glued", 500 if q else 8000),
        ("fresh-3w", "random", 300 if q else 1500),
        ("fresh-2w+f", "random", 200 if q else 1500),
        ("local-2w+f", "glued", 1200 if q else None),
        ("local-2w+f", "all", 400 if q else 15000),
        ("local-2w+f", "random", 200 if q else 1500),
        ("local-3w", "glued", 500 if q else None),
        ("local-3w", "all", 200 if q else 5000),
        ("local-3w", "random", 200 if q else 1500),
        ("local-seq", "random", 150 if q else 1500),
        ("cluster-2w-2workers", "glued", None),
        ("cluster-2w-2workers", "glued-uid", None),
        ("cluster-2w-2workers", "all", 500 if q else None),
        ("cluster-2w-2workers", "random", 200 if q else 1500),
        ("cluster-2w-1worker", "glued", None),
        ("cluster-2w-1worker", "glued-uid", None),
        ("cluster-2w-1worker", "all", 500 if q else 5000),
        ("cluster-2w-1worker", "random", 200 if q else 1500),
        ("cluster-2w+f", "glued", 600 if q else 8000),
        ("cluster-2w+f", "random", 200 if q else 1500),
        ("cluster-3w", "glued", 600 if q else 8000),
        ("cluster-3w", "random", 200 if q else 1500),
        ("cluster-seq", "random", 150 if q else 1500),
        ("reuse-2w", "glued", None),
        ("reuse-2w", "glued-uid", None),
        ("reuse-2w+f", "glued", 300 if q else 5000),
        ("reuse-2w+f", "random", 150 if q else 1500),
        ("reuse-seq", "random", 100 if q else 1500),
        ("late-2w", "glued", None),
        ("late-2w", "glued-uid", None),
        ("late-2w+f", "glued", 300 if q else 5000),
        ("late-2w+f", "random", 150 if q else 1500),
        ("late-seq", "random", 100 if q else 1500),
        ("local-finalise-empty", "random", 20),
        ("cluster-finalise-empty", "random", 20),
    ]


def summarise(run_: Run, name: str, how: str) -> dict:
    problems = judge(run_)
    return {"name": name, "how": how, "mode": run_.mode, "schedule": run_.trace.schedule,
            "case": case_text(run_), "plain": case_text(run_, packed=False), "problems": problems,
            "replay": run_to_replay(run_, "; ".join(problems)) if problems else None,
            "nthreads": len(run_.threads), "ncreates": sum(1 for c in run_.calls if c[2] == "create"),
            "sample": {"config": name, "mode": run_.full_mode, "schedule": run_.trace.schedule, "events": run_.trace.kinds,
                       "calls": run_.canon_calls(), "outcomes": run_.outcome_codes()}}


def derived(run_: Run, name: str, rng) -> list[dict]:
    """From a complete run: the state after a random prefix of its schedule (re-executed),
    and one observation of a thread that was not enabled."""
    out = []
    tr = run_.trace
    if tr.mismatch is not None or len(tr.steps) < 2:
        return out
    if rng.random() < 0.03:
        k = rng.randrange(1, len(tr.steps))
        out.append(summarise(execute(run_.full_mode, run_.threads, tr.schedule[:k], complete=False), name, "prefix"))
    if rng.random() < 0.08:
        fin = tr.finish_step
        for i, st in enumerate(tr.steps):
            blocked = [t for t in range(len(run_.threads)) if t not in st.enabled and fin.get(t, 10 ** 9) > i]
            if blocked:
                out.append({"name": name, "how": "blocked", "schedule": tr.schedule[:i] + [-1 - blocked[0]],
                            "case": f"CDisabled {cbool(run_.mode == 'cluster')} {cbool(not run_.fresh)} {cprogs('cluster', run_.threads)} "
                                    f"{clist(tr.schedule[:i])} {cnat(blocked[0])}",
                            "problems": [], "replay": None})
                break
    return out


COUNTERS = None   # multiprocessing.Array shared with the pool (set by run_plan before forking)


def job(spec: dict) -> dict:
    """Runs in a worker process: one slice of the plan."""
    name, how = spec["name"], spec["how"]
    mode, threads = CONFIGS[name]
    rng = core.rng("c18:" + spec["tag"])
    res: list[dict] = []
    try:
        if how in GLUE:
            holder = {}

            def mk(prefix):
                r = execute(mode, threads, prefix, glue=GLUE[how])
                holder["r"] = r
                return r.trace
            ex = Explorer(mk, spec["roots"])
            for _tr in ex.run(limit=spec["limit"], breadth_first=spec.get("bfs", False)):
                r = holder["r"]
                res.append(summarise(r, name, how))
                res += derived(r, name, rng)
                if spec.get("hard") is not None and COUNTERS is not None:
                    with COUNTERS.get_lock():       # cap shared by all slices of a complete enumeration
                        COUNTERS[spec["idx"]] += 1
                        over = COUNTERS[spec["idx"]] > spec["hard"]
                    if over:
                        break
            return {"idx": spec["idx"], "results": res, "pending": ex.pending}
        seen = set()
        for _ in range(spec["limit"]):
            r = execute(mode, threads, (), chooser=rng.choice)
            key = tuple(r.trace.schedule)
            if key in seen:
                continue
            seen.add(key)
            res.append(summarise(r, name, how))
            res += derived(r, name, rng)
        return {"idx": spec["idx"], "results": res, "pending": []}
    except HarnessTimeout as e:
        return {"idx": spec["idx"], "results": res, "pending": [], "timeout": f"{name}/{how}: {e}"}


def run_plan(tier, nproc=None):
    """Execute the plan on a pool of processes.  Every schedule's execution is
    deterministic and results are ordered by (plan index, schedule), so the outcome
    does not depend on how the work was distributed."""
    import multiprocessing as mp

    nproc = nproc or max(2, min(16, (os.cpu_count() or 4)))
    items = plan(tier)
    # "complete" enumerations get a hard cap too: a code change that removes the mutual exclusion makes the
    # number of interleavings explode; hitting the cap is then reported as a broken harness obligation
    global COUNTERS  # pylint: disable=global-statement
    hard = 8000 if tier == "quick" else 60000
    wanted_complete = {idx for idx, it in enumerate(items) if it[2] is None}
    COUNTERS = mp.Array("i", len(items))
    results: dict[int, list] = {i: [] for i in range(len(items))}
    timeouts = []
    specs = []
    for idx, (name, how, amount) in enumerate(items):
        if how in GLUE:
            # split: breadth-first in this process for a few schedules, the pending subtrees go to the pool
            first = job({"idx": idx, "name": name, "how": how, "tag": f"{name}:{how}:root", "roots": None,
                         "limit": 24 if amount is None else min(24, amount), "bfs": True})
            results[idx] += first["results"]
            if "timeout" in first:
                timeouts.append(first["timeout"])
            pend = sorted(first["pending"])
            nch = max(1, min(len(pend), nproc * 3))
            left = None if amount is None else max(0, amount - 24)
            for j in range(nch):
                roots = pend[j::nch]
                lim = None if left is None else -(-left // nch)
                if roots and (lim is None or lim > 0):
                    specs.append({"idx": idx, "name": name, "how": how, "tag": f"{name}:{how}:{j}", "roots": roots,
                                  "limit": lim, "hard": hard if amount is None else None})
        else:
            per = 200
            for j in range(0, amount, per):
                specs.append({"idx": idx, "name": name, "how": how, "tag": f"{name}:{how}:{j}", "limit": min(per, amount - j)})
    complete = {idx: idx in wanted_complete for idx in range(len(items)) if items[idx][1] in GLUE}
    with mp.get_context("fork").Pool(nproc) as pool:
        for r in pool.imap_unordered(job, specs, chunksize=1):
            results[r["idx"]] += r["results"]
            if "timeout" in r:
                timeouts.append(r["timeout"])
            if r["pending"] and complete.get(r["idx"]):
                complete[r["idx"]] = None     # wanted complete, cap hit
    for idx in results:
        uniq = {}
        for d in results[idx]:
            uniq.setdefault((d["how"], tuple(d["schedule"])), d)
        results[idx] = [uniq[k] for k in sorted(uniq)]
    return items, results, complete, timeouts


# ======================================================================== file sink
def other_fs_root(reference: Path) -> Path | None:
    """A writable directory on a file system other than `reference`'s (None if there is none)."""
    cand = Path("/dev/shm")
    try:
        if cand.is_dir() and os.access(cand, os.W_OK) and os.stat(cand).st_dev != os.stat(reference).st_dev:
            return cand
    except OSError:
        pass
    return None


def is_parts_dir(d: Path, dst_name: str) -> bool:
    return d.is_dir() and d.name.startswith("." + dst_name) and d.name.endswith(".parts")


class SinkBench:
    """Real MPUFileSink objects (the sink and a pickled copy, like the repo's own test) for one
    destination, with the parts directory placed next to the destination ("none"), under an existing
    parts_base ("given"), under a parts_base that does not exist yet ("nested") or under a parts_base on
    ANOTHER file system ("otherfs").  Several rounds of writes + finalise can go through the same objects.
    The parts directory is found by looking for .<dst name>*.parts under the placement root, not by
    asking the sink."""

    def __init__(self, base: Path, parts_base_kind, pre=None, limits=None, dst_rel="out/result.bin", fresh=True,
                 shared_root: Path | None = None):
        import pickle
        import tempfile
        from odc.geo.cog._mpu_fs import MPUFileSink

        if fresh:
            if base.exists():
                shutil.rmtree(base)
            base.mkdir(parents=True)
        self.dst = base / dst_rel
        self.dst.parent.mkdir(parents=True, exist_ok=True)
        self.tmp_root = None
        self.kind = parts_base_kind
        if pre is not None:
            self.dst.write_bytes(pre)
        if shared_root is not None:
            pb = self.root = shared_root
        elif parts_base_kind == "none":
            pb, self.root = None, self.dst.parent
        elif parts_base_kind == "given":
            pb = self.root = base / "pb"
            pb.mkdir(exist_ok=True)
        elif parts_base_kind == "otherfs":
            other = other_fs_root(base)
            if other is None:       # single file system: nothing to distinguish
                self.kind = "given"
                pb = self.root = base / "pb"
                pb.mkdir(exist_ok=True)
            else:
                pb = self.root = self.tmp_root = Path(tempfile.mkdtemp(prefix="verif-c18-", dir=str(other)))
        else:   # nested base that does not exist yet
            pb = self.root = base / "deep" / "er"
        arg = pb if pb is None or parts_base_kind == "nested" else str(pb)
        self.sink = MPUFileSink(self.dst, arg, **(limits or {}))
        self.sink2 = pickle.loads(pickle.dumps(self.sink))

    def parts_dirs(self):
        return [d for d in sorted(self.root.iterdir()) if is_parts_dir(d, self.dst.name)] if self.root.is_dir() else []

    def state(self):
        content = self.dst.read_bytes() if self.dst.exists() else None
        files = {}
        dirs = self.parts_dirs()
        for d in dirs:
            for f in sorted(os.listdir(d)):
                if f.startswith("p") and f.endswith(".bin") and f[1:-4].lstrip("-").isdigit():
                    files[int(f[1:-4])] = (d / f).read_bytes()
                else:
                    files[-1] = b"?"
        return content, bool(dirs), files

    def write(self, i, part, data):
        d = (self.sink if i % 2 == 0 else self.sink2)(part, data)
        p = Path(d["Path"])
        ok = d["PartNumber"] == part and d["Size"] == len(data) and p.read_bytes() == data
        ok = ok and p.parent.parent == self.root and is_parts_dir(p.parent, self.dst.name)
        return d, ok

    def round(self, ws, order, keep):
        dicts = {}
        ok_write = True
        for i, (part, data) in enumerate(ws):
            d, ok = self.write(i, part, data)
            ok_write &= ok
            dicts[part] = d
        ok_write &= len({Path(d["Path"]).parent for d in dicts.values()}) <= 1
        known = [Path(d["Path"]).parent for d in dicts.values()] or self.parts_dirs() or [self.root / f".{self.dst.name}.parts"]
        parts = [dicts.get(p, {"PartNumber": p, "Path": str(known[0] / f"p{p:04d}.bin"), "Size": 0}) for p in order]
        try:
            rv = self.sink.finalise(parts, keep_parts=keep) if keep else self.sink.finalise(parts)
            res = ("ok", rv == self.dst)
        except Exception as e:  # pylint: disable=broad-except
            res = ("exc", type(e).__name__, str(e)[:100])
        return res, self.state(), ok_write, parts

    def close(self):
        if self.tmp_root is not None:
            shutil.rmtree(self.tmp_root, ignore_errors=True)


def sink_run(base: Path, ws, order, keep, parts_base_kind, pre=None, limits=None):
    """Write parts `ws` = [(part, bytes)] through real sinks, finalise with the returned dicts in `order`
    (part numbers; a number never written is given a fabricated dictionary).  `pre`: content of a destination
    file that exists beforehand (re-export to the same name).  Returns result + state."""
    bench = SinkBench(base, parts_base_kind, pre, limits)
    try:
        return bench.round(ws, order, keep)
    finally:
        bench.close()


def p_sink_reuse(base: Path, rounds, parts_base_kind):
    """Property, for a sink object used again after finalise (re-export through the same object): every round
    leaves dst == the concatenation of THAT round's parts, no part file, no parts directory, no exception."""
    bench = SinkBench(base, parts_base_kind)
    trail = []
    try:
        for k, (ws, order) in enumerate(rounds):
            before = bench.state()[0]
            res, state, ok_write, parts = bench.round(ws, order, False)
            last = dict(ws)
            want = b"".join(last[p] for p in order)
            trail.append((before, ws, order, res, state))
            if res[0] != "ok":
                return False, f"round {k + 1}: finalise/write raised {res[1]}: {res[2]}", trail
            content, dir_exists, files = state
            if not (res[1] and ok_write and content == want and not dir_exists and not files):
                return False, (f"round {k + 1}: dst={core.short(content, 60)} want={core.short(want, 60)} writes_ok={ok_write} "
                               f"parts_dir_exists={dir_exists} left={sorted(files)}"), trail
        return True, f"{len(rounds)} rounds through one sink object", trail
    except Exception as e:  # pylint: disable=broad-except
        return False, f"round {len(trail) + 1}: write raised {type(e).__name__}: {str(e)[:100]}", trail
    finally:
        bench.close()


def p_sink_pair(base: Path, parts_base_kind, wa, wb, order_kind):
    """Property, for two destinations with the SAME file name in different directories (sharing parts_base when
    one is given): whatever the interleaving of their writes and finalises, each destination is the concatenation
    of its own parts and nothing is left behind."""
    if base.exists():
        shutil.rmtree(base)
    base.mkdir(parents=True)
    first = SinkBench(base, parts_base_kind, dst_rel="d1/x.bin", fresh=False)
    second = SinkBench(base, parts_base_kind, dst_rel="d2/x.bin", fresh=False,
                       shared_root=first.root if parts_base_kind != "none" else None)
    try:
        da, db = [], []
        if order_kind == "interleaved":
            for i in range(max(len(wa), len(wb))):
                if i < len(wa):
                    da.append(first.write(i, *wa[i])[0])
                if i < len(wb):
                    db.append(second.write(i, *wb[i])[0])
        else:   # a completely, then b, finalise afterwards
            da = [first.write(i, *w)[0] for i, w in enumerate(wa)]
            db = [second.write(i, *w)[0] for i, w in enumerate(wb)]
        ra = first.sink.finalise(da)
        rb = second.sink.finalise(db)
        ca, cb = first.dst.read_bytes(), second.dst.read_bytes()
        wa_, wb_ = b"".join(d for _, d in wa), b"".join(d for _, d in wb)
        left = first.parts_dirs() + second.parts_dirs()
        ok = ca == wa_ and cb == wb_ and ra == first.dst and rb == second.dst and not left
        return ok, f"d1/x.bin={core.short(ca, 40)} want={core.short(wa_, 40)} d2/x.bin={core.short(cb, 40)} want={core.short(wb_, 40)} left={[str(x.name) for x in left]}"
    except Exception as e:  # pylint: disable=broad-except
        return False, f"raised {type(e).__name__}: {str(e)[:120]}"
    finally:
        first.close()
        second.close()


def cbytes(b: bytes) -> str:
    return clist(list(b))


def sink_case(ws, order, keep, res, state, empty_fails=False, pre=None) -> str:
    cws = "[" + "; ".join(ctuple(cz(p), cbytes(d)) for p, d in ws) + "]"
    if res[0] == "ok":
        content, dir_exists, files = state
        cfiles = "[" + "; ".join(ctuple(cz(p), cbytes(d)) for p, d in sorted(files.items())) + "]"
        cdst = "None" if content is None else f"(Some {cbytes(content)})"
        exp = f"(Ok ({cdst}, {cbool(dir_exists)}, {cfiles}))"
    else:
        code = ERR_CODE.get(res[1], 7)
        err = {1: "EValue", 4: "(EAssert 0)", 6: "EIO"}.get(code, "EOther")
        exp = f"(Err {err})"
    cpre = "None" if pre is None else f"(Some {cbytes(pre)})"
    return f"CSink {cbool(empty_fails)} {cpre} {cws} {clist(order)} {cbool(keep)} {exp}"


def p_sink(base: Path, ws, order, parts_base_kind, pre=None, limits=None):
    """Property: all parts written, finalise(parts in `order`) -> dst = concatenation in
    that order (and nothing else, whatever the destination held before), no part file, no
    parts directory."""
    res, state, ok_write, parts = sink_run(base, ws, order, False, parts_base_kind, pre, limits)
    last = {}
    for p, d in ws:
        last[p] = d
    want = b"".join(last[p] for p in order)
    if res[0] != "ok":
        return False, f"finalise raised {res[1]}: {res[2]}"
    content, dir_exists, files = state
    left = [p["Path"] for p in parts if Path(p["Path"]).exists()]
    ok = res[1] and ok_write and content == want and not dir_exists and not files and not left
    return ok, (f"returned_dst={res[1]} writes_ok={ok_write} dst={core.short(content, 80)} want={core.short(want, 80)} "
                f"parts_dir_exists={dir_exists} left={sorted(files)}{left}")


def zero_length_inputs():
    """Zero-length parts at every position (first, middle, last, several, all) of 1..4 parts, with and
    without parts_base, for a sink configured with min_write_sz=0."""
    for n in (1, 2, 3, 4):
        for mask in itertools.product([False, True], repeat=n):
            if not any(mask):
                continue
            ws = [(i + 1, b"" if mask[i] else bytes([65 + i]) * (i + 2)) for i in range(n)]
            for pbk in ("none", "given"):
                yield ws, [p for p, _ in ws], pbk, None, {"min_write_sz": 0}
    # parts_base on ANOTHER file system than the destination (rename cannot cross devices)
    for n in (1, 2, 3):
        ws = [(i + 1, bytes([97 + i]) * (3 * i + 1)) for i in range(n)]
        yield ws, [p for p, _ in reversed(ws)], "otherfs", None, None
    yield [(1, b"first"), (2, b""), (3, b"last")], [1, 2, 3], "otherfs", b"already there", {"min_write_sz": 0}


def gen_sink_inputs(rng, n):
    yield from zero_length_inputs()
    for i in range(n):
        k = rng.choice([1, 1, 2, 2, 3, 4, 6, 9])
        nums = rng.sample([0, 1, 2, 3, 4, 5, 7, 10, 11, 99, 100, 9999, 10000, 12345], k)
        ws = []
        for p in nums:
            size = rng.choice([0, 0, 1, 1, 2, 3, 5, 8, 17])
            ws.append((p, bytes(rng.randrange(256) for _ in range(size))))
        if rng.random() < 0.3 and ws:     # a part written twice (re-run task)
            p = rng.choice(nums)
            ws.append((p, bytes(rng.randrange(256) for _ in range(rng.choice([0, 2, 4])))))
            rng.shuffle(ws)
        order = list(nums)
        mode = rng.random()
        if mode < 0.25:
            order.sort()
        elif mode < 0.4:
            order.sort(reverse=True)
        else:
            rng.shuffle(order)
        pre = None
        if rng.random() < 0.5:      # the destination exists already (re-export to the same name)
            pre = bytes(rng.randrange(256) for _ in range(rng.choice([0, 1, 3, 9, 40])))
        yield (ws, order, rng.choice(["none", "given", "nested", "otherfs"]), pre,
               rng.choice([None, None, {"min_write_sz": 0}]))


# ======================================================================== limits
LIMIT_KEYS = ["min_write_sz", "max_write_sz", "min_part", "max_part"]
LKEY = {"min_write_sz": "LkMinWrite", "max_write_sz": "LkMaxWrite", "min_part": "LkMinPart", "max_part": "LkMaxPart"}
DEFAULTS = {"min_write_sz": 4096, "max_write_sz": 5 * (1 << 30), "min_part": 1, "max_part": 10_000}


def limit_configs(rng, tier):
    import numpy as np
    vals = {"min_write_sz": [0, 1, 512, 4096, 1 << 20, np.int64(0), np.int32(4097)],
            "max_write_sz": [0, 1, 1024, 4097, 1 << 21, 1 << 33, 5 * (1 << 30), np.int64(1 << 21)],
            "min_part": [0, 1, 2, 10, np.int64(0), np.uint16(3)], "max_part": [0, 1, 3, 11, 10_000, 50_000, np.int64(11)]}
    out = []
    # falsy / boundary values (0, 1, numpy zeros) for every subset of the four limits: a configured 0
    # (zero-based part numbers, no minimum write size) is a value, not "unset"
    for r in range(1, 5):
        for keys in itertools.combinations(LIMIT_KEYS, r):
            for v in (0, 1, np.int64(0)):
                out.append({k: v for k in keys})
    out.append({"min_write_sz": 0, "max_write_sz": 1024})
    out.append({"min_part": 0, "max_part": 9_999})
    for r in range(0, 5):
        for keys in itertools.combinations(LIMIT_KEYS, r):
            choices = [vals[k] for k in keys]
            combos = list(itertools.product(*choices))
            if tier == "quick" and len(combos) > 12:
                combos = rng.sample(combos, 12)
            for c in combos:
                kw = dict(zip(keys, c))
                if rng.random() < 0.2:
                    kw = dict(reversed(list(kw.items())))
                if rng.random() < 0.15:
                    kw["unrelated_option"] = 7
                out.append(kw)
    return out


def p_limits(kw):
    from odc.geo.cog._mpu_fs import MPUFileSink
    s = MPUFileSink("/nonexistent/x.bin", **kw)
    got = {k: getattr(s, k) for k in LIMIT_KEYS}
    want = {k: kw.get(k, DEFAULTS[k]) for k in LIMIT_KEYS}
    ok = got == want
    if want["max_write_sz"] > want["min_write_sz"]:
        ok = ok and got["max_write_sz"] > got["min_write_sz"]
    if want["max_part"] > want["min_part"]:
        ok = ok and got["max_part"] > got["min_part"]
    return ok, f"configured={kw} reported={got}"


def p_s3_limits():
    from odc.geo.cog._s3 import DelayedS3Writer, MultiPartUpload
    mpu = MultiPartUpload("b", "k")
    want = (5 * (1 << 20), 5 * (1 << 30), 1, 10_000)
    got = [tuple(getattr(o, k) for k in LIMIT_KEYS) for o in (mpu, DelayedS3Writer(mpu, {}))]
    ok = all(g == want and g[1] > g[0] and g[3] > g[2] for g in got)
    return ok, f"reported={got} want={want}", got


def p_local_lock():
    """_mpu_local_lock hands every caller the same lock, also when first asked concurrently."""
    import odc.geo.cog._s3 as S3
    old = dict(S3._state)   # pylint: disable=protected-access
    try:
        S3._state.clear()
        n = 8
        barrier = threading.Barrier(n)
        got = [None] * n

        def body(i):
            barrier.wait(timeout=10)
            got[i] = S3._mpu_local_lock()
        ths = [threading.Thread(target=body, args=(i,), daemon=True) for i in range(n)]
        for t in ths:
            t.start()
        for t in ths:
            t.join(timeout=20)
        again = S3._mpu_local_lock()
        same = all(g is again for g in got)
        usable = again.acquire(False)
        if usable:
            again.release()
        return same and usable, f"distinct lock objects handed out: {len({id(g) for g in got})}, usable={usable}"
    finally:
        S3._state.clear()
        S3._state.update(old)


# ======================================================================== entry points
def run(out, tier, scratch):
    out.rule = ("S3 initiation: real DelayedS3Writer objects on real threads under a deterministic scheduler; one case = "
                "one schedule (sequence of thread ids at the shared-access boundaries).  'all' = every interleaving at "
                "the finest granularity (2 racing first writes, process-local path); 'glued' = every interleaving in which "
                "a thread is not preempted before a read of shared state; 'random' = uniformly random choice among the "
                "enabled threads at the finest granularity (2-3 threads, first writes, follow-up writes and a finalise, both "
                "paths).  Per schedule the events, client-call log, thread outcomes, upload ids, lock and variable state are "
                "compared with the Coq model run on the same schedule; prefixes compare intermediate states; blocked "
                "threads are compared with the model's enabledness.  File sink: random part sets/sizes (incl. empty, "
                "rewritten parts, >9999), orders, parts_base placements, error cases; limits: all subsets of limit kwargs. "
                "distinct = distinct (configuration, schedule) / canonical inputs; all are non-trivial (>= 2 threads racing).")
    out.assumptions += [
        "S3 (oracle): create_multipart_upload returns a non-empty UploadId (hypothesis new_id k <> 0 of the theorems; the fake client returns upload-1, upload-2, ...)",
        "CPython: attribute reads/writes, dict.get / dict.setdefault on the lock registry _state, threading.Lock and distributed.Lock/Variable operations are atomic; the scheduler parks threads exactly at these operations (registry accesses and Lock() creation inside _mpu_local_lock included; 'fresh' configurations start with an empty registry)",
        "_safe_get modelled as an immediate read (None once the Variable is deleted); its time-out on a set Variable is not modelled",
        "cluster theorems hold while the shared Variable has not been deleted (a completed finalise deletes it; finalise depends on all writes in a dask graph)",
        "file system restricted to dst, the parts directory and its part files; part file name is an injective function of the part number",
    ]
    import time
    t_phase = [time.time()]
    phases = []

    def phase(name):
        now = time.time()
        phases.append(f"{name} {now - t_phase[0]:.1f}s")
        t_phase[0] = now

    cases: list[str] = []
    texts: list[str] = []
    found: dict[str, bool] = {}

    def violate(key, what, rp):
        if key not in found:
            found[key] = True
            out.violation(key, what, rp)

    def take(d):
        name, how = d["name"], d["how"]
        out.count(f"sched:{name}:{how}")
        if how == "blocked":
            out.count("blocked-thread")
        else:
            out.count(f"threads:{d['nthreads']}")
            out.count(f"creates:{d['ncreates']}")
        out.case((name, how, tuple(d["schedule"])), True, d.get("sample") if len(out.samples) < 3 else None)
        if d["problems"]:
            violate(f"c18:init:{d['mode']}", f"{name} schedule {d['schedule']}: " + "; ".join(d["problems"]), d["replay"])
        cases.append(d["case"])
        texts.append(f"{name} {how} {d['schedule']} code did: {d.get('plain', '')}")

    harness_ok, harness_detail = True, ""
    try:
        # 0. corpus first
        for rp in core.corpus(ID):
            if rp.get("predicate") == "real_cluster":
                continue        # starts threads: replayed after the process pool has done its work (section 4b)
            ok, detail = replay_one(rp, scratch)
            out.count("corpus")
            out.case(("corpus", rp["_file"]), True)
            if not ok:
                violate(f"c18:corpus:{rp['_file']}", f"{rp['_file']}: {detail}", {k: v for k, v in rp.items() if k != "_file"})
            if rp.get("predicate") == "script":   # the recorded interleaving also goes through the model
                r = execute(rp["mode"], [(w, [tuple(o) for o in ops]) for w, ops in rp["threads"]], script=rp["script"])
                take(summarise(r, "corpus:" + rp["_file"], "script"))
        # 1. schedules (process pool)
        items, results, complete, timeouts = run_plan(tier)
        for idx, (name, how, amount) in enumerate(items):
            for d in results[idx]:
                take(d)
            if how in GLUE:
                n = sum(1 for d in results[idx] if d["how"] == how)
                out.notes.append(f"{name}: '{how}' enumeration {'COMPLETE' if complete[idx] else 'capped'}: {n} schedules")
        out.exhaustive = all(v is not None for v in complete.values())
        capped = [f"{items[idx][0]}/{items[idx][1]}" for idx, v in complete.items() if v is None]
        if capped:
            harness_ok, harness_detail = False, ("enumerations that are complete on the unchanged code did not finish within "
                                                 f"the hard cap: {capped} (the code admits far more interleavings than the model)")
        if timeouts:
            harness_ok, harness_detail = False, "watchdog expired: " + " | ".join(timeouts[:3])
    except HarnessTimeout as e:
        harness_ok, harness_detail = False, f"watchdog expired: {e}"
    out.oblige("harness:scheduler (no thread hung; complete enumerations completed)", "correspondence",
               harness_ok, harness_detail)

    phase("schedules")
    # 3. file sink
    base = Path(scratch) / "sink"
    nsink = 70 if tier == "quick" else 1200
    for i, (ws, order, pbk, pre, lim) in enumerate(gen_sink_inputs(core.rng("c18-sink"), nsink)):
        ok, detail = p_sink(base, ws, order, pbk, pre, lim)
        out.count("sink:empty-parts=" + str(min(3, sum(1 for _, d in ws if not d))))
        out.count("sink:dst-exists-before" if pre is not None else "sink:dst-new")
        out.count("sink:property")
        out.count(f"sink:parts_base={pbk}")
        out.count("sink:has-empty-part" if any(len(d) == 0 for _, d in ws) else "sink:no-empty-part")
        hpre = None if pre is None else pre.hex()
        out.case(("sink", str(ws), tuple(order), pbk, hpre), True,
                 {"writes": [[p, d.hex()] for p, d in ws], "order": order, "parts_base": pbk, "pre": hpre} if i < 2 else None)
        if not ok:
            violate("c18:sink", f"writes={[(p, len(d)) for p, d in ws]} order={order} parts_base={pbk} "
                                f"existing_dst={None if pre is None else len(pre)} sink_kwargs={lim}: {detail}",
                    {"predicate": "sink", "writes": [[p, d.hex()] for p, d in ws], "order": order, "parts_base": pbk, "pre": hpre,
                     "limits": lim,
                     "observed": detail, "expected": "dst == concatenation in the given order; no part file; no parts directory"})
        # the same input (and perturbed ones: keep_parts, a missing part, an unlisted part, no parts) against the model
        variants = [(ws, order, False)]
        r = core.rng(f"c18-sinkv-{i}")
        variants.append((ws, order, True))
        variants.append((ws, order + [424242], r.random() < 0.5))
        if len(order) > 1:
            variants.append((ws, order[:-1], False))
            variants.append((ws, order + order[:1], False))
        variants.append((ws, [], False))
        for (ws2, order2, keep) in variants:
            res, state, _, _ = sink_run(base, ws2, order2, keep, pbk, pre, lim)
            cases.append(sink_case(ws2, order2, keep, res, state, pre=pre))
            texts.append(f"sink existing_dst={None if pre is None else len(pre)} writes={[(p, len(d)) for p, d in ws2]} "
                         f"order={order2} keep={keep} -> {res}")
            out.count("sink:model:" + (res[0] if res[0] == "ok" else res[1]))
            out.case(("sinkm", str(ws2), tuple(order2), keep, hpre), True)
    # 3b. the same sink object used again after finalise (re-export), 2-3 rounds
    rr = core.rng("c18-sink-reuse")
    for i in range(25 if tier == "quick" else 300):
        rounds = []
        for _ in range(rr.choice([2, 2, 3])):
            nums = rr.sample([0, 1, 2, 3, 7, 10, 9999, 10000], rr.choice([1, 2, 3, 4]))
            ws = [(p, bytes(rr.randrange(256) for _ in range(rr.choice([0, 1, 2, 5, 9])))) for p in nums]
            order = list(nums)
            rr.shuffle(order)
            rounds.append((ws, order))
        pbk = rr.choice(["none", "given", "nested", "otherfs"])
        ok, detail, trail = p_sink_reuse(base, rounds, pbk)
        out.count("sink:reuse-after-finalise")
        out.case(("sink_reuse", str(rounds), pbk), True)
        if not ok:
            violate("c18:sink-reuse", f"rounds={[[(p, len(d)) for p, d in ws] for ws, _ in rounds]} parts_base={pbk}: {detail}",
                    {"predicate": "sink_reuse", "rounds": [[[[p, d.hex()] for p, d in ws], order] for ws, order in rounds],
                     "parts_base": pbk, "observed": detail,
                     "expected": "after every round dst == concatenation of that round's parts; nothing left; no exception"})
        for (before, ws, order, res, state) in trail:      # each completed round against the model
            cases.append(sink_case(ws, order, False, res, state, pre=before))
            texts.append(f"sink reuse round existing_dst={None if before is None else len(before)} "
                         f"writes={[(p, len(d)) for p, d in ws]} order={order} -> {res}")
    # 3c. two destinations with the same file name (sharing parts_base when one is given)
    for i in range(16 if tier == "quick" else 160):
        pbk = ["none", "given", "otherfs", "given"][i % 4]
        wa = [(p, bytes(rr.randrange(256) for _ in range(rr.choice([1, 2, 5])))) for p in range(1, rr.choice([2, 3, 4]))]
        wb = [(p, bytes(rr.randrange(256) for _ in range(rr.choice([1, 3, 4])))) for p in range(1, rr.choice([2, 3, 4]))]
        okind = ["interleaved", "sequential"][(i // 4) % 2]
        ok, detail = p_sink_pair(base, pbk, wa, wb, okind)
        out.count("sink:same-name-pair")
        out.case(("sink_pair", str(wa), str(wb), pbk, okind), True)
        if not ok:
            violate("c18:sink-pair", f"d1/x.bin parts={[(p, len(d)) for p, d in wa]} d2/x.bin parts={[(p, len(d)) for p, d in wb]} "
                                     f"parts_base={pbk} {okind}: {detail}",
                    {"predicate": "sink_pair", "a": [[p, d.hex()] for p, d in wa], "b": [[p, d.hex()] for p, d in wb],
                     "parts_base": pbk, "order": okind, "observed": detail,
                     "expected": "each destination is the concatenation of its own parts; nothing left; no exception"})
    shutil.rmtree(base, ignore_errors=True)

    phase("sink")
    # 4. limits
    for kw in limit_configs(core.rng("c18-limits"), tier):
        ok, detail = p_limits(kw)
        out.count(f"limits:{len([k for k in kw if k in LIMIT_KEYS])}-configured")
        out.case(("limits", tuple((k, int(v), type(v).__name__) for k, v in kw.items())), True)
        out.count("limits:has-zero" if any(int(v) == 0 for v in kw.values()) else "limits:no-zero")
        if not ok:
            violate("c18:limits", detail, {"predicate": "limits", "kwargs": {k: int(v) for k, v in kw.items()},
                                           "numpy_typed": {k: type(v).__name__ for k, v in kw.items()
                                                           if type(v).__module__ == "numpy"},
                                           "observed": detail,
                                           "expected": "every accessor reports its configured value (default if absent)"})
        from odc.geo.cog._mpu_fs import MPUFileSink
        s = MPUFileSink("/nonexistent/x.bin", **kw)
        lims = "[" + "; ".join(ctuple(LKEY.get(k, "(LkOther 1)"), cz(v)) for k, v in kw.items()) + "]"
        cases.append(f"CLimits {lims} {ctuple(*[cz(getattr(s, k)) for k in LIMIT_KEYS])}")
        texts.append(f"limits {kw}")
    ok, detail, got = p_s3_limits()
    out.case(("s3limits",), True)
    if not ok:
        violate("c18:s3limits", detail, {"predicate": "s3limits", "observed": detail})
    for g in got:
        cases.append(f"CS3Limits {ctuple(*[cz(v) for v in g])}")
        texts.append(f"S3Limits {g}")
    ok, detail = p_local_lock()
    out.case(("local_lock",), True)
    if not ok:
        violate("c18:local_lock", detail, {"predicate": "local_lock", "observed": detail})

    phase("limits")
    # 4b. oracle validation: the installed distributed.Variable / Lock accept how _s3.py uses them
    from vlib import c18_cluster
    import odc.geo.cog._s3 as S3mod
    ok, detail = c18_cluster.static_contract(Path(S3mod.__file__))
    out.case(("static_contract",), True)
    if ok is None:
        out.notes.append("static distributed contract check skipped: " + detail)
    else:
        out.oblige("oracle:_s3.py constructs distributed.Variable/Lock as the installed signatures require (AST vs inspect)",
                   "oracle", ok, detail)
        if not ok:
            violate("c18:cluster-contract", detail, {"predicate": "static_contract", "observed": detail,
                                                     "expected": "every call binds; a client is only passed as `client`"})
    for rp in core.corpus(ID):
        if rp.get("predicate") == "real_cluster":
            ok, detail = replay_one(rp, scratch)
            out.count("corpus")
            out.case(("corpus", rp["_file"]), True)
            if not ok:
                violate(f"c18:corpus:{rp['_file']}", f"{rp['_file']}: {detail}", {k: v for k, v in rp.items() if k != "_file"})
    # (the history "writer created before the client exists" runs once through the corpus witness r3_late_client)
    rc = c18_cluster.real_cluster_check(rounds=3 if tier == "quick" else 10, nwriters=6,
                                        late_rounds=0 if tier == "quick" else 2,
                                        reuse_rounds=1 if tier == "quick" else 3,
                                        slow_rounds=0 if tier == "quick" else 1)
    out.case(("real_cluster", rc["status"]), True)
    out.count("real-cluster:" + rc["status"])
    if rc["status"] == "skipped":
        out.notes.append("real in-process dask cluster validation SKIPPED: " + rc["detail"])
    else:
        out.oblige("oracle:cluster path on a real in-process distributed cluster (one initiation, one id, no task fails)",
                   "oracle", rc["status"] == "ok", rc["detail"])
        out.notes.append(f"real in-process cluster: {len(rc['runs'])} objects x 6 concurrent first writes + finalise: {rc['status']}")
        if rc["status"] != "ok":
            violate("c18:cluster-real", rc["detail"], {"predicate": "real_cluster", "rounds": 1, "nwriters": 4,
                                                        "observed": rc["detail"],
                                                        "expected": "exactly one create_multipart_upload per object, every part under it, no task fails"})
    phase("real cluster")
    # 5. the model on everything
    fails = eval_cases(cases, Path(scratch))
    detail = ""
    if fails:
        detail = f"{len(fails)} of {len(cases)} cases differ; first: " + " | ".join(texts[i] for i in fails[:3])
    out.oblige("correspondence:Model.S3Init/FileSink vs odc.geo.cog._s3/_mpu_fs", "correspondence", not fails, detail)
    phase("model evaluation")
    out.notes.append(f"{len(cases)} model evaluations; wall time per phase: " + ", ".join(phases))


def eval_cases(cases, scratch: Path, chunk: int = 250) -> list[int]:
    """Model evaluation through core.coq_eval_failures, one call per chunk so that the
    case indices written into the Coq files stay small (they are unary nat literals)."""
    from concurrent.futures import ThreadPoolExecutor

    req = ["Base.Result", "Model.S3Init", "Model.FileSink", "Model.S3InitCases"]

    def one(k):
        sub = scratch / f"ev{k}"
        sub.mkdir(exist_ok=True)
        part = cases[k:k + chunk]
        fails, _ = core.coq_eval_failures(req, "case", "check", part, sub, shard=chunk, tag=f"cases{k}", jobs=1)
        return [k + i for i in fails]

    with ThreadPoolExecutor(max_workers=max(2, min(16, os.cpu_count() or 4))) as ex:
        out = []
        for r in ex.map(one, range(0, len(cases), chunk)):
            out += r
    return sorted(out)


def replay_one(rp, scratch=None):
    kind = rp["predicate"]
    if kind in ("schedule", "script"):
        threads = [(w, [tuple(o) for o in ops]) for w, ops in rp["threads"]]
        if kind == "schedule":
            r = execute(rp["mode"], threads, rp["schedule"], complete=True)
            if r.trace.mismatch:
                # the code no longer follows this schedule literally: judge all completions of its longest valid prefix
                k = int(r.trace.mismatch.split()[1].rstrip(":"))
                r = execute(rp["mode"], threads, rp["schedule"][:k], complete=True)
        else:
            r = execute(rp["mode"], threads, script=rp["script"])
        problems = judge(r)
        return not problems, ("; ".join(problems) if problems else
                              f"schedule {r.trace.schedule}: calls {r.canon_calls()} outcomes {r.outcome_codes()}")
    if kind == "sink":
        base = Path(scratch or "/tmp") / f"c18-replay-{os.getpid()}"
        try:
            return p_sink(base, [(p, bytes.fromhex(d)) for p, d in rp["writes"]], rp["order"], rp["parts_base"],
                          None if rp.get("pre") is None else bytes.fromhex(rp["pre"]), rp.get("limits"))
        finally:
            shutil.rmtree(base, ignore_errors=True)
    if kind in ("sink_reuse", "sink_pair"):
        base = Path(scratch or "/tmp") / f"c18-replay-{os.getpid()}"
        try:
            if kind == "sink_reuse":
                rounds = [([(p, bytes.fromhex(d)) for p, d in ws], order) for ws, order in rp["rounds"]]
                return p_sink_reuse(base, rounds, rp["parts_base"])[:2]
            return p_sink_pair(base, rp["parts_base"], [(p, bytes.fromhex(d)) for p, d in rp["a"]],
                               [(p, bytes.fromhex(d)) for p, d in rp["b"]], rp["order"])
        finally:
            shutil.rmtree(base, ignore_errors=True)
    if kind == "limits":
        import numpy as np
        kw = dict(rp["kwargs"])
        for k, tname in rp.get("numpy_typed", {}).items():
            kw[k] = getattr(np, tname)(kw[k])
        return p_limits(kw)
    if kind == "s3limits":
        return p_s3_limits()[:2]
    if kind == "local_lock":
        return p_local_lock()
    if kind == "real_cluster":
        from vlib import c18_cluster
        rc = c18_cluster.real_cluster_check(rounds=rp.get("rounds", 1), nwriters=rp.get("nwriters", 4),
                                            late_rounds=rp.get("late_rounds", 0), reuse_rounds=rp.get("reuse_rounds", 0),
                                            slow_rounds=rp.get("slow_rounds", 0))
        return rc["status"] != "fail", (rc["detail"] or f"{rc['status']}: {rc['runs']}")
    if kind == "static_contract":
        from vlib import c18_cluster
        import odc.geo.cog._s3 as S3mod
        ok, detail = c18_cluster.static_contract(Path(S3mod.__file__))
        return ok is not False, detail
    raise ValueError(f"unknown predicate {kind}")


def replay(rp) -> int:
    ok, detail = replay_one(rp)
    print(f"replay {rp['predicate']}: {'holds' if ok else 'FAILS'}: {detail}")
    return 0 if ok else 1


META = {
    "text": ("Coq theorems (coq/Props/C18.v, closed under the global context) over small-step models of DelayedS3Writer's "
             "lazy initiation: for every reachable state under arbitrary interleavings of arbitrarily many threads with "
             "arbitrary programs of writes and finalises -- process-local path (shared object + local lock, re-check under "
             "the lock) and cluster path (per-worker copies + distributed Variable + distributed Lock) -- at most one "
             "create_multipart_upload, no thread fails, every call carries the one upload id, finished runs contain exactly "
             "one initiation and one upload_part per write, and no deadlock; the pre-fix local path is refuted by a "
             "2-thread interleaving.  MPUFileSink: writes then finalise(parts in any order) gives dst = concatenation in "
             "that order with no part file / parts directory left; limit accessors return configured values, max > min.  "
             "Tied to the code by running real writers on real threads under a deterministic scheduler on all / all-glued / "
             "random schedules and comparing events, client calls, outcomes and state with the model inside Coq."),
    "note": ("Trusted: Coq kernel; the hand-written models coq/Model/S3Init.v and FileSink.v (validated by the scheduled "
             "correspondence, not derived from the source text); the scheduler and fakes (fake boto3 client returning "
             "upload-1, upload-2, ...; fake distributed Variable/Lock/get_client; uploadId turned into a property; the lock "
             "handed out by the real _mpu_local_lock replaced through _state; _state itself and threading.Lock as seen by _s3.py are instrumented so that registry reads/writes and lock creation are scheduling points, with the registry empty or pre-filled).  Oracles/contracts: S3 returns a non-empty "
             "UploadId (theorem hypothesis new_id k <> 0); CPython atomicity of attribute access, dict.setdefault, Lock; "
             "distributed.Variable/Lock semantics as implemented by the fakes; _safe_get is an immediate read (time-outs on "
             "a set variable are NOT modelled).  Domain restrictions in the theorems: every finalise gets >= 1 part "
             "(otherwise it is required to fail); cluster statements hold until a completed finalise deletes the shared "
             "Variable (C18_cluster_late_first_write shows a later first write initiates again; in a dask graph finalise "
             "depends on all writes); the mpu starts with an empty uploadId; final_write=True is never used by the code and "
             "is not modelled; cancel() is not modelled; process crashes and S3 failures are not modelled.  File sink: the "
             "file system is the dst file, the parts directory and its part files; finalise receives the dictionaries "
             "returned by the sink's own writes; concurrent writes of the same part and foreign files are outside the "
             "theorem's hypotheses (the model makes finalise fail on unlisted files, as the code does).  Not proved: "
             "termination/fairness of the schedules; mmap/rename/OS semantics (modelled)."),
    "technique": "Coq proof (invariants of small-step interleaving models, any number of threads) + scheduled differential correspondence on real threads (vm_compute)",
    "design_ref": "DESIGN.md section 5, C18",
}
