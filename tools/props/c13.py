"""C13 — chunked (dask) reprojection equals whole-array reprojection.

Correspondence: coq/Model/ChunkedWarp.v against odc.geo._dask / _blocks / warp /
_xr_interop on the decision logic (fill table, nodata defaulting, task-vs-constant
chunk, clip window re-basing) and on whole runs: every chunk of the computed dask
array is compared with the model, which is driven by the dependency map found in the
graph and by a nearest-neighbour table measured on the real whole-array warp.
Search: the property itself on the implementation — xr_reproject(dask).compute()
against xr_reproject(numpy), pixel for pixel (NaN aware) for grids sharing a CRS,
the fill/uniformity clauses for cross-CRS pairs, all-fill for disjoint rasters.
"""
from __future__ import annotations

import json
import math
from unittest import mock

import numpy as np

from vlib import core
from vlib.core import cbool, clist, copt, ctuple, cz

ID = "C13"
ALLOWED_AXIOMS: list[str] = []

DT = {"bool": "DBool", "uint8": "DU8", "int8": "DI8", "uint16": "DU16", "int16": "DI16", "int32": "DI32",
      "float32": "DF32", "float64": "DF64"}
REQ = ["Base.Result", "Model.ChunkedWarp", "Model.ChunkedWarpCases"]


# ------------------------------------------------------------------ plain helpers
def nd(x):
    """nodata from json: None | number | "nan" """
    if x is None:
        return None
    if isinstance(x, str):
        return float(x)
    return x


def nd_json(x):
    if x is None:
        return None
    if isinstance(x, float) and math.isnan(x):
        return "nan"
    return x


def cval(v) -> str:
    if isinstance(v, (float, np.floating)) and math.isnan(float(v)):
        return "VNaN"
    f = float(v)
    if math.isinf(f) or f != int(f):
        return "(VNum (-999999937)%Z)"   # not a value the model can produce: shows up as a disagreement
    return f"(VNum {cz(int(f))})"


def cov(v) -> str:
    return copt(v, cval)


def cidx(i) -> str:
    return ctuple(cz(i[0]), cz(i[1]))


def ctab(a) -> str:
    return clist([list(r) for r in np.asarray(a).tolist()], lambda r: clist(r, cval))


def ctab3(planes) -> str:
    return "[" + "; ".join(ctab(p) for p in planes) + "]"


def cd2s(d) -> str:
    return clist(sorted(d.items()), lambda kv: ctuple(cidx(kv[0]), clist(kv[1], cidx)))


def gbox(shape, tr, crs):
    from affine import Affine
    from odc.geo.geobox import GeoBox

    return GeoBox((int(shape[0]), int(shape[1])), Affine(*tr), crs)


def dst_tr_from_map(src_tr, m):
    """destination transform such that src_pix = M * dst_pix, M = (sx, sy, tx, ty, swap)"""
    from affine import Affine

    sx, sy, tx, ty, swap = m
    M = Affine(0, sx, tx, sy, 0, ty) if swap else Affine(sx, 0, tx, 0, sy, ty)
    return list((Affine(*src_tr) * M)[:6])


def expected_fill(dtype, *nodatas):
    """the property's rule: destination/source nodata if set, NaN for floats, zero otherwise"""
    dt = np.dtype(dtype)
    for v in nodatas:
        if v is not None:
            return dt.type(v)
    if dt.kind == "f":
        return dt.type("nan")
    return dt.type(0)


def same(a, b):
    a, b = np.asarray(a), np.asarray(b)
    if a.shape != b.shape or a.dtype != b.dtype:
        return False
    if a.dtype.kind == "f":
        return bool(((a == b) | (np.isnan(a) & np.isnan(b))).all())
    return bool((a == b).all())


def is_val(a, v):
    if isinstance(v, (float, np.floating)) and math.isnan(float(v)):
        return np.isnan(a)
    return a == v


def mk_data(cfg):
    """deterministic pixels: distinct inside a plane as far as the dtype allows, never 0, a few
    pixels equal to the source nodata when asked for"""
    h, w = cfg["src_shape"]
    lay = cfg.get("layout", "yx")
    T = cfg.get("T", 1) if "t" in lay else 1
    B = cfg.get("B", 1) if lay.endswith("b") else 1
    t, y, x, b = np.ogrid[0:T, 0:h, 0:w, 0:B]
    base = t * 101 + b * 37 + y * w + x
    dt = np.dtype(cfg["dtype"])
    if dt.kind == "b":
        data = ((y * 3 + x * 5 + t + b) % 3 == 0)
    elif dt.name == "uint8":
        data = 1 + base % 250
    elif dt.name == "int8":
        data = -100 + base % 99 + 101 * ((y + x) % 2)
        data = np.where(data == 0, 77, data)
    else:
        data = 1 + base
    data = np.broadcast_to(data, (T, h, w, B)).astype(dt).copy()
    if cfg.get("zeros"):
        # 0 (the integer fill) and -1 as perfectly valid data values
        data[:, 0::3, 1::4, :] = 0
        if dt.kind in "if":
            data[:, 2::5, 0::3, :] = -1
    sn = nd(cfg.get("src_nodata"))
    if sn is None:
        sn = nd(cfg.get("nodata_attr"))
    if cfg.get("nodata_pixels") and sn is not None and not (isinstance(sn, float) and math.isnan(sn)):
        data[:, 1::5, 2::4, :] = sn
    if "t" not in lay:
        data = data[0]
    if not lay.endswith("b"):
        data = data[..., 0]
    return data


def full_chunks(cfg, data):
    lay = cfg.get("layout", "yx")
    ch = [tuple(cfg["src_chunks"][0]), tuple(cfg["src_chunks"][1])]
    if "t" in lay:
        ch = [cfg.get("t_chunk", data.shape[0])] + ch
    if lay.endswith("b"):
        ch = ch + [cfg.get("b_chunk", data.shape[-1])]
    return tuple(ch)


def nn_probe(sgb, dgb):
    """nearest-neighbour table of the real whole-array warp: destination pixel -> source pixel or None"""
    from odc.geo.warp import rio_reproject

    h, w = sgb.shape
    src = (np.arange(h * w, dtype="int32") + 1).reshape(h, w)
    dst = np.zeros(dgb.shape, dtype="int32")
    rio_reproject(src, dst, sgb, dgb, "nearest", None, None)
    return dst


def compute(obj, cfg):
    kw = {"scheduler": cfg.get("scheduler", "synchronous"), "optimize_graph": bool(cfg.get("optimize", True))}
    if kw["scheduler"] == "threads":
        kw["num_workers"] = 4
    return obj.compute(**kw)


# ------------------------------------------------------------------ the property on the implementation
def run_xr(cfg):
    """xr_reproject of the numpy-backed and of the dask-backed array: (whole, chunked) values"""
    import dask.array as da
    from odc.geo.xr import wrap_xr, xr_reproject

    sgb = gbox(cfg["src_shape"], cfg["src_tr"], cfg["src_crs"])
    dgb = gbox(cfg["dst_shape"], cfg["dst_tr"], cfg["dst_crs"])
    data = mk_data(cfg)
    lay = cfg.get("layout", "yx")
    time = [f"2020-01-{i + 1:02d}" for i in range(data.shape[0])] if "t" in lay else None
    attr = nd(cfg.get("nodata_attr"))
    kw = {}
    if cfg.get("dst_nodata") is not None:
        kw["dst_nodata"] = nd(cfg["dst_nodata"])
    if cfg.get("src_nodata") is not None:
        kw["src_nodata"] = nd(cfg["src_nodata"])
    xn = wrap_xr(data, sgb, time=time, nodata=attr)
    xd = wrap_xr(da.from_array(data, chunks=full_chunks(cfg, data)), sgb, time=time, nodata=attr)
    whole = xr_reproject(xn, dgb, resampling="nearest", **kw)
    lazy = xr_reproject(xd, dgb, resampling="nearest", chunks=tuple(cfg["dst_chunks"]), **kw)
    chunked = compute(lazy, cfg)
    return data, np.asarray(whole.values), np.asarray(chunked.values), sgb, dgb


def yx_first(a, cfg):
    """view with the spatial axes first: (H, W, planes)"""
    lay = cfg.get("layout", "yx")
    if "t" in lay:
        a = np.moveaxis(a, 0, -1)
    return a.reshape(a.shape[0], a.shape[1], -1)


def fill_of(cfg):
    return expected_fill(cfg["dtype"], nd(cfg.get("dst_nodata")), nd(cfg.get("src_nodata")), nd(cfg.get("nodata_attr")))


def flipped_identity_tile(cfg):
    """rasterio/GDAL treat a grid whose transform is exactly (+-1, 0, 0, 0, +-1, 0) as not georeferenced.
    True when a destination chunk or a possible source window of this configuration has such a transform:
    unit pixels and a tile corner exactly at the world origin."""
    for which in ("src", "dst"):
        tr = cfg[which + "_tr"]
        if [abs(tr[0]), tr[1], tr[3], abs(tr[4])] != [1, 0, 0, 1]:
            continue
        px, py = (0 - tr[2]) / tr[0], (0 - tr[5]) / tr[4]
        if px != int(px) or py != int(py):
            continue
        h, w = cfg[which + "_shape"]
        if which == "src":
            oy, ox = offsets(cfg["src_chunks"][0]), offsets(cfg["src_chunks"][1])
        else:
            cy, cx = cfg["dst_chunks"]
            oy, ox = list(range(0, h, cy)), list(range(0, w, cx))
        if int(py) in oy[:len(oy) - (which == "src")] and int(px) in ox[:len(ox) - (which == "src")]:
            return True
    return False


def classify(cfg, key):
    """the open rasterio finding absorbs a violation only when its exact trigger is present and the violation is a
    pixel mismatch of the same-CRS comparisons; coverage / history / joint / tall violations keep their own key"""
    if key in ("equal", "direct", "complete-deps", "disjoint") and cfg.get("src_crs") == cfg.get("dst_crs") \
            and flipped_identity_tile(cfg):
        return "flipped-identity-tile"
    return key


def p_equal(cfg):
    """same CRS, nearest: chunked == whole pixel for pixel; unreached pixels hold the fill"""
    try:
        data, whole, chunked, sgb, dgb = run_xr(cfg)
    except Exception as e:  # noqa: BLE001
        return False, f"raised {type(e).__name__}: {str(e)[:200]}", "equal"
    if not same(whole, chunked):
        a, b = yx_first(whole, cfg), yx_first(chunked, cfg)
        if a.shape != b.shape or a.dtype != b.dtype:
            return False, f"shape/dtype differ: {a.shape} {a.dtype} vs {b.shape} {b.dtype}", "equal"
        bad = ~((a == b) | ((a != a) & (b != b)))
        y, x, k = [int(v[0]) for v in np.nonzero(bad)]
        return False, (f"{int(bad.sum())} pixel(s) differ, first at (y={y}, x={x}, plane={k}): "
                       f"in-memory {a[y, x, k]!r} chunked {b[y, x, k]!r}"), "equal"
    fill = fill_of(cfg)
    unreached = nn_probe(sgb, dgb) == 0
    for name, arr in (("in-memory", whole), ("chunked", chunked)):
        v = yx_first(arr, cfg)[unreached]
        if v.size and not bool(is_val(v, fill).all()):
            return False, f"{name}: unreached pixels hold {np.unique(v).tolist()[:4]} instead of fill {fill!r}", "equal"
    return True, f"equal; {int(unreached.sum())} unreached pixel(s) hold {fill!r}", "equal"


def deep(mask, margin=2):
    """pixels whose whole (2*margin+1)^2 neighbourhood (clipped) is inside the mask"""
    m = np.pad(mask, margin, constant_values=True)
    out = np.ones_like(mask)
    H, W = mask.shape
    for dy in range(2 * margin + 1):
        for dx in range(2 * margin + 1):
            out &= m[dy:dy + H, dx:dx + W]
    return out


def p_fill(cfg):
    """any CRS pair: no error; every chunked pixel is a source value or the fill; pixels that the
    in-memory warp leaves unreached (with a 2 pixel margin) hold the fill in every chunk"""
    try:
        data, whole, chunked, sgb, dgb = run_xr(cfg)
    except Exception as e:  # noqa: BLE001
        return False, f"raised {type(e).__name__}: {str(e)[:200]}", "fill"
    if whole.shape != chunked.shape or whole.dtype != chunked.dtype:
        return False, f"shape/dtype differ: {whole.shape} {whole.dtype} vs {chunked.shape} {chunked.dtype}", "fill"
    fill = fill_of(cfg)
    c = yx_first(chunked, cfg)
    ok_vals = np.isin(c, np.unique(data)) | is_val(c, fill)
    if not bool(ok_vals.all()):
        y, x, k = [int(v[0]) for v in np.nonzero(~ok_vals)]
        return False, f"chunked pixel (y={y}, x={x}, plane={k}) holds {c[y, x, k]!r}: neither a source value nor the fill {fill!r}", "fill"
    w = yx_first(whole, cfg)
    ok_w = np.isin(w, np.unique(data)) | is_val(w, fill)
    if not bool(ok_w.all()):
        y, x, k = [int(v[0]) for v in np.nonzero(~ok_w)]
        return False, f"in-memory pixel (y={y}, x={x}, plane={k}) holds {w[y, x, k]!r}: neither a source value nor the fill {fill!r}", "fill"
    unreached = deep(nn_probe(sgb, dgb) == 0)
    v = c[unreached]
    if v.size and not bool(is_val(v, fill).all()):
        return False, f"chunked: pixels far from the source hold {np.unique(v).tolist()[:4]} instead of fill {fill!r}", "fill"
    return True, f"{int(unreached.sum())} far pixel(s) hold {fill!r}", "fill"


def p_disjoint(cfg):
    """rasters that do not overlap: an all-fill result, not an error"""
    from odc.geo.geobox import GeoBox  # noqa: F401

    try:
        data, whole, chunked, sgb, dgb = run_xr(cfg)
    except Exception as e:  # noqa: BLE001
        key = "disjoint"
        return False, f"raised {type(e).__name__}: {str(e)[:200]}", key
    fill = fill_of(cfg)
    for name, arr in (("in-memory", whole), ("chunked", chunked)):
        if not bool(is_val(arr, fill).all()):
            return False, f"{name}: not all fill {fill!r}: {np.unique(arr).tolist()[:4]}", "disjoint"
    if whole.shape != chunked.shape or whole.dtype != chunked.dtype:
        return False, "shape/dtype differ", "disjoint"
    return True, f"all {fill!r}", "disjoint"


# -- below the xarray layer: _dask_rio_reproject against rio_reproject with raw nodata arguments
def exact_deps(nn, soffs, doffs, w):
    """smallest complete dependency map, by brute force from the nearest-neighbour table"""
    (soy, sox), (doy, dox) = soffs, doffs
    deps = {}
    for jy in range(len(doy) - 1):
        for jx in range(len(dox) - 1):
            v = nn[doy[jy]:doy[jy + 1], dox[jx]:dox[jx + 1]]
            v = v[v > 0] - 1
            sy, sx = v // w, v % w
            iy = np.searchsorted(soy[1:], sy, "right")
            ix = np.searchsorted(sox[1:], sx, "right")
            deps[(jy, jx)] = sorted(set(zip(iy.tolist(), ix.tolist())))
    return deps


def offsets(ch):
    return [0] + np.cumsum(ch).tolist()


def run_direct(cfg, deps=None):
    """_dask_rio_reproject (optionally with a substituted dependency map) and rio_reproject on the same
    arrays.  Returns dict(data, whole, chunked | error, d2s, dchunks, nn)."""
    import dask.array as da
    from odc.geo._dask import _dask_rio_reproject
    from odc.geo.geobox import GeoboxTiles
    from odc.geo.warp import rio_reproject

    sgb = gbox(cfg["src_shape"], cfg["src_tr"], cfg["src_crs"])
    dgb = gbox(cfg["dst_shape"], cfg["dst_tr"], cfg["dst_crs"])
    data = mk_data(cfg)
    ydim = 1 if "t" in cfg.get("layout", "yx") else 0
    sn, dn = nd(cfg.get("src_nodata")), nd(cfg.get("dst_nodata"))
    src = da.from_array(data, chunks=full_chunks(cfg, data))
    res = {"data": data, "nn": nn_probe(sgb, dgb), "ydim": ydim}
    whole = np.full((*data.shape[:ydim], *dgb.shape), 99 if data.dtype.kind != "b" else True, dtype=data.dtype)
    rio_reproject(data, whole, sgb, dgb, "nearest", sn, dn, ydim=ydim)
    res["whole"] = whole
    try:
        if deps is None:
            lazy = _dask_rio_reproject(src, sgb, dgb, "nearest", sn, dn, ydim=ydim, chunks=tuple(cfg["dst_chunks"]))
        else:
            with mock.patch.object(GeoboxTiles, "grid_intersect", lambda self, other: deps):
                lazy = _dask_rio_reproject(src, sgb, dgb, "nearest", sn, dn, ydim=ydim, chunks=tuple(cfg["dst_chunks"]))
    except Exception as e:  # noqa: BLE001
        res["error"] = type(e).__name__
        res["exc"] = repr(e)[:200]
        return res
    res["dchunks"] = [list(lazy.chunks[ydim]), list(lazy.chunks[ydim + 1])]
    res["graph"] = graph_nodes(lazy, ydim)
    try:
        res["chunked"] = np.asarray(compute(lazy, cfg))
    except Exception as e:  # noqa: BLE001
        res["error"] = type(e).__name__
        res["exc"] = repr(e)[:200]
    return res


def graph_nodes(lazy, ydim):
    """per destination chunk (first leading chunk only): ('task', [source block yx indices]) or
    ('const', (ny, nx), fill); plus the dependency map the tasks carry"""
    layer = lazy.dask.layers[lazy.name]
    nodes, d2s = {}, None
    for k, v in dict(getattr(layer, "mapping", layer)).items():
        idx = k[1:]
        if any(i != 0 for i in idx[:ydim]) or any(i != 0 for i in idx[ydim + 2:]):
            continue
        j = (int(idx[ydim]), int(idx[ydim + 1]))
        f = v[0]
        if getattr(f, "func", None) is not None and f.func.__name__ == "_do_chunked_reproject":
            d2s = f.args[0]
            nodes[j] = ("task", [(int(s[1 + ydim]), int(s[2 + ydim])) for s in v[2:]])
        else:
            shape = v[1]
            nodes[j] = ("const", (int(shape[ydim]), int(shape[ydim + 1])), v[2])
    return {"nodes": nodes, "d2s": d2s}


def p_direct(cfg):
    """raw nodata arguments: unreached pixels of the chunked result hold resolve_fill_value in every
    chunk; unless float data has a source nodata and no destination nodata (rio_reproject prefers NaN
    there) the chunked and in-memory arrays are identical"""
    r = run_direct(cfg)
    if "error" in r:
        return False, f"raised {r['exc']}", "direct"
    sn, dn = nd(cfg.get("src_nodata")), nd(cfg.get("dst_nodata"))
    fill = expected_fill(cfg["dtype"], dn, sn)
    if r["chunked"].shape != r["whole"].shape or r["chunked"].dtype != r["whole"].dtype:
        return False, (f"computed array has shape {r['chunked'].shape} dtype {r['chunked'].dtype}, in-memory result "
                       f"{r['whole'].shape} {r['whole'].dtype}"), "direct"
    c = yx_first(r["chunked"], cfg)
    v = c[r["nn"] == 0]
    if v.size and not bool(is_val(v, fill).all()):
        return False, f"chunked: unreached pixels hold {np.unique(v).tolist()[:4]} instead of fill {fill!r}", "direct"
    corner = dn is None and sn is not None and np.dtype(cfg["dtype"]).kind == "f"
    if not corner and not same(r["whole"], r["chunked"]):
        a, b = yx_first(r["whole"], cfg), c
        bad = ~((a == b) | ((a != a) & (b != b)))
        y, x, k = [int(q[0]) for q in np.nonzero(bad)]
        return False, (f"{int(bad.sum())} pixel(s) differ, first at (y={y}, x={x}, plane={k}): "
                       f"in-memory {a[y, x, k]!r} chunked {b[y, x, k]!r}"), "direct"
    return True, "ok", "direct"


def p_complete_deps(cfg):
    """with the smallest complete dependency map substituted for grid_intersect (what a C12-conforming
    grid_intersect may return): constant chunks appear; chunked == in-memory, unreached == fill"""
    from odc.geo.geobox import GeoboxTiles

    sgb = gbox(cfg["src_shape"], cfg["src_tr"], cfg["src_crs"])
    dgb = gbox(cfg["dst_shape"], cfg["dst_tr"], cfg["dst_crs"])
    dch = GeoboxTiles(dgb, tuple(cfg["dst_chunks"])).chunks
    deps = exact_deps(nn_probe(sgb, dgb), (offsets(cfg["src_chunks"][0]), offsets(cfg["src_chunks"][1])),
                      (offsets(dch[0]), offsets(dch[1])), cfg["src_shape"][1])
    deps = {k: v for k, v in deps.items() if v or (k[0] + k[1]) % 2}   # absent key and empty list both occur
    r = run_direct(cfg, deps)
    if "error" in r:
        return False, f"raised {r['exc']}", "complete-deps"
    sn, dn = nd(cfg.get("src_nodata")), nd(cfg.get("dst_nodata"))
    fill = expected_fill(cfg["dtype"], dn, sn)
    if r["chunked"].shape != r["whole"].shape or r["chunked"].dtype != r["whole"].dtype:
        return False, (f"computed array has shape {r['chunked'].shape} dtype {r['chunked'].dtype}, in-memory result "
                       f"{r['whole'].shape} {r['whole'].dtype}"), "complete-deps"
    c = yx_first(r["chunked"], cfg)
    v = c[r["nn"] == 0]
    if v.size and not bool(is_val(v, fill).all()):
        return False, f"chunked: unreached pixels hold {np.unique(v).tolist()[:4]} instead of fill {fill!r}", "complete-deps"
    corner = dn is None and sn is not None and np.dtype(cfg["dtype"]).kind == "f"
    if not corner and not same(r["whole"], r["chunked"]):
        a, b = yx_first(r["whole"], cfg), c
        bad = ~((a == b) | ((a != a) & (b != b)))
        y, x, k = [int(q[0]) for q in np.nonzero(bad)]
        return False, (f"{int(bad.sum())} pixel(s) differ, first at (y={y}, x={x}, plane={k}): "
                       f"in-memory {a[y, x, k]!r} chunked {b[y, x, k]!r}"), "complete-deps"
    return True, "ok", "complete-deps"


def exact_nn_reference(cfg, data):
    """nearest neighbour between two axis-aligned grids of one CRS in exact rational arithmetic (independent of
    odc-geo and GDAL): (expected array, mask of pixels whose centre is at least 1e-6 source pixels from a source
    pixel edge)"""
    from fractions import Fraction as F

    sa, _, sc, _, se, sf = [F(v) for v in cfg["src_tr"]]
    da_, _, dc, _, de, df = [F(v) for v in cfg["dst_tr"]]
    (h, w), (H, W) = cfg["src_shape"], cfg["dst_shape"]
    tol = F(1, 10 ** 6)

    def axis(n_dst, d_res, d_off, s_res, s_off, n_src):
        idx = np.full(n_dst, -1, dtype=np.int64)
        safe = np.ones(n_dst, dtype=bool)
        for i in range(n_dst):
            p = ((d_off + (F(2 * i + 1) / 2) * d_res) - s_off) / s_res
            k = p.numerator // p.denominator
            fr = p - k
            safe[i] = tol < fr < 1 - tol
            if 0 <= k < n_src:
                idx[i] = k
        return idx, safe

    iy, sy = axis(H, de, df, se, sf, h)
    ix, sx = axis(W, da_, dc, sa, sc, w)
    fill = fill_of(cfg)
    exp = np.full((H, W), fill, dtype=data.dtype)
    ok = (iy[:, None] >= 0) & (ix[None, :] >= 0)
    exp[ok] = data[np.clip(iy, 0, None)[:, None], np.clip(ix, 0, None)[None, :]][ok]
    return exp, sy[:, None] & sx[None, :]


def p_tall(cfg):
    """near-equal pixel sizes over thousands of rows/columns: chunked == in-memory == exact rational reference"""
    try:
        data, whole, chunked, sgb, dgb = run_xr(cfg)
    except Exception as e:  # noqa: BLE001
        return False, f"raised {type(e).__name__}: {str(e)[:200]}", "tall"
    exp, safe = exact_nn_reference(cfg, data)
    for name, arr in (("in-memory", whole), ("chunked", chunked)):
        if arr.shape != exp.shape or arr.dtype != exp.dtype:
            return False, f"{name}: shape/dtype {arr.shape} {arr.dtype}, expected {exp.shape} {exp.dtype}", "tall"
        bad = ~((arr == exp) | ((arr != arr) & (exp != exp))) & safe
        if bad.any():
            y, x = [int(v[0]) for v in np.nonzero(bad)]
            rows = np.unique(np.nonzero(bad)[0])
            return False, (f"{name}: {int(bad.sum())} pixel(s) in {len(rows)} row(s) differ from the exact nearest-neighbour "
                           f"reference, first at (y={y}, x={x}): expected {exp[y, x]!r} got {arr[y, x]!r}"), "tall"
    if not same(whole, chunked):
        return False, "chunked and in-memory differ at a pixel within 1e-6 of a source pixel edge", "tall"
    return True, f"equal to the exact reference on {int(safe.sum())} pixel(s)", "tall"


def p_joint(cfg):
    """ONE lazy source reprojected several times onto the same grid with different parameters (cfg["variants"]:
    dst_nodata and/or resampling), all results computed in a single dask.compute / as one Dataset: every result
    equals the one computed alone, and (nearest) its own in-memory result"""
    import dask
    import dask.array as da
    import xarray as xr
    from odc.geo.xr import wrap_xr, xr_reproject

    try:
        sgb = gbox(cfg["src_shape"], cfg["src_tr"], cfg["src_crs"])
        dgb = gbox(cfg["dst_shape"], cfg["dst_tr"], cfg["dst_crs"])
        data = mk_data(cfg)
        lay = cfg.get("layout", "yx")
        time = [f"2020-01-{i + 1:02d}" for i in range(data.shape[0])] if "t" in lay else None
        attr = nd(cfg.get("nodata_attr"))
        xn = wrap_xr(data, sgb, time=time, nodata=attr)
        xd = wrap_xr(da.from_array(data, chunks=full_chunks(cfg, data)), sgb, time=time, nodata=attr)
        kws = []
        for v in cfg["variants"]:
            kw = {"resampling": v.get("resampling", "nearest")}
            if v.get("dst_nodata") is not None:
                kw["dst_nodata"] = nd(v["dst_nodata"])
            kws.append(kw)
        lazy = [xr_reproject(xd, dgb, chunks=tuple(cfg["dst_chunks"]), **kw) for kw in kws]
        ckw = {"scheduler": cfg.get("scheduler", "synchronous"), "optimize_graph": bool(cfg.get("optimize", True))}
        if cfg.get("how", "compute") == "dataset":
            ds = xr.Dataset({f"v{i}": a for i, a in enumerate(lazy)}).compute(**ckw)
            joint = [np.asarray(ds[f"v{i}"].values) for i in range(len(lazy))]
        else:
            joint = [np.asarray(a.values) for a in dask.compute(*lazy, **ckw)]
        alone = [np.asarray(a.compute(**ckw).values) for a in lazy]
        whole = [np.asarray(xr_reproject(xn, dgb, **kw).values) for kw in kws]
    except Exception as e:  # noqa: BLE001
        return False, f"raised {type(e).__name__}: {str(e)[:200]}", "joint"
    for i, kw in enumerate(kws):
        refs = [("computed alone", alone[i])] + ([("in-memory", whole[i])] if kw["resampling"] == "nearest" else [])
        for name, ref in refs:
            if not same(joint[i], ref):
                a, b = yx_first(ref, cfg), yx_first(joint[i], cfg)
                if a.shape != b.shape or a.dtype != b.dtype:
                    return False, f"result {i} {kw}: shape/dtype differ from {name}", "joint"
                bad = ~((a == b) | ((a != a) & (b != b)))
                y, x, k = [int(v[0]) for v in np.nonzero(bad)]
                return False, (f"result {i} {kw} computed together with {[q for j, q in enumerate(kws) if j != i]}: "
                               f"{int(bad.sum())} pixel(s) differ from the same result {name}, first at (y={y}, x={x}, "
                               f"plane={k}): {name} {a[y, x, k]!r} jointly {b[y, x, k]!r}"), "joint"
    return True, f"{len(kws)} results computed jointly agree", "joint"


def pyproj_source_coords(cfg):
    """float source pixel coordinates (column, row) of every destination pixel centre, with pyproj called directly
    (its own Transformer, always_xy=True) and plain affine arithmetic: independent of odc-geo's CRS layer"""
    from affine import Affine
    from pyproj import Transformer

    H, W = cfg["dst_shape"]
    D, S = Affine(*cfg["dst_tr"]), Affine(*cfg["src_tr"])
    cc, rr = np.meshgrid(np.arange(W) + 0.5, np.arange(H) + 0.5)
    X, Y = D * (cc, rr)
    if cfg["src_crs"] != cfg["dst_crs"]:
        t = Transformer.from_crs(cfg["dst_crs"], cfg["src_crs"], always_xy=True)
        X, Y = t.transform(X, Y)
    X, Y = np.asarray(X, dtype="float64"), np.asarray(Y, dtype="float64")
    sc, sr = (~S) * (X, Y)
    return np.asarray(sc), np.asarray(sr)


def chord_lost(cfg, miss, sc, sr):
    """class of the open finding c13:crossref-chord (same root as c12:crossref-chord): True when EVERY covered pixel that
    holds the fill maps to a source location OUTSIDE the quadrilateral spanned by the four corners of its destination
    chunk in source pixel space (pyproj + shapely, by more than 0.01 source pixels) - GeoboxTiles.tiles() moves a chunk
    extent to the source CRS through its 4 corners only, so source tiles beyond the chords are not listed.  Any covered
    pixel lost INSIDE that quadrilateral is a different violation and keeps the key of the predicate."""
    from affine import Affine
    from pyproj import Transformer
    from shapely.geometry import Point, Polygon

    H, W = cfg["dst_shape"]
    cy, cx = cfg["dst_chunks"]
    D, S = Affine(*cfg["dst_tr"]), Affine(*cfg["src_tr"])
    t = Transformer.from_crs(cfg["dst_crs"], cfg["src_crs"], always_xy=True)
    ys, xs = np.nonzero(miss)
    quads = {}
    for y, x in zip(ys.tolist(), xs.tolist()):
        j = (y // cy, x // cx)
        if j not in quads:
            y0, x0 = j[0] * cy, j[1] * cx
            y1, x1 = min(y0 + cy, H), min(x0 + cx, W)
            px = np.array([x0, x1, x1, x0], dtype="float64")
            py = np.array([y0, y0, y1, y1], dtype="float64")
            wx, wy = D * (px, py)
            qx, qy = t.transform(wx, wy)
            qc, qr = (~S) * (np.asarray(qx, dtype="float64"), np.asarray(qy, dtype="float64"))
            if not (np.isfinite(qc).all() and np.isfinite(qr).all()):
                return False
            quads[j] = Polygon(list(zip(qc.tolist(), qr.tolist())))
        if quads[j].distance(Point(float(sc[y, x]), float(sr[y, x]))) <= 0.01:
            return False
    return True


def p_dtype_kw(cfg):
    """a bool (or integer) source reprojected into another pixel type: _dask_rio_reproject(..., dtype=T) against
    rio_reproject into an array of type T; same values (bool pixels become 0/1 like astype in both)"""
    import dask.array as da
    from odc.geo._dask import _dask_rio_reproject
    from odc.geo.warp import rio_reproject

    try:
        sgb = gbox(cfg["src_shape"], cfg["src_tr"], cfg["src_crs"])
        dgb = gbox(cfg["dst_shape"], cfg["dst_tr"], cfg["dst_crs"])
        data = mk_data(cfg)
        ydim = 1 if "t" in cfg.get("layout", "yx") else 0
        T = np.dtype(cfg["to_dtype"])
        whole = np.full((*data.shape[:ydim], *dgb.shape), 99, dtype=T)
        rio_reproject(data, whole, sgb, dgb, "nearest", None, None, ydim=ydim)
        lazy = _dask_rio_reproject(da.from_array(data, chunks=full_chunks(cfg, data)), sgb, dgb, "nearest", None, None,
                                   ydim=ydim, chunks=tuple(cfg["dst_chunks"]), dtype=T)
        chunked = np.asarray(compute(lazy, cfg))
    except Exception as e:  # noqa: BLE001
        return False, f"raised {type(e).__name__}: {str(e)[:200]}", "dtype-kw"
    ref = data.astype(T)
    for name, arr in (("in-memory", whole), ("chunked", chunked)):
        extra = np.setdiff1d(np.unique(arr[np.isfinite(arr)] if T.kind == "f" else arr), np.append(np.unique(ref), 0))
        if extra.size:
            return False, (f"{name}: {cfg['dtype']} source warped into {T} holds {extra.tolist()[:4]}, source.astype({T}) only "
                           f"has {np.unique(ref).tolist()[:6]}"), "dtype-kw"
    if chunked.shape != whole.shape or not bool(((chunked == whole) | ((chunked != chunked) & (whole != whole))).all()):
        return False, f"chunked (dtype={T}) and in-memory results differ", "dtype-kw"
    return True, "ok", "dtype-kw"


def p_cover(cfg):
    """any CRS pair, any orientation of the grids: no error; destination pixels whose centre maps (pyproj) at least
    half a pixel inside the source hold data - in memory and in EVERY chunk; pixels mapping a pixel or more outside
    hold the fill; data comes from the 3x3 neighbourhood of the exact source pixel.  Requires a source without
    nodata-valued pixels and a fill that is not a data value."""
    try:
        data, whole, chunked, sgb, dgb = run_xr(cfg)
    except Exception as e:  # noqa: BLE001
        return False, f"raised {type(e).__name__}: {str(e)[:200]}", "cover"
    if whole.shape != chunked.shape or whole.dtype != chunked.dtype:
        return False, f"shape/dtype differ: {whole.shape} {whole.dtype} vs {chunked.shape} {chunked.dtype}", "cover"
    h, w = cfg["src_shape"]
    sc, sr = pyproj_source_coords(cfg)
    fin = np.isfinite(sc) & np.isfinite(sr)
    inside = fin & (sc > 0.5) & (sc < w - 0.5) & (sr > 0.5) & (sr < h - 0.5)
    outside = fin & ((sc < -1) | (sc > w + 1) | (sr < -1) | (sr > h + 1))
    inner = fin & (sc > 1.5) & (sc < w - 1.5) & (sr > 1.5) & (sr < h - 1.5)
    ir = np.clip(np.floor(np.where(fin, sr, 0)).astype(int), 1, max(h - 2, 1))
    ic = np.clip(np.floor(np.where(fin, sc, 0)).astype(int), 1, max(w - 2, 1))
    fill = fill_of(cfg)
    src3 = yx_first(data, cfg)
    for name, arr in (("in-memory", whole), ("chunked", chunked)):
        a = yx_first(arr, cfg)
        isfill = is_val(a, fill)
        miss = inside[:, :, None] & isfill
        if miss.any():
            y, x, k = [int(v[0]) for v in np.nonzero(miss)]
            key = "cover"
            if name == "chunked" and cfg["src_crs"] != cfg["dst_crs"] and chord_lost(cfg, miss.any(axis=2), sc, sr):
                key = "crossref-chord"
            return False, (f"{name}: {int(miss.sum())} of {int(inside.sum()) * a.shape[2]} pixel(s) covered by the source hold the "
                           f"fill {fill!r}, first at (y={y}, x={x}, plane={k}) which maps to source (col={sc[y, x]:.2f}, "
                           f"row={sr[y, x]:.2f})"), key
        extra = outside[:, :, None] & ~isfill
        if extra.any():
            y, x, k = [int(v[0]) for v in np.nonzero(extra)]
            return False, (f"{name}: {int(extra.sum())} pixel(s) outside of the source hold data, first at (y={y}, x={x}, "
                           f"plane={k}) = {a[y, x, k]!r}, maps to source (col={sc[y, x]:.2f}, row={sr[y, x]:.2f})"), "cover"
        if h >= 3 and w >= 3:
            ok = np.zeros(a.shape, dtype=bool)
            for dy in (-1, 0, 1):
                for dx in (-1, 0, 1):
                    ok |= a == src3[ir + dy, ic + dx, :]
            wrong = inner[:, :, None] & ~ok
            if wrong.any():
                y, x, k = [int(v[0]) for v in np.nonzero(wrong)]
                return False, (f"{name}: {int(wrong.sum())} pixel(s) hold a value that is not near the right source location, "
                               f"first at (y={y}, x={x}, plane={k}) = {a[y, x, k]!r}"), "cover"
    return True, f"{int(inside.sum())} covered, {int(outside.sum())} outside pixel(s)", "cover"


PREDICATES = {"dtype-kw": p_dtype_kw, "cover": p_cover, "tall": p_tall, "joint": p_joint, "equal": p_equal, "fill": p_fill, "disjoint": p_disjoint, "direct": p_direct,
              "complete-deps": p_complete_deps}
from vlib import crshist  # noqa: E402

PREDICATES["after_history"] = crshist.after_history(PREDICATES)

# source grids for the coverage predicate: (crs, pixel size, x of the west edge, y of the north edge) around 147E 36S
COVER_SRC = {"epsg:32755": (100.0, 500000.0, 6006000.0), "epsg:4326": (0.001, 147.0, -36.0),
             "epsg:3857": (120.0, 16364000.0, -4300000.0), "epsg:3577": (100.0, 1300000.0, -4000000.0)}
HIST_CRS = "epsg:32755"   # pairs with this CRS are first used after a history (see run)


def rand_cover(rng, i, with_hist_crs):
    """cross-CRS pair with the source in one of the four axis orientations (north-up, x-mirrored, south-up, rotated
    by 180 degrees), the destination laid out around its footprint with pyproj, thin / single-pixel / ordinary
    destination chunks"""
    from pyproj import Transformer

    crss = sorted(COVER_SRC)
    if with_hist_crs:
        other = rng.choice([c for c in crss if c != HIST_CRS])
        sc_, dc_ = (HIST_CRS, other) if i % 2 == 0 else (other, HIST_CRS)
    else:
        sc_, dc_ = rng.sample([c for c in crss if c != HIST_CRS], 2)
    res, x0, y1 = COVER_SRC[sc_]
    tiny = i % 4 == 3
    h, w = (rng.randint(6, 9), rng.randint(6, 10)) if tiny else (rng.randint(14, 24), rng.randint(14, 26))
    x0, y1 = x0 + rng.randint(-20, 20) * res, y1 + rng.randint(-20, 20) * res
    orient = ["x-mirrored", "north-up", "rot180", "x-mirrored", "south-up"][i % 5]
    a, c = (res, x0) if orient in ("north-up", "south-up") else (-res, x0 + w * res)
    e, f = (-res, y1) if orient in ("north-up", "x-mirrored") else (res, y1 - h * res)
    src_tr = [a, 0, c, 0, e, f]
    t = Transformer.from_crs(sc_, dc_, always_xy=True)
    n = 9
    ex = np.concatenate([np.linspace(x0, x0 + w * res, n), np.full(n, x0 + w * res), np.linspace(x0, x0 + w * res, n), np.full(n, x0)])
    ey = np.concatenate([np.full(n, y1), np.linspace(y1 - h * res, y1, n), np.full(n, y1 - h * res), np.linspace(y1 - h * res, y1, n)])
    bx, by = t.transform(ex, ey)
    dres = COVER_SRC[dc_][0]
    pad = rng.randint(3, 6)
    dx0 = math.floor(min(bx) / dres) * dres - pad * dres
    dy1 = math.ceil(max(by) / dres) * dres + pad * dres
    W = int(math.ceil((max(bx) - dx0) / dres)) + pad
    H = int(math.ceil((dy1 - min(by)) / dres)) + pad
    dst_tr = [dres, 0, dx0, 0, -dres, dy1]
    if i % 7 == 5:     # destination mirrored in x as well
        dst_tr = [-dres, 0, dx0 + W * dres, 0, -dres, dy1]
    if tiny:
        dch = [1, 1]
    else:
        dch = rng.choice([[H, 1], [1, W], [H, 1], [1, W], [H, 2], [2, W], [H, 3], [3, W], [5, 7], [32, 32]])
    dtype = rng.choice(["int16", "uint8", "float32", "int32"])
    # nodata values that mk_data never produces: no source pixel is nodata, the fill is never a data value
    absent = [0, 251, 255] if dtype == "uint8" else [0, -5, 1000, 30000]
    attr = rng.choice([None, None] + absent)
    kw = rng.choice([None, None, None] + absent)
    dn = rng.choice([None, None] + absent + (["nan"] if dtype == "float32" else []))
    cfg = {"kind": "cover:" + orient, "src_shape": [h, w], "src_tr": src_tr, "src_crs": sc_, "dst_shape": [H, W],
           "dst_tr": dst_tr, "dst_crs": dc_, "dtype": dtype, "nodata_attr": attr, "src_nodata": kw, "dst_nodata": dn,
           "nodata_pixels": False, "zeros": False,
           "src_chunks": [rand_chunks(rng, h), rand_chunks(rng, w)], "dst_chunks": dch,
           "scheduler": "synchronous", "optimize": True, "layout": "yx"}
    if i % 3 == 1:      # 1-pixel source chunks: every partly covered source pixel is a tile of its own
        cfg["src_chunks"] = [[1] * h, [1] * w]
    elif i % 3 == 2:    # small source chunks that do not divide the raster
        cy, cx = rng.choice([(7, 9), (3, 2), (2, 5), (4, 3)])
        cfg["src_chunks"] = [[min(cy, h - k) for k in range(0, h, cy)], [min(cx, w - k) for k in range(0, w, cx)]]
    if i % 3 == 0 and not tiny:
        cfg["layout"], cfg["T"], cfg["t_chunk"] = "tyx", rng.choice([2, 3]), rng.choice([1, 2])
    return cfg


# ------------------------------------------------------------------ generators
SRC_GRIDS = [   # (transform, crs): power-of-two resolutions keep every coordinate operation exact
    ([16, 0, 0, 0, -16, 256], "epsg:3857"),
    ([0.25, 0, 100, 0, -0.25, -30], "epsg:4326"),
    ([1, 0, 1021, 0, -1, -2043], "epsg:3577"),   # unit pixels, far from the world origin (see flipped_identity_tile)
    ([10, 0, 500000, 0, -10, 6000000], "epsg:32633"),   # not a power of two: no half-pixel placements below
]

CROSS = [   # (src shape, src transform, src crs, dst shape, dst transform, dst crs)
    ((12, 12), [0.5, 0, 10, 0, -0.5, -20], "epsg:4326", (20, 20), [60000, 0, 870000, 0, -60000, -2030000], "epsg:3857"),
    ((12, 14), [50000, 0, 1000000, 0, -50000, -2000000], "epsg:3857", (16, 18), [0.5, 0, 7, 0, -0.5, -16], "epsg:4326"),
    ((12, 12), [0.5, 0, 130, 0, -0.5, -20], "epsg:4326", (24, 20), [50000, 0, -400000, 0, -50000, -2000000], "epsg:3577"),
    ((12, 12), [50000, 0, -300000, 0, -50000, -2200000], "epsg:3577", (20, 24), [0.5, 0, 126, 0, -0.5, -17], "epsg:4326"),
]


def rand_chunks(rng, n):
    """explicit chunk sizes summing to n: regular (incl. 1-pixel and non-dividing) or irregular"""
    mode = rng.random()
    if mode < 0.6:
        c = rng.choice([1, 2, 3, 4, 5, 7, n, n + 3]) if n > 1 else 1
        c = min(c, n)
        out = [c] * (n // c)
        if n % c:
            out.append(n % c)
        return out
    out, left = [], n
    while left:
        k = rng.randint(1, left)
        out.append(k)
        left -= k
    return out


def rand_nodata(rng, dtype, level, absent_dn=False):
    """(nodata_attr, src_nodata kw, dst_nodata) for the xarray level / (None, src_nodata, dst_nodata) raw.
    GDAL moves a VALID pixel that happens to equal the destination nodata to the neighbouring value
    (7 -> 6, 7.0 -> 7.000000476837158): a per-pixel effect outside this property.  With [absent_dn] the
    destination nodata is drawn from values mk_data never produces, so that outputs stay inside
    {source values, fill}."""
    dt = np.dtype(dtype)
    if dt.kind == "b":
        pool = absent = [0, 1]
    elif dt.name == "int8":
        pool, absent = [-100, -1, 5, 77, 120], [-128, -1, 120]
    elif dt.name == "uint8":
        pool, absent = [7, 3, 11, 200, 250, 0, 255], [0, 251, 255]
    elif dt.kind == "u":
        pool, absent = [7, 3, 11, 200, 0, 60000], [0, 1000, 60000]
    else:
        pool, absent = [7, 3, 11, 200, 0, -5], [0, -5, 1000, 30000]
    pick = lambda: rng.choice(pool)
    nanok = dt.kind == "f"

    def pick_dn():
        if nanok and rng.random() < 0.4:
            return "nan"
        return rng.choice(absent if absent_dn else pool)

    mode = rng.random()
    attr = kw = dn = None
    if level == "xr":
        if mode < 0.3:
            pass
        elif mode < 0.5:
            attr = pick()
        elif mode < 0.65:
            dn = pick_dn()
        elif mode < 0.8:
            attr, dn = pick(), pick_dn()
        elif mode < 0.9:
            kw = pick()
        else:
            attr, kw, dn = pick(), pick(), (pick_dn() if rng.random() < 0.5 else None)
    else:
        if mode < 0.25:
            pass
        elif mode < 0.45:
            kw = pick()
        elif mode < 0.65:
            dn = pick_dn()
        else:
            kw, dn = pick(), pick_dn()
    return attr, kw, dn


def rand_layout(rng, cfg):
    lay = rng.choice(["yx", "yx", "tyx", "tyx", "tyx", "yxb", "tyxb"])
    cfg["layout"] = lay
    if "t" in lay:
        # leading axis 1..5 long in chunks of 1..3: dividing, non-dividing (3 in 2s, 5 in 2s/3s, 4 in 3s) and single chunk
        cfg["T"] = rng.choice([1, 2, 3, 3, 4, 5, 5])
        cfg["t_chunk"] = rng.choice([1, 2, 2, 3, cfg["T"]])
    if lay.endswith("b"):
        cfg["B"] = 2
        cfg["b_chunk"] = rng.choice([1, 2])


def rand_same_crs(rng, kind=None, level="xr", layout=True, absent_dn=False):
    tr, crs = rng.choice(SRC_GRIDS)
    pow2 = tr[0] != 10
    h, w = rng.randint(1, 14), rng.randint(1, 14)
    H, W = rng.randint(1, 16), rng.randint(1, 16)
    kind = kind or rng.choice(["aligned", "aligned", "subpixel", "scaled", "mirrored", "swapped", "partial", "disjoint",
                               "larger"])
    sx = sy = 1
    swap = False
    q = lambda: rng.choice([0.25, 0.75, -0.25, 1.25] + ([0.5, -0.5] if pow2 else []))
    if kind == "aligned":
        tx, ty = rng.randint(-3, 3), rng.randint(-3, 3)
    elif kind == "subpixel":
        tx, ty = rng.randint(-3, 3) + q(), rng.randint(-3, 3) + rng.choice([0, q()])
    elif kind == "scaled":
        sx = rng.choice([2, 0.5])
        sy = rng.choice([sx, sx, 1])
        tx, ty = rng.randint(-4, 4) + rng.choice([0, 0.25]), rng.randint(-4, 4) + rng.choice([0, 0.25])
    elif kind == "mirrored":
        sx, sy = rng.choice([(-1, 1), (1, -1), (-1, -1)])
        tx = (w + rng.randint(-3, 3)) if sx < 0 else rng.randint(-3, 3)
        ty = (h + rng.randint(-3, 3)) if sy < 0 else rng.randint(-3, 3)
    elif kind == "swapped":
        swap = True
        tx, ty = rng.randint(-3, 3), rng.randint(-3, 3)
    elif kind == "partial":
        tx, ty = rng.choice([-(W - 1), w - 1, rng.randint(-W, w)]), rng.choice([-(H - 1), h - 1, rng.randint(-H, h)])
    elif kind == "larger":
        H, W = h + rng.randint(2, 6), w + rng.randint(2, 6)
        H, W = min(H, 16), min(W, 16)
        tx, ty = -rng.randint(0, 4), -rng.randint(0, 4)
    else:  # disjoint
        tx, ty = rng.choice([(w + rng.randint(0, 5), rng.randint(-2, 2)), (-W - rng.randint(0, 5), 0),
                             (0, h + rng.randint(0, 4)), (rng.randint(-2, 2), -H - rng.randint(0, 4))])
    dtype = rng.choice(["uint8", "int16", "float32", "float64", "int8", "bool", "uint16", "int32", "float32", "uint8"])
    attr, kw, dn = rand_nodata(rng, dtype, level, absent_dn)
    cfg = {"kind": kind, "src_shape": [h, w], "src_tr": tr, "src_crs": crs, "dst_shape": [H, W],
           "dst_tr": dst_tr_from_map(tr, (sx, sy, tx, ty, swap)), "dst_crs": crs, "dtype": dtype,
           "nodata_attr": attr, "src_nodata": kw, "dst_nodata": dn, "nodata_pixels": rng.random() < 0.5,
           "src_chunks": [rand_chunks(rng, h), rand_chunks(rng, w)],
           "dst_chunks": [rng.choice([1, 2, 3, 4, 5, 7, H, H + 2]), rng.choice([1, 2, 3, 4, 5, 7, W, W + 2])],
           "scheduler": rng.choice(["synchronous", "synchronous", "threads"]), "optimize": rng.random() < 0.7}
    eff = dn if dn is not None else (kw if kw is not None else attr)
    if level == "xr" or eff is None or eff == "nan" or eff not in (0, -1):
        # valid zeros: only kept out of the model-driven runs when 0/-1 is the effective destination nodata
        # (GDAL then moves them to the neighbouring value, which the model's sample does not describe)
        cfg["zeros"] = rng.random() < 0.6
    if layout:
        rand_layout(rng, cfg)
    return cfg


def rand_chunk_aligned(rng, level, layout=True):
    """same CRS, destination grid bit-identical to the source grid or moved by whole source chunks, destination chunks
    = unions of source chunks (the clipped source mosaic of such a chunk IS the chunk's GeoBox); explicit destination
    nodata different from the source nodata, nodata pixels present"""
    tr, crs = rng.choice(SRC_GRIDS)
    cy, cx = rng.choice([1, 2, 3, 4]), rng.choice([1, 2, 3, 4])
    ny, nx = rng.randint(2, 4), rng.randint(2, 4)
    h, w = cy * ny + rng.choice([0, 0, cy - 1]), cx * nx + rng.choice([0, 0, cx - 1])
    h, w = max(h, 3), max(w, 4)
    ky, kx = rng.choice([1, 1, 2]), rng.choice([1, 1, 2])
    my, mx = rng.choice([0, 0, 1, -1]), rng.choice([0, 0, 1, -1])
    H, W = (h, w) if rng.random() < 0.6 else (h + rng.choice([-1, 2]) * cy, w + rng.choice([-1, 2]) * cx)
    H, W = max(H, 1), max(W, 1)
    dtype = rng.choice(["int16", "uint8", "float32", "float64", "int32", "int8", "uint16"])
    dt = np.dtype(dtype)
    sn = 5 if dtype == "int8" else 7
    if dtype == "uint8":
        dn = rng.choice([0, 251, 255])
    elif dtype == "int8":
        dn = rng.choice([-128, -1, 120])
    elif dt.kind == "u":
        dn = rng.choice([0, 1000, 60000])
    elif dt.kind == "f":
        dn = rng.choice(["nan", "nan", -5, 0, 1000])
    else:
        dn = rng.choice([0, -5, 1000, 30000])
    cfg = {"kind": "chunk-aligned", "src_shape": [h, w], "src_tr": tr, "src_crs": crs, "dst_shape": [H, W],
           "dst_tr": dst_tr_from_map(tr, (1, 1, mx * cx, my * cy, False)), "dst_crs": crs, "dtype": dtype,
           "nodata_attr": sn if level == "xr" else None, "src_nodata": None if level == "xr" else sn, "dst_nodata": dn,
           "nodata_pixels": True, "zeros": False,
           "src_chunks": [[min(cy, h - k) for k in range(0, h, cy)], [min(cx, w - k) for k in range(0, w, cx)]],
           "dst_chunks": [ky * cy, kx * cx], "scheduler": rng.choice(["synchronous", "threads"]), "optimize": rng.random() < 0.7}
    if layout:
        cfg["layout"] = rng.choice(["yx", "tyx", "tyx"])
        if cfg["layout"] == "tyx":
            cfg["T"] = rng.choice([1, 2, 3])
            cfg["t_chunk"] = rng.choice([1, 2, cfg["T"]])
    return cfg


def rand_world(rng, i):
    """(nearly) world-spanning EPSG:3857 source onto a global / hemispheric EPSG:4326 grid (or back): the lon/lat
    footprint of such a source, buffered by two pixels, is not a valid polygon"""
    R = 20037508.342789244
    n, m = rng.choice([(64, 64), (32, 48), (48, 32)])
    k = rng.choice([1, 1, 1, 0.98, 0.75])
    span = 2 * R * k
    src_tr = [span / m, 0, -R * k, 0, -span / n, R * k]
    H, W = rng.choice([(36, 72), (18, 36), (30, 40)])
    lon0, lon1, lat1, lat0 = rng.choice([(-180, 180, 90, -90), (-180, 180, 85, -85), (-180, 0, 90, -90), (-170, 170, 80, -60)])
    dst_tr = [(lon1 - lon0) / W, 0, lon0, 0, -(lat1 - lat0) / H, lat1]
    cs = rng.choice([16, 8, n])
    cfg = {"kind": "world", "src_shape": [n, m], "src_tr": src_tr, "src_crs": "epsg:3857", "dst_shape": [H, W],
           "dst_tr": dst_tr, "dst_crs": "epsg:4326", "dtype": rng.choice(["int32", "float32", "int16"]),
           "nodata_attr": None, "src_nodata": None, "dst_nodata": rng.choice([None, None, -5]), "nodata_pixels": False,
           "zeros": False, "src_chunks": [[min(cs, n - a) for a in range(0, n, cs)], [min(cs, m - a) for a in range(0, m, cs)]],
           "dst_chunks": rng.choice([[H, W], [9, 9], [5, 7], [H, 12]]), "scheduler": "synchronous", "optimize": True,
           "layout": "yx"}
    return cfg


def rand_tall(rng, i):
    """tall (or wide) same-CRS pair whose pixel heights (widths) differ by a relative 1e-6..1e-3: over thousands of
    rows the grids drift apart by up to a few pixels; source chunked along the long axis"""
    n = rng.choice([3000, 4000])
    m = rng.randint(1, 4)
    if i % 4 != 3:    # drift of 1.5 .. 3 pixels over the long axis
        rel = rng.choice([1, -1]) * rng.choice([1 / 2000, 1 / 1250, 1 / 1600])
    else:             # at and below the snapping tolerance of snap_affine: at most a hundredth of a pixel
        rel = rng.choice([1e-5, 2e-6, 5e-7])
    res, crs = rng.choice([(10, "epsg:3857"), (10, "epsg:32633"), (16, "epsg:3577"), (0.25, "epsg:4326")])
    x0, y0 = 500 * res, 9000 * res
    # whole-pixel offset along the long axis only for the small-drift cases: an offset makes neighbouring source
    # chunks needed anyway and hides a lost pixel of drift
    off = (rng.choice([0, 3, -2]) if i % 4 == 3 else 0) * res
    wide = i % 2 == 1
    sch = rng.choice([500, 333, 640, 250, 1000])
    # chunk boundaries of destination and source (nearly) coincide: a drift of one pixel then decides whether the
    # neighbouring source chunk is needed
    dch = rng.choice([sch, sch, sch // 2 if sch % 2 == 0 else sch, 2 * sch]) if i % 4 != 3 else rng.choice([250, 640, 100])
    dtype = rng.choice(["uint8", "int16", "float32", "uint16"])
    if wide:
        src_shape, dst_shape = [m, n], [m, n]
        src_tr = [res, 0, x0, 0, -res, y0]
        dst_tr = [res * (1 + rel), 0, x0 + off, 0, -res, y0]
        src_chunks = [[m], [min(sch, n - k) for k in range(0, n, sch)]]
        dst_chunks = [m, dch]
    else:
        src_shape, dst_shape = [n, m], [n, m]
        src_tr = [res, 0, x0, 0, -res, y0]
        dst_tr = [res, 0, x0, 0, -res * (1 + rel), y0 - off]
        src_chunks = [[min(sch, n - k) for k in range(0, n, sch)], [m]]
        dst_chunks = [dch, m]
    return {"kind": "tall", "src_shape": src_shape, "src_tr": src_tr, "src_crs": crs, "dst_shape": dst_shape,
            "dst_tr": dst_tr, "dst_crs": crs, "dtype": dtype, "nodata_attr": None, "src_nodata": None,
            "dst_nodata": None, "nodata_pixels": False, "zeros": False, "src_chunks": src_chunks,
            "dst_chunks": dst_chunks, "scheduler": "synchronous", "optimize": True, "layout": "yx", "rel": rel}


def rand_cross_crs(rng, disjoint=False, pair=None):
    ss, st, sc, ds, dt_, dc = rng.choice(CROSS) if pair is None else CROSS[pair % len(CROSS)]
    dt_ = list(dt_)
    if disjoint:
        if rng.random() < 0.7:
            dt_[2] += 70 * dt_[0] * rng.choice([1, -1])
        else:
            dt_[5] += 70 * dt_[4] * rng.choice([1, -1])
    else:
        dt_[2] += rng.randint(-3, 3) * dt_[0]
        dt_[5] += rng.randint(-3, 3) * dt_[4]
    dtype = rng.choice(["uint8", "int16", "float32", "float64", "int8", "bool"])
    attr, kw, dn = rand_nodata(rng, dtype, "xr", True)
    cfg = {"kind": "cross-disjoint" if disjoint else "cross", "src_shape": list(ss), "src_tr": st, "src_crs": sc,
           "dst_shape": list(ds), "dst_tr": dt_, "dst_crs": dc, "dtype": dtype,
           "nodata_attr": attr, "src_nodata": kw, "dst_nodata": dn, "nodata_pixels": False,
           "src_chunks": [rand_chunks(rng, ss[0]), rand_chunks(rng, ss[1])],
           "dst_chunks": [rng.choice([3, 4, 5, 7, ds[0]]), rng.choice([3, 4, 5, 7, ds[1]])],
           "scheduler": rng.choice(["synchronous", "threads"]), "optimize": rng.random() < 0.7}
    rand_layout(rng, cfg)
    return cfg


# ------------------------------------------------------------------ correspondence cases
def split_chunks(arr, ydim, dchunks):
    """per destination chunk (row-major): list of planes"""
    doy, dox = offsets(dchunks[0]), offsets(dchunks[1])
    a = arr if ydim == 1 else arr[np.newaxis]
    out = []
    for jy in range(len(doy) - 1):
        for jx in range(len(dox) - 1):
            out.append(((jy, jx), [a[t, doy[jy]:doy[jy + 1], dox[jx]:dox[jx + 1]] for t in range(a.shape[0])]))
    return out


def nn_table(nn, w):
    return clist(nn.tolist(), lambda row: clist(row, lambda v: "(-1, -1)" if v == 0 else ctuple(cz((v - 1) // w), cz((v - 1) % w))))


def case_run(cfg, r, d2s):
    data = r["data"]
    planes = data if r["ydim"] == 1 else data[np.newaxis]
    sn, dn = nd(cfg.get("src_nodata")), nd(cfg.get("dst_nodata"))
    if "dchunks" in r:
        dch = r["dchunks"]
    else:
        from odc.geo.geobox import GeoboxTiles
        dch = [list(c) for c in GeoboxTiles(gbox(cfg["dst_shape"], cfg["dst_tr"], cfg["dst_crs"]), tuple(cfg["dst_chunks"])).chunks]
    if "error" in r:
        chunks = {"IndexError": "(Err EIndex)", "ValueError": "(Err EValue)"}.get(r["error"], "(Err EOther)")
    else:
        chunks = "(Ok " + clist(split_chunks(r["chunked"], r["ydim"], dch),
                                lambda e: ctuple(cidx(e[0]), ctab3(e[1]))) + ")"
    whole = r["whole"] if r["ydim"] == 1 else r["whole"][np.newaxis]
    return (f"CRun true {clist(cfg['src_chunks'][0])} {clist(cfg['src_chunks'][1])} {clist(dch[0])} {clist(dch[1])} "
            f"{cd2s(d2s)} {nn_table(r['nn'], cfg['src_shape'][1])} {ctab3(list(planes))} {cov(dn)} {cov(sn)} "
            f"{DT[cfg['dtype']]} {chunks} (Some {ctab3(list(whole))})")


def case_graph(cfg, r, d2s):
    sn, dn = nd(cfg.get("src_nodata")), nd(cfg.get("dst_nodata"))
    nodes = r["graph"]["nodes"]

    def cnode(n):
        if n[0] == "task":
            return f"(CTask {clist(n[1], cidx)})"
        return f"(CConst {cidx(n[1])} {cval(n[2])})"

    return (f"CGraph {clist(r['dchunks'][0])} {clist(r['dchunks'][1])} {cd2s(d2s)} {cov(dn)} {cov(sn)} "
            f"{DT[cfg['dtype']]} {clist(sorted(nodes.items()), lambda kv: ctuple(cidx(kv[0]), cnode(kv[1])))}")


def decision_cases(out):
    """fill table, nodata defaulting (observed by intercepting the calls that receive them), init value
    of the warp, clip window"""
    import dask.array as da
    from odc.geo import _dask as D
    from odc.geo import _xr_interop as X
    from odc.geo import warp as Wp
    from odc.geo.geobox import GeoboxTiles
    from odc.geo.xr import wrap_xr, xr_reproject

    cases = []
    sgb = gbox((4, 6), [16, 0, 0, 0, -16, 64], "epsg:3857")
    dgb = gbox((4, 8), [16, 0, -16, 0, -16, 64], "epsg:3857")
    gbt_s = GeoboxTiles(sgb, ((4,), (2, 2, 2)))
    gbt_d = GeoboxTiles(dgb, (4, 8))
    seen = []

    def rec(src, dst, s_gbox, d_gbox, resampling, src_nodata=None, dst_nodata=None, **kw):
        seen.append((np.array(src), src_nodata, dst_nodata))
        return dst

    for dtype in DT:
        dt = np.dtype(dtype)
        vals = [None, 0, 1] if dt.kind == "b" else [None, 7, 9]
        dvals = vals + (["nan"] if dt.kind == "f" else [])
        for sn in vals:
            for dn_ in dvals:
                dn = nd(dn_)
                fill = D.resolve_fill_value(dn, sn, dt)
                blk = np.full((4, 2), 5, dtype=dt)
                seen.clear()
                with mock.patch.object(Wp, "_rio_reproject", rec):
                    Wp.rio_reproject(np.zeros((4, 6), dt), np.zeros((4, 8), dt), sgb, dgb, "nearest", sn, dn)
                rio_dn = seen[-1][2]
                seen.clear()
                with mock.patch.object(D, "_rio_reproject", rec):
                    D._do_chunked_reproject({(0, 0): [(0, 0), (0, 2)]}, gbt_s, gbt_d, (0, 0), blk, blk,
                                            src_nodata=sn, dst_nodata=dn)
                win, _, chunk_dn = seen[-1]
                efill = win[0, 2]   # column 2..3 is the block that was not supplied
                cases.append(f"CFill {cov(dn)} {cov(sn)} {DT[dtype]} {cval(fill)} {cov(rio_dn)} {cov(chunk_dn)} {cval(efill)}")
                out.count("decision:fill")
                out.case(("fill", dtype, sn, dn_), True,
                         {"op": "resolve_fill_value", "dst_nodata": dn_, "src_nodata": sn, "dtype": dtype, "fill": repr(fill),
                          "rio dst_nodata": repr(rio_dn), "chunk dst_nodata": repr(chunk_dn)} if dtype == "float32" and sn is None else None)
                # what the warp leaves in pixels it does not write (column 0 and 7 of the destination)
                for ddn in (dn, rio_dn):
                    dst = np.full((4, 8), 99 if dt.kind != "b" else (not bool(fill)), dtype=dt)
                    Wp._rio_reproject(np.full((4, 6), 5, dt), dst, sgb, dgb, "nearest", sn, ddn)
                    cases.append(f"CInit {cov(ddn)} {cov(sn)} {DT[dtype]} {cval(dst[0, 0])}")
                    out.count("decision:init")
                    out.case(("init", dtype, sn, repr(ddn)), True)
    # nodata defaulting of xr_reproject, both back ends
    got = []

    def rec_np(src, dst, s_gbox, d_gbox, resampling, src_nodata=None, dst_nodata=None, **kw):
        got.append((src_nodata, dst_nodata))
        return dst

    def rec_da(src, s_gbox, d_gbox, resampling, src_nodata=None, dst_nodata=None, **kw):
        got.append((src_nodata, dst_nodata))
        return da.zeros((*src.shape[:kw.get("ydim", 0)], *d_gbox.shape), dtype=src.dtype)

    for attr in (None, 7):
        for kw in (None, 3):
            for dn in (None, 9):
                kwargs = {}
                if kw is not None:
                    kwargs["src_nodata"] = kw
                if dn is not None:
                    kwargs["dst_nodata"] = dn
                data = np.ones((4, 6), "int16")
                got.clear()
                with mock.patch.object(X, "rio_reproject", rec_np), mock.patch.object(D, "_dask_rio_reproject", rec_da):
                    xr_reproject(wrap_xr(data, sgb, nodata=attr), dgb, **kwargs)
                    xr_reproject(wrap_xr(da.from_array(data, chunks=(2, 3)), sgb, nodata=attr), dgb, **kwargs)
                for g in got:
                    cases.append(f"CXr {cov(dn)} {cov(kw)} {cov(attr)} {cov(g[0])} {cov(g[1])}")
                    out.count("decision:xr-nodata")
                    out.case(("xr", attr, kw, dn, len(cases)), True)
    return cases


def clip_cases(out, rng, n):
    from affine import Affine
    from odc.geo.geobox import GeoboxTiles

    cases = []
    for i in range(n):
        h, w = rng.randint(1, 14), rng.randint(1, 14)
        chy, chx = rand_chunks(rng, h), rand_chunks(rng, w)
        tr, crs = rng.choice(SRC_GRIDS[:3])
        sgb = gbox((h, w), tr, crs)
        gbt = GeoboxTiles(sgb, (tuple(chy), tuple(chx)))
        k = rng.choice([0, 1, 1, 2, 3, 5]) if i % 9 else 0
        sel = [(rng.randrange(len(chy)), rng.randrange(len(chx))) for _ in range(k)]
        try:
            g2, ni = gbt.clip(sel)
            A = (~sgb.transform) * g2.base.transform
            assert (A.a, A.b, A.d, A.e) == (1, 0, 0, 1) and A.c == int(A.c) and A.f == int(A.f)
            view = f"{{| vy0 := {cz(int(A.f))}; vx0 := {cz(int(A.c))}; vh := {cz(g2.base.shape[0])}; vw := {cz(g2.base.shape[1])} |}}"
            exp = f"(Some {ctuple(ctuple(view, clist(ni, cidx)), ctuple(clist(g2.chunks[0]), clist(g2.chunks[1])))})"
        except ValueError:
            exp = "None"
        cases.append(f"CClip {clist(chy)} {clist(chx)} {clist(sel, cidx)} {exp}")
        out.count("decision:clip" if sel else "decision:clip-empty")
        out.case(("clip", chy, chx, sel), bool(sel),
                 {"op": "GeoboxTiles.clip", "chunks": [chy, chx], "selection": sel, "result": exp} if i == 1 else None)
    return cases


def deps_variants(rng, real, exact, nsy, nsx, has_sn):
    """dependency maps substituted for grid_intersect: exact, with superfluous tiles, with one tile
    dropped, absent keys, and (malformed stream) an index past the last block"""
    yield "real", None
    yield "exact", {k: v for k, v in exact.items() if v or (k[0] + k[1]) % 2}
    extra = {k: sorted(set(v) | {(rng.randrange(nsy), rng.randrange(nsx))}) if rng.random() < 0.5 else list(v)
             for k, v in exact.items()}
    yield "extra", extra
    drop = {k: list(v) for k, v in exact.items()}
    full = [k for k, v in drop.items() if v]
    if full and has_sn:   # without a source nodata the 0/NaN of a missing block is data that GDAL may move off dst_nodata
        k = rng.choice(full)
        drop[k].pop(rng.randrange(len(drop[k])))
        yield "dropped", drop
    if rng.random() < 0.25:
        bad = {k: list(v) for k, v in exact.items()}
        k = rng.choice(sorted(bad))
        bad[k] = bad[k] + [(nsy + rng.randint(0, 1), rng.randrange(nsx)) if rng.random() < 0.5 else (0, nsx)]
        yield "malformed", bad


# ------------------------------------------------------------------ run
def run(out, tier, scratch):
    out.rule = ("correspondence: (a) decision logic — resolve_fill_value, the dst_nodata handed to the warp by rio_reproject and "
                "_do_chunked_reproject, BlockAssembler fill, xr_reproject nodata defaulting, init value left by the warp — over "
                "8 dtypes x source/destination nodata unset/set/NaN, observed by intercepting the receiving calls; GeoboxTiles.clip "
                "windows over random tilings and selections (incl. empty); (b) whole runs: rasters <= 14x14 -> <= 16x16, same CRS, "
                "placements aligned/sub-pixel/scaled/mirrored/swapped/partial/disjoint x regular (1-pixel, non-dividing) and "
                "irregular chunkings x dtypes x nodata x leading planes, dependency map real / exact / superfluous / one tile "
                "dropped / out-of-range (malformed), every chunk of the computed dask array and the in-memory array compared "
                "with the model driven by a measured nearest-neighbour table.  A run is non-trivial when at least one "
                "destination pixel is reached and one is not, or an error is raised; distinct = distinct canonical configuration.  "
                "search: xr_reproject(dask).compute() vs xr_reproject(numpy) exact (NaN aware) for same-CRS nearest, fill/"
                "uniformity for 4326<->3857 and 4326<->3577, all-fill for disjoint rasters, synchronous and threaded schedulers, "
                "optimize_graph on/off, time/band axes chunked or not")
    out.assumptions += [
        "warp oracle (_rio_reproject = rasterio/GDAL): nearest-neighbour locality between grids sharing a CRS — output pixel d = "
        "sample(src[nn d]) if nn d lies in the source window handed over, GDAL's initial value otherwise; cropping a GeoBox re-bases "
        "pixel coordinates; previous content of the output array irrelevant (rasterio init_dest_nodata)",
        "initial value of unwritten pixels = dst_nodata, else src_nodata, else 0 (validated on every run: CInit cases)",
        "tilings: boundaries start at 0 and do not decrease (C04 partition theorem; proved here for chunk-size lists)",
        "dependency map from GeoboxTiles.grid_intersect is in range and complete (C12 theorem; hypothesis of the equality theorems)",
        "dask evaluates every graph node to the value of its pure task in any topological order",
    ]
    rng = core.rng("c13")
    found = {}

    def judge(name, cfg, src, hist=None):
        """hist = (perturbation names, CRS specs) already applied to this process: recorded so that the replay applies
        them in a fresh process before evaluating the predicate"""
        try:
            ok, detail, key = PREDICATES[name](cfg)
        except Exception as e:  # noqa: BLE001
            ok, detail, key = False, f"predicate raised {type(e).__name__}: {e}", name
        out.count("predicate:" + name)
        out.count("placement:" + str(cfg.get("kind")))
        out.count("dtype:" + cfg["dtype"])
        out.count("scheduler:" + cfg.get("scheduler", "synchronous"))
        out.case((name, json.dumps(cfg, sort_keys=True)), True,
                 {"predicate": name, "cfg": cfg, "result": detail} if name == "equal" and len(out.samples) < 5 else None)
        if not ok:
            key = classify(cfg, key)
            if hist is not None:
                key = "after-history:" + key
            out.count("violated:" + key)
            if key not in found:
                found[key] = True
                if hist is None:
                    out.violation(f"c13:{key}", f"{src}: {name}: {detail}", {"predicate": name, "args": [cfg], "observed": detail})
                else:
                    out.violation(f"c13:{key}", f"{src} after {list(hist[0])}: {name}: {detail}",
                                  {"predicate": "after_history", "args": [list(hist[0]), list(hist[1]), name, [cfg]],
                                   "observed": detail})
        return ok

    # 1. corpus first
    for rp in core.corpus(ID):
        if rp["predicate"] == "after_history":
            hn, sp, nm, aa = rp["args"]
            crshist.perturb(tuple(hn), tuple(sp))
            judge(nm, aa[0], "corpus " + rp["_file"], hist=(hn, sp))
        else:
            judge(rp["predicate"], rp["args"][0], "corpus " + rp["_file"])

    # 2. decision logic
    cases = decision_cases(out)
    cases += clip_cases(out, rng, 150 if tier == "quick" else 1500)
    metas = [None] * len(cases)

    # 3. whole runs against the model
    n_runs = 45 if tier == "quick" else 500
    kinds = ["aligned", "subpixel", "scaled", "mirrored", "swapped", "partial", "disjoint", "larger"]
    for i in range(n_runs):
        cfg = rand_same_crs(rng, kind=kinds[i % len(kinds)], level="raw", layout=False, absent_dn=True)
        if i % 5 == 4:
            cfg = rand_chunk_aligned(rng, "raw", layout=False)
        if rng.random() < 0.6:
            cfg["layout"], cfg["T"] = "tyx", rng.choice([1, 2, 3])
            cfg["t_chunk"] = cfg["T"]
        cfg["scheduler"], cfg["optimize"] = "synchronous", True
        r0 = run_direct(cfg)
        real = r0.get("graph", {}).get("d2s")
        if "error" in r0 or real is None and not r0.get("graph", {}).get("nodes"):
            out.oblige("correspondence:run " + str(i), "correspondence", False, f"real run failed: {r0.get('exc')} {json.dumps(cfg)}")
            continue
        dch = r0["dchunks"]
        exact = exact_deps(r0["nn"], (offsets(cfg["src_chunks"][0]), offsets(cfg["src_chunks"][1])),
                           (offsets(dch[0]), offsets(dch[1])), cfg["src_shape"][1])
        for mode, deps in deps_variants(rng, real, exact, len(cfg["src_chunks"][0]), len(cfg["src_chunks"][1]),
                                        cfg.get("src_nodata") is not None):
            if mode != "real" and rng.random() < 0.35 and mode != "malformed":
                continue
            r = r0 if deps is None else run_direct(cfg, deps)
            d2s = (real or {}) if deps is None else deps
            cases.append(case_run(cfg, r, d2s))
            metas.append((cfg, mode, d2s))
            if "graph" in r:
                cases.append(case_graph(cfg, r, d2s))
                metas.append((cfg, mode, d2s))
            reached = int((r["nn"] > 0).sum())
            out.count("run:deps=" + mode)
            out.count("run:outcome=" + r.get("error", "ok"))
            out.count("placement:" + cfg["kind"])
            out.case(("run", mode, json.dumps(cfg, sort_keys=True)), "error" in r or 0 < reached < r["nn"].size,
                     {"op": "_dask_rio_reproject", "cfg": cfg, "deps": mode, "graph": {str(k): str(v) for k, v in list(r.get("graph", {}).get("nodes", {}).items())[:4]}}
                     if i == 3 and mode == "exact" else None)
        # the same configuration through the property predicates
        judge("direct", cfg, f"run {i}")
        judge("complete-deps", cfg, f"run {i}")
        # the same placement with a leading axis cut into chunks that do not divide it (short trailing chunk)
        T, tc = rng.choice([(3, 2), (5, 2), (5, 3), (4, 3), (2, 1), (1, 1)])
        cfg_t = dict(cfg, layout="tyx", T=T, t_chunk=tc)
        judge("complete-deps" if i % 2 else "direct", cfg_t, f"run {i} (time {T} in chunks of {tc})")

    fails, log = core.coq_eval_failures(REQ, "case", "check", cases, scratch, shard=40, tag="c13")
    detail = ""
    if fails:
        detail = "model and implementation differ on: " + " | ".join(
            (cases[i][:300] if metas[i] is None else json.dumps({"deps": metas[i][1], "cfg": metas[i][0]}) + " " + cases[i][:40])
            for i in fails[:4])
    out.oblige("correspondence:Model.ChunkedWarp vs odc.geo._dask/_blocks/warp/_xr_interop", "correspondence", not fails, detail)

    # 4. failing-input search on the public entry point
    n_eq = 220 if tier == "quick" else 4000
    for i in range(n_eq):
        cfg = rand_same_crs(rng, kind=kinds[i % len(kinds)] if i % 3 else None)
        if cfg["kind"] in ("larger", "partial", "disjoint") and rng.random() < 0.5:
            cfg["layout"] = "tyx" if not cfg.get("layout", "yx").endswith("b") else "tyxb"
            cfg.setdefault("B", 2)
            cfg["T"], cfg["t_chunk"] = rng.choice([(3, 2), (5, 2), (5, 3), (4, 3)])
        judge("disjoint" if cfg["kind"] == "disjoint" else "equal", cfg, f"search {i}")
    # destination chunks coinciding with unions of source chunks, dst_nodata != source nodata, nodata pixels present
    for i in range(24 if tier == "quick" else 300):
        judge("equal", rand_chunk_aligned(rng, "xr"), f"chunk-aligned {i}")
    # near-equal pixel sizes over thousands of rows / columns, source chunked along the long axis
    for i in range(8 if tier == "quick" else 60):
        judge("tall", rand_tall(rng, i), f"tall {i}")
    # multi-step composition: one lazy source, several parameter sets, one joint computation
    for i in range(16 if tier == "quick" else 200):
        cfg = rand_same_crs(rng, kind=["larger", "partial", "subpixel", "scaled"][i % 4], layout=i % 3 == 0)
        fl = i % 4 >= 2 and cfg["dtype"] != "bool"
        if fl:
            cfg["dtype"] = rng.choice(["float32", "float64", "int16"])
        pool = [0, 1] if cfg["dtype"] == "bool" else ([-1, 120, 5] if cfg["dtype"] == "int8" else [251, 0, 9, 200])
        a, b = rng.sample(pool, 2)
        cfg["dst_nodata"] = None
        if i % 4 < 2:     # uncovered pixels: destination nodata differs
            cfg["variants"] = [{"dst_nodata": a}, {"dst_nodata": b}] + ([{}] if rng.random() < 0.4 else [])
        else:             # sub-pixel / scaled: resampling differs (and sometimes the nodata too)
            cfg["variants"] = [{"resampling": "nearest"}, {"resampling": rng.choice(["bilinear", "average", "cubic"])}]
            if rng.random() < 0.5:
                cfg["variants"][1]["dst_nodata"] = a
        cfg["how"] = rng.choice(["compute", "dataset"])
        judge("joint", cfg, f"joint {i}")
    # world-spanning web-mercator sources onto global lon/lat grids
    for i in range(6 if tier == "quick" else 60):
        cfg = rand_world(rng, i)
        judge("fill", cfg, f"world {i}")
        judge("cover", cfg, f"world {i}")
    # bool / integer source into another pixel type (dtype= of the chunked path against a typed in-memory destination)
    for i in range(6 if tier == "quick" else 60):
        cfg = rand_same_crs(rng, kind=["larger", "aligned", "subpixel"][i % 3], level="raw", layout=i % 2 == 0)
        cfg.update(dtype="bool" if i % 3 else "uint8", to_dtype=rng.choice(["uint8", "int16", "int32", "int8", "uint16"]),   # integer targets: one fill (0) on every path
                   src_nodata=None, dst_nodata=None, nodata_attr=None, zeros=False)
        if cfg.get("layout", "yx").endswith("b"):
            cfg["layout"] = "yx"
        judge("dtype-kw", cfg, f"dtype-kw {i}")
    # coverage judged with pyproj directly: mirrored / rotated sources, thin and single-pixel destination chunks
    for i in range(14 if tier == "quick" else 150):
        judge("cover", rand_cover(rng, i, False), f"cover {i}")
    n_x = 40 if tier == "quick" else 600
    for i in range(n_x):
        judge("fill", rand_cross_crs(rng), f"cross-crs {i}")
    for i in range(8 if tier == "quick" else 60):   # every CRS pair of CROSS, shifted away along x or y
        judge("disjoint", rand_cross_crs(rng, disjoint=True, pair=i), f"cross-crs disjoint {i}")
    # a model/code disagreement on a whole run: look at that configuration with the predicates as well
    if fails and not found:
        for i in fails[:8]:
            if metas[i] is not None:
                judge("direct", metas[i][0], "disagreeing case")
                judge("complete-deps", metas[i][0], "disagreeing case")
                judge("equal", dict(metas[i][0], nodata_attr=None), "disagreeing case")

    # 5. cross-CRS cases after a process history - LAST, so that every case above replays unperturbed.  The transformer /
    # CRS caches of odc.geo.crs are first-come: the pairs with HIST_CRS are used nowhere else in this check (corpus
    # witnesses with a history excepted), so the perturbation really precedes their first use, exactly as it does in the
    # fresh process of a replay.
    rng_h = core.rng("c13-history")
    specs = sorted(COVER_SRC)
    hist = (("authority-order-first", "queries-first"), specs)
    crshist.perturb(*hist)
    for i in range(6 if tier == "quick" else 30):
        judge("cover", rand_cover(rng_h, i, True), f"history {i}", hist=hist)
    hist2 = (("authority-order-first", "queries-first", "churn"), specs)
    crshist.perturb(("churn",), specs)
    for i in range(2 if tier == "quick" else 10):
        judge("cover", rand_cover(rng_h, i + 1, True), f"history+churn {i}", hist=hist2)
        judge("fill", dict(rand_cover(rng_h, i, True), kind="cover-fill"), f"history+churn {i}", hist=hist2)


def replay(rp) -> int:
    name = rp["predicate"]
    ok, detail, key = PREDICATES[name](*rp["args"])
    if not ok and isinstance(rp["args"][0], dict):
        key = classify(rp["args"][0], key)
    print(f"replay {name} {json.dumps(rp['args'])[:400]}: {'holds' if ok else 'FAILS'}: {detail}")
    return 0 if ok else 1


META = {
    "text": ("Coq theorems (coq/Props/C13.v, closed under the global context) over a statement-by-statement Gallina model of "
             "_dask_rio_reproject / _do_chunked_reproject / BlockAssembler.extract / GeoboxTiles.clip / rio_reproject / the nodata "
             "defaulting of xr_reproject: for EVERY tiling of source and destination (any chunk-size lists, 1-pixel and non-dividing "
             "included), every placement (an arbitrary pixel map nn), any number of leading planes, every dtype and nodata "
             "combination reachable through xr_reproject, and every warp meeting the nearest-neighbour locality contract, each "
             "destination chunk (task or constant block) evaluates without error to exactly the matching window of the in-memory "
             "result, hence the assembled dask array equals the in-memory array pixel for pixel — PROVIDED the dependency map is in "
             "range and complete (C12).  Independently of completeness: unreached pixels hold resolve_fill_value(dst_nodata, "
             "src_nodata, dtype) in task chunks and constant chunks alike, and non-overlapping rasters give an all-fill array, never "
             "an error.  The pinned code's float fill defect (F10) is a _refuted theorem with a vm_compute witness and was repaired."),
    "note": ("Trusted: Coq kernel; hand-written model coq/Model/ChunkedWarp.v tied to the code by the correspondence run (decision "
             "tables observed by intercepting calls; every chunk of real dask runs compared with the model under real, exact, "
             "superfluous, incomplete and out-of-range dependency maps).  ORACLES (Section variables, validated only by testing): "
             "(1) _rio_reproject/GDAL nearest-neighbour LOCALITY for grids sharing a CRS: output pixel = sample(src[nn d]) when nn d is "
             "inside the source window handed to the warp, else the initial value dst_nodata/src_nodata/0; this includes that cropping a "
             "GeoBox re-bases pixel coordinates (C02) and that GDAL's pixel choice is translation covariant; nn itself is arbitrary; "
             "(2) tilings are partitions (C04; proved here for chunk-size lists); (3) grid_intersect returns an in-range, complete "
             "dependency map (C12) — the equality theorems are conditional on it, the fill theorems only on in-range; (4) dask executes "
             "pure tasks to the same values in any topological order and lays blocks out by the declared chunks.  Pixel values, nodata "
             "numbers and dtypes are abstract types (no float arithmetic is modelled; the correspondence instance uses integers and NaN).  "
             "Domain restrictions: the raw rio_reproject/_dask_rio_reproject equality excludes float data with a source nodata but no "
             "destination nodata (rio_reproject prefers NaN there; unreachable through xr_reproject, proved); negative tile indices and "
             "nodata values not representable in the dtype are outside the model.  NOT proved: anything about GDAL itself, cross-CRS "
             "pixel equality (only the fill/uniformity clauses are tested there), resampling other than nearest."),
    "technique": "Coq proof over hand-written Gallina model with the warp as a locality-constrained oracle + differential correspondence (vm_compute) + direct chunked-vs-whole search",
    "design_ref": "DESIGN.md section 5, C13",
}
