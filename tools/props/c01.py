"""C01 — operations never silently mix coordinate reference systems.

Static coverage (regenerated from the current source with `ast` on every run):
the table of @wrap_shapely methods and their delegation bodies, and the list of
every public function/method of geom.py / geobox.py that takes two or more
CRS-tagged operands — each must be in the proved table or in the allow-list.
Correspondence: op x ordered CRS-tag pair x geometry kinds, real call against
coq/Model/CrsGate.v with the raw shapely functions instantiated by the calls
made on the raw shapes.  Search: the property's statement on the implementation.
"""
from __future__ import annotations

import ast
import itertools
import json
import operator
import re
from fractions import Fraction as F

from vlib import core
from vlib.core import cbool, clist, copt, cq, ctuple, cz

ID = "C01"
ALLOWED_AXIOMS: list[str] = []

# ---------------------------------------------------------------- the proved table
WRAPPED = ["contains", "covers", "crosses", "disjoint", "intersects", "touches", "within", "overlaps",
           "difference", "intersection", "symmetric_difference", "union", "__and__", "__or__", "__xor__", "__sub__"]
# operations with an explicit CRS test, modelled by hand (theorem in coq/Props/C01.v)
EXPLICIT = {
    "geom.Geometry.split": "C01_split",
    "geom.common_crs": "C01_common_crs_multigeom",
    "geom.multigeom": "C01_common_crs_multigeom",
    "geom.unary_union": "C01_unary_union",
    "geom.unary_intersection": "C01_unary_intersection",
    "geom.intersects": "C01_intersects_function",
    "geom.bbox_union": "C01_bbox_folds",
    "geom.bbox_intersection": "C01_bbox_folds",
    "geom.BoundingBox.__and__": "C01_bbox_folds",
    "geom.BoundingBox.__or__": "C01_bbox_folds",
    "geobox.pixel_translation": "C01_geobox_pair_mismatch",
    "geobox.bounding_box_in_pixel_domain": "C01_geobox_pair_mismatch",
    "geobox.GeoBox.overlap_roi": "C01_geobox_pair_mismatch",
    "geobox.GeoBox.snap_to": "C01_geobox_pair_mismatch",
    "geobox.GeoBox.__or__": "C01_geobox_operators_mismatch",
    "geobox.GeoBox.__and__": "C01_geobox_operators_mismatch",
    "geobox.geobox_union_conservative": "C01_geobox_union_intersection_never_mix",
    "geobox.geobox_intersection_conservative": "C01_geobox_union_intersection_never_mix",
}
# functions that take several CRS-tagged values but do not combine their coordinates
ALLOW = {
    "geom.Geometry.__init__": "copy constructor: a Geometry argument is cloned with its own CRS (crs must then be None)",
    "geom.Geometry.__eq__": "comparison: different CRSs compare unequal, no coordinates are combined",
    "geom.BoundingBox.__eq__": "comparison: different CRSs compare unequal, no coordinates are combined",
    "geobox.GeoBox.__eq__": "comparison: different CRSs compare unequal, no coordinates are combined",
    "geom.Geometry.__rmul__": "operand is an Affine, not a CRS-tagged object",
    "geobox.GeoBox.__mul__": "operand is an Affine, not a CRS-tagged object",
    "geobox.GeoBox.__rmul__": "operand is an Affine, not a CRS-tagged object",
    "geobox.GeoBoxBase.project": "explicit conversion: a geometry in another CRS is reprojected with to_crs before use (C07)",
    "geobox.GeoBox.enclosing": "explicit conversion through GeoBoxBase.project; a region without CRS is rejected (C16)",
    "geobox.GeoBox.from_bbox": "one CRS-tagged operand (the box); `crs` is a specification, not a tagged object (C08)",
}
TAGGED = {"Geometry", "BoundingBox", "GeoBox", "GeoBoxBase"}
CONTAINERS = {"Iterable", "List", "Sequence", "Iterator", "Tuple", "Set", "Collection"}
BINARY_DUNDERS = {"__and__", "__or__", "__xor__", "__sub__", "__add__", "__mul__", "__rmul__", "__matmul__", "__eq__",
                  "__ne__", "__contains__", "__lt__", "__le__", "__gt__", "__ge__", "__truediv__", "__mod__",
                  "__rand__", "__ror__", "__rxor__", "__rsub__", "__radd__", "__iand__", "__ior__"}


# ---------------------------------------------------------------- static analysis of the current source
def _src(mod):
    return (core.REPO / "odc" / "geo" / f"{mod}.py").read_text()


def _strip_doc(body):
    if body and isinstance(body[0], ast.Expr) and isinstance(getattr(body[0], "value", None), ast.Constant) \
            and isinstance(body[0].value.value, str):
        return body[1:]
    return body


def _ann_weight(ann) -> int:
    """0: not CRS-tagged; 1: one tagged value; 2: a collection of tagged values"""
    if ann is None:
        return 0
    txt = ast.unparse(ann)
    names = set(re.findall(r"[A-Za-z_]+", txt))
    if not names & TAGGED:
        return 0
    return 2 if names & CONTAINERS else 1


def static_scan():
    """returns (decorated: {name: (ok, why)}, candidates: {qualname: info})"""
    decorated, candidates = {}, {}
    for mod in ("geom", "geobox"):
        tree = ast.parse(_src(mod))

        def visit(node, cls=None):
            for n in node.body:
                if isinstance(n, ast.ClassDef):
                    visit(n, n.name)
                elif isinstance(n, (ast.FunctionDef, ast.AsyncFunctionDef)):
                    decos = [ast.unparse(d) for d in n.decorator_list]
                    args = n.args.posonlyargs + n.args.args + n.args.kwonlyargs
                    static = any(d in ("staticmethod", "classmethod") for d in decos)
                    qual = f"{mod}.{cls}.{n.name}" if cls else f"{mod}.{n.name}"
                    if cls == "Geometry" and "wrap_shapely" in decos:
                        decorated[n.name] = _delegates(n)
                    dunder = n.name.startswith("__") and n.name.endswith("__")
                    if n.name.startswith("_") and not dunder:
                        continue
                    if any(d.endswith(".setter") or d == "property" for d in decos):
                        continue
                    w = 0
                    if cls in TAGGED and not static and args and args[0].arg == "self":
                        w += 1
                    params = args[1:] if (cls and not static) else args
                    w += sum(_ann_weight(a.annotation) for a in params)
                    if n.args.vararg is not None:
                        w += 2 if _ann_weight(n.args.vararg.annotation) else 0
                    if w >= 2 or (cls in TAGGED and n.name in BINARY_DUNDERS):
                        candidates[qual] = {"module": mod, "cls": cls, "name": n.name, "static": static,
                                            "params": [(a.arg, ast.unparse(a.annotation) if a.annotation else None)
                                                       for a in params],
                                            "decorated": "wrap_shapely" in decos}
        visit(tree)
    return decorated, candidates


def _delegates(fn: ast.FunctionDef):
    """is the decorated method `def name(self, other): return self.name(other)` ?"""
    a = fn.args
    if [x.arg for x in a.args] != ["self", "other"] or a.vararg or a.kwarg or a.kwonlyargs or a.posonlyargs:
        return False, f"signature is not (self, other): {ast.unparse(a)}"
    body = _strip_doc(fn.body)
    if len(body) != 1 or not isinstance(body[0], ast.Return):
        return False, "body is not a single return"
    v = body[0].value
    ok = (isinstance(v, ast.Call) and isinstance(v.func, ast.Attribute) and isinstance(v.func.value, ast.Name)
          and v.func.value.id == "self" and v.func.attr == fn.name and len(v.args) == 1 and not v.keywords
          and isinstance(v.args[0], ast.Name) and v.args[0].id == "other")
    return ok, "" if ok else f"body is `{ast.unparse(body[0])}`, expected `return self.{fn.name}(other)`"


def wrap_shapely_applied_once():
    """the decorator list of each wrapped method is exactly [wrap_shapely] and the decorator's own
    definition is the one the model was written from (structure: loop over args[1:], raise, call, re-tag)"""
    tree = ast.parse(_src("geom"))
    for n in tree.body:
        if isinstance(n, ast.FunctionDef) and n.name == "wrap_shapely":
            inner = [x for x in n.body if isinstance(x, ast.FunctionDef)]
            if len(inner) != 1:
                return False, "wrap_shapely: expected one inner function"
            txt = ast.unparse(inner[0])
            need = ["for arg in args[1:]", "first.crs != arg.crs", "raise CRSMismatchError", "method(*[arg.geom for arg in args])",
                    "Geometry(result, first.crs)"]
            missing = [s for s in need if s not in txt]
            return (not missing), ("wrap_shapely.wrapped lacks: " + "; ".join(missing)) if missing else ""
    return False, "wrap_shapely not found"


# ---------------------------------------------------------------- real objects
def tags():
    """the CRS tag alphabet: None + four CRS objects (index 0..3)"""
    from odc.geo import CRS
    wkt = CRS("EPSG:4326").to_wkt()
    return [CRS("EPSG:4326"), CRS("EPSG:3857"), CRS(wkt), CRS(4326)]


TAG_NAMES = ["EPSG:4326", "EPSG:3857", "4326-as-WKT", "4326-as-int"]
TAG_IDS = [None, 0, 1, 2, 3]


def crs_obj(T, t):
    return None if t is None else T[t]


def eq_matrix(T):
    return [[bool(a == b) for b in T] for a in T]


def tag_specs():
    """the specs of the tag alphabet, for the independent reference"""
    import pyproj
    return ["EPSG:4326", "EPSG:3857", pyproj.CRS.from_epsg(4326).to_wkt(), 4326]


_REF: dict = {}


def ref_equal(sa, sb) -> bool:
    """Independent reference for "the same CRS": pyproj's own equality of two CRS objects that
    pyproj builds from the specs (odc.geo.crs.CRS is not involved, no history)."""
    import pyproj
    key = (repr(sa), repr(sb))
    if key not in _REF:
        _REF[key] = bool(pyproj.CRS.from_user_input(sa) == pyproj.CRS.from_user_input(sb))
    return _REF[key]


def tag_differs(T, a, b):
    """do the two tags denote different CRSs - judged by the pyproj reference, not by CRS.__ne__"""
    if a is None or b is None:
        return not (a is None and b is None)
    S = tag_specs()
    return not ref_equal(S[a], S[b])


def real_differs(T, a, b):
    """Python's a != b on Optional[CRS], evaluated on the real odc.geo objects"""
    return bool(crs_obj(T, a) != crs_obj(T, b))


# ---------------------------------------------------------------- CRS equality under construction / inspection histories
# PROJ strings without a datum (or with another axis order): CRS.to_epsg() *identifies* many of them
# with an EPSG code although pyproj says the two CRSs differ; which ones is discovered at run time.
PROJ_CANDIDATES = [
    "+proj=aea +lat_0=0 +lon_0=132 +lat_1=-18 +lat_2=-36 +x_0=0 +y_0=0 +ellps=GRS80 +units=m +no_defs",
    "+proj=aea +lat_0=23 +lon_0=-96 +lat_1=29.5 +lat_2=45.5 +x_0=0 +y_0=0 +ellps=GRS80 +units=m +no_defs",
    "+proj=longlat +datum=WGS84 +no_defs",
    "+proj=longlat +ellps=GRS80 +no_defs",
    "+proj=utm +zone=55 +south +ellps=GRS80 +units=m +no_defs",
    "+proj=utm +zone=33 +ellps=WGS84 +units=m +no_defs",
    "+proj=utm +zone=33 +datum=WGS84 +units=m +no_defs",
    "+proj=merc +a=6378137 +b=6378137 +lat_ts=0 +lon_0=0 +x_0=0 +y_0=0 +k=1 +units=m +nadgrids=@null +wktext +no_defs",
    "+proj=laea +lat_0=52 +lon_0=10 +x_0=4321000 +y_0=3210000 +ellps=GRS80 +units=m +no_defs",
    "+proj=lcc +lat_0=46.5 +lon_0=3 +lat_1=49 +lat_2=44 +x_0=700000 +y_0=6600000 +ellps=GRS80 +units=m +no_defs",
    "+proj=tmerc +lat_0=49 +lon_0=-2 +k=0.9996012717 +x_0=400000 +y_0=-100000 +ellps=airy +units=m +no_defs",
    "+proj=stere +lat_0=-90 +lat_ts=-71 +lon_0=0 +x_0=0 +y_0=0 +ellps=WGS84 +units=m +no_defs",
    "+proj=sinu +lon_0=0 +x_0=0 +y_0=0 +R=6371007.181 +units=m +no_defs",
]
# quick tier: approximate (9473, 4326 axis order, 32633 without datum), exact (32633, 3857) and unidentified (sinusoidal)
QUICK_CANDIDATES = [0, 2, 5, 6, 7, 12]
ROUTES = ["str", "pyproj-object", "wkt"]
HISTORIES = ["fresh", "epsg", "to_epsg", "authority", "hash+str", "pickle", "epsg+pickle", "pickle+epsg", "epsg+copy", "transformer"]


def build_crs(spec, route="str", history="fresh"):
    """construct an odc.geo CRS from `spec` along `route`, then let `history` happen to it"""
    import pickle

    import pyproj
    from odc.geo import CRS
    if route == "pyproj-object":
        c = CRS(pyproj.CRS.from_user_input(spec))
    elif route == "wkt":
        c = CRS(pyproj.CRS.from_user_input(spec).to_wkt())
    else:
        c = CRS(spec)
    for step in history.split("+"):
        if step == "epsg":
            _ = c.epsg
        elif step == "to_epsg":
            c.to_epsg()
        elif step == "authority":
            _ = c.authority
        elif step == "hash":
            hash(c)
        elif step == "str":
            str(c), repr(c)
        elif step == "pickle":
            c = pickle.loads(pickle.dumps(c))
        elif step == "copy":
            c = CRS(c)
        elif step == "transformer":
            c.transformer_to_crs(CRS("EPSG:4326"))
    return c


_HPAIRS: dict = {}


def history_pairs(tier="quick"):
    """(spec, other spec, kind) discovered with pyproj alone: each PROJ candidate against the spellings
    of the EPSG code pyproj identifies it with (kind 'approx' when pyproj says they differ, 'exact'
    when equal) and against its own WKT (kind 'self')."""
    import pyproj
    if tier in _HPAIRS:
        return _HPAIRS[tier]
    out = []
    for i, s in enumerate(PROJ_CANDIDATES):
        if tier == "quick" and i not in QUICK_CANDIDATES:
            continue
        p = pyproj.CRS.from_user_input(s)
        out.append((s, p.to_wkt(), "self"))
        code = p.to_epsg()
        if code is None:
            continue
        for other in (f"EPSG:{code}", code, pyproj.CRS.from_epsg(code).to_wkt()):
            out.append((s, other, "exact" if ref_equal(s, other) else "approx"))
    _HPAIRS[tier] = out
    return out


def p_history(spec_a, route_a, hist_a, spec_b, hist_b):
    """CRS built from spec_a (along route_a, after hist_a) against CRS built from spec_b (after hist_b):
    `==`/`!=` and every kind of combining operation must follow the pyproj reference - operands whose
    CRSs differ raise ValueError, equal ones give shapely's answer tagged with the first operand's CRS -
    whatever was read from / done to the CRS objects before."""
    from odc.geo import geom as og
    from odc.geo.geom import BoundingBox, Geometry
    from shapely import geometry as sg
    from shapely import ops as sops
    same = ref_equal(spec_a, spec_b)
    A = build_crs(spec_a, route_a, hist_a)
    B = build_crs(spec_b, "str", hist_b)
    bad = []
    if bool(A == B) != same or bool(B == A) != same or bool(A != B) == same:
        bad.append(f"A == B is {A == B}, B == A is {B == A}, A != B is {A != B}")
    sa, sb, ln = sg.box(0, 0, 10, 10), sg.box(5, 5, 20, 20), sg.LineString([(-1, 5), (30, 5)])
    for X, Y, tagxy in ((A, B, "a,b"), (B, A, "b,a")):
        ga, gb_, gl = Geometry(sa, X), Geometry(sb, Y), Geometry(ln, Y)
        ba, bb = BoundingBox(0, 0, 10, 10, X), BoundingBox(5, 5, 20, 20, Y)
        G1, G2 = mk_gbox((4, 5), (0, 0), X), mk_gbox((3, 3), (2, -1), Y)
        ops = [
            ("intersects", lambda: ga.intersects(gb_), lambda v: v == sa.intersects(sb)),
            ("&", lambda: ga & gb_, lambda v: v.geom.wkb == (sa & sb).wkb and v.crs is X),
            ("union", lambda: ga.union(gb_), lambda v: v.geom.wkb == sa.union(sb).wkb and v.crs is X),
            ("split", lambda: list(ga.split(gl)), lambda v: [g.geom.wkb for g in v] == [g.wkb for g in sops.split(sa, ln).geoms]),
            ("multigeom", lambda: og.multigeom([ga, gb_]), lambda v: v.crs is X),
            ("unary_union", lambda: og.unary_union([ga, gb_]), lambda v: v.geom.wkb == sops.unary_union([sa, sb]).wkb and v.crs is X),
            ("unary_intersection", lambda: og.unary_intersection([ga, gb_]), lambda v: v.geom.wkb == sa.intersection(sb).wkb),
            ("bbox_union", lambda: og.bbox_union([ba, bb]), lambda v: v.bbox == (0, 0, 20, 20) and v.crs is X),
            ("bbox &", lambda: ba & bb, lambda v: v.bbox == (5, 5, 10, 10) and v.crs is X),
            ("GeoBox |", lambda: G1 | G2, lambda v: v.crs is X),
            ("GeoBox.overlap_roi", lambda: G1.overlap_roi(G2), lambda v: True),
            ("GeoBox.overlap_roi same affine", lambda: G1.overlap_roi(mk_gbox((2, 7), (0, 0), Y)), lambda v: True),
            ("GeoBox & same affine", lambda: G1 & mk_gbox((2, 7), (0, 0), Y), lambda v: v.crs is X),
        ]
        for name, fn, good in ops:
            try:
                v = fn()
            except ValueError:
                if same:
                    bad.append(f"{name}({tagxy}) raised ValueError although pyproj says the CRSs are equal")
                continue
            except Exception as e:
                bad.append(f"{name}({tagxy}) raised {type(e).__name__}: {e}")
                continue
            if not same:
                bad.append(f"{name}({tagxy}) returned {core.short(v, 120)} although pyproj says the CRSs differ")
            elif not good(v):
                bad.append(f"{name}({tagxy}) returned {core.short(v, 120)}: not shapely's answer tagged with the first CRS")
    head = f"a = CRS({core.short(spec_a, 70)}) via {route_a} after [{hist_a}], b = CRS({core.short(spec_b, 40)}) after [{hist_b}], pyproj reference: {'equal' if same else 'different'}: "
    return (not bad), head + "; ".join(bad[:6])


def shapes():
    from shapely import geometry as sg
    sq = lambda x, y, s: [(x, y), (x + s, y), (x + s, y + s), (x, y + s), (x, y)]
    return {
        "point": sg.Point(1, 1),
        "point-out": sg.Point(40, 40),
        "line": sg.LineString([(-1, 1.5), (6, 1.5)]),
        "line-diag": sg.LineString([(0, 0), (3, 3)]),
        "line-far": sg.LineString([(500000, 0), (500000, 9000000)]),
        "ring": sg.LinearRing([(0, 0), (2, 0), (2, 2), (0, 0)]),
        "polygon": sg.Polygon(sq(0, 0, 4)),
        "polygon-far": sg.Polygon(sq(10, 10, 2)),
        "polygon-overlap": sg.Polygon(sq(2, 2, 4)),
        "polygon-hole": sg.Polygon(sq(0, 0, 6), [sq(1, 1, 1)]),
        "multipoint": sg.MultiPoint([(1, 1), (5, 5)]),
        "multiline": sg.MultiLineString([[(0, 1), (5, 1)], [(1, -1), (1, 5)]]),
        "multipolygon": sg.MultiPolygon([sg.Polygon(sq(0, 0, 1)), sg.Polygon(sq(3, 3, 2))]),
        "collection": sg.GeometryCollection([sg.Point(1, 1), sg.LineString([(0, 0), (2, 2)])]),
        "empty": sg.Polygon(),
    }


class Intern:
    def __init__(self):
        self.d = {}

    def geom(self, g):
        return self.d.setdefault(("g", g.wkb_hex), len(self.d) + 1000)

    def raw(self, v):
        if isinstance(v, (bool,)) or type(v).__name__ in ("bool_", "bool"):
            return 1 if bool(v) else 0
        return self.d.setdefault(("r", repr(v)), len(self.d) + 1000)

    def raised(self, e):
        return -100 - self.d.setdefault(("e", type(e).__name__), len(self.d))


def is_geom(v):
    from shapely.geometry import base
    return isinstance(v, base.BaseGeometry)


def raw_call(I, fn):
    """call shapely on raw shapes: returns ('inl'|'inr', id, exception type or None)"""
    try:
        v = fn()
    except Exception as e:  # shapely's own errors pass through the wrapper unchanged
        return "inr", I.raised(e), type(e)
    if is_geom(v):
        return "inl", I.geom(v), None
    return "inr", I.raw(v), None


def csum(kind, i):
    return f"({kind} {cz(i)})"


def cmat(m):
    return "[" + "; ".join("[" + "; ".join(cbool(x) for x in row) + "]" for row in m) + "]"


def cgz(gid, t):
    return f"(mkGeom {cz(gid)} {copt(t, cz)})"


def err_text(e):
    from odc.geo.crs import CRSMismatchError
    if isinstance(e, CRSMismatchError):
        return "(Err ECrs)", "CRSMismatchError"
    if isinstance(e, ValueError):
        return "(Err EValue)", "ValueError"
    return "(Err EOther)", type(e).__name__


def tag_index(crs, A, ta, B=None, tb=None):
    if crs is A:
        return ta
    if B is not None and crs is B:
        return tb
    return -9 if crs is not None else None


def binary_callable(name):
    ops = {"__and__": operator.and_, "__or__": operator.or_, "__xor__": operator.xor, "__sub__": operator.sub}
    if name in ops:
        return ops[name]
    return lambda a, b: getattr(a, name)(b)


# ---------------------------------------------------------------- geobox helpers (exact integer-shift family)
def mk_gbox(shape, k, crs):
    from affine import Affine
    from odc.geo.geobox import GeoBox
    return GeoBox(shape, Affine(8.0, 0.0, 1000.0, 0.0, -8.0, -2048.0) * Affine.translation(*k), crs)


def cgb_real(G, t):
    a = [F(x) for x in G.affine[:6]]
    return f"(mkGB {cz(G.shape.y)} {cz(G.shape.x)} (mkAff {' '.join(cq(x) for x in a)}) {copt(t, cz)})"


# ---------------------------------------------------------------- correspondence
def gen_cases(out, tier):
    from odc.geo import geom as og
    from odc.geo.geobox import (bounding_box_in_pixel_domain, geobox_intersection_conservative,
                                geobox_union_conservative, pixel_translation)
    from odc.geo.geom import BoundingBox, Geometry
    from shapely import ops as sops

    rng = core.rng("c01")
    T = tags()
    M = cmat(eq_matrix(T))
    S = shapes()
    kinds = sorted(S)
    I = Intern()
    cases, notes = [], []
    decorated, _ = static_scan()
    wrapped_now = sorted(set(WRAPPED) | set(decorated))

    def add(kind, text, canon, nontrivial=True, sample=None):
        cases.append(text)
        notes.append(canon)
        out.count(kind)
        out.case((kind, json.dumps(canon, default=str)), nontrivial, sample)

    def G(kind, t):
        return Geometry(S[kind], crs_obj(T, t))

    pairs = list(itertools.product(TAG_IDS, TAG_IDS))
    # ---- the wrapped binary methods: op x ordered tag pair x kind pairs
    n_kp = 5 if tier == "quick" else 60
    all_kp = list(itertools.product(kinds, kinds))
    for name in wrapped_now:
        call = binary_callable(name)
        for ta, tb in pairs:
            kps = all_kp if n_kp >= len(all_kp) else rng.sample(all_kp, n_kp)
            for ka, kb in kps:
                A, B = G(ka, ta), G(kb, tb)
                side, rid, exc = raw_call(I, lambda: call(S[ka], S[kb]))
                table = f"[(({cz(I.geom(S[ka]))}, {cz(I.geom(S[kb]))}), {csum(side, rid)})]"
                try:
                    v = call(A, B)
                    if isinstance(v, Geometry):
                        exp = f"(Ok (WGeom {cgz(I.geom(v.geom), tag_index(v.crs, A.crs, ta, B.crs, tb))}))"
                        k = "geometry"
                    else:
                        exp, k = f"(Ok (WRaw {cz(I.raw(v))}))", "raw:" + type(v).__name__
                except Exception as e:
                    if exc is not None and type(e) is exc:
                        exp, k = f"(Ok (WRaw {cz(rid)}))", "shapely-raised"
                    else:
                        exp, k = err_text(e)
                add(f"wrapped:{name}:{k}", f"CBin {M} {table} {cgz(I.geom(S[ka]), ta)} {cgz(I.geom(S[kb]), tb)} {exp}",
                    (name, ta, tb, ka, kb), True,
                    {"op": name, "tags": [ta, tb], "kinds": [ka, kb], "result": exp} if len(out.samples) < 3 else None)
        # (tag pair classes are exhaustive; kind pairs sampled in quick tier)
    # ---- module-level intersects
    for ta, tb in pairs:
        for ka, kb in rng.sample(all_kp, 4 if tier == "quick" else 40):
            A, B = G(ka, ta), G(kb, tb)
            s1, r1, e1 = raw_call(I, lambda: S[ka].intersects(S[kb]))
            s2, r2, e2 = raw_call(I, lambda: S[ka].touches(S[kb]))
            if e1 or e2:
                continue
            key = f"(({cz(I.geom(S[ka]))}, {cz(I.geom(S[kb]))})"
            try:
                exp, k = f"(Ok {cbool(bool(og.intersects(A, B)))})", "ok"
            except Exception as e:
                exp, k = err_text(e)
            add(f"intersects-fn:{k}", f"CIntersects {M} [{key}, {csum(s1, r1)})] [{key}, {csum(s2, r2)})] "
                f"{cgz(I.geom(S[ka]), ta)} {cgz(I.geom(S[kb]), tb)} {exp}", ("intersects", ta, tb, ka, kb))
    # ---- split
    for ta, tb in pairs:
        for ka, kb in [("polygon", "line"), ("polygon-hole", "line"), ("line-diag", "point"), ("multipolygon", "line"),
                       ("polygon", "line-diag")]:
            A, B = G(ka, ta), G(kb, tb)
            try:
                parts = list(sops.split(S[ka], S[kb]).geoms)
            except Exception:
                continue
            tab = f"[(({cz(I.geom(S[ka]))}, {cz(I.geom(S[kb]))}), {clist([I.geom(p) for p in parts])})]"
            try:
                v = list(A.split(B))
                exp = "(Ok [" + "; ".join(cgz(I.geom(p.geom), tag_index(p.crs, A.crs, ta)) for p in v) + "])"
                k = "ok"
            except Exception as e:
                exp, k = err_text(e)
            add(f"split:{k}", f"CSplit {M} {tab} {cgz(I.geom(S[ka]), ta)} {cgz(I.geom(S[kb]), tb)} {exp}",
                ("split", ta, tb, ka, kb))
    # ---- n-ary folds
    def tag_lists():
        yield []
        for t in TAG_IDS:
            yield [t]
        for n in (2, 3, 4, 5):
            for base in ([0, 2, 3], [None], [1]):
                same = [base[i % len(base)] for i in range(n)]
                yield same
                for pos in range(n):          # exactly one odd element at every position
                    for odd in (1, None, 0):
                        if odd in base:
                            continue
                        l = list(same)
                        l[pos] = odd
                        yield l
        for _ in range(20 if tier == "quick" else 300):
            yield [rng.choice(TAG_IDS) for _ in range(rng.randint(2, 6))]
        for _ in range(30 if tier == "quick" else 300):    # equal CRSs in mixed spellings
            yield [rng.choice([0, 2, 3]) for _ in range(rng.randint(2, 6))]

    poly_kinds = ["polygon", "polygon-overlap", "polygon-hole", "multipolygon", "polygon-far"]
    for tl in tag_lists():
        ks = [rng.choice(poly_kinds) for _ in tl]
        if rng.random() < 0.3:
            ks = [rng.choice(kinds) for _ in tl]
        geoms = [G(k, t) for k, t in zip(ks, tl)]
        raw = [S[k] for k in ks]
        ids = [I.geom(r) for r in raw]
        cg = "[" + "; ".join(cgz(i, t) for i, t in zip(ids, tl)) + "]"
        canon = (tl, ks)
        # common_crs
        try:
            c = og.common_crs(iter(geoms))
            exp, k = f"(Ok {copt(None if c is None else next(t for g, t in zip(geoms, tl) if g.crs is c), cz)})", "ok"
        except Exception as e:
            exp, k = err_text(e)
        add(f"common_crs:n={len(tl)}:{k}", f"CCommon {M} {cg} {exp}", ("common_crs",) + canon, len(tl) > 0)
        # multigeom
        try:
            rid = I.geom(og._multigeom(list(raw))) if raw else None
        except Exception:
            rid = None
        if raw and rid is not None:
            try:
                v = og.multigeom(iter(geoms))
                exp, k = f"(Ok {cgz(I.geom(v.geom), tag_index(v.crs, geoms[0].crs, tl[0]))})", "ok"
            except Exception as e:
                exp, k = err_text(e)
            add(f"multigeom:n={len(tl)}:{k}", f"CMulti {M} [({clist(ids)}, {cz(rid)})] {cg} {exp}", ("multigeom",) + canon)
        # unary_union
        rid = I.geom(sops.unary_union(list(raw))) if raw else -1
        try:
            v = og.unary_union(iter(geoms))
            exp = "(Ok None)" if v is None else f"(Ok (Some {cgz(I.geom(v.geom), tag_index(v.crs, geoms[0].crs, tl[0]))}))"
            k = "ok"
        except Exception as e:
            exp, k = err_text(e)
        add(f"unary_union:n={len(tl)}:{k}", f"CUUnion {M} [({clist(ids)}, {cz(rid)})] {cg} {exp}", ("unary_union",) + canon,
            len(tl) > 0)
        # unary_intersection (left fold of the raw intersection)
        if raw:
            tab, acc, ok_raw = [], raw[0], True
            for r in raw[1:]:
                try:
                    nxt = acc.intersection(r)
                except Exception:
                    ok_raw = False
                    break
                tab.append(f"(({cz(I.geom(acc))}, {cz(I.geom(r))}), (inl {cz(I.geom(nxt))}))")
                acc = nxt
            if ok_raw:
                try:
                    v = og.unary_intersection(iter(geoms))
                    exp, k = f"(Ok {cgz(I.geom(v.geom), tag_index(v.crs, geoms[0].crs, tl[0]))})", "ok"
                except Exception as e:
                    exp, k = err_text(e)
                add(f"unary_intersection:n={len(tl)}:{k}", f"CUInter {M} [{'; '.join(tab)}] {cg} {exp}",
                    ("unary_intersection",) + canon)
        else:
            try:
                og.unary_intersection(iter([]))
                exp = "(Ok (mkGeom 0 None))"
            except Exception as e:
                exp, _ = err_text(e)
            add("unary_intersection:n=0:TypeError", f"CUInter {M} [] [] {exp}", ("unary_intersection", [], []), False)
        # bbox_union / bbox_intersection and the operators
        boxes = [BoundingBox(*r.bounds, crs_obj(T, t)) if not r.is_empty else BoundingBox(0.0, 0.0, 1.0, 1.0, crs_obj(T, t))
                 for r, t in zip(raw, tl)]
        cb = "[" + "; ".join(f"(mkBB {cq(F(b.left))} {cq(F(b.bottom))} {cq(F(b.right))} {cq(F(b.top))} {copt(t, cz)})"
                             for b, t in zip(boxes, tl)) + "]"
        variants = [("bbox_union", lambda: og.bbox_union(iter(boxes)), "CBoxU"),
                    ("bbox_intersection", lambda: og.bbox_intersection(iter(boxes)), "CBoxI")]
        if len(boxes) == 2:
            variants += [("BoundingBox.__or__", lambda: boxes[0] | boxes[1], "CBoxU"),
                         ("BoundingBox.__and__", lambda: boxes[0] & boxes[1], "CBoxI")]
        for nm, fn, ctor in variants:
            try:
                v = fn()
                exp = (f"(Ok (mkBB {cq(F(v.left))} {cq(F(v.bottom))} {cq(F(v.right))} {cq(F(v.top))} "
                       f"{copt(tag_index(v.crs, boxes[0].crs, tl[0]), cz)}))")
                k = "ok"
            except Exception as e:
                exp, k = err_text(e)
            add(f"{nm}:n={len(tl)}:{k}", f"{ctor} {M} {cb} {exp}", (nm,) + canon, len(tl) > 0)
        # GeoBox streams
        if tl:
            shifts = [(rng.randint(-6, 6), rng.randint(-6, 6)) for _ in tl]
            gbs = [mk_gbox((rng.randint(1, 6), rng.randint(1, 6)), k, crs_obj(T, t)) for k, t in zip(shifts, tl)]
            cgs = "[" + "; ".join(cgb_real(g, t) for g, t in zip(gbs, tl)) + "]"
            gvars = [("geobox_union_conservative", lambda: geobox_union_conservative(gbs), "CGUnion"),
                     ("geobox_intersection_conservative", lambda: geobox_intersection_conservative(gbs), "CGInter")]
            if len(gbs) == 2:
                gvars += [("GeoBox.__or__", lambda: gbs[0] | gbs[1], "CGUnion"), ("GeoBox.__and__", lambda: gbs[0] & gbs[1], "CGInter")]
            for nm, fn, ctor in gvars:
                try:
                    v = fn()
                    exp, k = f"(Ok {cgb_real(v, tag_index(v.crs, gbs[0].crs, tl[0]))})", "ok"
                except Exception as e:
                    exp, k = err_text(e)
                add(f"{nm}:n={len(tl)}:{k}", f"{ctor} {M} {cgs} {exp}", (nm, tl, shifts))
    # ---- GeoBox pairs: every ordered tag pair
    for ta, tb in pairs:
        for rep in range(2 if tier == "quick" else 10):
            A = mk_gbox((rng.randint(1, 6), rng.randint(1, 6)), (rng.randint(-5, 5), rng.randint(-5, 5)), crs_obj(T, ta))
            B = mk_gbox((rng.randint(1, 6), rng.randint(1, 6)), (rng.randint(-5, 5), rng.randint(-5, 5)), crs_obj(T, tb))
            ca, cb_ = cgb_real(A, ta), cgb_real(B, tb)
            for nm, fn, ctor, fmt in [
                ("pixel_translation", lambda: pixel_translation(A, B), "CGPix", lambda v: ctuple(cq(F(v.x)), cq(F(v.y)))),
                ("bounding_box_in_pixel_domain", lambda: bounding_box_in_pixel_domain(A, B), "CGBip",
                 lambda v: f"(mkBB {cz(v.left)} {cz(v.bottom)} {cz(v.right)} {cz(v.top)} {copt(None if v.crs is None else -9, cz)})"),
                ("GeoBox.overlap_roi", lambda: A.overlap_roi(B), "CGOverlap",
                 lambda v: ctuple(ctuple(cz(v[0].start), cz(v[0].stop)), ctuple(cz(v[1].start), cz(v[1].stop)))),
                ("GeoBox.snap_to", lambda: A.snap_to(B), "CGSnap", lambda v: cgb_real(v, tag_index(v.crs, A.crs, ta))),
            ]:
                try:
                    exp, k = f"(Ok {fmt(fn())})", "ok"
                except Exception as e:
                    exp, k = err_text(e)
                add(f"{nm}:{k}", f"{ctor} {M} {ca} {cb_} {exp}", (nm, ta, tb, rep))
    return cases, notes


# ---------------------------------------------------------------- the property, directly on the implementation
def p_pair(name, ta, tb, ka, kb):
    """wrapped binary method `name` on kinds (ka, kb) with tags (ta, tb)"""
    from odc.geo.crs import CRSMismatchError
    from odc.geo.geom import Geometry
    T, S = tags(), shapes()
    A, B = Geometry(S[ka], crs_obj(T, ta)), Geometry(S[kb], crs_obj(T, tb))
    call = binary_callable(name)
    differ = tag_differs(T, ta, tb)
    try:
        want = call(S[ka], S[kb])
        want_exc = None
    except Exception as e:
        want, want_exc = None, type(e)
    try:
        got = call(A, B)
    except CRSMismatchError:
        return differ, "" if differ else f"CRSMismatchError although the CRSs are equal ({TAG_NAMES_(ta)}, {TAG_NAMES_(tb)})"
    except Exception as e:
        if differ:
            return False, f"raised {type(e).__name__} instead of CRSMismatchError"
        return (want_exc is not None and type(e) is want_exc), f"raised {type(e).__name__}: {e}"
    if differ:
        return False, f"returned {got!r} for operands in different CRSs ({TAG_NAMES_(ta)} vs {TAG_NAMES_(tb)})"
    if want_exc is not None:
        return False, f"shapely raises {want_exc.__name__} on the raw shapes but the wrapper returned {got!r}"
    if is_geom(want):
        ok = isinstance(got, Geometry) and got.geom.wkb == want.wkb and got.crs is A.crs
    else:
        ok = (not isinstance(got, Geometry)) and got == want
    return ok, f"returned {got!r}; shapely on the raw shapes gives {want!r}, CRS should be {A.crs!r}"


def TAG_NAMES_(t):
    return "None" if t is None else TAG_NAMES[t]


def p_nary(fname, tl, ks):
    """n-ary operation `fname` on geometries of kinds ks with tags tl: Err iff some element differs from the first"""
    from odc.geo import geom as og
    from odc.geo.crs import CRSMismatchError
    from odc.geo.geom import BoundingBox, Geometry
    from shapely import ops as sops
    T, S = tags(), shapes()
    raw = [S[k] for k in ks]
    geoms = [Geometry(r, crs_obj(T, t)) for r, t in zip(raw, tl)]
    boxes = [BoundingBox(*(r.bounds if not r.is_empty else (0, 0, 1, 1)), crs_obj(T, t)) for r, t in zip(raw, tl)]
    differ = any(tag_differs(T, tl[0], t) or tag_differs(T, t, tl[0]) for t in tl[1:])
    fns = {
        "unary_union": (lambda: og.unary_union(iter(geoms)), lambda: sops.unary_union(raw)),
        "unary_intersection": (lambda: og.unary_intersection(iter(geoms)),
                               lambda: __import__("functools").reduce(lambda a, b: a.intersection(b), raw)),
        "multigeom": (lambda: og.multigeom(iter(geoms)), lambda: og._multigeom(list(raw))),
        "common_crs": (lambda: og.common_crs(iter(geoms)), None),
        "bbox_union": (lambda: og.bbox_union(iter(boxes)), None),
        "bbox_intersection": (lambda: og.bbox_intersection(iter(boxes)), None),
    }
    fn, rawfn = fns[fname]
    try:
        got = fn()
    except CRSMismatchError:
        return differ, "" if differ else "CRSMismatchError although all CRSs are equal"
    except Exception as e:
        return False, f"raised {type(e).__name__}: {e}"
    if differ:
        return False, f"returned {got!r} for a list containing a CRS mismatch (tags {[TAG_NAMES_(t) for t in tl]})"
    first = geoms[0].crs
    if fname == "common_crs":
        return got is first, f"returned {got!r}"
    if fname.startswith("bbox"):
        xs = [b.bbox for b in boxes]
        if fname == "bbox_union":
            want = (min(x[0] for x in xs), min(x[1] for x in xs), max(x[2] for x in xs), max(x[3] for x in xs))
        else:
            want = (max(x[0] for x in xs), max(x[1] for x in xs), min(x[2] for x in xs), min(x[3] for x in xs))
        return got.bbox == want and got.crs is first, f"returned {got!r}, want {want}"
    want = rawfn()
    return got.geom.wkb == want.wkb and got.crs is first, f"returned {got!r}; shapely gives {want.wkt[:80]}"


def p_geobox(opname, ta, tb, shift=(2, -1), shape_b=(3, 3)):
    """GeoBox pair operations: different CRS -> ValueError; equal -> succeeds, tagged like the first operand.
    `shift` = pixel shift of the second box ((0, 0): IDENTICAL affine), `shape_b` its shape."""
    from odc.geo.geobox import (bounding_box_in_pixel_domain, geobox_intersection_conservative,
                                geobox_union_conservative, pixel_translation)
    T = tags()
    A = mk_gbox((4, 5), (0, 0), crs_obj(T, ta))
    B = mk_gbox(tuple(shape_b), tuple(shift), crs_obj(T, tb))
    ops = {"or": lambda: A | B, "and": lambda: A & B, "overlap_roi": lambda: A.overlap_roi(B), "snap_to": lambda: A.snap_to(B),
           "pixel_translation": lambda: pixel_translation(A, B), "bounding_box_in_pixel_domain": lambda: bounding_box_in_pixel_domain(A, B),
           "union3": lambda: geobox_union_conservative([A, A, B]), "intersection3": lambda: geobox_intersection_conservative([A, A, B])}
    differ = tag_differs(T, ta, tb) or tag_differs(T, tb, ta)
    try:
        got = ops[opname]()
    except ValueError:
        return differ, "" if differ else "ValueError although the CRSs are equal"
    except Exception as e:
        return False, f"raised {type(e).__name__}: {e}"
    if differ:
        return False, f"returned {got!r} for GeoBoxes in different CRSs ({TAG_NAMES_(ta)} vs {TAG_NAMES_(tb)})"
    if hasattr(got, "crs") and opname in ("or", "and", "snap_to", "union3", "intersection3"):
        return got.crs is A.crs, f"result CRS {got.crs!r}"
    return True, ""


def p_geobox_list(opname, tl, rois, shifts):
    """GeoBox operations on a list of operands that may be EMPTY (zero rows / zero columns): operand i is
    `mk_gbox((8, 8), shifts[i], tag tl[i])[r0:r1, c0:c1]` with rois[i] = [r0, r1, c0, c1].  Some operand's CRS differs
    from the first one's -> ValueError, whatever is empty; otherwise the result is tagged like the first operand."""
    from odc.geo.geobox import (bounding_box_in_pixel_domain, geobox_intersection_conservative,
                                geobox_union_conservative, pixel_translation)
    T = tags()
    gs = []
    for t, roi, k in zip(tl, rois, shifts):
        r0, r1, c0, c1 = roi
        gs.append(mk_gbox((8, 8), tuple(k), crs_obj(T, t))[r0:r1, c0:c1])
    A, B = gs[0], gs[1]
    ops = {"union": lambda: geobox_union_conservative(list(gs)), "intersection": lambda: geobox_intersection_conservative(list(gs)),
           "or": lambda: A | B, "and": lambda: A & B, "ror": lambda: B | A, "rand": lambda: B & A,
           "overlap_roi": lambda: A.overlap_roi(B), "snap_to": lambda: A.snap_to(B),
           "pixel_translation": lambda: pixel_translation(A, B), "bounding_box_in_pixel_domain": lambda: bounding_box_in_pixel_domain(A, B),
           "or-chain": lambda: (A | B) | gs[-1], "and-chain": lambda: (A & B) & gs[-1], "or-of-and": lambda: (A & B) | gs[-1]}
    used = tl if opname in ("union", "intersection", "or-chain", "and-chain", "or-of-and") else tl[:2]
    differ = any(tag_differs(T, a, b) for a in used for b in used)
    first = B if opname in ("ror", "rand") else A
    shapes_txt = [tuple(g.shape) for g in gs]
    try:
        got = ops[opname]()
    except ValueError:
        return differ, "" if differ else f"ValueError although the CRSs are equal (shapes {shapes_txt})"
    except Exception as e:
        return False, f"raised {type(e).__name__}: {e}"
    if differ:
        return False, (f"returned {got!r} for GeoBoxes in different CRSs (tags {[TAG_NAMES_(t) for t in tl]}, shapes {shapes_txt}; "
                       f"an empty operand still carries its CRS)")
    from odc.geo.geobox import GeoBox
    if isinstance(got, GeoBox):
        return got.crs is first.crs, f"result CRS {got.crs!r} is not the first operand's {first.crs!r}"
    return True, ""


def p_bbox_ops(opname, ta, tb, box_a, box_b):
    """BoundingBox `|` / `&` operators and the function forms on two boxes (also zero width / height and inverted ones):
    tags differ -> CRSMismatchError; otherwise the min/max box tagged with the first operand's CRS."""
    from odc.geo.crs import CRSMismatchError
    from odc.geo.geom import BoundingBox, bbox_intersection, bbox_union
    T = tags()
    A, B = BoundingBox(*box_a, crs_obj(T, ta)), BoundingBox(*box_b, crs_obj(T, tb))
    ops = {"or": lambda: A | B, "and": lambda: A & B, "bbox_union": lambda: bbox_union([A, B]), "bbox_intersection": lambda: bbox_intersection(iter([A, B])),
           "bbox_union3": lambda: bbox_union([A, A, B]), "bbox_intersection3": lambda: bbox_intersection([A, B, A])}
    differ = tag_differs(T, ta, tb) or tag_differs(T, tb, ta)
    try:
        got = ops[opname]()
    except CRSMismatchError:
        return differ, "" if differ else "CRSMismatchError although the CRSs are equal"
    except Exception as e:
        return False, f"raised {type(e).__name__}: {e}"
    if differ:
        return False, f"returned {got!r} for boxes in different CRSs ({TAG_NAMES_(ta)} vs {TAG_NAMES_(tb)})"
    a, b = tuple(box_a), tuple(box_b)
    if opname in ("or", "bbox_union", "bbox_union3"):
        want = (min(a[0], b[0]), min(a[1], b[1]), max(a[2], b[2]), max(a[3], b[3]))
    else:
        want = (max(a[0], b[0]), max(a[1], b[1]), min(a[2], b[2]), min(a[3], b[3]))
    return tuple(got.bbox) == want and got.crs is A.crs, f"returned {got!r}, want {want} tagged {A.crs!r}"


def p_intersects_fn(ta, tb, ka, kb):
    """module-level odc.geo.geom.intersects(a, b) ("intersects and not merely touches"): operands in different CRSs ->
    CRSMismatchError; otherwise shapely's `intersects and not touches` on the raw shapes"""
    from odc.geo import geom as og
    from odc.geo.crs import CRSMismatchError
    from odc.geo.geom import Geometry
    T, S = tags(), shapes()
    A, B = Geometry(S[ka], crs_obj(T, ta)), Geometry(S[kb], crs_obj(T, tb))
    differ = tag_differs(T, ta, tb) or tag_differs(T, tb, ta)
    try:
        got = og.intersects(A, B)
    except CRSMismatchError:
        return differ, "" if differ else "CRSMismatchError although the CRSs are equal"
    except Exception as e:
        return False, f"raised {type(e).__name__}: {e}"
    if differ:
        return False, f"returned {got!r} for geometries in different CRSs ({TAG_NAMES_(ta)} vs {TAG_NAMES_(tb)})"
    want = bool(S[ka].intersects(S[kb]) and not S[ka].touches(S[kb]))
    return bool(got) == want, f"returned {got!r}; shapely's intersects-and-not-touches on the raw shapes is {want}"


def p_split(ta, tb, ka="polygon", kb="line"):
    from odc.geo.crs import CRSMismatchError
    from odc.geo.geom import Geometry
    from shapely import ops as sops
    T, S = tags(), shapes()
    A, B = Geometry(S[ka], crs_obj(T, ta)), Geometry(S[kb], crs_obj(T, tb))
    differ = tag_differs(T, tb, ta)
    try:
        res = A.split(B)          # the CALL must raise, not only the first iteration of what it returns
    except CRSMismatchError:
        return differ, "" if differ else "CRSMismatchError although the CRSs are equal"
    try:
        got = list(res)
    except CRSMismatchError:
        if differ:
            return False, (f"split() returned {res!r} without raising for a splitter in a different CRS "
                           f"({TAG_NAMES_(tb)} vs {TAG_NAMES_(ta)}); the CRSMismatchError appears only when the result is iterated")
        return False, "CRSMismatchError although the CRSs are equal"
    if differ:
        return False, f"returned {got!r} for a splitter in a different CRS"
    try:
        want = list(sops.split(S[ka], S[kb]).geoms)
    except Exception:        # shapely itself refuses this geometry/splitter pair: only the CRS clause is judged
        return True, "raw split undefined"
    ok = [g.geom.wkb for g in got] == [w.wkb for w in want] and all(g.crs is A.crs for g in got)
    return ok, f"returned {got!r}"


def build_operand(ann, crs):
    """a value of the annotated CRS-tagged type carrying `crs` (for calling unknown combining functions)"""
    from odc.geo.geom import BoundingBox, Geometry
    S = shapes()
    txt = ann or ""
    if "GeoBox" in txt:
        return mk_gbox((3, 3), (0, 0), crs)
    if "BoundingBox" in txt and "Geometry" not in txt:
        return BoundingBox(0.0, 0.0, 4.0, 4.0, crs)
    return Geometry(S["polygon"], crs)


def p_call_mixed(qual):
    """call the combining function `qual` (module.Class.name or module.name) on operands in two
    different CRSs (and on None vs a CRS): it must raise a ValueError."""
    import importlib
    from odc.geo import CRS
    _, candidates = static_scan()
    info = candidates.get(qual)
    if info is None:
        return True, f"{qual} is no longer a combining function"
    mod = importlib.import_module("odc.geo." + info["module"])
    bad = []
    for c1, c2 in [(CRS("EPSG:4326"), CRS("EPSG:3857")), (None, CRS("EPSG:4326")), (CRS("EPSG:3857"), None)]:
        args = []
        crss = itertools.cycle([c1, c2])
        if info["cls"] and not info["static"]:
            self_obj = build_operand(info["cls"], next(crss))
            target = getattr(self_obj, info["name"])
        else:
            target = getattr(getattr(mod, info["cls"]), info["name"]) if info["cls"] else getattr(mod, info["name"])
        for pname, ann in info["params"]:
            w = _ann_weight(ast.parse(ann, mode="eval").body) if ann else 0
            if w == 1 or (ann is None and info["name"] in BINARY_DUNDERS):
                args.append(build_operand(ann or info["cls"], next(crss)))
            elif w == 2:
                args.append([build_operand(ann, next(crss)), build_operand(ann, next(crss))])
            else:
                break   # remaining parameters: rely on defaults
        try:
            r = target(*args)
            if hasattr(r, "__next__"):
                r = list(r)
        except ValueError:
            continue
        except TypeError as e:
            return True, f"cannot call {qual} generically: {e}"
        except Exception as e:
            bad.append(f"({c1!r}, {c2!r}) raised {type(e).__name__}: {e}")
            continue
        bad.append(f"({c1!r}, {c2!r}) returned {r!r}")
    return (not bad), f"{qual} on operands in different CRSs: " + "; ".join(bad)


PREDICATES = {"pair": p_pair, "nary": p_nary, "geobox": p_geobox, "split": p_split, "call_mixed": p_call_mixed,
              "history": p_history, "geobox_list": p_geobox_list, "bbox_ops": p_bbox_ops,
              "intersects_fn": p_intersects_fn}


def search(out, tier, offenders, disagreeing=()):
    rng = core.rng("c01-search")
    found = set()

    def run(name, *args):
        try:
            ok, detail = PREDICATES[name](*args)
        except Exception as e:
            ok, detail = False, f"raised {type(e).__name__}: {e}"
        out.count("predicate:" + name)
        out.case(("pred", name, json.dumps(list(args), default=str)), True)
        key = f"c01:{name}:{args[0]}" if name in ("pair", "nary", "geobox", "call_mixed", "geobox_list", "bbox_ops") else f"c01:{name}"
        if name == "geobox" and len(args) > 3 and list(args[3]) == [0, 0]:
            key += ":same-affine"
        if name == "history":
            key = f"c01:history:{str(args[0])[:24]}"
        if not ok and key not in found:
            found.add(key)
            out.violation(key, f"{name}{list(args)}: {detail}", {"predicate": name, "args": list(args), "observed": detail})

    for rp in core.corpus(ID):
        run(rp["predicate"], *rp["args"])
    # inputs on which model and implementation disagreed: judge them with the property itself
    for name, args in disagreeing:
        run(name, *args)
    # functions that the static scan could not place: call them on a mixed pair
    for qual in offenders:
        run("call_mixed", qual)
    kinds = sorted(shapes())
    decorated, _ = static_scan()
    for name in sorted(set(WRAPPED) | set(decorated)):
        for ta, tb in itertools.product(TAG_IDS, TAG_IDS):
            for _ in range(2 if tier == "quick" else 12):
                run("pair", name, ta, tb, rng.choice(kinds), rng.choice(kinds))
    for ta, tb in itertools.product(TAG_IDS, TAG_IDS):
        # function forms (alternative entry points of the wrapped methods)
        for ka, kb in [("polygon", "polygon-overlap"), ("polygon", "polygon-far"), ("polygon", "line"),
                       (rng.choice(kinds), rng.choice(kinds))]:
            run("intersects_fn", ta, tb, ka, kb)
        run("split", ta, tb)
        # splitters that do not touch the geometry (the usual mixed-CRS situation), multi-part inputs
        for ka, kb in (("polygon-far", "line"), ("multipolygon", "line"), ("polygon", "line-far"), ("multipolygon", "line-far"),
                       ("multiline", "line-far"), ("line-diag", "point-out")):
            run("split", ta, tb, ka, kb)
        for op in ("or", "and", "overlap_roi", "snap_to", "pixel_translation", "bounding_box_in_pixel_domain", "union3", "intersection3"):
            run("geobox", op, ta, tb)
            # identical affine (zero shift), same and different shape: no shortcut may bypass the CRS test
            run("geobox", op, ta, tb, [0, 0], [4, 5])
            run("geobox", op, ta, tb, [0, 0], [2, 7])
            run("geobox", op, ta, tb, [rng.randint(-6, 6), rng.randint(-6, 6)], [rng.randint(1, 7), rng.randint(1, 7)])
    # empty GeoBoxes (zero rows / columns: gbox[0:0, 0:0], gbox[5:5, :], gbox[:, 3:3], a non-overlapping `&`) at every
    # position of every GeoBox combining operation, all ordered tag pairs: an empty operand still carries its CRS
    empties = [[0, 0, 0, 0], [5, 5, 0, 8], [0, 8, 3, 3], [2, 2, 1, 4]]
    fulls = [[0, 8, 0, 8], [1, 4, 2, 7]]
    for ta, tb in itertools.product(TAG_IDS, TAG_IDS):
        for op in ("or", "and", "ror", "rand", "union", "intersection", "overlap_roi", "snap_to", "pixel_translation",
                   "bounding_box_in_pixel_domain"):
            sh = [[rng.randint(-3, 3), rng.randint(-3, 3)], [rng.randint(-3, 3), rng.randint(-3, 3)]]
            run("geobox_list", op, [ta, tb], [rng.choice(empties), rng.choice(fulls)], sh)        # empty on the left
            run("geobox_list", op, [ta, tb], [rng.choice(fulls), rng.choice(empties)], sh)        # empty on the right
            if rng.random() < 0.3:
                run("geobox_list", op, [ta, tb], [rng.choice(empties), rng.choice(empties)], sh)
        # three operands: the empty one (or the result of a non-overlapping &) at every position
        for op in ("union", "intersection", "or-chain", "and-chain", "or-of-and"):
            for pos in range(3):
                tl = [ta, ta, ta]
                tl[pos] = tb
                rois = [rng.choice(fulls) for _ in range(3)]
                rois[rng.choice([pos, pos, rng.randrange(3)])] = rng.choice(empties)
                sh = [[rng.randint(-3, 3), rng.randint(-3, 3)] for _ in range(3)]
                if op == "or-of-and":
                    sh[1] = [sh[0][0] + 20, sh[0][1]]      # A & B share no pixel: an empty intermediate result
                run("geobox_list", op, tl, rois, sh)
        # BoundingBox operators and function forms, also degenerate boxes (zero width / height, inverted)
        boxes = [[0.0, 0.0, 4.0, 4.0], [2.0, 1.0, 6.0, 3.0], [10.0, 10.0, 12.0, 11.0], [1.0, 1.0, 1.0, 5.0], [0.0, 2.0, 7.0, 2.0],
                 [3.0, 3.0, 3.0, 3.0], [5.0, 5.0, 1.0, 1.0], [0, 0, 3, 2]]
        for op in ("or", "and", "bbox_union", "bbox_intersection", "bbox_union3", "bbox_intersection3"):
            run("bbox_ops", op, ta, tb, boxes[0], boxes[1])
            run("bbox_ops", op, ta, tb, rng.choice(boxes), rng.choice(boxes))
            run("bbox_ops", op, ta, tb, rng.choice(boxes[3:7]), rng.choice(boxes))
    # CRS equality under histories: every discovered (PROJ string, EPSG spelling) pair x construction
    # route x what happened to either object before the operands are combined
    hp = history_pairs(tier)
    for spec_a, spec_b, kind in hp:
        out.count("history-pair:" + kind)
        combos = list(itertools.product(ROUTES if kind != "self" else ["str"], HISTORIES, HISTORIES))
        must = [c for c in combos if c[0] == "str" and c[1] in ("fresh", "epsg", "epsg+copy", "pickle+epsg") and c[2] in ("fresh", "epsg")]
        rest = [c for c in combos if c not in must]
        n_extra = (4 if tier == "quick" else 60) if kind != "self" else (2 if tier == "quick" else 20)
        for route, ha, hb in (must if kind != "self" else must[:2]) + rng.sample(rest, min(n_extra, len(rest))):
            run("history", spec_a, route, ha, spec_b, hb)
    polys = ["polygon", "polygon-overlap", "polygon-hole", "multipolygon"]
    for fname in ("unary_union", "unary_intersection", "multigeom", "common_crs", "bbox_union", "bbox_intersection"):
        for n in (1, 2, 3, 5):
            for base in ([0, 2, 3], [None], [1]):
                same = [base[i % len(base)] for i in range(n)]
                run("nary", fname, same, [rng.choice(polys) for _ in same])
                for pos in range(1, n):
                    for odd in (1, None, 0):
                        if odd in base:
                            continue
                        tl = list(same)
                        tl[pos] = odd
                        run("nary", fname, tl, [rng.choice(polys) for _ in tl])
                        if n >= 3 and pos >= 2:
                            # the operands before the odd one are already disjoint (empty running result)
                            run("nary", fname, tl, ["polygon", "polygon-far"] + [rng.choice(polys + ["polygon-far"]) for _ in tl[2:]])


# ---------------------------------------------------------------- entry points
def run(out, tier, scratch):
    out.rule = ("static: every @wrap_shapely method of Geometry enumerated from the AST with its delegation body; every public "
                "function/method of geom.py and geobox.py with >= 2 CRS-tagged operands (self counts; a collection counts 2; binary "
                "dunders of the tagged classes always) must be in the proved table or the allow-list.  correspondence: every wrapped "
                "method x all 25 ordered tag pairs over {None, EPSG:4326, EPSG:3857, 4326 as WKT, 4326 as int} x sampled (5 quick / 60 thorough per op and tag pair) "
                "pairs of 14 geometry kinds; split; n-ary folds over tag lists of length 0-6 with the odd element at every position; "
                "GeoBox pairs and streams.  history search: PROJ strings without datum that to_epsg() identifies with an EPSG code (discovered with "
                "pyproj at run time: approximate, exact and unidentified ones) x spellings of that code x construction route (string, pyproj "
                "object, WKT) x what happened to either CRS object before combining (.epsg / to_epsg() / authority read, hash, pickling, copy, "
                "transformer cache), judged by pyproj equality, 11 combining operations in both operand orders.  non-trivial = everything but empty streams; distinct = distinct (operation, tags, kinds).")
    out.assumptions += [
        "the raw shapely function of every operation is uninterpreted in the theorems; in the correspondence it is the table of shapely's "
        "own answers on the raw shapes",
        "CRS equality (CRS.__eq__, pyproj) is an arbitrary boolean relation in the theorems; the correspondence uses the equality matrix "
        "measured on the real CRS objects of this run",
        "whether two CRSs are the same is judged by an independent reference: pyproj's equality of CRS objects pyproj builds from the "
        "specs; CRS.__eq__ must agree with it for every construction route and inspection history (checked as an oracle obligation and, "
        "through the combining operations, by the `history` predicate)",
        "unary_intersection's closed form assumes shapely's intersection of two geometries is a geometry",
        "Geometry.split checks the CRSs at call time (repaired, e97c4ff) and returns an iterator; the model describes the consumed list",
    ]
    # ---- static obligations
    decorated, candidates = static_scan()
    missing = [n for n in WRAPPED if n not in decorated]
    out.oblige("static:every method of the proved table still carries @wrap_shapely", "coverage", not missing,
               "no longer decorated: " + ", ".join(missing))
    bad_bodies = [f"{n}: {why}" for n, (ok, why) in decorated.items() if not ok]
    out.oblige("static:every @wrap_shapely method delegates as `return self.<name>(other)`", "coverage", not bad_bodies,
               "; ".join(bad_bodies))
    ok, why = wrap_shapely_applied_once()
    out.oblige("static:wrap_shapely.wrapped has the modelled structure (loop, raise, call, re-tag)", "coverage", ok, why)
    proved = set(EXPLICIT) | {f"geom.Geometry.{n}" for n in decorated if decorated[n][0]}
    offenders = sorted(q for q in candidates if q not in proved and q not in ALLOW)
    out.oblige("static:every combining function of geom.py/geobox.py is in the proved table or the allow-list", "coverage",
               not offenders, "not covered: " + ", ".join(offenders))
    gone = sorted(q for q in EXPLICIT if q not in candidates)
    out.oblige("static:every operation of the proved table still exists as a combining function", "coverage", not gone,
               "missing: " + ", ".join(gone))
    from odc.geo.crs import CRSMismatchError
    out.oblige("static:CRSMismatchError is a ValueError", "coverage", issubclass(CRSMismatchError, ValueError), "")
    for q in sorted(candidates):
        out.count("candidate:" + ("wrapped" if candidates[q]["decorated"] else "explicit" if q in EXPLICIT else
                                  "allow-listed" if q in ALLOW else "UNCOVERED"))
    out.notes.append("allow-list: " + "; ".join(f"{k} ({v})" for k, v in sorted(ALLOW.items())))
    # ---- oracle contract: CRS equality on the tag alphabet
    T = tags()
    m = eq_matrix(T)
    want = [[True, False, True, True], [False, True, False, False], [True, False, True, True], [True, False, True, True]]
    out.oblige("oracle:CRS.__eq__ on {4326, 3857, 4326-WKT, 4326-int} is the expected equivalence (spellings equal, 3857 differs)",
               "oracle", m == want, f"measured {m}")
    out.oblige("oracle:None != CRS and CRS != None are True, None != None is False", "oracle",
               all(real_differs(T, None, i) and real_differs(T, i, None) for i in range(4)) and not real_differs(T, None, None), "")
    S = tag_specs()
    refm = [[ref_equal(a, b) for b in S] for a in S]
    out.oblige("oracle:CRS.__eq__ on the tag alphabet agrees with pyproj's own equality of independently built CRSs", "oracle",
               m == refm, f"measured {m}, pyproj reference {refm}")
    # ... and keeps agreeing whatever was read from / done to the objects before (lazy EPSG identification,
    # pickling, copies, caches): the gate of every operation relies on it
    dis, built, ncmp = [], {}, 0

    def obj(spec, route, hist):      # every object is built once; == does not change it
        k = (repr(spec), route, hist)
        if k not in built:
            built[k] = build_crs(spec, route, hist)
        return built[k]

    ha_list = ["fresh", "epsg", "authority", "pickle", "pickle+epsg", "epsg+copy", "epsg+pickle"]
    for spec_a, spec_b, kind in history_pairs(tier):
        same = ref_equal(spec_a, spec_b)
        for route in (ROUTES if kind != "self" else ["str"]):
            for ha, hb in itertools.product(ha_list, ("fresh", "epsg", "pickle")):
                A, B = obj(spec_a, route, ha), obj(spec_b, "str", hb)
                ncmp += 1
                if bool(A == B) != same or bool(B == A) != same:
                    dis.append(f"CRS({core.short(spec_a, 50)}) via {route} after [{ha}] vs CRS({core.short(spec_b, 30)}) after [{hb}]: "
                               f"== is {A == B}/{B == A}, pyproj says {same}")
    out.oblige("oracle:CRS.__eq__ agrees with pyproj equality for every construction route and inspection history "
               "(lazily identified EPSG codes, pickling, copies, caches)", "oracle", not dis, "; ".join(dis[:4]))
    out.count("history-eq-comparisons", ncmp)
    # ---- correspondence
    cases, notes = gen_cases(out, tier)
    order = list(range(len(cases)))
    core.rng("c01-shards").shuffle(order)
    fails, log = core.coq_eval_failures(
        ["Base.Result", "Base.Aff2", "Model.Tagged", "Model.CrsGate", "Model.GridOps", "Model.GridOpsCases", "Model.CrsGateCases"],
        "case", "check", [cases[i] for i in order], scratch, shard=300, tag="crs")
    fails = sorted(order[i] for i in fails)
    detail = ""
    if fails:
        detail = "model and implementation differ on: " + " | ".join(f"{notes[i]} :: {cases[i][-260:]}" for i in fails[:5])
    out.oblige("correspondence:Model.CrsGate vs odc.geo.geom / odc.geo.geobox", "correspondence", not fails, detail)
    nary = {"unary_union", "unary_intersection", "multigeom", "common_crs", "bbox_union", "bbox_intersection"}
    disagreeing = []
    for i in fails[:300]:
        nt = notes[i]
        if isinstance(nt, tuple) and nt and nt[0] in nary and len(nt) == 3 and nt[1]:
            disagreeing.append(("nary", [nt[0], list(nt[1]), list(nt[2])]))
        elif isinstance(nt, tuple) and nt and nt[0] == "split":
            disagreeing.append(("split", list(nt[1:5])))
        elif isinstance(nt, tuple) and nt and nt[0] == "intersects":
            disagreeing.append(("intersects_fn", list(nt[1:5])))
    search(out, tier, offenders, disagreeing)


def replay(rp) -> int:
    name = rp["predicate"]
    try:
        ok, detail = PREDICATES[name](*rp["args"])
    except Exception as e:
        ok, detail = False, f"raised {type(e).__name__}: {e}"
    print(f"replay {name}{json.dumps(rp['args'])}: {'holds' if ok else 'FAILS: ' + detail}")
    return 0 if ok else 1


META = {
    "text": ("Coq theorems (coq/Props/C01.v, closed under the global context) over a Gallina model of wrap_shapely.wrapped, the 16 "
             "decorated Geometry methods, Geometry.split, common_crs/multigeom, unary_union, unary_intersection (reduce of the wrapped "
             "intersection), intersects(), bbox_union/bbox_intersection (and BoundingBox | &) and pixel_translation with its clients "
             "(GeoBox | & overlap_roi snap_to, bounding_box_in_pixel_domain, geobox_union/intersection_conservative).  For EVERY raw "
             "shapely function, every CRS-equality relation and all operands: a binary operation raises CRSMismatchError iff the tags "
             "compare unequal (None vs a CRS included) and otherwise returns exactly shapely's value on the raw shapes, geometries "
             "re-tagged with the first operand's CRS; every n-ary fold over lists of any length is Err iff some element differs from the "
             "first and an Ok value is never built from a list containing a mismatch; GeoBox operations raise ValueError before any grid "
             "arithmetic.  A static coverage obligation, regenerated from the AST on every run, ties the operation table to the source: "
             "all @wrap_shapely methods with their delegation bodies and every public function of geom.py/geobox.py with two or more "
             "CRS-tagged operands must be in the proved table or the reasoned allow-list; an uncovered function is called on mixed-CRS "
             "operands by the search."),
    "note": ("Trusted: Coq kernel; the hand-written model coq/Model/CrsGate.v (+ Tagged.v, GridOps.v) tied to the code by the "
             "correspondence of this check (exhaustive over the 25 ordered tag pairs, sampled/all geometry-kind pairs) and by the "
             "static scan (tools/props/c01.py: AST enumeration, table EXPLICIT, allow-list ALLOW with reasons - the allow-list is part "
             "of the trusted base).  Oracles: raw shapely functions (completely uninterpreted); CRS equality = pyproj/CRS.__eq__ "
             "(arbitrary relation in the theorems - not even reflexivity is used; the check validates on its tag alphabet that the four "
             "spellings behave as an equivalence, and - against pyproj's own equality as independent reference - that == does not depend on "
             "construction route, lazy EPSG identification (.epsg/to_epsg()), pickling, copying or cache population); for the closed form of unary_intersection, shapely's intersection returns a geometry.  "
             "Modelled conventions: Geometry.split raises its CRSMismatchError at call time (repaired: it was a generator) and returns an "
             "iterator (the model is the consumed list); GeoBox operations raise a plain ValueError('Geobox CRSs must match'), not CRSMismatchError (the "
             "property asks for a ValueError); a | b with a non-invertible first affine fails in affine inversion before the CRS test of "
             "b is reached (still no result).  Not proved: what shapely returns; that CRS.__eq__ identifies equal CRSs in other spellings "
             "(oracle, tested); operations outside geom.py/geobox.py."),
    "technique": "Coq proof over hand-written Gallina model with uninterpreted oracles + AST coverage obligation + differential correspondence (vm_compute)",
    "design_ref": "DESIGN.md section 5, C01",
}
