"""C16 — GeoBox and bounding-box set operations respect the common pixel grid.

Correspondence: coq/Model/GridOps.v against odc.geo.geobox / odc.geo.geom /
odc.geo.math on inputs for which every float operation of the code is exact
(dyadic coefficients, power-of-two determinants), checked dynamically.
Search: the property's clauses evaluated directly on the implementation with
exact Fraction arithmetic.
"""
from __future__ import annotations

import itertools
import json
from fractions import Fraction as F

from vlib import core, crshist
from vlib.core import cbool, clist, copt, cq, ctuple, cz

ID = "C16"
ALLOWED_AXIOMS: list[str] = []

ATOL = F(1e-8)
RTOL = F(1e-5)
TOL = F(1e-8)
CRS_TABLE = [None, "EPSG:3857", "EPSG:4326", "EPSG:32633"]   # tag ids: None, 0, 1, 2


# ---------------------------------------------------------------- exact affine mirror (escape detection only)
def amul(s, o):
    sa, sb, sc, sd, se, sf = s
    oa, ob, oc, od, oe, of = o
    return (sa * oa + sb * od, sa * ob + sb * oe, sa * oc + sb * of + sc,
            sd * oa + se * od, sd * ob + se * oe, sd * oc + se * of + sf)


def ainv(s):
    sa, sb, sc, sd, se, sf = s
    det = sa * se - sb * sd
    idet = 1 / det
    ra, rb, rd, re = se * idet, -sb * idet, -sd * idet, sa * idet
    return (ra, rb, -sc * ra - sf * rb, rd, re, -sc * rd - sf * re)


def aapply(s, p):
    return (p[0] * s[0] + p[1] * s[1] + s[2], p[0] * s[3] + p[1] * s[4] + s[5])


def atr(tx, ty):
    return (F(1), F(0), F(tx), F(0), F(1), F(ty))


def adet(s):
    return s[0] * s[4] - s[1] * s[3]


def isfloat(x: F) -> bool:
    try:
        return F(float(x)) == x
    except OverflowError:
        return False


def aff_floats_ok(a) -> bool:
    return all(isfloat(x) for x in a)


def aff_of(A):
    return tuple(F(x) for x in A[:6])


# ---------------------------------------------------------------- building real objects
def crs_of(tag):
    return None if tag is None else CRS_TABLE[tag + 1]


def tag_of(crs):
    from odc.geo import CRS
    if crs is None:
        return None
    for i, c in enumerate(CRS_TABLE[1:]):
        if crs == CRS(c):
            return i
    raise ValueError(f"unexpected CRS {crs}")


def mk_gbox(g):
    """g = {"shape": [ny, nx], "aff": [6 Fractions], "crs": tag}"""
    from affine import Affine
    from odc.geo.geobox import GeoBox
    return GeoBox(tuple(g["shape"]), Affine(*[float(x) for x in g["aff"]]), crs_of(g["crs"]))


def gb(shape, aff, crs):
    return {"shape": [int(shape[0]), int(shape[1])], "aff": [F(x) for x in aff], "crs": crs}


def gb_of_real(G):
    return gb((G.shape.y, G.shape.x), aff_of(G.affine), tag_of(G.crs))


def fam(base, crs, p):
    """family member: p = (kx, ky, nx, ny) on the grid of base"""
    return gb((p[3], p[2]), amul(base, atr(p[0], p[1])), crs)


# ---------------------------------------------------------------- Coq literals
def ctag(t):
    return copt(t, cz)


def caff(a):
    return "(mkAff " + " ".join(cq(x) for x in a) + ")"


def cgb(g):
    return f"(mkGB {cz(g['shape'][0])} {cz(g['shape'][1])} {caff(g['aff'])} {ctag(g['crs'])})"


def ctols(atol=ATOL, rtol=RTOL, tol=TOL):
    return f"{{| t_atol := {cq(atol)}; t_rtol := {cq(rtol)}; t_tol := {cq(tol)} |}}"


def czbox(b):
    return f"(mkBB {cz(b[0])} {cz(b[1])} {cz(b[2])} {cz(b[3])} {ctag(b[4])})"


def cqbox(b):
    return f"(mkBB {cq(b[0])} {cq(b[1])} {cq(b[2])} {cq(b[3])} {ctag(b[4])})"


def cpt(p):
    return ctuple(cq(p[0]), cq(p[1]))


def cres(f, call):
    from affine import TransformNotInvertibleError
    from odc.geo.crs import CRSMismatchError
    try:
        v = call()
    except CRSMismatchError:
        return "(Err ECrs)", "CRSMismatchError", None
    except ValueError:
        return "(Err EValue)", "ValueError", None
    except TransformNotInvertibleError:
        return "(Err EOther)", "NotInvertible", None
    return f"(Ok {f(v)})", "ok", v


# ---------------------------------------------------------------- JSON encoding of predicate arguments
def enc(x):
    if isinstance(x, F):
        return {"q": f"{x.numerator}/{x.denominator}"}
    if isinstance(x, dict):
        return {k: enc(v) for k, v in x.items()}
    if isinstance(x, (list, tuple)):
        return [enc(v) for v in x]
    return x


def dec(x):
    if isinstance(x, dict):
        if set(x) == {"q"}:
            return F(x["q"])
        return {k: dec(v) for k, v in x.items()}
    if isinstance(x, list):
        return [dec(v) for v in x]
    return x


# ---------------------------------------------------------------- exactness domain
def bases():
    """Invertible base affines whose inverse is exact in binary64 (determinant +-2^k,
    small dyadic coefficients): north-up, mirrored, rotated by 90 and 45 degrees, sheared."""
    out = []
    for lin, name in [((8, 0, 0, -8), "north-up"), ((F(1, 4), 0, 0, F(-1, 4)), "north-up-fine"),
                      ((16, 0, 0, 16), "south-up"), ((-2, 0, 0, -2), "mirrored-x"),
                      ((0, -1, 1, 0), "rot90"), ((0, 8, 8, 0), "transposed"),
                      ((1, -1, 1, 1), "rot45"), ((2, 2, 2, -2), "rot45-mirrored"),
                      ((2, 1, 1, 1), "sheared"), ((3, 1, 1, 1), "sheared2"), ((1, 0, F(1, 2), -1), "skew")]:
        for off in [(0, 0), (F(1000), F(-2048)), (F(7, 2), F(-3)), (F(123456), F(654321) + F(1, 4))]:
            a, b, d, e = (F(v) for v in lin)
            out.append(((a, b, F(off[0]), d, e, F(off[1])), name))
    return out


def m_exact(a_aff, b_aff):
    """is ~b * a computed exactly by the affine package?"""
    from affine import Affine
    if not (aff_floats_ok(a_aff) and aff_floats_ok(b_aff)) or adet(b_aff) == 0:
        return aff_floats_ok(a_aff) and aff_floats_ok(b_aff)
    A = Affine(*[float(x) for x in a_aff])
    B = Affine(*[float(x) for x in b_aff])
    return aff_of(~B * A) == amul(ainv(b_aff), a_aff)


def prod_exact(a_aff, t_aff):
    from affine import Affine
    if not (aff_floats_ok(a_aff) and aff_floats_ok(t_aff)):
        return False
    return aff_of(Affine(*[float(x) for x in a_aff]) * Affine(*[float(x) for x in t_aff])) == amul(a_aff, t_aff)


# ---------------------------------------------------------------- correspondence cases
class Gen:
    def __init__(self, out, tier):
        self.out, self.tier = out, tier
        self.cases: list[str] = []
        self.meta: list[dict] = []
        self.escapes = 0

    def add(self, kind, text, canon, nontrivial=True, sample=None):
        self.cases.append(text)
        self.meta.append({"kind": kind, "canon": canon})
        self.out.count(kind)
        self.out.case((kind, json.dumps(enc(canon), sort_keys=True, default=str)), nontrivial, sample)

    def escape(self, why):
        self.escapes += 1
        self.out.count("generator-escape:" + why)

    # ---- pair operations
    def pair_ops(self, a, b, tol=TOL, tag="pair"):
        """the two-operand operations whose only float computation is ~b.affine * a.affine"""
        from odc.geo.geobox import bounding_box_in_pixel_domain, pixel_translation
        if not m_exact(a["aff"], b["aff"]):
            return self.escape("pair-matrix")
        A, B = mk_gbox(a), mk_gbox(b)
        t, kind, v = cres(lambda v: ctuple(cq(F(v.x)), cq(F(v.y))), lambda: pixel_translation(A, B))
        self.add(f"pixel_translation:{tag}:{kind}", f"CPixTr {ctols(tol=tol)} {cgb(a)} {cgb(b)} {t}", (a, b), True,
                 {"op": "pixel_translation", "a": enc(a), "b": enc(b), "result": t})
        t, kind, v = cres(lambda v: czbox((int(v.left), int(v.bottom), int(v.right), int(v.top), tag_of(v.crs))),
                          lambda: bounding_box_in_pixel_domain(A, B, float(tol)))
        self.add(f"bbox_in_pixel_domain:{tag}:{kind}", f"CBip {ctols(tol=tol)} {cgb(a)} {cgb(b)} {t}", (a, b, tol))
        t, kind, v = cres(lambda v: ctuple(ctuple(cz(v[0].start), cz(v[0].stop)), ctuple(cz(v[1].start), cz(v[1].stop))),
                          lambda: B.overlap_roi(A, float(tol)))
        self.add(f"overlap_roi:{tag}:{kind}", f"COverlap true {ctols(tol=tol)} {cgb(b)} {cgb(a)} {t}", (b, a, tol), True,
                 {"op": "overlap_roi", "self": enc(b), "other": enc(a), "result": t})

    def nary_ops(self, gs, tag="nary"):
        from odc.geo.geobox import geobox_intersection_conservative, geobox_union_conservative
        if gs and not all(m_exact(g["aff"], gs[0]["aff"]) for g in gs):
            return self.escape("nary-matrix")
        # result affine = reference.affine * translation(int, int): exact for every shift in range
        if gs and not all(prod_exact(gs[0]["aff"], atr(L, B)) for L, B in [(-64, 63), (37, -29), (63, 64), (-1, 1)]):
            return self.escape("nary-result")
        G = [mk_gbox(g) for g in gs]
        for name, fn, ctor in [("union", geobox_union_conservative, "CUnion"),
                               ("intersection", geobox_intersection_conservative, "CInter")]:
            t, kind, v = cres(lambda v: cgb(gb_of_real(v)), lambda: fn(G))
            self.add(f"{name}:{tag}:n={len(gs)}:{kind}", f"{ctor} {ctols()} [{'; '.join(cgb(g) for g in gs)}] {t}", gs, True,
                     {"op": name, "operands": enc(gs), "result": t})
        if len(gs) == 2:
            # operators
            for name, fn, ctor in [("or", lambda: G[0] | G[1], "CUnion"), ("and", lambda: G[0] & G[1], "CInter")]:
                t, kind, v = cres(lambda v: cgb(gb_of_real(v)), fn)
                self.add(f"operator-{name}:{tag}:{kind}", f"{ctor} {ctols()} [{'; '.join(cgb(g) for g in gs)}] {t}", ("op", gs))

    def snap(self, a, b, tag="snap"):
        if not m_exact(b["aff"], a["aff"]):
            return self.escape("snap-matrix")
        if adet(a["aff"]) != 0:
            # the sub-pixel translation (exact mirror of split_float, used only to check that the
            # float product self.affine * translation(sub) is exact)
            m = amul(ainv(a["aff"]), b["aff"])
            sub = []
            for t in (m[2], m[5]):
                part = t - (int(t) if t >= 0 else -int(-t))
                part = part - 1 if part > F(1, 2) else (part + 1 if part < F(-1, 2) else part)
                sub.append(F(0) if abs(part) < TOL else part)
            if not prod_exact(a["aff"], atr(*sub)):
                return self.escape("snap-result")
        A, B = mk_gbox(a), mk_gbox(b)
        t, kind, v = cres(lambda v: cgb(gb_of_real(v)), lambda: A.snap_to(B))
        self.add(f"snap_to:{tag}:{kind}", f"CSnap {ctols()} {cq(TOL)} {cgb(a)} {cgb(b)} {t}", (a, b), True,
                 {"op": "snap_to", "self": enc(a), "other": enc(b), "result": t})

    def enclose(self, g, region, pts, has_crs, tag="enclosing"):
        """region: real Geometry/BoundingBox; pts: its vertices in the CRS of g (Fractions)"""
        G = mk_gbox(g)
        if adet(g["aff"]) != 0 and pts:
            inv = ainv(g["aff"])
            if not aff_floats_ok(inv):
                return self.escape("enclosing-inverse")
            for p in pts:
                c = aapply(inv, p)
                if not (isfloat(c[0]) and isfloat(c[1])):
                    return self.escape("enclosing-pixel-coords")
        t, kind, v = cres(lambda v: cgb(gb_of_real(v)), lambda: G.enclosing(region))
        self.add(f"enclosing:{tag}:{kind}", f"CEnclosing {cgb(g)} {cbool(has_crs)} [{'; '.join(cpt(p) for p in pts)}] {t}",
                 (g, pts, has_crs), True, {"op": "enclosing", "geobox": enc(g), "region_vertices": enc(pts), "result": t})


def dy(rng, lo, hi, bits=3):
    """dyadic rational in [lo, hi] with `bits` fractional bits"""
    return F(rng.randint(lo * 2 ** bits, hi * 2 ** bits), 2 ** bits)


def rand_member(rng, around=None, span=14):
    """pixel rectangle (kx, ky, nx, ny); boundary-heavy relative to `around`"""
    nx, ny = rng.choice([0, 1, 1, 2, 3, 5, 8, 12]), rng.choice([0, 1, 2, 3, 5, 8, 12])
    if around is None or rng.random() < 0.3:
        return (rng.randint(-span, span), rng.randint(-span, span), nx, ny)
    ax, ay, anx, any_ = around
    # touching / overlapping by one / disjoint by one / contained / identical, per axis
    def pick(a0, an, n):
        return rng.choice([a0 + an, a0 + an - 1, a0 + an + 1, a0 - n, a0 - n + 1, a0 - n - 1, a0, a0 + 1,
                           a0 - 1, a0 + an // 2, a0 - span, a0 + span])
    return (pick(ax, anx, nx), pick(ay, any_, ny), nx, ny)


def gen_cases(out, tier):
    from odc.geo import geom
    from odc.geo.geom import BoundingBox, bbox_intersection, bbox_union
    from odc.geo.math import is_almost_int, maybe_zero, split_float

    rng = core.rng("c16")
    g = Gen(out, tier)
    BB = bases()
    n_fam = 140 if tier == "quick" else 700

    # ---- 1. integer-shift families, all operations
    for i in range(n_fam):
        base, bname = BB[i % len(BB)] if i < 2 * len(BB) else rng.choice(BB)
        crs = rng.choice([0, 0, 1, 2, None])
        m0 = rand_member(rng)
        ms = [m0] + [rand_member(rng, m0) for _ in range(rng.choice([1, 1, 2, 3]))]
        gs = [fam(base, crs, m) for m in ms]
        g.pair_ops(gs[0], gs[1], tag="family")
        g.pair_ops(gs[1], gs[0], tag="family")
        g.nary_ops(gs[:2], tag="family")
        if len(gs) > 2:
            g.nary_ops(gs, tag="family")
        if i % 3 == 0:
            g.nary_ops(gs[:1], tag="family")
    # ---- 2. sub-pixel / coefficient perturbations on both sides of every tolerance
    k1 = int((ATOL + RTOL) * 2 ** 40)
    eps_lin1 = [F(k, 2 ** 40) for k in (k1, k1 + 1, -k1, -k1 - 1, 1, 0)]   # around atol+rtol for isclose(., 1)
    k0 = int(ATOL * 2 ** 60)
    eps_lin0 = [F(k, 2 ** 60) for k in (k0, k0 + 1, -k0, -k0 - 1, 1, 2 ** 30)]              # around atol for isclose(., 0)
    kt = int(TOL * 2 ** 44)
    eps_tr = [F(k, 2 ** 44) for k in (kt, kt + 1, -kt, -kt - 1, 1, 0)] + [F(1, 2), F(1, 2) - F(kt, 2 ** 44),
                                                                          F(-1, 2) + F(kt + 1, 2 ** 44), F(1, 4)]
    n_pert = 1 if tier == "quick" else 3
    simple_bases = [b for b in BB if b[1] in ("north-up", "rot90", "sheared", "mirrored-x", "rot45")]
    for base, bname in simple_bases:
        if base[2] != 0 and abs(base[2]) > 10:
            continue
        for rep in range(n_pert):
            crs = rng.choice([0, 1, None])
            ref = fam(base, crs, (0, 0, 6, 5))
            for slot, eps_list in [(0, eps_lin1), (4, eps_lin1), (1, eps_lin0), (3, eps_lin0), (2, eps_tr), (5, eps_tr)]:
                for eps in eps_list:
                    M = [F(1), F(0), F(rng.randint(-4, 4)), F(0), F(1), F(rng.randint(-4, 4))]
                    M[slot] += eps
                    a = gb((rng.choice([1, 4, 7]), rng.choice([2, 5])), amul(base, tuple(M)), crs)
                    g.pair_ops(a, ref, tag=f"perturb-slot{slot}")
                    g.nary_ops([ref, a], tag=f"perturb-slot{slot}")
                    if slot in (2, 5):
                        g.snap(ref, a, tag="perturb")
                        g.snap(a, ref, tag="perturb")
            # caller-supplied tolerance of overlap_roi / bounding_box_in_pixel_domain
            for tol in (F(1, 128), F(1, 2), F(3, 4), F(0)):
                for eps in (tol, tol - F(1, 1024), tol + F(1, 1024), F(1, 2), F(-1, 2) + F(1, 1024)):
                    M = (F(1), F(0), F(2) + eps, F(0), F(1), F(-1))
                    a = gb((3, 4), amul(base, M), crs)
                    g.pair_ops(a, ref, tol=tol, tag="custom-tol")
    # ---- 3. snapping: arbitrary dyadic sub-pixel offsets
    for i in range(60 if tier == "quick" else 300):
        base, bname = rng.choice(BB)
        crs = rng.choice([0, 1, None])
        p = (dy(rng, -6, 6, 4), dy(rng, -6, 6, 4))
        q = (dy(rng, -6, 6, rng.choice([1, 2, 4, 6])), rng.choice([F(1, 2), F(-1, 2), F(3, 2), dy(rng, -6, 6, 3)]))
        a = gb((4, 6), amul(base, atr(*p)), crs)
        b = gb((3, 3), amul(base, atr(*q)), crs)
        g.snap(a, b, tag="family")
    # ---- 4. malformed stream: different CRS, scale, rotation, degenerate affines, empty lists
    for i in range(40 if tier == "quick" else 150):
        base, bname = rng.choice(BB)
        ca, cb = rng.choice([(0, 1), (None, 0), (0, None), (1, 2), (0, 0)])
        kind = rng.choice(["crs", "scale", "rot", "degenerate-ref", "degenerate-a", "half"])
        a = fam(base, ca if kind == "crs" else 0, rand_member(rng))
        if kind == "crs":
            b = fam(base, cb, rand_member(rng))
        elif kind == "scale":
            b = gb((4, 4), amul(base, (F(2), 0, 0, 0, F(2), 0)), 0)
        elif kind == "rot":
            b = gb((4, 4), amul(base, (F(0), F(-1), F(1), F(1), F(0), F(2))), 0)
        elif kind == "degenerate-ref":
            b = gb((4, 4), (F(1), F(2), F(0), F(2), F(4), F(1)), rng.choice([0, 1]))
        elif kind == "degenerate-a":
            b, a = a, gb((4, 4), (F(0), F(0), F(0), F(0), F(0), F(1)), 0)
        else:
            b = gb((4, 4), amul(base, atr(F(1, 2), F(3))), 0)
        g.pair_ops(a, b, tag="malformed-" + kind)
        g.nary_ops([a, b], tag="malformed-" + kind)
        g.nary_ops([b, a, a], tag="malformed-" + kind)
        g.snap(a, b, tag="malformed-" + kind)
    g.nary_ops([], tag="malformed-empty")
    # ---- 5. enclosing
    for i in range(120 if tier == "quick" else 600):
        base, bname = rng.choice(BB)
        crs = rng.choice([0, 1, 2])
        G = fam(base, crs, (rng.randint(-5, 5), rng.randint(-5, 5), rng.randint(1, 9), rng.randint(1, 9)))
        kind = rng.choice(["polygon", "polygon", "bbox", "point-int", "point", "line", "multipoint", "no-crs", "empty"])
        # vertices chosen in pixel space (dyadic), mapped to the world exactly
        def wpt(u, v):
            return aapply(G["aff"], (u, v))
        bits = rng.choice([0, 1, 3])
        if kind == "polygon":
            pp = [(dy(rng, -12, 12, bits), dy(rng, -12, 12, bits)) for _ in range(rng.choice([3, 4, 6]))]
            pts = [wpt(*p) for p in pp]
            region = geom.polygon([tuple(map(float, p)) for p in pts + pts[:1]], crs_of(crs))
            pts = pts + pts[:1]
        elif kind == "bbox":
            x0, y0 = dy(rng, -9000, 9000, bits), dy(rng, -9000, 9000, bits)
            x1, y1 = x0 + dy(rng, 0, 300, bits), y0 + dy(rng, 0, 300, bits)
            region = BoundingBox(float(x0), float(y0), float(x1), float(y1), crs_of(crs))
            pts = [(x0, y0), (x0, y1), (x1, y1), (x1, y0), (x0, y0)]
        elif kind in ("point", "point-int"):
            p = (F(rng.randint(-9, 9)), F(rng.randint(-9, 9))) if kind == "point-int" else (dy(rng, -9, 9, 3), dy(rng, -9, 9, 3))
            pts = [wpt(*p)]
            region = geom.point(float(pts[0][0]), float(pts[0][1]), crs_of(crs))
        elif kind == "line":
            pp = [(dy(rng, -12, 12, bits), F(rng.randint(-3, 3))) for _ in range(rng.choice([2, 3]))]
            if rng.random() < 0.5:
                pp = [(pp[0][0], v) for _, v in pp]   # vertical line: zero extent along x
            pts = [wpt(*p) for p in pp]
            region = geom.line([tuple(map(float, p)) for p in pts], crs_of(crs))
        elif kind == "multipoint":
            pts = [wpt(dy(rng, -12, 12, bits), dy(rng, -12, 12, bits)) for _ in range(rng.randint(1, 5))]
            region = geom.multipoint([tuple(map(float, p)) for p in pts], crs_of(crs))
        elif kind == "no-crs":
            pts = [wpt(F(1), F(2)), wpt(F(3), F(5))]
            region = geom.line([tuple(map(float, p)) for p in pts], None)
        else:
            pts = []
            region = geom.polygon([], crs_of(crs))
        if not all(isfloat(c) for p in pts for c in p):
            g.escape("enclosing-vertices")
            continue
        g.enclose(G, region, pts, kind != "no-crs", tag=kind)
    # degenerate geobox affine
    g.enclose(gb((3, 3), (F(1), F(2), F(0), F(2), F(4), F(0)), 0), geom.point(1.0, 2.0, crs_of(0)), [(F(1), F(2))], True,
              tag="degenerate")
    # ---- 6. bounding boxes
    def rbox():
        if rng.random() < 0.3:
            vals = [F(rng.randint(-20, 20)) for _ in range(4)]
        else:
            vals = [dy(rng, -20, 20, rng.choice([1, 4, 10])) for _ in range(4)]
        if rng.random() < 0.8:   # mostly proper boxes; the rest inverted
            vals = [min(vals[0], vals[2]), min(vals[1], vals[3]), max(vals[0], vals[2]), max(vals[1], vals[3])]
        return vals
    for i in range(300 if tier == "quick" else 1500):
        n = rng.choice([0, 1, 2, 2, 2, 3, 4, 6])
        crs = rng.choice([0, 1, None])
        boxes = []
        for k in range(n):
            c = crs
            if rng.random() < 0.06:
                c = rng.choice([0, 1, None])
            boxes.append(rbox() + [c])
        if n >= 2 and rng.random() < 0.2:    # disjoint on one axis only
            boxes[1][0], boxes[1][2] = boxes[0][2] + 1, boxes[0][2] + 3
        real = [BoundingBox(*[float(v) for v in b[:4]], crs_of(b[4])) for b in boxes]
        as_int = rng.random() < 0.2 and all(v.denominator == 1 for b in boxes for v in b[:4])
        if as_int:
            real = [BoundingBox(*[int(v) for v in b[:4]], crs_of(b[4])) for b in boxes]
        for name, fn, ctor in [("bbox_union", bbox_union, "CBoxUnion"), ("bbox_intersection", bbox_intersection, "CBoxInter")]:
            t, kind, v = cres(lambda v: cqbox((F(v.left), F(v.bottom), F(v.right), F(v.top), tag_of(v.crs))), lambda: fn(iter(real)))
            g.add(f"{name}:n={n}:{kind}", f"{ctor} [{'; '.join(cqbox(b) for b in boxes)}] {t}", (name, boxes), n > 0,
                  {"op": name, "boxes": enc(boxes), "result": t} if i < 2 else None)
        if n == 2:
            for name, fn, ctor in [("bbox-or", lambda: real[0] | real[1], "CBoxUnion"), ("bbox-and", lambda: real[0] & real[1], "CBoxInter")]:
                t, kind, v = cres(lambda v: cqbox((F(v.left), F(v.bottom), F(v.right), F(v.top), tag_of(v.crs))), fn)
                g.add(f"{name}:{kind}", f"{ctor} [{'; '.join(cqbox(b) for b in boxes)}] {t}", (name, boxes))
    # ---- 7. scalar helpers
    xs = [F(k, 8) for k in range(-28, 29)] + [F(n) + s * e for n in (-3, 0, 2, 7) for s in (1, -1)
                                                for e in (F(kt, 2 ** 44), F(kt + 1, 2 ** 44), F(1, 2 ** 44), F(1, 2) - F(1, 2 ** 40))]
    xs += [F(2 ** 40 + 1, 2), F(-(2 ** 40) - 1, 2), F(2 ** 52 + 1), F(5, 2), F(-5, 2), F(7, 2)]
    for x in xs:
        assert isfloat(x)
        for tol in (TOL, F(1, 128), F(1, 2), F(1), F(0)):
            g.add("is_almost_int", f"CAlmostInt {cq(x)} {cq(tol)} {cbool(is_almost_int(float(x), float(tol)))}", ("ai", x, tol))
            mz = maybe_zero(float(x), float(tol))
            g.add("maybe_zero", f"CMaybeZero {cq(x)} {cq(tol)} {cq(F(mz))}", ("mz", x, tol))
        g.add("round", f"CRound {cq(x)} {cz(round(float(x)))}", ("round", x))
        w, p = split_float(float(x))
        g.add("split_float", f"CSplit {cq(x)} {ctuple(cq(F(w)), cq(F(p)))}", ("split", x))
    out.count("generator-escapes-total", g.escapes)
    return g


# ---------------------------------------------------------------- property predicates on the implementation
def _same(G, shape, aff):
    return (G.shape.y, G.shape.x) == tuple(shape) and aff_of(G.affine) == tuple(aff)


def p_family(base, crs, members):
    """members: list of (kx, ky, nx, ny) on the grid of `base`: the set-operation clauses."""
    import numpy as np
    from odc.geo.geobox import geobox_intersection_conservative, geobox_union_conservative, pixel_translation
    base = tuple(base)
    members = [tuple(m) for m in members]
    gs = [fam(base, crs, m) for m in members]
    G = [mk_gbox(x) for x in gs]
    bad = []
    # pixel translation is the exact integer shift
    for (m, X), (r, Y) in itertools.product(zip(members[:3], G[:3]), repeat=2):
        t = pixel_translation(X, Y)
        if (F(t.x), F(t.y)) != (m[0] - r[0], m[1] - r[1]):
            bad.append(f"pixel_translation {m}->{r} = {t.xy}")
    # union: smallest rectangle containing all operand rectangles, on the grid
    L, B = min(m[0] for m in members), min(m[1] for m in members)
    R, T = max(m[0] + m[2] for m in members), max(m[1] + m[3] for m in members)
    U = geobox_union_conservative(G)
    if not _same(U, (T - B, R - L), amul(base, atr(L, B))) or U.crs != G[0].crs:
        bad.append(f"union of {members} = shape {U.shape} affine {tuple(U.affine)[:6]}; want shape {(T - B, R - L)} origin pixel {(L, B)}")
    # intersection: exactly the shared pixels, per axis
    cols = set.intersection(*[set(range(m[0], m[0] + m[2])) for m in members])
    rows = set.intersection(*[set(range(m[1], m[1] + m[3])) for m in members])
    I = geobox_intersection_conservative(G)
    t = pixel_translation(I, mk_gbox(fam(base, crs, (0, 0, 1, 1))))
    ix, iy = F(t.x), F(t.y)
    got_cols = set(range(int(ix), int(ix) + I.shape.x)) if ix.denominator == 1 else None
    got_rows = set(range(int(iy), int(iy) + I.shape.y)) if iy.denominator == 1 else None
    if got_cols != cols or got_rows != rows or I.shape.x < 0 or I.shape.y < 0:
        bad.append(f"intersection of {members}: shape {tuple(I.shape)} origin pixel {(ix, iy)}; shared cols {sorted(cols)} rows {sorted(rows)}")
    if (not cols or not rows) != (0 in tuple(I.shape)):
        bad.append(f"intersection of {members}: shape {tuple(I.shape)} but shared pixel count {len(cols) * len(rows)}")
    # overlap_roi: numpy reads the slices as exactly the shared pixels inside the first operand
    a, b = members[0], members[1 % len(members)]
    roi = G[0].overlap_roi(G[1 % len(G)])
    got_r = np.arange(a[3])[roi[0]].tolist()
    got_c = np.arange(a[2])[roi[1]].tolist()
    want_c = [i for i in range(a[2]) if b[0] <= a[0] + i < b[0] + b[2]]
    want_r = [j for j in range(a[3]) if b[1] <= a[1] + j < b[1] + b[3]]
    if got_c != want_c or got_r != want_r:
        bad.append(f"overlap_roi {a} vs {b} = {roi}: selects cols {got_c} rows {got_r}; shared cols {want_c} rows {want_r}")
    # commutativity / associativity as equality of (shape, affine)
    def eq(X, Y):
        return tuple(X.shape) == tuple(Y.shape) and aff_of(X.affine) == aff_of(Y.affine)
    if len(G) >= 2:
        if not eq(G[0] | G[1], G[1] | G[0]):
            bad.append(f"union not commutative on {members[:2]}")
        if not eq(G[0] & G[1], G[1] & G[0]):
            bad.append(f"intersection not commutative on {members[:2]}: {G[0] & G[1]!r} vs {G[1] & G[0]!r}")
    if len(G) >= 3:
        if not eq((G[0] | G[1]) | G[2], G[0] | (G[1] | G[2])):
            bad.append(f"union not associative on {members[:3]}")
        if not eq((G[0] & G[1]) & G[2], G[0] & (G[1] & G[2])):
            bad.append(f"intersection not associative on {members[:3]}")
    return (not bad), "; ".join(bad)


def p_enclosing(base, crs, shape, pix_pts, region_crs=None):
    """enclosing(polygon through the world images of pix_pts): on grid, covers, excess < 1 pixel.
    region_crs given: the region is handed over in that other CRS (projection is an oracle;
    a slack of 1e-6 pixel is then allowed)."""
    from odc.geo import geom
    from odc.geo.geobox import pixel_translation
    base = tuple(base)
    g = gb(shape, base, crs)
    G = mk_gbox(g)
    pts = [aapply(base, tuple(p)) for p in pix_pts]
    if len(pts) >= 3:
        region = geom.polygon([tuple(map(float, p)) for p in pts + pts[:1]], crs_of(crs))
    elif len(pts) == 2:
        region = geom.line([tuple(map(float, p)) for p in pts], crs_of(crs))
    else:
        region = geom.point(float(pts[0][0]), float(pts[0][1]), crs_of(crs))
    slack = F(0)
    if region_crs is not None:
        region = region.to_crs(crs_of(region_crs))
        back = region.to_crs(crs_of(crs))
        import shapely
        pix = [aapply(ainv(base), (F(x), F(y))) for x, y in shapely.get_coordinates(back.geom).tolist()]
        slack = F(1, 10 ** 6)
    else:
        pix = [tuple(F(c) for c in p) for p in pix_pts]
    E = G.enclosing(region)
    t = pixel_translation(E, G)
    tx, ty = F(t.x), F(t.y)
    nx, ny = E.shape.x, E.shape.y
    bad = []
    if tx.denominator != 1 or ty.denominator != 1 or aff_of(E.affine) != amul(base, atr(tx, ty)) or E.crs != G.crs:
        bad.append(f"not on the source grid: translation {(tx, ty)}")
    xs, ys = [p[0] for p in pix], [p[1] for p in pix]
    for lo, n, vals, ax in [(tx, nx, xs, "x"), (ty, ny, ys, "y")]:
        if not (lo <= min(vals) + slack and max(vals) - slack <= lo + n):
            bad.append(f"axis {ax}: [{lo}, {lo + n}] does not cover [{min(vals)}, {max(vals)}]")
        if not (min(vals) - lo < 1 + slack):
            bad.append(f"axis {ax}: excess before the region {min(vals) - lo} >= 1 pixel")
        degenerate = min(vals) == max(vals) and min(vals).denominator == 1
        if not (lo + n - max(vals) < 1 + slack or (degenerate and n == 1)):
            bad.append(f"axis {ax}: excess after the region {lo + n - max(vals)} >= 1 pixel")
        if n < 1:
            bad.append(f"axis {ax}: size {n}")
    return (not bad), "; ".join(bad)


CHORD_KEY = "c16:enclosing-chord"      # open finding: only the vertices of a foreign-CRS region are projected


def _enclosing_xcrs_eval(base, gcrs, shape, kind, coords, rcrs):
    """returns (vertex-level violations, chord violations): the second list holds the axes on which every VERTEX of
    the region is covered but points ON ITS EDGES (straight in the region's own CRS, sampled and projected with pyproj)
    are not"""
    import pyproj
    import shapely
    from affine import Affine
    from odc.geo import geom
    from odc.geo.crs import CRS
    from odc.geo.geobox import GeoBox
    rc = CRS(rcrs)
    G = GeoBox(tuple(shape), Affine(*[float(v) for v in base]), CRS(gcrs))
    if kind == "polygon":
        region = geom.polygon([tuple(c) for c in coords] + [tuple(coords[0])], rc)
        verts = shapely.get_coordinates(region.geom).tolist()[:-1]
    else:
        (x0, y0), (x1, y1) = coords
        x0, x1, y0, y1 = min(x0, x1), max(x0, x1), min(y0, y1), max(y0, y1)
        region = geom.box(x0, y0, x1, y1, rc) if kind == "box" else geom.BoundingBox(x0, y0, x1, y1, rc)
        verts = [(x0, y0), (x0, y1), (x1, y1), (x1, y0)]
    tr = pyproj.Transformer.from_crs(pyproj.CRS.from_user_input(rcrs), pyproj.CRS.from_user_input(gcrs), always_xy=True)
    fb = tuple(F(float(v)) for v in base)
    inv = ainv(fb)

    def to_pix(x, y):
        X, Y = tr.transform(x, y)
        return aapply(inv, (F(X), F(Y)))

    pix = [to_pix(x, y) for x, y in verts]
    m = 32     # points on every edge of the region
    dense = []
    for (xa, ya), (xb, yb) in zip(verts, verts[1:] + verts[:1]):
        dense += [to_pix(xa + (xb - xa) * k / m, ya + (yb - ya) * k / m) for k in range(1, m)]
    E = G.enclosing(region)
    bad, chord = [], []
    T = amul(inv, aff_of(E.affine))
    tx, ty = round(T[2]), round(T[5])
    lin = max(abs(T[0] - 1), abs(T[1]), abs(T[3]), abs(T[4] - 1))
    if lin > F(1, 10 ** 9) or abs(T[2] - tx) > F(1, 10 ** 6) or abs(T[5] - ty) > F(1, 10 ** 6) or E.crs != G.crs:
        bad.append(f"not on the source grid: relative transform {tuple(float(v) for v in T)}, crs {E.crs}")
    slack = F(1, 10 ** 6)
    nx, ny = E.shape.x, E.shape.y
    for lo, n, k, ax in [(tx, nx, 0, "x"), (ty, ny, 1, "y")]:
        vals = [q[k] for q in pix]
        mn, mx = min(vals), max(vals)
        if not (lo <= mn + slack and mx - slack <= lo + n):
            bad.append(f"axis {ax}: pixels [{lo}, {lo + n}] do not cover the region's vertices [{float(mn):.4f}, {float(mx):.4f}]")
        elif not (mn - lo < 1 + slack and (lo + n - mx < 1 + slack or n == 1)):
            bad.append(f"axis {ax}: pixels [{lo}, {lo + n}] exceed the region [{float(mn):.4f}, {float(mx):.4f}] by a pixel or more")
        else:
            dv = [q[k] for q in dense]
            dmn, dmx = min(dv + [mn]), max(dv + [mx])
            if not (lo <= dmn + F(1, 1000) and dmx - F(1, 1000) <= lo + n):
                chord.append(f"axis {ax}: pixels [{lo}, {lo + n}] cover the vertices [{float(mn):.3f}, {float(mx):.3f}] but points on the "
                             f"region's edges reach [{float(dmn):.3f}, {float(dmx):.3f}]")
        if n < 1:
            bad.append(f"axis {ax}: size {n}")
    return bad, chord


def p_enclosing_xcrs(base, gcrs, shape, kind, coords, rcrs):
    """GeoBox(shape, Affine(*base), gcrs).enclosing(region given in ANOTHER CRS rcrs): on the source grid, covers the
    region and exceeds it by < 1 pixel per side.  Reference: the region's vertices AND 31 points on each of its edges
    mapped with a pyproj.Transformer (always_xy=True) that pyproj builds from the two specs, then the exact inverse of
    the affine (Fractions); 1e-6 pixel slack for the vertices, 1e-3 for edge points.  kind: 'box' (polygon from two
    corners), 'polygon' (vertex list), 'bbox' (BoundingBox from two corners).  base may be any float affine.
    A failure on edge points alone is reported with the prefix 'chord:' (open finding c16:enclosing-chord)."""
    bad, chord = _enclosing_xcrs_eval(base, gcrs, shape, kind, coords, rcrs)
    if bad:
        return False, "; ".join(bad)
    if chord:
        return False, "chord: " + "; ".join(chord)
    return True, ""


def p_enclosing_many_crs(gcrs, n, salt):
    """a process that handles regions in n distinct custom CRSs one after the other (each built, used once with the
    same GeoBox grid and dropped - more than any plausible cache bound): every enclosing() must still be on the grid,
    cover its region and be tight.  Self-contained history; each step judged by p_enclosing_xcrs (pyproj directly)."""
    import gc
    import random
    rng = random.Random(int(salt))
    for i in range(int(n)):
        lon0 = 141.125 + ((i * 7 + int(salt) * 3) % 97) / 8
        custom = (f"+proj=tmerc +lat_0={-38 + (i % 9)} +lon_0={lon0} +k=0.9996 +x_0={500000 + i} +y_0={int(salt)} "
                  "+ellps=GRS80 +units=m +no_defs")
        args = xcrs_case(rng, gcrs, custom, custom=True)
        bad, _chord = _enclosing_xcrs_eval(*args)     # the chord finding is judged by enclosing_xcrs itself
        ok, detail = (not bad), "; ".join(bad)
        if not ok:
            return False, f"region CRS #{i} {custom!r}: enclosing_xcrs{core.short(args, 200)}: {detail}"
        if i % 50 == 49:
            gc.collect()
    return True, ""


def p_snap(base, crs, p, q):
    """self = base*T(p), other = base*T(q): result moved by <= 1/2 pixel and onto other's grid"""
    from odc.geo.geobox import pixel_translation
    base = tuple(base)
    a = gb((4, 6), amul(base, atr(*p)), crs)
    b = gb((3, 3), amul(base, atr(*q)), crs)
    A, B = mk_gbox(a), mk_gbox(b)
    S = A.snap_to(B)
    bad = []
    m = amul(ainv(a["aff"]), aff_of(S.affine))      # self^-1 * result : how far it moved, in pixels
    if m[:2] != (1, 0) or m[3:5] != (0, 1) or tuple(S.shape) != tuple(A.shape) or S.crs != A.crs:
        bad.append(f"result is not a translate of self: {m}")
    if abs(m[2]) > F(1, 2) or abs(m[5]) > F(1, 2):
        bad.append(f"moved by {(m[2], m[5])} pixels (> 1/2)")
    d = amul(ainv(aff_of(S.affine)), b["aff"])       # result^-1 * other
    for v, moved in [(d[2], m[2]), (d[5], m[5])]:
        off = abs(v - round(v))
        if off >= TOL or (moved != 0 and off != 0):
            bad.append(f"other is {v} pixels from the result: not a whole number (moved {moved})")
    # the snapped GeoBox is on other's grid: the set operations must accept the pair
    for name, fn in [("snapped | other", lambda: S | B), ("snapped & other", lambda: S & B),
                     ("snapped.overlap_roi(other)", lambda: S.overlap_roi(B)), ("other.overlap_roi(snapped)", lambda: B.overlap_roi(S))]:
        try:
            fn()
        except ValueError as e:
            bad.append(f"{name} rejected after snapping: {e}")
    return (not bad), "; ".join(bad)


def rule_ok(a, b, tol=TOL):
    """the decision rule, independently, in exact arithmetic: is `a` compatible with reference `b`?"""
    if a["crs"] != b["crs"]:
        return False
    m = amul(ainv(b["aff"]), a["aff"])
    close = (abs(m[0] - 1) <= ATOL + RTOL and abs(m[1]) <= ATOL and abs(m[3]) <= ATOL and abs(m[4] - 1) <= ATOL + RTOL)
    near = all(abs(v - round(v)) < tol for v in (m[2], m[5]))
    return close and near


def p_reject(a, b):
    """|, & and overlap_roi raise ValueError exactly when the grids are not related by a whole-pixel shift"""
    A, B = mk_gbox(a), mk_gbox(b)
    want = rule_ok(b, a) and rule_ok(a, a)
    bad = []
    for name, fn, w in [("|", lambda: A | B, want), ("&", lambda: A & B, want), ("overlap_roi", lambda: A.overlap_roi(B), rule_ok(b, a))]:
        try:
            fn()
            got = True
        except ValueError:
            got = False
        if got != w:
            bad.append(f"{name}: {'accepted' if got else 'rejected'}, rule says {'accept' if w else 'reject'}")
    if want and not bad:
        # an accepted operand behaves as the whole-pixel shift it is within tolerance of
        m = amul(ainv(a["aff"]), b["aff"])
        kx, ky = round(m[2]), round(m[5])
        B0 = mk_gbox(gb(b["shape"], amul(a["aff"], atr(kx, ky)), b["crs"]))
        for name, x, y in [("|", A | B, A | B0), ("&", A & B, A & B0)]:
            if tuple(x.shape) != tuple(y.shape) or aff_of(x.affine) != aff_of(y.affine):
                bad.append(f"a {name} b = {x!r} but with b moved onto the grid (shift {(kx, ky)}) it is {y!r}")
        if A.overlap_roi(B) != A.overlap_roi(B0):
            bad.append(f"overlap_roi {A.overlap_roi(B)} but {A.overlap_roi(B0)} for the exact shift {(kx, ky)}")
    return (not bad), "; ".join(bad) + f" (relative transform {amul(ainv(a['aff']), b['aff'])})" if bad else ""


def p_bbox(boxes):
    """lattice laws on three boxes (floats exactly representable)"""
    from odc.geo.geom import BoundingBox
    a, b, c = [BoundingBox(*[float(v) for v in x], "EPSG:4326") for x in boxes]
    bad = []
    def le(x, y):   # x inside y
        return y.left <= x.left and y.bottom <= x.bottom and x.right <= y.right and x.top <= y.top
    checks = [("| commutative", (a | b).bbox == (b | a).bbox), ("& commutative", (a & b).bbox == (b & a).bbox),
              ("| associative", ((a | b) | c).bbox == (a | (b | c)).bbox), ("& associative", ((a & b) & c).bbox == (a & (b & c)).bbox),
              ("| idempotent", (a | a).bbox == a.bbox), ("& idempotent", (a & a).bbox == a.bbox),
              ("absorption a|(a&b)", (a | (a & b)).bbox == a.bbox), ("absorption a&(a|b)", (a & (a | b)).bbox == a.bbox),
              ("union contains operands", le(a, a | b) and le(b, a | b)),
              ("intersection contained in operands", le(a & b, a) and le(a & b, b))]
    for name, ok in checks:
        if not ok:
            bad.append(name)
    return (not bad), "; ".join(bad)


def p_float_family(angle, res, off, members):
    """realistic (inexact) rotated grid: only integer-valued observables are compared"""
    import numpy as np
    from affine import Affine
    from odc.geo.geobox import GeoBox, geobox_intersection_conservative, geobox_union_conservative
    base = Affine.translation(*off) * Affine.rotation(angle) * Affine.scale(res, -res)
    G = [GeoBox((m[3], m[2]), base * Affine.translation(m[0], m[1]), "EPSG:32633") for m in members]
    bad = []
    L, B = min(m[0] for m in members), min(m[1] for m in members)
    R, T = max(m[0] + m[2] for m in members), max(m[1] + m[3] for m in members)
    U = geobox_union_conservative(G)
    if tuple(U.shape) != (T - B, R - L):
        bad.append(f"union shape {tuple(U.shape)} want {(T - B, R - L)}")
    cols = set.intersection(*[set(range(m[0], m[0] + m[2])) for m in members])
    rows = set.intersection(*[set(range(m[1], m[1] + m[3])) for m in members])
    I = geobox_intersection_conservative(G)
    if tuple(I.shape) != (len(rows), len(cols)):
        bad.append(f"intersection shape {tuple(I.shape)} want {(len(rows), len(cols))}")
    a, b = members[0], members[1]
    roi = G[0].overlap_roi(G[1])
    got_c = np.arange(a[2])[roi[1]].tolist()
    got_r = np.arange(a[3])[roi[0]].tolist()
    want_c = [i for i in range(a[2]) if b[0] <= a[0] + i < b[0] + b[2]]
    want_r = [j for j in range(a[3]) if b[1] <= a[1] + j < b[1] + b[3]]
    if got_c != want_c or got_r != want_r:
        bad.append(f"overlap_roi {roi} selects cols {got_c} rows {got_r}; shared cols {want_c} rows {want_r}")
    return (not bad), "; ".join(bad)


PREDICATES = {"family": p_family, "enclosing": p_enclosing, "snap": p_snap, "reject": p_reject, "bbox": p_bbox,
              "float_family": p_float_family, "enclosing_xcrs": p_enclosing_xcrs,
              "enclosing_many_crs": p_enclosing_many_crs}
PREDICATES["after_history"] = crshist.after_history(PREDICATES)


# CRS alphabet of the cross-CRS enclosing block: used nowhere else in this check, so that a process-history
# perturbation really is the first thing the process does with these pairs
# one disjoint alphabet per history, so that what one perturbation did to a CRS pair cannot leak into the cases
# of the next one (a replay names exactly one history and must reproduce in a fresh process)
XCRS_ALPHABETS = [
    (["EPSG:3577", "EPSG:32755"], ["EPSG:4283", "EPSG:4326"]),
    (["EPSG:6933", "EPSG:28355"], ["EPSG:7844", "EPSG:4283"]),
    (["EPSG:32754", "EPSG:3112"], ["EPSG:4326", "EPSG:7844"]),
    (["EPSG:7855", "EPSG:3111"], ["EPSG:4283", "EPSG:4326", "EPSG:7844"]),
]


def xcrs_case(rng, gcrs, rcrs, custom=False):
    """a GeoBox (north-up / mirrored / rotated base) near a region given in rcrs (box, triangle, BoundingBox)"""
    import math

    import pyproj
    if custom:   # metres around the false origin of a transverse Mercator strip
        cx, cy, d = 500000.0 + rng.uniform(-3e4, 3e4), rng.uniform(-3e4, 3e4), 2.0e4
    else:        # degrees, south-east Australia
        cx, cy, d = rng.uniform(141, 149), rng.uniform(-38, -31), 0.2
    kind = rng.choice(["box", "polygon", "bbox"])
    if kind == "polygon":
        coords = [[cx - d * rng.uniform(0.2, 1), cy + d * rng.uniform(0.2, 1)], [cx + d * rng.uniform(0.2, 1), cy + d * rng.uniform(0, 1)],
                  [cx + d * rng.uniform(-0.3, 0.3), cy - d * rng.uniform(0.2, 1)]]
    else:
        coords = [[cx - d * rng.uniform(0.1, 1), cy - d * rng.uniform(0.1, 1)], [cx + d * rng.uniform(0.1, 1), cy + d * rng.uniform(0.1, 1)]]
    tr = pyproj.Transformer.from_crs(pyproj.CRS.from_user_input(rcrs), pyproj.CRS.from_user_input(gcrs), always_xy=True)
    X, Y = tr.transform(cx, cy)
    res = rng.choice([64.0, 100.0, 250.0, 30.0])
    if pyproj.CRS.from_user_input(gcrs).is_geographic:
        res = rng.choice([2.0 ** -10, 2.0 ** -9, 0.001])
    ox, oy = round(X / res) * res - 40 * res, round(Y / res) * res + 40 * res
    orient = rng.choice(["north-up", "mirrored", "rotated"])
    if orient == "north-up":
        base = [res, 0.0, ox, 0.0, -res, oy]
    elif orient == "mirrored":
        base = [-res, 0.0, ox + 80 * res, 0.0, res, oy - 80 * res]
    else:
        a = math.radians(rng.choice([30.0, 17.5, -60.0]))
        base = [res * math.cos(a), res * math.sin(a), ox, res * math.sin(a), -res * math.cos(a), oy]
    return [base, gcrs, [rng.randint(20, 90), rng.randint(20, 90)], kind, coords, rcrs]


def xcrs_search(out, tier, rng, run, found):
    """cross-CRS enclosing judged with pyproj directly: fresh, and after each process-history perturbation"""
    n = 6 if tier == "quick" else 40
    for _ in range(n):
        run("enclosing_xcrs", *xcrs_case(rng, rng.choice(["EPSG:32633", "EPSG:3857"]), "EPSG:4326"))
    # more region CRSs than any plausible cache bound, one after the other (self-contained history)
    run("enclosing_many_crs", "EPSG:28356", 170 if tier == "quick" else 400, rng.randrange(1000))

    def run_after(hist, specs, name, *args):
        try:
            ok, detail = PREDICATES[name](*args)
        except Exception as e:  # noqa: BLE001
            ok, detail = False, f"raised {type(e).__name__}: {e}"
        out.count("predicate:after_history:" + "+".join(hist) + ":" + name)
        out.case(("after", hist, name, json.dumps(args, default=str)), True)
        key = "after_history:" + "+".join(hist)
        if detail.startswith("chord:"):       # not an effect of the history: the open chord finding
            key = CHORD_KEY[len("c16:"):]
        if not ok and key not in found and ("c16:" + key) not in found:
            found[key] = True
            out.violation(f"c16:{key}", f"after {list(hist)}: {name}{core.short(args, 300)}: {detail}",
                          {"predicate": "after_history", "args": [list(hist), list(specs), name, list(args)], "observed": detail})

    for hi, hist in enumerate((("authority-order-first",), ("queries-first",), ("churn",), ("authority-order-first", "queries-first", "churn"))):
        gspecs, rspecs = XCRS_ALPHABETS[hi]
        specs = gspecs + rspecs
        # all cases are generated BEFORE the perturbation: nothing (in particular no pyproj object) is created between
        # the history and the first CRS the implementation builds, exactly as in the replay of a single case
        cases = []
        if "churn" in hist:
            # regions in custom CRSs that are built only after many CRSs were created and dropped; one GeoBox CRS for
            # all of them, first used after the churn
            for k in range(n + 6):
                custom = (f"+proj=tmerc +lat_0={-36 + k % 5} +lon_0={143.25 + k + hi / 4} +k=0.9996 +x_0=500000 +y_0=0 "
                          "+ellps=GRS80 +units=m +no_defs")
                cases.append(xcrs_case(rng, gspecs[0], custom, custom=True))
        for k in range(n):
            cases.append(xcrs_case(rng, gspecs[k % len(gspecs)], rspecs[(k // 2) % len(rspecs)]))
        crshist.perturb(hist, specs)
        for args in cases:
            run_after(hist, specs, "enclosing_xcrs", *args)
        if "churn" in hist:
            run_after(hist, specs, "enclosing_many_crs", gspecs[0], 160 if tier == "quick" else 300, rng.randrange(1000))


def search(out, tier):
    rng = core.rng("c16-search")
    found = {}

    def run(name, *args):
        try:
            ok, detail = PREDICATES[name](*args)
        except Exception as e:   # inside the property's domain none of these operations may fail
            ok, detail = False, f"raised {type(e).__name__}: {e}"
        out.count("predicate:" + name)
        out.case(("pred", name, json.dumps(enc(list(args)), sort_keys=True)), True)
        key = CHORD_KEY if detail.startswith("chord:") else f"c16:{name}"
        if not ok and key not in found:
            found[key] = True
            out.violation(key, f"{name}: {detail}",
                          {"predicate": name, "args": enc(list(args)), "observed": detail})

    for rp in core.corpus(ID):
        run(rp["predicate"], *dec(rp["args"]))
    BB = bases()
    for i in range(400 if tier == "quick" else 4000):
        base, _ = BB[i % len(BB)]
        m0 = rand_member(rng)
        if m0[2] == 0 and rng.random() < 0.5:
            m0 = (m0[0], m0[1], 3, m0[3])
        ms = [m0] + [rand_member(rng, m0) for _ in range(rng.choice([1, 2, 2, 3]))]
        gs = [fam(base, 0, m) for m in ms]
        if not (all(m_exact(x["aff"], y["aff"]) for x in gs for y in gs)
                and all(prod_exact(x["aff"], atr(L, B)) for x in gs for L, B in [(-64, 63), (37, -29), (63, 64)])):
            out.count("search-escape:family")
            continue
        run("family", list(base), rng.choice([0, 1, None]), [list(m) for m in ms])
    for i in range(150 if tier == "quick" else 1500):
        base, _ = BB[i % len(BB)]
        n = rng.choice([1, 1, 2, 3, 4, 5])
        bits = rng.choice([0, 0, 2, 5])
        pts = [[dy(rng, -15, 15, bits), dy(rng, -15, 15, bits)] for _ in range(n)]
        if n == 2 and rng.random() < 0.5:
            pts[1][0] = pts[0][0]
        wp = [aapply(base, tuple(q)) for q in pts]
        if not (aff_floats_ok(ainv(base)) and all(isfloat(c) for q in wp for c in q)
                and all(aff_of(mk_gbox(gb((1, 1), base, 0)).wld2pix(float(q[0]), float(q[1]))[:2] + (0, 0, 0, 0))[:2] == tuple(o)
                        for q, o in zip(wp, pts))):
            out.count("search-escape:enclosing")
            continue
        run("enclosing", list(base), 0, [rng.randint(1, 6), rng.randint(1, 6)], pts)
    # cross-CRS regions (projection oracle; slack 1e-6 px)
    utm = (F(16), F(0), F(500000), F(0), F(-16), F(5000000))
    for i in range(20 if tier == "quick" else 200):
        pts = [[dy(rng, 0, 400, 2), dy(rng, 0, 400, 2)] for _ in range(rng.choice([1, 3, 4]))]
        run("enclosing", list(utm), 2, [5, 5], pts, 1)
    xcrs_search(out, tier, rng, run, found)
    for i in range(200 if tier == "quick" else 2000):
        base, _ = BB[i % len(BB)]
        p = [dy(rng, -5, 5, 4), dy(rng, -5, 5, 4)]
        q = [dy(rng, -5, 5, rng.choice([1, 3, 5])), rng.choice([F(1, 2), F(-3, 2), dy(rng, -5, 5, 4)])]
        xa, xb = amul(base, atr(*p)), amul(base, atr(*q))
        if not (m_exact(xb, xa) and aff_floats_ok(xa) and all(prod_exact(xa, atr(sx, sy)) for sx, sy in
                                                             [(F(1, 2), F(-1, 2)), (F(-7, 16), F(5, 32)), (F(1, 32), F(15, 32))])):
            out.count("search-escape:snap")
            continue
        run("snap", list(base), rng.choice([0, None]), p, q)
    # residual offsets of every magnitude between 1e-8 and 1/2 pixel (exactly representable): whole pixels + eps
    eps_list = [F(k, 2 ** e) for e in (6, 10, 13, 17, 20, 23, 26) for k in (1, -1, 3)] + [F(1, 2) - F(1, 2 ** 20), F(-1, 2) + F(1, 2 ** 13)]
    sub_bases = [b for b, nm in BB if abs(b[2]) <= 1000]
    for i in range(len(eps_list) * (2 if tier == "quick" else 12)):
        base = sub_bases[i % len(sub_bases)] if i >= len(eps_list) else sub_bases[(7 * i) % len(sub_bases)]
        eps = eps_list[i % len(eps_list)]
        p = [F(rng.randint(-4, 4)), dy(rng, -4, 4, 2)]
        q = [p[0] + rng.randint(-3, 3) + eps, rng.choice([p[1] + rng.randint(-3, 3), p[1] + rng.randint(-3, 3) - eps, dy(rng, -4, 4, 3)])]
        xa, xb = amul(base, atr(*p)), amul(base, atr(*q))
        frac = lambda t: t - (t.numerator // t.denominator)
        subs = [(frac(q[0] - p[0]) if frac(q[0] - p[0]) <= F(1, 2) else frac(q[0] - p[0]) - 1,
                 frac(q[1] - p[1]) if frac(q[1] - p[1]) <= F(1, 2) else frac(q[1] - p[1]) - 1)]
        if not (aff_floats_ok(xa) and aff_floats_ok(xb) and m_exact(xb, xa) and all(prod_exact(xa, atr(*sxy)) for sxy in subs)
                and all(m_exact(xb, amul(xa, atr(*sxy))) and m_exact(amul(xa, atr(*sxy)), xb) for sxy in subs)):
            out.count("search-escape:snap-subpixel")
            continue
        out.count("snap-subpixel")
        run("snap", list(base), rng.choice([0, None]), p, q)
    kt = int(TOL * 2 ** 44)
    k0 = int(ATOL * 2 ** 60)
    k1 = int((ATOL + RTOL) * 2 ** 40)
    eps_by_slot = {0: [F(k, 2 ** 40) for k in (k1, k1 + 1, -k1, -k1 - 1)],
                   4: [F(k, 2 ** 40) for k in (k1, k1 + 1, -k1, -k1 - 1)],
                   1: [F(k, 2 ** 60) for k in (k0, k0 + 1, -k0 - 1)], 3: [F(k, 2 ** 60) for k in (k0, k0 + 1, -k0 - 1)],
                   2: [F(k, 2 ** 44) for k in (kt, kt + 1, -kt - 1)] + [F(1, 2), F(1, 4)],
                   5: [F(k, 2 ** 44) for k in (kt, kt + 1, -kt - 1)] + [F(1, 2), F(1, 4)]}
    for base, name in BB:
        if name not in ("north-up", "rot90", "sheared", "rot45") or abs(base[2]) > 10:
            continue
        ref = fam(base, 0, (0, 0, 6, 5))
        for slot, eps_list in eps_by_slot.items():
            for eps in eps_list:
                M = [F(1), F(0), F(rng.randint(-3, 3)), F(0), F(1), F(rng.randint(-3, 3))]
                M[slot] += eps
                a = gb((3, 4), amul(base, tuple(M)), 0)
                if m_exact(a["aff"], ref["aff"]):
                    run("reject", ref, a)
        run("reject", ref, fam(base, 1, (1, 1, 2, 2)))
        run("reject", ref, fam(base, None, (1, 1, 2, 2)))
    for i in range(300 if tier == "quick" else 3000):
        bx = []
        for _ in range(3):
            v = [dy(rng, -9, 9, rng.choice([0, 2, 8])) for _ in range(4)]
            if rng.random() < 0.85:
                v = [min(v[0], v[2]), min(v[1], v[3]), max(v[0], v[2]), max(v[1], v[3])]
            bx.append(v)
        run("bbox", bx)
    for i in range(60 if tier == "quick" else 600):
        m0 = rand_member(rng)
        ms = [list(m0)] + [list(rand_member(rng, m0)) for _ in range(rng.choice([1, 2]))]
        res = rng.choice([0.1, 10, 25.0, 0.3])
        off = ([rng.choice([0.0, 500000.0, 123456.7]), rng.choice([0.0, 6500000.0, -3999.9])] if res >= 10
               else [rng.choice([0.0, 1234.5]), rng.choice([0.0, -3999.9])])   # keeps |offset/res| <= 1e6 pixels
        run("float_family", rng.choice([30, 17.5, -45, 90.0, 0.0]), res, off, ms)


# ---------------------------------------------------------------- entry points
def run(out, tier, scratch):
    out.rule = ("correspondence: integer-shift families over 44 invertible bases (north-up, mirrored, rotated 45/90, sheared, 4 offsets) "
                "x boundary-heavy relative placements (touching, overlap by one, disjoint on one axis, contained, zero-size) for "
                "pixel_translation, bounding_box_in_pixel_domain, union/intersection (1-4 operands, operators | &), overlap_roi; "
                "perturbations of each of the six coefficients on both sides of every tolerance (isclose atol+rtol, atol, near-integer "
                "tol incl. caller-supplied tol); snap_to over dyadic sub-pixel offsets; enclosing over polygons/lines/points/boxes incl. "
                "degenerate and integer-aligned ones; malformed stream (CRS mismatch incl. None, scale/rotation/half-pixel mismatch, "
                "degenerate affines, empty lists, regions without CRS, empty geometry); bbox_union/intersection streams of 0-6 boxes incl. "
                "inverted and disjoint-on-one-axis; scalar helpers at all .5 and tolerance boundaries.  Every float operation of the code "
                "is verified exact on each case (otherwise the case is discarded and counted as generator-escape).  non-trivial = all but "
                "empty streams; distinct = distinct (operation, arguments).")
    out.assumptions += [
        "floats modelled as exact rationals; inputs restricted to values on which the code's float operations are exact (checked per case)",
        "numpy.isclose(a, b) = |a-b| <= atol + rtol*|b| with atol, rtol the binary64 values of 1e-8, 1e-5; the float rounding of atol+rtol (2^-70 relative) is not modelled",
        "enclosing: projection of a region given in another CRS (Geometry.to_crs) is an oracle; the model receives the vertices in the GeoBox's CRS; a region is represented by its vertex list (shapely bounds = vertex bounds)",
        "CRS equality (odc.geo.crs.CRS.__eq__) is a parameter of the model; the correspondence instantiates it with integer tags for three distinct EPSG codes",
    ]
    g = gen_cases(out, tier)
    # slow (perturbation) cases are generated in runs: spread them over the shards
    order = list(range(len(g.cases)))
    core.rng("c16-shards").shuffle(order)
    fails, log = core.coq_eval_failures(["Base.Result", "Base.Aff2", "Model.Tagged", "Model.GridOps", "Model.GridOpsCases"],
                                        "case", "check", [g.cases[i] for i in order], scratch, shard=250, tag="grid")
    fails = sorted(order[i] for i in fails)
    detail = ""
    if fails:
        detail = "model and implementation differ on: " + " | ".join(g.cases[i][:700] for i in fails[:4])
    out.oblige("correspondence:Model.GridOps vs odc.geo.geobox/geom/math", "correspondence", not fails, detail)
    frac = g.escapes / max(1, g.escapes + len(g.cases))
    out.oblige("generator:exactness escapes below 10%", "correspondence", frac < 0.10, f"{g.escapes} escapes of {g.escapes + len(g.cases)}")
    search(out, tier)


def replay(rp) -> int:
    name = rp["predicate"]
    args = dec(rp["args"])
    try:
        ok, detail = PREDICATES[name](*args)
    except Exception as e:
        ok, detail = False, f"raised {type(e).__name__}: {e}"
    print(f"replay {name}{json.dumps(rp['args'])[:400]}: {'holds' if ok else 'FAILS: ' + detail}")
    return 0 if ok else 1


META = {
    "text": ("Coq theorems (coq/Props/C16.v, closed under the global context) over a statement-by-statement Gallina model of "
             "pixel_translation, bounding_box_in_pixel_domain, geobox_union/intersection_conservative, GeoBox.overlap_roi/enclosing/"
             "snap_to, bbox_union/bbox_intersection and the helpers split_float/maybe_zero/is_almost_int/round.  For every invertible "
             "base affine (north-up, mirrored, rotated, sheared), every list of GeoBoxes on its grid (integer pixel shifts, any shapes) "
             "and all tolerances 0<=atol, 0<=rtol, 0<tol: pixel_translation is exactly the integer shift; the union is on the grid, "
             "contains every operand rectangle and is contained in every rectangle that does; the intersection is on the grid with "
             "non-negative shape whose columns/rows are exactly the shared columns/rows (hence a zero in the shape iff no pixel is "
             "shared, also when only one axis is empty); overlap_roi's slices are 0<=start<=stop and index exactly the shared pixels of "
             "the first operand; | and & are commutative and associative as equality of (shape, affine).  enclosing: result on the source "
             "grid, covers every vertex, excess < 1 pixel per side (exactly 1 for a region degenerate at an integer coordinate, where the "
             "code keeps one pixel).  snap_to on arbitrary rational sub-pixel offsets: moved by <= 1/2 pixel per axis and then a whole "
             "number of pixels from the other grid (within the 1e-8 of maybe_zero on an axis that was left in place).  Rejection: accepted "
             "iff CRS tags equal, reference invertible, the four linear coefficients pass isclose and both translations are within tol of "
             "an integer; errors are ValueError; accepted pairs are within tol of the whole-pixel shift returned; |, &, overlap_roi fail "
             "exactly when that test fails.  BoundingBox | & are commutative, associative, idempotent, absorbing, union contains / "
             "intersection is contained in each operand for ALL rational boxes (inverted results of disjoint intersections included), n-ary "
             "streams give the least upper / greatest lower bound.  One defect of the pinned code (overlap_roi returning a negative stop "
             "for a box to the left/above) is a _refuted theorem with witness and was repaired in /repo."),
    "note": ("Trusted: Coq kernel; hand-written model coq/Model/GridOps.v + Model/Tagged.v + Base/Aff2.v (mirror of the affine package's "
             "matmul/invert) tied to the code by the exact correspondence of this check; floats as exact rationals (binary64 rounding not "
             "modelled; correspondence inputs are verified per case to make every float operation exact; numpy.isclose written out as "
             "|a-b| <= atol + rtol*|b|, the rounding of the float sum atol+rtol is not modelled).  Oracles: CRS equality is an arbitrary "
             "boolean function (theorems assume only that the listed tag comparisons are False); projection of a region from another CRS "
             "in enclosing (the model starts from the vertices in the GeoBox's CRS; vertex bounds = region bounds is shapely's contract).  "
             "Domain restrictions in the theorems: set-operation clauses are for GeoBoxes on one pixel grid with equal CRS tags (the "
             "property's quantifier); 'smallest containing' is stated on operand rectangles (an empty operand still extends the union, as "
             "in the code); enclosing's right/bottom excess is < 1 except for regions degenerate at an integer pixel coordinate (max(1, span)); "
             "accepted-pair rounding claim needs tol <= 1/2; a non-invertible reference affine raises affine.TransformNotInvertibleError "
             "(not a ValueError) - stated in C16_rejection_error_kind.  Not proved: cross-CRS enclosing beyond the oracle boundary: "
             "the theorem speaks about the region's vertices in the GeoBox's CRS (which covers every straight-edged region in that CRS); "
             "for a region given in ANOTHER CRS the code projects the vertices only, and the search (enclosing_xcrs: vertices and 31 points "
             "per edge projected with pyproj directly) shows that curved edges are then not covered - open finding c16:enclosing-chord."),
    "technique": "Coq proof over hand-written Gallina model (Q/Z arithmetic, lattice folds) + exact differential correspondence (vm_compute) + property predicates on the implementation",
    "design_ref": "DESIGN.md section 5, C16",
}
